import ShroudVerif.Model.Attrs
import ShroudVerif.Lemmas.DeclNoCrash
import ShroudVerif.Lemmas.ExprFuel
/-! `verifyAttrs` never ends in an internal exception: helper lemmas. -/
namespace Shroud.Decl

/-- not "outside the modelled grammar" -/
def NU {α} (r : Res α) : Prop := ∀ w, r ≠ .unmodelled w

@[simp] theorem NU_ok {α} (a : α) : NU (Res.ok a) := by intro e h; cases h
@[simp] theorem NU_reject {α} (m : String) : NU (Res.reject m : Res α) := by intro e h; cases h
@[simp] theorem NU_fuel {α} : NU (Res.fuel : Res α) := by intro e h; cases h
@[simp] theorem NU_crash {α} (m : String) : NU (Res.crash m : Res α) := by intro e h; cases h

theorem NU_bind {α β} {m : Res α} {f : α → Res β} (hm : NU m) (hf : ∀ a, NU (f a)) : NU (m >>= f) := by
  cases m with
  | ok a => simpa using hf a
  | reject m => simp
  | crash e => simp
  | fuel => simp
  | unmodelled w => exact absurd rfl (hm w)

theorem NU_mustbe (k : Kind) (ts : Toks) : NU (mustbe k ts) := by
  unfold mustbe; split
  · split <;> simp
  · simp

attribute [irreducible] NU

macro "nu_step" : tactic =>
  `(tactic| first
    | (apply NU_ok) | (apply NU_reject) | (apply NU_fuel) | (apply NU_crash) | (apply NU_mustbe)
    | assumption
    | (apply NU_bind)
    | (intro _)
    | split)

theorem NU_expr : ∀ n,
    (∀ mp ts, NU (expression n mp ts)) ∧ (∀ mp l ts, NU (exprLoop n mp l ts)) ∧
    (∀ ts, NU (primary n ts)) ∧ (∀ ts, NU (argList n ts)) := by
  intro n
  induction n with
  | zero => refine ⟨?_, ?_, ?_, ?_⟩ <;> intros <;> simp [expression, exprLoop, primary, argList]
  | succ n ih =>
    obtain ⟨h1, h2, h3, h4⟩ := ih
    refine ⟨?_, ?_, ?_, ?_⟩
    · intro mp ts; unfold expression
      apply NU_bind (h3 ts); intro a; exact h2 _ _ _
    · intro mp l ts; unfold exprLoop
      repeat (first | exact h1 _ _ | exact h2 _ _ _ | nu_step)
    · intro ts; unfold primary
      repeat (first | exact h1 _ _ | exact h3 _ | exact h4 _ | nu_step)
    · intro ts; unfold argList
      repeat (first | exact h1 _ _ | exact h4 _ | nu_step)

end Shroud.Decl

namespace Shroud.Attrs
open Shroud.Decl

/-! ### the dimension expression list -/

theorem dimensionShape_props : ∀ n ts,
    NC (dimensionShape n ts) ∧ NU (dimensionShape n ts) ∧
    (n ≥ 4 * ts.length + 3 → dimensionShape n ts ≠ .fuel) ∧
    (∀ es r, dimensionShape n ts = .ok (es, r) → r.length < ts.length) := by
  intro n
  induction n with
  | zero =>
    intro ts
    refine ⟨by simp [dimensionShape], by simp [dimensionShape], by intro h; omega, by intro es r h; simp [dimensionShape] at h⟩
  | succ n ih =>
    intro ts
    refine ⟨?_, ?_, ?_, ?_⟩
    · unfold dimensionShape
      apply NC_bind (NC_expression _ _ _)
      intro ⟨e, ts1⟩
      simp only []
      split
      · apply NC_bind (ih _).1; intro _; simp
      · simp
    · unfold dimensionShape
      apply NU_bind ((NU_expr _).1 _ _)
      intro ⟨e, ts1⟩
      simp only []
      split
      · apply NU_bind (ih _).2.1; intro _; simp
      · simp
    · intro hn h
      unfold dimensionShape at h
      rcases bind_eq_fuel h with he | ⟨⟨e, ts1⟩, he, hk⟩
      · exact expression_not_fuel 0 ts n (by omega) he
      · have a := (expr_consumes n).1 _ _ _ _ he
        have hv := have?_len .COMMA ts1
        simp only [] at hk
        split at hk
        · rename_i ts2 heq
          rw [heq] at hv
          rcases bind_eq_fuel hk with hd | ⟨_, _, hk2⟩
          · have := hv.1
            dsimp only at this
            exact (ih ts2).2.2.1 (by omega) hd
          · cases hk2
        · cases hk
    · intro es r h
      unfold dimensionShape at h
      obtain ⟨⟨e, ts1⟩, he, hk⟩ := bind_eq_ok h
      have a := (expr_consumes n).1 _ _ _ _ he
      have hv := have?_len .COMMA ts1
      simp only [] at hk
      split at hk
      · rename_i ts2 heq
        rw [heq] at hv
        obtain ⟨⟨es', r'⟩, hd, hk2⟩ := bind_eq_ok hk
        cases hk2
        have b := (ih ts2).2.2.2 _ _ hd
        have := hv.1
        dsimp only at this ⊢
        omega
      · cases hk; omega

/-! ### no-crash for the Attrs result type -/

def NCa {α} (r : Attrs.Res α) : Prop := ∀ e, r ≠ .crash e

@[simp] theorem NCa_ok {α} (a : α) : NCa (Attrs.Res.ok a) := by intro e h; cases h
@[simp] theorem NCa_reject {α} (m : String) : NCa (Attrs.Res.reject m : Attrs.Res α) := by intro e h; cases h

theorem NCa_bind {α β} {m : Attrs.Res α} {f : α → Attrs.Res β} (hm : NCa m) (hf : ∀ a, NCa (f a)) : NCa (m >>= f) := by
  cases m with
  | ok a => simpa using hf a
  | reject m => simp
  | crash e => exact absurd rfl (hm e)

theorem NCa_parseDim (attrs : List (Str × AVal)) : NCa (parseDim attrs) := by
  unfold parseDim
  split
  · split
    · split
      · simp
      · rename_i s toks _ _ _
        have hp := dimensionShape_props (4 * toks.length + 8) toks
        split
        · simp
        · simp
        · simp
        · rename_i e h; exact absurd h (by have := hp.1; unfold NC at this; exact this e)
        · rename_i h; exact absurd h (hp.2.2.1 (by omega))
        · rename_i w h; exact absurd h (by have := hp.2.1; unfold NU at this; exact this w)
    · simp
  · simp

theorem NCa_checkImpliedExpr (names : List (Option Str)) : ∀ e, NCa (checkImpliedExpr names e) := by
  intro e
  refine Expr.rec (motive_1 := fun e => NCa (checkImpliedExpr names e))
    (motive_2 := fun l => NCa (checkImpliedArgs names l)) ?_ ?_ ?_ ?_ ?_ ?_ ?_ ?_ e
  · intro n; simp [checkImpliedExpr]
  · intro f args ih
    unfold checkImpliedExpr
    split
    · split
      · split <;> simp
      · simp
      · simp
    · exact ih
  · intro v; simp [checkImpliedExpr]
  · intro e ih; unfold checkImpliedExpr; exact ih
  · intro op e ih; unfold checkImpliedExpr; exact ih
  · intro l op r ihl ihr; unfold checkImpliedExpr; exact NCa_bind ihl (fun _ => ihr)
  · simp [checkImpliedArgs]
  · intro a t iha iht; unfold checkImpliedArgs; exact NCa_bind iha (fun _ => iht)

theorem NCa_checkImpliedOne (names : List (Option Str)) (attrs : List (Str × AVal)) :
    NCa (checkImpliedOne names attrs) := by
  unfold checkImpliedOne
  split
  · split
    · rename_i s toks _ _
      have h1 := NC_expression (4 * toks.length + 8) 0 toks
      have h2 := (NU_expr (4 * toks.length + 8)).1 0 toks
      have h3 := expression_not_fuel 0 toks (4 * toks.length + 8) (by omega)
      split
      · exact NCa_checkImpliedExpr _ _
      · simp
      · simp
      · rename_i e h; exact absurd h (by unfold NC at h1; exact h1 e)
      · rename_i h; exact absurd h h3
      · rename_i w h; exact absurd h (by unfold NU at h2; exact h2 w)
    · simp
  · simp

theorem NCa_checkImpliedAll (names : List (Option Str)) : ∀ ds, NCa (checkImpliedAll names ds) := by
  intro ds
  induction ds with
  | nil => simp [checkImpliedAll]
  | cons d t ih => unfold checkImpliedAll; exact NCa_bind (NCa_checkImpliedOne _ _) (fun _ => ih)

attribute [irreducible] NCa

macro "nca_step" : tactic =>
  `(tactic| first
    | (apply NCa_ok) | (apply NCa_reject) | (apply NCa_parseDim) | (apply NCa_checkImpliedAll)
    | assumption
    | (apply NCa_bind)
    | (intro _)
    | split)

theorem NCa_checkIntent (t : Tables) (hn : Bool) (ptrs : List PtrK) (c f : Bool) (sg : Str) (attrs : List (Str × AVal)) :
    NCa (checkIntent t hn ptrs c f sg attrs) := by
  unfold checkIntent; repeat nca_step

theorem NCa_checkDeref (t : Tables) (ptrs : List PtrK) (a : Bool) (tn : Str) (i : Option Str) (attrs : List (Str × AVal)) :
    NCa (checkDeref t ptrs a tn i attrs) := by
  unfold checkDeref; repeat nca_step

theorem NCa_checkRank (ptrs : List PtrK) (attrs : List (Str × AVal)) : NCa (checkRank ptrs attrs) := by
  unfold checkRank; repeat nca_step

theorem NCa_checkDimension (ptrs : List PtrK) (h : Bool) (tn tb : Str) (r : Option Int) (attrs : List (Str × AVal)) :
    NCa (checkDimension ptrs h tn tb r attrs) := by
  unfold checkDimension; repeat nca_step

theorem NCa_checkOwner (t : Tables) (pats : List Str) (attrs : List (Str × AVal)) : NCa (checkOwner t pats attrs) := by
  unfold checkOwner; repeat nca_step

theorem NCa_checkCommon (t : Tables) (pats : List Str) (ptrs : List PtrK) (a h : Bool) (tn tb : Str) (i : Option Str)
    (attrs : List (Str × AVal)) : NCa (checkCommon t pats ptrs a h tn tb i attrs) := by
  unfold checkCommon
  repeat (first | apply NCa_checkDeref | apply NCa_checkRank | apply NCa_checkDimension | apply NCa_checkOwner | nca_step)

theorem NCa_checkValue (ptrs : List PtrK) (a : Bool) (tn : Str) (attrs : List (Str × AVal)) :
    NCa (checkValue ptrs a tn attrs) := by
  unfold checkValue; repeat nca_step

theorem NCa_checkCharlen (ptrs : List PtrK) (tb : Str) (attrs : List (Str × AVal)) :
    NCa (checkCharlen ptrs tb attrs) := by
  unfold checkCharlen; repeat nca_step

theorem NCa_checkTemplate (tb : Str) (n : Nat) (b : Bool) : NCa (checkTemplate tb n b) := by
  unfold checkTemplate; repeat nca_step

theorem NCa_checkArgOne (t : Tables) (pats : List Str) (hn : Bool) (ptrs : List PtrK) (a c h : Bool) (tn tb sg : Str)
    (fp : Bool) (nt : Nat) (tt : Bool) (attrs : List (Str × AVal)) :
    NCa (checkArgOne t pats hn ptrs a c h tn tb sg fp nt tt attrs) := by
  unfold checkArgOne
  repeat (first | apply NCa_checkIntent | apply NCa_checkCommon | apply NCa_checkValue | apply NCa_checkCharlen
                | apply NCa_checkTemplate | nca_step)

theorem NCa_of_ne {α} {r : Attrs.Res α} (h : ∀ e, r ≠ .crash e) : NCa r := by unfold NCa; exact h
theorem NCa_ne {α} {r : Attrs.Res α} (h : NCa r) : ∀ e, r ≠ .crash e := by unfold NCa at h; exact h

theorem NCa_checkArg (t : Tables) (pats : List Str) : ∀ d hn, NCa (checkArg t pats hn d) := by
  intro d
  refine ADecl.rec (motive_1 := fun d => ∀ hn, NCa (checkArg t pats hn d))
    (motive_2 := fun o => ∀ ps, o = some ps → ∀ hn, NCa (checkArgs t pats hn ps))
    (motive_3 := fun l => ∀ hn, NCa (checkArgs t pats hn l)) ?_ ?_ ?_ ?_ ?_ d
  · intro ptrs arr c htm tn tb sg fp ini nt ttm nm attrs params ih hn
    have h1 := NCa_ne (NCa_checkArgOne t pats hn ptrs arr c htm tn tb sg fp nt ttm attrs)
    unfold checkArg
    apply NCa_of_ne
    intro e
    split
    · simp
    · rename_i e' h; exact absurd h (h1 e')
    · split
      · split
        · rename_i ps
          have h2 := NCa_ne (ih ps rfl false)
          split
          · simp
          · simp
          · rename_i e' h; exact absurd h (h2 e')
        · simp
      · simp
  · intro ps h; cases h
  · intro l ih ps h hn; cases h; exact ih hn
  · intro hn; apply NCa_of_ne; intro e; simp [checkArgs]
  · intro a l iha ihl hn
    have h1 := NCa_ne (iha hn)
    have h2 := NCa_ne (ihl hn)
    unfold checkArgs
    apply NCa_of_ne
    intro e
    split
    · simp
    · split
      · simp
      · rename_i e' h; exact absurd h (h1 e')
      · split
        · simp
        · simp
        · rename_i e' h; exact absurd h (h2 e')

theorem NCa_checkArgs (t : Tables) (pats : List Str) (hn : Bool) : ∀ ds, NCa (checkArgs t pats hn ds) := by
  intro ds
  induction ds with
  | nil => apply NCa_of_ne; intro e; simp [checkArgs]
  | cons d ds ih =>
    have h1 := NCa_ne (NCa_checkArg t pats d hn)
    have h2 := NCa_ne ih
    unfold checkArgs
    apply NCa_of_ne
    intro e
    split
    · simp
    · split
      · simp
      · rename_i e' h; exact absurd h (h1 e')
      · split
        · simp
        · simp
        · rename_i e' h; exact absurd h (h2 e')

theorem NCa_checkFcn (t : Tables) (pats : List Str) (d : ADecl) : NCa (checkFcn t pats d) := by
  obtain ⟨ptrs, arr, c, htm, tn, tb, sg, fp, ini, nt, ttm, nm, attrs, params⟩ := d
  unfold checkFcn
  repeat (first | apply NCa_checkCommon | apply NCa_checkArgs | nca_step)

theorem NCa_checkVar (t : Tables) (d : ADecl) : NCa (checkVar t d) := by
  obtain ⟨ptrs, arr, c, htm, tn, tb, sg, fp, ini, nt, ttm, nm, attrs, params⟩ := d
  unfold checkVar
  repeat nca_step

/-! ### `fortran_generic` entries -/

theorem NCa_checkGenericArgs (t : Tables) (pats : List Str) : ∀ ds, NCa (checkGenericArgs t pats ds) := by
  intro ds
  induction ds with
  | nil => apply NCa_of_ne; intro e; simp [checkGenericArgs]
  | cons d ds ih =>
    have h1 := NCa_ne (NCa_checkArg t pats d true)
    have h2 := NCa_ne ih
    unfold checkGenericArgs
    apply NCa_of_ne
    intro e
    split
    · simp
    · rename_i e' h; exact absurd h (h1 e')
    · split
      · simp
      · simp
      · rename_i e' h; exact absurd h (h2 e')

theorem NCa_checkGeneric (t : Tables) (pats : List Str) (g : List ADecl) : NCa (checkGeneric t pats g) := by
  have h1 := NCa_ne (NCa_checkGenericArgs t pats g)
  have h2 := NCa_ne (NCa_checkImpliedAll (g.map (·.name)) g)
  unfold checkGeneric
  apply NCa_of_ne
  intro e
  split
  · simp
  · rename_i e' h; exact absurd h (h1 e')
  · split
    · simp
    · simp
    · rename_i e' h; exact absurd h (h2 e')

theorem NCa_checkGenerics (t : Tables) (pats : List Str) : ∀ gs, NCa (checkGenerics t pats gs) := by
  intro gs
  induction gs with
  | nil => apply NCa_of_ne; intro e; simp [checkGenerics]
  | cons g gs ih =>
    have h1 := NCa_ne (NCa_checkGeneric t pats g)
    have h2 := NCa_ne ih
    unfold checkGenerics
    apply NCa_of_ne
    intro e
    split
    · simp
    · rename_i e' h; exact absurd h (h1 e')
    · split
      · simp
      · simp
      · rename_i e' h; exact absurd h (h2 e')

theorem NCa_checkFcnG (t : Tables) (pats : List Str) (gens : List (List ADecl)) (d : ADecl) :
    NCa (checkFcnG t pats gens d) := by
  obtain ⟨ptrs, arr, c, htm, tn, tb, sg, fp, ini, nt, ttm, nm, attrs, params⟩ := d
  unfold checkFcnG
  repeat (first | apply NCa_checkCommon | apply NCa_checkArgs | apply NCa_checkGenerics | nca_step)

end Shroud.Attrs
