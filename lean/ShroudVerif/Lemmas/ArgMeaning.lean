import ShroudVerif.Lemmas.DeclMeaning
/-! Reference meaning of the `gen_arg_as_cxx` / `gen_arg_as_c` renderings of object declarations. -/
namespace Shroud.Cxx
open Shroud.Decl

theorem toC_applyOps : ∀ (ops : List Op) (b : CxxType), toC (applyOps b ops) = applyOps (toC b) (ops.map toCOp) := by
  intro ops
  induction ops with
  | nil => intro b; rfl
  | cons o os ih =>
    intro b
    simp only [applyOps, List.foldl_cons, List.map_cons] at ih ⊢
    rw [ih]
    cases o <;> simp [applyOp, toC, toCOp]

/-- rendering an object declaration (no parameter list) after arbitrary specifier tokens `ST`
    that the reference semantics reads as the base type `b` -/
theorem objectMeaning (env : Env) (ST : Toks) (b : CxxType) (dr : Option Declarator) (arr : List Expr)
    (hST : ∀ rest, SpecStop env rest → ∃ acc, cxxSpec env (ST ++ rest) {} = (acc, rest) ∧ acc.base = some b)
    (hd : ∀ d, dr = some d → WFD env d ∧ refsPlainD d) (harr : ∀ e ∈ arr, SimpleDim e) :
    cxxMeaning env (ST ++ tailToks dr none false arr)
      = some (dr.bind declaratorName, applyOps b (denOps dr (arr.map (fun e => Op.arr (printExpr e))))) := by
  have hK : Hd K4 (arraysToks arr ++ ([] : Toks)) := by
    cases arr with
    | nil => trivial
    | cons e es => simp [arraysToks, Hd, tk, K4]
  have hstop : SpecStop env (tailToks dr none false arr) := by
    cases dr with
    | some d =>
      have := d.toks_head env (hd d rfl).1 (ptoks none false ++ arraysToks arr)
      simpa [tailToks, dtoks] using this
    | none =>
      have := (Hd_K4_cases (env := env) hK).1
      simpa [tailToks, dtoks, ptoks] using this
  obtain ⟨acc, h1, h2⟩ := hST _ hstop
  have hdp := declaratorPart env dr none false arr [] [] 0
    (4 * (ST ++ tailToks dr none false arr).length + 16) hd harr rfl trivial (by intro ps h; cases h)
    (by
      have h3 := arraysToks_len arr
      simp only [tailToks, ptoks, List.length_append, List.nil_append]
      omega)
  simp only [List.append_nil, List.nil_append] at hdp
  unfold cxxMeaning
  simp only [h1, h2, hdp]
  simp [skipAttrs]

end Shroud.Cxx
