import ShroudVerif.Lemmas.DeclMeaning
/-! Reference meaning of the `gen_arg_as_cxx` / `gen_arg_as_c` renderings of object declarations. -/
namespace Shroud.Cxx
open Shroud.Decl

theorem toC_applyOps : ∀ (ops : List Op) (b : CxxType), toC (applyOps b ops) = applyOps (toC b) (ops.map toCOp) := by
  intro ops
  induction ops with
  | nil => intro b; rfl
  | cons o os ih =>
    intro b
    simp only [applyOps, List.foldl_cons, List.map_cons] at ih ⊢
    rw [ih]
    cases o <;> simp [applyOp, toC, toCOp]

/-- rendering an object declaration (no parameter list) after arbitrary specifier tokens `ST`
    that the reference semantics reads as the base type `b` -/
theorem objectMeaning (env : Env) (ST : Toks) (b : CxxType) (dr : Option Declarator) (arr : List Expr)
    (hST : ∀ rest, SpecStop env rest → ∃ acc, cxxSpec env (ST ++ rest) {} = (acc, rest) ∧ acc.base = some b)
    (hd : ∀ d, dr = some d → WFD env d ∧ refsPlainD d) (harr : ∀ e ∈ arr, SimpleDim e) :
    cxxMeaning env (ST ++ tailToks dr none false arr)
      = some (dr.bind declaratorName, applyOps b (denOps dr (arr.map (fun e => Op.arr (printExpr e))))) := by
  have hK : Hd K4 (arraysToks arr ++ ([] : Toks)) := by
    cases arr with
    | nil => trivial
    | cons e es => simp [arraysToks, Hd, tk, K4]
  have hstop : SpecStop env (tailToks dr none false arr) := by
    cases dr with
    | some d =>
      have := d.toks_head env (hd d rfl).1 (ptoks none false ++ arraysToks arr)
      simpa [tailToks, dtoks] using this
    | none =>
      have := (Hd_K4_cases (env := env) hK).1
      simpa [tailToks, dtoks, ptoks] using this
  obtain ⟨acc, h1, h2⟩ := hST _ hstop
  have hdp := declaratorPart env dr none false arr [] [] 0
    (4 * (ST ++ tailToks dr none false arr).length + 16) hd harr rfl trivial (by intro ps h; cases h)
    (by
      have h3 := arraysToks_len arr
      simp only [tailToks, ptoks, List.length_append, List.nil_append]
      omega)
  simp only [List.append_nil, List.nil_append] at hdp
  unfold cxxMeaning
  simp only [h1, h2, hdp]
  simp [skipAttrs]

/-! ### the C rendering prints the declarator with `&` turned into `*` -/

theorem ptrsToks_true (ps : List Ptr) : ptrsToks true ps = ptrsToks false (ps.map starPtr) := by
  induction ps with
  | nil => rfl
  | cons p ps ih =>
    obtain ⟨k, c, v⟩ := p
    cases k <;> simp [ptrsToks, Ptr.toks, starPtr, ih]

theorem toks_true (d : Declarator) : d.toks true = (toStarD d).toks false := by
  induction d with
  | leaf ps n => simp [Declarator.toks, toStarD, ptrsToks_true]
  | wrap ps i ih => simp [Declarator.toks, toStarD, ptrsToks_true, ih]

theorem WFD_toStar (env : Env) (d : Declarator) (h : WFD env d) : WFD env (toStarD d) := by
  induction d with
  | leaf ps n =>
    cases n with
    | some nm => simpa [toStarD, WFD] using h
    | none =>
      simp only [toStarD, WFD] at h ⊢
      intro hh; apply h; cases ps <;> simp_all
  | wrap ps i ih => simpa [toStarD, WFD] using ih h

theorem refsPlain_star (ps : List Ptr) : RefsPlain (ps.map starPtr) := by
  intro p hp hk
  simp only [List.mem_map] at hp
  obtain ⟨q, _, rfl⟩ := hp
  simp [starPtr] at hk

theorem refsPlainD_toStar (d : Declarator) : refsPlainD (toStarD d) := by
  induction d with
  | leaf ps n => exact refsPlain_star ps
  | wrap ps i ih => exact ⟨refsPlain_star ps, ih⟩

theorem name_toStar (d : Declarator) : declaratorName (toStarD d) = declaratorName d := by
  induction d with
  | leaf ps n => rfl
  | wrap ps i ih => simpa [toStarD, declaratorName] using ih

theorem ptrOp_star (ps : List Ptr) (h : RefsPlain ps) : (ps.map starPtr).map ptrOp = (ps.map ptrOp).map toCOp := by
  induction ps with
  | nil => rfl
  | cons p ps ih =>
    have hp := h p (by simp)
    have := ih (fun q hq => h q (by simp [hq]))
    obtain ⟨k, c, v⟩ := p
    cases k
    · simp [starPtr, ptrOp, toCOp] at this ⊢; exact this
    · obtain ⟨rfl, rfl⟩ := hp rfl
      simp [starPtr, ptrOp, toCOp] at this ⊢; exact this

theorem declaratorOps_toStar (d : Declarator) (h : refsPlainD d) :
    declaratorOps (toStarD d) = (declaratorOps d).map toCOp := by
  induction d with
  | leaf ps n => simpa [toStarD, declaratorOps] using ptrOp_star ps h
  | wrap ps i ih =>
    simp only [toStarD, declaratorOps, List.map_append]
    rw [ptrOp_star ps h.1, ih h.2]

def arrOps (arr : List Expr) : List Op := arr.map (fun e => Op.arr (printExpr e))

theorem arrOps_toC (l : List Op) (h : ∀ o ∈ l, ∃ n, o = Op.arr n) : l.map toCOp = l := by
  induction l with
  | nil => rfl
  | cons o os ih =>
    obtain ⟨n, hn⟩ := h o (by simp)
    subst hn
    simp [toCOp, ih (fun x hx => h x (by simp [hx]))]

theorem denOps_toStar (dr : Option Declarator) (arr : List Expr) (h : ∀ d, dr = some d → refsPlainD d) :
    denOps (dr.map toStarD) (arrOps arr) = (denOps dr (arrOps arr)).map toCOp := by
  have ha : (arrOps arr).reverse.map toCOp = (arrOps arr).reverse := by
    apply arrOps_toC
    intro o ho
    simp only [arrOps, List.mem_reverse, List.mem_map] at ho
    obtain ⟨e, _, rfl⟩ := ho
    exact ⟨_, rfl⟩
  cases dr with
  | none => simp [denOps, ha]
  | some d =>
    have hd := h d rfl
    cases d with
    | leaf ps n => simp [denOps, opsOf, toStarD, List.map_append, ptrOp_star ps hd, ha]
    | wrap ps i =>
      simp only [Option.map, denOps, opsOf, toStarD, List.map_append]
      rw [ptrOp_star ps hd.1, declaratorOps_toStar i hd.2, ha]

/-- a derivation of pointer and array steps adds no reference -/
theorem hasRef_applyOps (ops : List Op) (h : ∀ o ∈ ops, (∃ c v, o = Op.ptr c v) ∨ ∃ n, o = Op.arr n) :
    ∀ b, (applyOps b ops).hasRef = b.hasRef := by
  induction ops with
  | nil => intro b; rfl
  | cons o os ih =>
    intro b
    simp only [applyOps, List.foldl_cons] at ih ⊢
    rw [ih (fun x hx => h x (by simp [hx]))]
    rcases h o (by simp) with ⟨c, v, rfl⟩ | ⟨n, rfl⟩ <;> simp [applyOp, CxxType.hasRef]

theorem denOps_star_kinds (dr : Option Declarator) (arr : List Expr) :
    ∀ o ∈ (denOps dr (arrOps arr)).map toCOp, (∃ c v, o = Op.ptr c v) ∨ ∃ n, o = Op.arr n := by
  have hp : ∀ (ps : List Ptr), ∀ o ∈ (ps.map ptrOp).map toCOp, (∃ c v, o = Op.ptr c v) ∨ ∃ n, o = Op.arr n := by
    intro ps o ho
    simp only [List.mem_map] at ho
    obtain ⟨o', ⟨p, _, rfl⟩, rfl⟩ := ho
    obtain ⟨k, c, v⟩ := p
    cases k <;> simp [ptrOp, toCOp]
  have ha : ∀ o ∈ ((arrOps arr).reverse).map toCOp, (∃ c v, o = Op.ptr c v) ∨ ∃ n, o = Op.arr n := by
    intro o ho
    simp only [arrOps, List.mem_map, List.mem_reverse] at ho
    obtain ⟨o', ⟨e, _, rfl⟩, rfl⟩ := ho
    right; exact ⟨printExpr e, by simp [toCOp]⟩
  have hdo : ∀ (d : Declarator), ∀ o ∈ (declaratorOps d).map toCOp, (∃ c v, o = Op.ptr c v) ∨ ∃ n, o = Op.arr n := by
    intro d
    induction d with
    | leaf ps n => simpa [declaratorOps] using hp ps
    | wrap ps i ih =>
      intro o ho
      simp only [declaratorOps, List.map_append, List.mem_append] at ho
      rcases ho with ho | ho
      · exact hp ps o ho
      · exact ih o ho
  intro o ho
  cases dr with
  | none => simpa [denOps] using ha o (by simpa [denOps] using ho)
  | some d =>
    cases d with
    | leaf ps n =>
      simp only [denOps, opsOf, List.map_append, List.mem_append] at ho
      rcases ho with ho | ho
      · exact hp ps o ho
      · exact ha o ho
    | wrap ps i =>
      simp only [denOps, opsOf, List.map_append, List.mem_append] at ho
      rcases ho with (ho | ho) | ho
      · exact hp ps o ho
      · exact ha o ho
      · exact hdo i o ho

end Shroud.Cxx
