import ShroudVerif.Model.YamlShape
/-! The YAML shape validation never ends in an internal exception: helper lemmas. -/
namespace Shroud.Yaml

def NCy {α} (r : Res α) : Prop := ∀ e, r ≠ .crash e

@[simp] theorem NCy_ok {α} (a : α) : NCy (Res.ok a) := by intro e h; cases h
@[simp] theorem NCy_reject {α} (m : String) : NCy (Res.reject m : Res α) := by intro e h; cases h

theorem NCy_bind {α β} {m : Res α} {f : α → Res β} (hm : NCy m) (hf : ∀ a, NCy (f a)) : NCy (m >>= f) := by
  cases m with
  | ok a => simpa using hf a
  | reject m => simp
  | crash e => exact absurd rfl (hm e)

theorem NCy_checkDictFields (ks : List Shroud.Decl.Str) (vs : List YVal) : ∀ names, NCy (checkDictFields ks vs names) := by
  intro names
  induction names with
  | nil => simp [checkDictFields]
  | cons k t ih =>
    unfold checkDictFields
    split
    · split
      · exact ih
      · split
        · exact ih
        · simp
    · exact ih

theorem NCy_checkStringFields (ks : List Shroud.Decl.Str) (vs : List YVal) (b : List String) :
    ∀ names, NCy (checkStringFields ks vs b names) := by
  intro names
  induction names with
  | nil => simp [checkStringFields]
  | cons k t ih =>
    unfold checkStringFields
    split
    · split
      · exact ih
      · simp
    · exact ih

theorem NCy_checkSubEntries (what need : String) : ∀ l, NCy (checkSubEntries what need l) := by
  intro l
  induction l with
  | nil => simp [checkSubEntries]
  | cons v t ih =>
    cases v with
    | map ks vs =>
      unfold checkSubEntries
      split
      · simp
      · exact NCy_bind (NCy_checkDictFields _ _ _) (fun _ => NCy_bind (NCy_checkStringFields _ _ _ _) (fun _ => ih))
    | null => simp [checkSubEntries]
    | bool _ => simp [checkSubEntries]
    | int _ => simp [checkSubEntries]
    | real _ => simp [checkSubEntries]
    | str _ => simp [checkSubEntries]
    | list _ => simp [checkSubEntries]

theorem NCy_checkListField (k : String) (ks : List Shroud.Decl.Str) (vs : List YVal) : NCy (checkListField k ks vs) := by
  unfold checkListField; split
  · split <;> simp
  · simp

theorem NCy_checkSubList (k need : String) (ks : List Shroud.Decl.Str) (vs : List YVal) : NCy (checkSubList k need ks vs) := by
  unfold checkSubList; split
  · exact NCy_checkSubEntries _ _ _
  · simp
  · simp

theorem NCy_cleanDictionary (ks : List Shroud.Decl.Str) (vs : List YVal) : NCy (cleanDictionary ks vs) := by
  unfold cleanDictionary
  exact NCy_bind (NCy_checkDictFields _ _ _) (fun _ => NCy_bind (NCy_checkStringFields _ _ _ _) (fun _ =>
    NCy_bind (NCy_checkListField _ _ _) (fun _ => NCy_bind (NCy_checkSubList _ _ _ _) (fun _ => NCy_checkSubList _ _ _ _))))

theorem NCy_typemapEntries : ∀ l, NCy (typemapEntries l) := by
  intro l
  induction l with
  | nil => simp [typemapEntries]
  | cons v t ih =>
    cases v with
    | map ks vs =>
      unfold typemapEntries
      split
      · exact ih
      · simp
    | null => simp [typemapEntries]
    | bool _ => simp [typemapEntries]
    | int _ => simp [typemapEntries]
    | real _ => simp [typemapEntries]
    | str _ => simp [typemapEntries]
    | list _ => simp [typemapEntries]

theorem NCy_formatStrings (fk : List Shroud.Decl.Str) (fv : List YVal) : ∀ names, NCy (formatStrings fk fv names) := by
  intro names
  induction names with
  | nil => simp [formatStrings]
  | cons k t ih =>
    unfold formatStrings
    split
    · split
      · exact ih
      · simp
    · exact ih

theorem NCy_libraryChecks (ks : List Shroud.Decl.Str) (vs : List YVal) : NCy (libraryChecks ks vs) := by
  unfold libraryChecks
  apply NCy_bind
  · unfold checkLanguage; split
    · split <;> simp
    · simp
  · intro _
    split
    · split
      · simp
      · exact NCy_formatStrings _ _ _
    · simp

theorem NCy_of_ne {α} {r : Res α} (h : ∀ e, r ≠ .crash e) : NCy r := h

/-- the recursion over nested `declarations` -/
theorem NCy_shape : ∀ v : YVal,
    NCy (shapeDecls v) ∧ NCy (shapeEntry v) := by
  intro v
  refine YVal.rec (motive_1 := fun v => NCy (shapeDecls v) ∧ NCy (shapeEntry v))
    (motive_2 := fun l => NCy (shapeEntries l) ∧ ∀ ks, NCy (nested ks l)) ?_ ?_ ?_ ?_ ?_ ?_ ?_ ?_ ?_ v
  · exact ⟨by unfold shapeDecls; simp [YVal.truthy], by simp [shapeEntry]⟩
  · intro b; exact ⟨by unfold shapeDecls; split <;> simp, by simp [shapeEntry]⟩
  · intro n; exact ⟨by unfold shapeDecls; split <;> simp, by simp [shapeEntry]⟩
  · intro z; exact ⟨by unfold shapeDecls; split <;> simp, by simp [shapeEntry]⟩
  · intro s; exact ⟨by unfold shapeDecls; split <;> simp, by simp [shapeEntry]⟩
  · intro l ih
    refine ⟨?_, by simp [shapeEntry]⟩
    cases l with
    | nil => simp [shapeDecls]
    | cons e es => unfold shapeDecls; exact ih.1
  · intro ks vs ih
    refine ⟨by unfold shapeDecls; simp [YVal.truthy], ?_⟩
    have hc := NCy_cleanDictionary ks vs
    have hs := NCy_checkStringFields ks vs [] ["decl"]
    have hn := ih.2 ks
    unfold shapeEntry
    intro e
    split
    · split
      · exact hn e
      · simp
      · rename_i x h; exact absurd h (hc x)
    · split
      · split
        · split
          · split
            · simp
            · exact hn e
          · simp
          · rename_i x h; exact absurd h (hs x)
        · simp
        · rename_i x h; exact absurd h (hc x)
      · simp
  · exact ⟨by simp [shapeEntries], by intro ks; cases ks <;> simp [nested]⟩
  · intro a t iha iht
    refine ⟨?_, ?_⟩
    · unfold shapeEntries
      intro e
      split
      · exact iht.1 e
      · simp
      · rename_i x h; exact absurd h (iha.2 x)
    · intro ks
      cases ks with
      | nil => simp [nested]
      | cons k ks' =>
        unfold nested
        split
        · exact iha.1
        · exact iht.2 ks'

theorem NCy_nested (ks : List Shroud.Decl.Str) : ∀ vs, NCy (nested ks vs) := by
  intro vs
  induction vs generalizing ks with
  | nil => cases ks <;> simp [nested]
  | cons v t ih =>
    cases ks with
    | nil => simp [nested]
    | cons k ks' =>
      unfold nested
      split
      · exact (NCy_shape v).1
      · exact ih ks'

theorem NCy_createLibrary (ks : List Shroud.Decl.Str) (vs : List YVal) : NCy (createLibrary (.map ks vs)) := by
  unfold createLibrary
  apply NCy_bind
  · unfold checkCopyright; split
    · split <;> simp
    · simp
  · intro _
    exact NCy_bind (NCy_cleanDictionary _ _) (fun _ => NCy_bind (NCy_libraryChecks _ _) (fun _ =>
      NCy_bind (by unfold checkTypemap; split
                   · exact NCy_typemapEntries _
                   · simp
                   · simp) (fun _ => NCy_nested _ _)))

end Shroud.Yaml
