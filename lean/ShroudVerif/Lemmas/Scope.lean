import ShroudVerif.Model.Scope
/-! Helper lemmas for C14 (dictionaries, chains, declaration trees, attribute parser). -/
namespace Shroud.Scope

variable {β : Type}

/-! ### dictionaries -/

@[simp] theorem dget_nil (k : Nat) : dget ([] : Dict β) k = none := rfl

theorem dget_dset_same (d : Dict β) (k : Nat) (v : β) : dget (dset d k v) k = some v := by
  induction d with
  | nil => simp [dset, dget]
  | cons a r ih =>
    obtain ⟨k', v'⟩ := a
    by_cases h : k' = k
    · simp [dset, dget, h]
    · simp [dset, dget, h, ih]

theorem dget_dset_other (d : Dict β) (k k' : Nat) (v : β) (h : k' ≠ k) :
    dget (dset d k v) k' = dget d k' := by
  induction d with
  | nil => simp [dset, dget]; intro e; exact (h e.symm).elim
  | cons a r ih =>
    obtain ⟨k0, v0⟩ := a
    by_cases h0 : k0 = k
    · subst h0
      have : ¬ k0 = k' := fun e => h e.symm
      simp [dset, dget, this]
    · by_cases h1 : k0 = k'
      · subst h1; simp [dset, dget, h0]
      · simp [dset, dget, h0, h1, ih]

theorem dget_dset (d : Dict β) (k k' : Nat) (v : β) :
    dget (dset d k v) k' = if k' = k then some v else dget d k' := by
  by_cases h : k' = k
  · subst h; simp [dget_dset_same]
  · simp [h, dget_dset_other d k k' v h]

theorem dhas_dset (d : Dict β) (k k' : Nat) (v : β) :
    dhas (dset d k v) k' = (decide (k' = k) || dhas d k') := by
  unfold dhas; rw [dget_dset]; by_cases h : k' = k <;> simp [h]

/-- the last binding of `k` in an update list -/
def lastBinding (e : List (Nat × β)) (k : Nat) : Option β :=
  e.foldl (fun acc kv => if kv.1 = k then some kv.2 else acc) none

theorem dget_dupdate_aux (e : List (Nat × β)) (d : Dict β) (k : Nat) (acc : Option β)
    (hacc : acc = none ∨ dget d k = acc) :
    dget (dupdate d e) k =
      match e.foldl (fun acc kv => if kv.1 = k then some kv.2 else acc) acc with
      | some v => some v
      | none => dget d k := by
  induction e generalizing d acc with
  | nil =>
    simp [dupdate]
    rcases hacc with h | h
    · simp [h]
    · cases acc <;> simp_all
  | cons a r ih =>
    obtain ⟨k0, v0⟩ := a
    simp only [dupdate, List.foldl_cons] at ih ⊢
    by_cases h0 : k0 = k
    · subst h0
      have := ih (dset d k0 v0) (some v0) (Or.inr (dget_dset_same d k0 v0))
      simp only [if_true] at this ⊢
      rw [this]
      cases hf : List.foldl (fun acc kv => if kv.1 = k0 then some kv.2 else acc) (some v0) r with
      | some w => simp
      | none =>
        -- impossible: folding from `some` never yields `none`
        exfalso
        have : ∀ (l : List (Nat × β)) (a : β),
            List.foldl (fun acc kv => if kv.1 = k0 then some kv.2 else acc) (some a) l ≠ none := by
          intro l
          induction l with
          | nil => intro a; simp
          | cons b t iht =>
            intro a
            simp only [List.foldl_cons]
            by_cases hb : b.1 = k0
            · simp only [hb, if_true]; exact iht _
            · simp only [hb, if_false]; exact iht _
        exact this r v0 hf
    · have hne : k ≠ k0 := fun e => h0 e.symm
      have := ih (dset d k0 v0) acc (by
        rcases hacc with h | h
        · exact Or.inl h
        · exact Or.inr (by rw [dget_dset_other d k0 k v0 hne]; exact h))
      simp only [h0, if_false] at this ⊢
      rw [this, dget_dset_other d k0 k v0 hne]

/-- `d.update(e)`: the last binding in `e` wins, otherwise the old value -/
theorem dget_dupdate (e : List (Nat × β)) (d : Dict β) (k : Nat) :
    dget (dupdate d e) k = (lastBinding e k <|> dget d k) := by
  rw [dget_dupdate_aux e d k none (Or.inl rfl)]
  unfold lastBinding
  cases List.foldl (fun acc kv => if kv.1 = k then some kv.2 else acc) none e <;> rfl

theorem dupdate_append (d : Dict β) (a b : List (Nat × β)) :
    dupdate (dupdate d a) b = dupdate d (a ++ b) := by
  simp [dupdate, List.foldl_append]

@[simp] theorem dupdate_nil (d : Dict β) : dupdate d [] = d := rfl
theorem dupdate_cons (d : Dict β) (a : Nat × β) (r : List (Nat × β)) :
    dupdate d (a :: r) = dupdate (dset d a.1 a.2) r := rfl

/-- a Python dict: no key twice -/
def Unique : Dict β → Prop
  | [] => True
  | (k, _) :: r => dget r k = none ∧ Unique r

theorem dset_append_fresh (d : Dict β) (k : Nat) (v : β) (h : dget d k = none) :
    dset d k v = d ++ [(k, v)] := by
  induction d with
  | nil => rfl
  | cons a r ih =>
    obtain ⟨k0, v0⟩ := a
    by_cases h0 : k0 = k
    · simp [dget, h0] at h
    · simp [dget, h0] at h
      simp [dset, h0, ih h]

theorem dget_append_single (d : Dict β) (k k' : Nat) (v : β) :
    dget (d ++ [(k, v)]) k' = match dget d k' with
      | some w => some w
      | none => if k = k' then some v else none := by
  induction d with
  | nil => simp [dget]
  | cons a r ih =>
    obtain ⟨k0, v0⟩ := a
    by_cases h0 : k0 = k' <;> simp [dget, h0, ih]

/-- `Scope(parent); update(o)` with a Python dict `o` reproduces `o` (order included) -/
theorem dupdate_nil_of_unique_aux (o : Dict β) (acc : Dict β) (hu : Unique o)
    (hd : ∀ kv ∈ o, dget acc kv.1 = none) : dupdate acc o = acc ++ o := by
  induction o generalizing acc with
  | nil => simp
  | cons a r ih =>
    obtain ⟨k0, v0⟩ := a
    rw [dupdate_cons]
    have hk : dget acc k0 = none := hd (k0, v0) (by simp)
    simp only []
    rw [dset_append_fresh acc k0 v0 hk, ih (acc ++ [(k0, v0)]) hu.2]
    · simp
    · intro kv hkv
      rw [dget_append_single, hd kv (by simp [hkv])]
      by_cases hk' : k0 = kv.1
      · -- k0 occurs in r: contradicts uniqueness
        exfalso
        have h1 := hu.1
        have : ∀ (l : Dict β), kv ∈ l → dget l kv.1 ≠ none := by
          intro l
          induction l with
          | nil => simp
          | cons b t iht =>
            intro hm
            obtain ⟨kb, vb⟩ := b
            by_cases hb : kb = kv.1
            · simp [dget, hb]
            · simp only [dget, hb, if_false]
              rcases List.mem_cons.mp hm with e | e
              · subst e; simp at hb
              · exact iht e
        exact this r hkv (hk' ▸ h1)
      · simp [hk']

theorem dupdate_nil_of_unique (o : Dict β) (hu : Unique o) : dupdate [] o = o := by
  simpa using dupdate_nil_of_unique_aux o [] hu (by simp)

/-! ### chains -/

@[simp] theorem lookupChain_nil (k : Nat) : lookupChain ([] : List (Dict β)) k = none := rfl

theorem lookupChain_cons (d : Dict β) (r : List (Dict β)) (k : Nat) :
    lookupChain (d :: r) k = match dget d k with
      | some v => some v
      | none => lookupChain r k := rfl

theorem lookupChain_append_none (pre post : List (Dict β)) (k : Nat)
    (h : ∀ d ∈ pre, dget d k = none) : lookupChain (pre ++ post) k = lookupChain post k := by
  induction pre with
  | nil => rfl
  | cons d r ih =>
    have hd := h d (by simp)
    simp only [List.cons_append, lookupChain_cons, hd]
    exact ih (fun d' hd' => h d' (by simp [hd']))

/-- lookups of every key -/
def looks (vs : List (List (Dict β))) (k : Nat) : List (Option β) := vs.map (lookupChain · k)

@[simp] theorem looks_append (a b : List (List (Dict β))) (k : Nat) :
    looks (a ++ b) k = looks a k ++ looks b k := by simp [looks]

@[simp] theorem looks_nil (k : Nat) : looks ([] : List (List (Dict β))) k = [] := rfl
@[simp] theorem looks_cons (c : List (Dict β)) (r : List (List (Dict β))) (k : Nat) :
    looks (c :: r) k = lookupChain c k :: looks r k := rfl

/-! ### declaration trees -/

theorem views_length (c1 c2 : List (Dict β)) (d : Decls β) :
    (views c1 d).length = (views c2 d).length := by
  induction d generalizing c1 c2 with
  | nil => rfl
  | fn n o rest ih => simp [views, ih c1 c2]
  | scope kd o body rest ihb ihr => simp [views, ihb (o :: c1) (o :: c2), ihr c1 c2]

/-- only what the enclosing chain answers matters -/
theorem views_ctx_congr (c1 c2 : List (Dict β)) (d : Decls β) (k' : Nat)
    (h : lookupChain c1 k' = lookupChain c2 k') :
    looks (views c1 d) k' = looks (views c2 d) k' := by
  induction d generalizing c1 c2 with
  | nil => rfl
  | fn n o rest ih => simp [views, lookupChain_cons, h, ih c1 c2 h]
  | scope kd o body rest ihb ihr =>
    simp only [views, looks_append]
    rw [ihb (o :: c1) (o :: c2) (by simp [lookupChain_cons, h]), ihr c1 c2 h]

theorem views_append (ctx : List (Dict β)) (a b : Decls β) :
    views ctx (a.append b) = views ctx a ++ views ctx b := by
  induction a generalizing ctx with
  | nil => rfl
  | fn n o rest ih => simp [Decls.append, views, ih]
  | scope kd o body rest _ ihr => simp [Decls.append, views, ihr]

theorem parentList_append (a b : Decls β) :
    parentList (a.append b) = parentList a ++ parentList b := by
  induction a with
  | nil => rfl
  | fn n o rest ih => simp [Decls.append, parentList, ih]
  | scope kd o body rest _ ihr =>
    cases kd <;> simp [Decls.append, parentList, ihr]

theorem push_length (c1 c2 : List (Dict β)) (k : Nat) (v : β) (d : Decls β) :
    (views c1 (push k v d)).length = (views c2 d).length := by
  induction d generalizing c1 c2 with
  | nil => rfl
  | fn n o rest ih => simp [push, views, ih c1 c2]
  | scope kd o body rest ihb ihr =>
    simp only [push, views, List.length_append]
    rw [ihr c1 c2]
    split
    · rw [views_length (o :: c1) (o :: c2)]
    · rw [ihb (o :: c1) (o :: c2)]

/-- The core of "container = members": if the container's chain answers `v`
    for `k` and agrees with the other chain elsewhere, then pushing `k := v`
    down to the members (under the other chain) gives the same answers. -/
theorem push_agrees (k : Nat) (v : β) (d : Decls β) (c1 c2 : List (Dict β))
    (hk : lookupChain c1 k = some v)
    (ho : ∀ k', k' ≠ k → lookupChain c1 k' = lookupChain c2 k') (k' : Nat) :
    looks (views c1 d) k' = looks (views c2 (push k v d)) k' := by
  induction d generalizing c1 c2 with
  | nil => rfl
  | fn n o rest ih =>
    simp only [views, push, looks_cons]
    rw [ih c1 c2 hk ho]
    congr 1
    by_cases hh : dhas o k = true
    · simp only [hh, if_true, lookupChain_cons]
      by_cases e : k' = k
      · subst e
        unfold dhas at hh
        cases hg : dget o k' with
        | none => simp [hg] at hh
        | some w => rfl
      · rw [ho k' e]
    · simp only [hh, lookupChain_cons]
      have hn : dget o k = none := by
        unfold dhas at hh; cases hg : dget o k <;> simp_all
      by_cases e : k' = k
      · subst e; simp [hn, hk, dget_dset_same]
      · simp [dget_dset_other o k k' v e, ho k' e]
  | scope kd o body rest ihb ihr =>
    simp only [views, push, looks_append]
    rw [ihr c1 c2 hk ho]
    congr 1
    by_cases hh : dhas o k = true
    · simp only [hh, if_true]
      apply views_ctx_congr
      simp only [lookupChain_cons]
      by_cases e : k' = k
      · subst e
        unfold dhas at hh
        cases hg : dget o k' with
        | none => simp [hg] at hh
        | some w => rfl
      · rw [ho k' e]
    · simp only [hh]
      have hn : dget o k = none := by
        unfold dhas at hh; cases hg : dget o k <;> simp_all
      apply ihb
      · simp [lookupChain_cons, hn, hk]
      · intro k2 e2; simp [lookupChain_cons, ho k2 e2]

theorem push_eq_setAll (k : Nat) (v : β) (d : Decls β) (h : defines k d = false) :
    push k v d = setAll k v d := by
  induction d with
  | nil => rfl
  | fn n o rest ih =>
    simp [defines] at h
    simp [push, setAll, h.1, ih h.2]
  | scope kd o body rest ihb ihr =>
    simp [defines] at h
    simp [push, setAll, h.1.1, ihb h.1.2, ihr h.2]

/-! ### attribute parser -/

/-- token texts between the parentheses: parens balanced, no EOF -/
def balOk : List Tok → Nat → Bool
  | [], d => d == 0
  | t :: r, d =>
    match t.typ with
    | .eof => false
    | .lparen => balOk r (d + 1)
    | .rparen => d != 0 && balOk r (d - 1)
    | _ => balOk r d

theorem collectParen_balanced (ts : List Tok) (d : Nat) (parts : List (List Char))
    (rv : List Char) (rest : List Tok) (h : balOk ts d = true) :
    collectParen (ts ++ ⟨.rparen, rv⟩ :: rest) d parts
      = .ok ((parts.reverse ++ ts.map (·.val)).flatten, rest) := by
  induction ts generalizing d parts with
  | nil =>
    simp [balOk] at h
    simp [collectParen, h]
  | cons t r ih =>
    obtain ⟨ty, tv⟩ := t
    cases ty
    case eof => simp [balOk] at h
    case rparen =>
      simp only [balOk, Bool.and_eq_true, bne_iff_ne, ne_eq] at h
      simp only [List.cons_append, collectParen, h.1, if_false]
      rw [ih _ _ h.2]; simp
    all_goals
      simp only [balOk] at h
      simp only [List.cons_append, collectParen]
      rw [ih _ _ h]; simp

/-! ### heap frame lemmas (ClassNode.clone) -/

theorem modify_getElem? (h : Heap) (s : Nat) (f : Frame → Frame) (i : Nat) :
    (modify h s f)[i]? = if i = s then (h[s]?).map f else h[i]? := by
  unfold modify
  cases hs : h[s]? with
  | none =>
    by_cases e : i = s
    · subst e; simp [hs]
    · simp [e]
  | some fr =>
    simp only [List.getElem?_set]
    by_cases e : i = s
    · subst e
      have : i < h.length := by
        rcases Nat.lt_or_ge i h.length with l | l
        · exact l
        · simp [List.getElem?_eq_none l] at hs
      simp [this]
    · have e' : ¬ s = i := fun x => e x.symm
      simp [e, e']

theorem modify_length (h : Heap) (s : Nat) (f : Frame → Frame) : (modify h s f).length = h.length := by
  unfold modify; cases h[s]? <;> simp

theorem clone_spec (h : Heap) (p : Nat) :
    (clone h p).2 = h.length ∧ h.length ≤ (clone h p).1.length ∧
    ∀ i, i < h.length → (clone h p).1[i]? = h[i]? := by
  unfold clone
  cases h[p]? with
  | none => simp
  | some fr =>
    refine ⟨rfl, by simp, ?_⟩
    intro i hi
    simp [List.getElem?_append_left hi]

end Shroud.Scope
