import ShroudVerif.Model.Lex
/-!
Helper lemmas for the lexical models (property C16): compositionality of `run`,
separator insensitivity of `tokens`.
-/
namespace Shroud.Lex

/-! ### `run` is compositional -/

theorem run_append {σ : Type} (step : σ → Char → σ × List Out) (a b : List Char) :
    ∀ s : σ, run step s (a ++ b) =
      ((run step (run step s a).1 b).1, (run step s a).2 ++ (run step (run step s a).1 b).2) := by
  induction a with
  | nil => intro s; simp [run]
  | cons c cs ih => intro s; simp [run, ih, List.append_assoc]

theorem run_append_state {σ : Type} (step : σ → Char → σ × List Out) (a b : List Char) (s : σ) :
    (run step s (a ++ b)).1 = (run step (run step s a).1 b).1 := by
  rw [run_append]

theorem run_append_out {σ : Type} (step : σ → Char → σ × List Out) (a b : List Char) (s : σ) :
    (run step s (a ++ b)).2 = (run step s a).2 ++ (run step (run step s a).1 b).2 := by
  rw [run_append]

theorem run_singleton {σ : Type} (step : σ → Char → σ × List Out) (s : σ) (c : Char) :
    run step s [c] = step s c := by
  simp [run]

/-! ### separators -/

theorem pushTok_nil (l : List Tok) : pushTok [] l = l := by simp [pushTok]

theorem pushLine_nil (ls : List (List Tok)) : pushLine [] ls = ls := by simp [pushLine]

theorem parse_append (x y : List Out) : parse (x ++ y) = x.foldr consOut (parse y) := by
  simp [parse, List.foldr_append]

theorem parse_cons (o : Out) (z : List Out) : parse (o :: z) = consOut o (parse z) := by
  simp [parse]

theorem consOut_nl (a : Acc) : consOut .nl a = ⟨[], [], close a⟩ := by
  simp [consOut, close]

theorem parse_nl (z : List Out) : parse (.nl :: z) = ⟨[], [], tokens z⟩ := by
  simp [parse_cons, consOut_nl, tokens]

theorem tokens_sp (z : List Out) : tokens (.sp :: z) = tokens z := by
  simp [tokens, parse_cons, consOut, close, pushTok_nil]

theorem tokens_nl (z : List Out) : tokens (.nl :: z) = tokens z := by
  simp [tokens, parse_nl, close, pushTok_nil, pushLine_nil]

theorem tokens_ws (w z : List Out) (hw : w.all isWs = true) : tokens (w ++ z) = tokens z := by
  induction w with
  | nil => simp
  | cons o w ih =>
    simp only [List.all_cons, Bool.and_eq_true] at hw
    cases o with
    | sp => simpa [tokens_sp] using ih hw.2
    | nl => simpa [tokens_nl] using ih hw.2
    | ch c => simp [isWs] at hw
    | lit c => simp [isWs] at hw

/-- what follows a line end matters only through its tokens -/
theorem tokens_after_nl (x z1 z2 : List Out) (h : tokens z1 = tokens z2) :
    tokens (x ++ .nl :: z1) = tokens (x ++ .nl :: z2) := by
  have h' : close (parse z1) = close (parse z2) := h
  simp only [tokens, parse_append, parse_nl, h']

/-- separators inserted at a line boundary are invisible -/
theorem tokens_insert_ws (x w y : List Out) (hw : w.all isWs = true)
    (hx : x = [] ∨ ∃ x', x = x' ++ [.nl]) :
    tokens (x ++ w ++ y) = tokens (x ++ y) := by
  rcases hx with rfl | ⟨x', rfl⟩
  · simpa using tokens_ws w y hw
  · simp only [List.append_assoc, List.singleton_append]
    exact tokens_after_nl x' (w ++ y) y (tokens_ws w y hw)

/-- a separator directly before a line end is invisible -/
theorem tokens_sp_before_nl (x z : List Out) :
    tokens (x ++ .sp :: .nl :: z) = tokens (x ++ .nl :: z) := by
  have : parse (.sp :: .nl :: z) = parse (.nl :: z) := by
    simp [parse_cons (.sp), parse_nl, consOut, pushTok_nil]
  simp only [tokens, parse_append, this]

/-! ### the refinement into language tokens keeps every character, in order -/

theorem flushTok_flatten (cur : Tok) : (flushTok cur).flatten = cur := by
  unfold flushTok
  split <;> simp_all

theorem lexChunk_flatten (cfg : LexCfg) (os : List Out) :
    ∀ (cur : Tok) (k : Nat), (lexChunk cfg cur k os).flatten = cur ++ os := by
  induction os with
  | nil => intro cur k; simp [lexChunk, flushTok_flatten]
  | cons o rest ih =>
    intro cur k
    simp only [lexChunk]
    split
    · rw [ih]; simp
    · rw [List.flatten_append, flushTok_flatten, ih]; simp

/-- no token produced by `lexChunk` is empty -/
theorem lexChunk_nonempty (cfg : LexCfg) (os : List Out) :
    ∀ (cur : Tok) (k : Nat), ∀ t ∈ lexChunk cfg cur k os, t ≠ [] := by
  induction os with
  | nil =>
    intro cur k t ht
    simp only [lexChunk, flushTok] at ht
    split at ht <;> simp_all
  | cons o rest ih =>
    intro cur k t ht
    simp only [lexChunk] at ht
    split at ht
    · exact ih _ _ t ht
    · simp only [List.mem_append] at ht
      rcases ht with ht | ht
      · simp only [flushTok] at ht
        split at ht <;> simp_all
      · exact ih _ _ t ht

/-! ### files -/

theorem joinLines_append (a b : List Line) : joinLines (a ++ b) = joinLines a ++ joinLines b := by
  simp [joinLines]

theorem joinLines_cons (l : Line) (ls : List Line) :
    joinLines (l :: ls) = l ++ '\n' :: joinLines ls := by
  simp [joinLines]

theorem joinLines_nil : joinLines [] = [] := rfl

/-- a non-empty file ends with a newline -/
theorem joinLines_ends (ls : List Line) : joinLines ls = [] ∨ ∃ p, joinLines ls = p ++ ['\n'] := by
  induction ls with
  | nil => exact Or.inl rfl
  | cons l ls ih =>
    right
    rcases ih with h | ⟨p, h⟩
    · exact ⟨l, by simp [joinLines_cons, h]⟩
    · exact ⟨l ++ '\n' :: p, by simp [joinLines_cons, h]⟩

/-! ### re-reading the stripped text (simulation used for idempotence) -/

theorem render_append (a b : List Out) : render (a ++ b) = render a ++ render b := by
  induction a with
  | nil => rfl
  | cons o r ih => cases o <;> simp [render, ih]

/-- state of a lexer that re-reads the rendered output produced so far -/
def reC : CSt → CSt
  | .str => .str | .strEsc => .strEsc | .chr => .chr | .chrEsc => .chrEsc
  | _ => .code

def rch : Out → Char
  | .ch c => c | .lit c => c | .sp => ' ' | .nl => '\n'

theorem render_single (o : Out) : render [o] = [rch o] := by cases o <;> rfl

theorem codeOut_render (c : Char) (h1 : c ≠ '/') (h2 : c ≠ '"') (h3 : c ≠ '\'') :
    stepCodeC (rch (codeOut c)) = (.code, [codeOut c]) := by
  unfold codeOut
  by_cases hn : c = '\n'
  · subst hn; decide
  · simp only [hn, if_false]
    by_cases hb : isBlank c = true
    · simp only [hb, if_true]; decide
    · simp [hb, rch, stepCodeC, h1, h2, h3, codeOut, hn]

theorem codeOut_rch_ne (c : Char) (h1 : c ≠ '/') (h2 : c ≠ '*') :
    rch (codeOut c) ≠ '/' ∧ rch (codeOut c) ≠ '*' := by
  unfold codeOut
  by_cases hn : c = '\n'
  · subst hn; decide
  · simp only [hn, if_false]
    by_cases hb : isBlank c = true
    · simp only [hb, if_true]; decide
    · simp [hb, rch, h1, h2]

theorem code_sim (c : Char) :
    run stepC .code (render (stepCodeC c).2) = (reC (stepCodeC c).1, (stepCodeC c).2) := by
  by_cases h1 : c = '/'
  · subst h1; decide
  by_cases h2 : c = '"'
  · subst h2; decide
  by_cases h3 : c = '\''
  · subst h3; decide
  have := codeOut_render c h1 h2 h3
  simp only [stepCodeC, h1, h2, h3, if_false, reC]
  rw [render_single, run_singleton]
  simp [stepC, this]

theorem slash_sim (c : Char) (h1 : c ≠ '/') (h2 : c ≠ '*') :
    run stepC .code ('/' :: render (stepCodeC c).2) = (reC (stepCodeC c).1, .ch '/' :: (stepCodeC c).2) := by
  by_cases h3 : c = '"'
  · subst h3; decide
  by_cases h4 : c = '\''
  · subst h4; decide
  have := codeOut_render c h1 h3 h4
  have hh := codeOut_rch_ne c h1 h2
  simp only [stepCodeC, h1, h3, h4, if_false, reC]
  rw [render_single]
  simp only [run, stepC, stepCodeC, if_true, hh.1, hh.2, if_false]
  have e : stepCodeC (rch (codeOut c)) = (.code, [codeOut c]) := this
  simp only [stepCodeC, if_neg hh.1] at e
  rw [e]
  simp

theorem step_sim (s : CSt) (c : Char) :
    run stepC (reC s) (render (stepC s c).2) = (reC (stepC s c).1, (stepC s c).2) := by
  cases s with
  | code => exact code_sim c
  | slash =>
    simp only [stepC]
    by_cases h1 : c = '/'
    · subst h1; decide
    by_cases h2 : c = '*'
    · subst h2; decide
    simp only [h1, h2, if_false, reC]
    exact slash_sim c h1 h2
  | line =>
    simp only [stepC, reC]
    by_cases h1 : c = '\n'
    · subst h1; decide
    by_cases h2 : c = '\\' <;> simp [h1, h2, run, render]
  | lineEsc =>
    simp only [stepC, reC]
    by_cases h2 : c = '\\' <;> simp [h2, run, render]
  | block =>
    simp only [stepC, reC]
    by_cases h2 : c = '*' <;> simp [h2, run, render]
  | blockStar =>
    simp only [stepC, reC]
    by_cases h1 : c = '/'
    · simp [h1, run, render]
    by_cases h2 : c = '*' <;> simp [h1, h2, run, render]
  | str =>
    simp only [stepC, reC]
    by_cases h1 : c = '"'
    · subst h1; decide
    by_cases h2 : c = '\\'
    · subst h2; decide
    by_cases h3 : c = '\n'
    · subst h3; decide
    simp [h1, h2, h3, run, render, stepC]
  | strEsc => simp [stepC, reC, run, render]
  | chr =>
    simp only [stepC, reC]
    by_cases h1 : c = '\''
    · subst h1; decide
    by_cases h2 : c = '\\'
    · subst h2; decide
    by_cases h3 : c = '\n'
    · subst h3; decide
    simp [h1, h2, h3, run, render, stepC]
  | chrEsc => simp [stepC, reC, run, render]

theorem run_sim (t : List Char) : ∀ s : CSt,
    run stepC (reC s) (render (run stepC s t).2) = (reC (run stepC s t).1, (run stepC s t).2) := by
  induction t with
  | nil => intro s; simp [run, render]
  | cons c cs ih =>
    intro s
    simp only [run, render_append]
    rw [run_append, step_sim, ih]

/-! Fortran -/

def reF : FSt → FSt
  | .str q => .str q
  | _ => .code

theorem codeOut_render_f (c : Char) (h1 : c ≠ '!') (h2 : c ≠ '\'') (h3 : c ≠ '"') (h4 : c ≠ '&') :
    stepCodeF (rch (codeOut c)) = (.code, [codeOut c]) := by
  unfold codeOut
  by_cases hn : c = '\n'
  · subst hn; decide
  · simp only [hn, if_false]
    by_cases hb : isBlank c = true
    · simp only [hb, if_true]; decide
    · simp [hb, rch, stepCodeF, h1, h2, h3, h4, codeOut, hn]

theorem code_sim_f (c : Char) :
    run stepF .code (render (stepCodeF c).2) = (reF (stepCodeF c).1, (stepCodeF c).2) := by
  by_cases h1 : c = '!'
  · subst h1; decide
  by_cases h2 : c = '\''
  · subst h2; decide
  by_cases h3 : c = '"'
  · subst h3; decide
  by_cases h4 : c = '&'
  · subst h4; decide
  have := codeOut_render_f c h1 h2 h3 h4
  simp only [stepCodeF, h1, h2, h3, h4, if_false, reF]
  rw [render_single, run_singleton]
  simp [stepF, this]

theorem amp_sim_f (c : Char) (h0 : c ≠ '\n') (hb : isBlank c = false) (h1 : c ≠ '!') (h4 : c ≠ '&') :
    run stepF .code ('&' :: render (stepCodeF c).2) = (reF (stepCodeF c).1, .ch '&' :: (stepCodeF c).2) := by
  by_cases h2 : c = '\''
  · subst h2; decide
  by_cases h3 : c = '"'
  · subst h3; decide
  simp only [stepCodeF, h1, h2, h3, h4, if_false, reF, codeOut, h0, hb, Bool.false_eq_true]
  simp [run, stepF, stepCodeF, render, h0, hb, h1, h2, h3, h4, codeOut]

theorem step_sim_f (s : FSt) (c : Char) :
    run stepF (reF s) (render (stepF s c).2) = (reF (stepF s c).1, (stepF s c).2) := by
  cases s with
  | code => exact code_sim_f c
  | str q =>
    simp only [stepF, reF]
    by_cases h1 : c = '\n'
    · subst h1; simp [run, render, stepF]
    by_cases h2 : c = q
    · subst h2; simp [h1, run, render, stepF]
    simp [h1, h2, run, render, stepF]
  | comment =>
    simp only [stepF, reF]
    by_cases h1 : c = '\n'
    · subst h1; decide
    simp [h1, run, render]
  | amp =>
    simp only [stepF, reF]
    by_cases h0 : c = '\n'
    · subst h0; decide
    by_cases hb : isBlank c = true
    · simp [h0, hb, run, render]
    by_cases h1 : c = '!'
    · subst h1; decide
    by_cases h4 : c = '&'
    · subst h4; decide
    simp only [h0, hb, h1, h4, if_false]
    exact amp_sim_f c h0 (by simpa using hb) h1 h4
  | ampComment =>
    simp only [stepF, reF]
    by_cases h1 : c = '\n' <;> simp [h1, run, render]
  | cont =>
    by_cases h0 : c = '\n'
    · subst h0; decide
    by_cases hb : isBlank c = true
    · simp [stepF, reF, h0, hb, run, render]
    by_cases h1 : c = '!'
    · subst h1; decide
    by_cases h4 : c = '&'
    · subst h4; decide
    have hb' : isBlank c = false := by simpa using hb
    have hstep : stepF .cont c = ((stepCodeF c).1, .sp :: (stepCodeF c).2) := by
      simp [stepF, h0, hb', h1, h4]
    rw [hstep]
    show run stepF .code (render (.sp :: (stepCodeF c).2)) = (reF (stepCodeF c).1, .sp :: (stepCodeF c).2)
    have := code_sim_f c
    have e : stepF .code ' ' = (.code, [.sp]) := by decide
    simp only [render]
    rw [show ' ' :: render (stepCodeF c).2 = [' '] ++ render (stepCodeF c).2 from rfl, run_append,
      run_singleton, e, this]
    simp
  | contComment =>
    simp only [stepF, reF]
    by_cases h1 : c = '\n' <;> simp [h1, run, render]

theorem run_sim_f (t : List Char) : ∀ s : FSt,
    run stepF (reF s) (render (run stepF s t).2) = (reF (run stepF s t).1, (run stepF s t).2) := by
  induction t with
  | nil => intro s; simp [run, render]
  | cons c cs ih =>
    intro s
    simp only [run, render_append]
    rw [run_append, step_sim_f, ih]


end Shroud.Lex
