import ShroudVerif.Model.Lex
/-!
Helper lemmas for the lexical models (property C16): compositionality of `run`,
separator insensitivity of `tokens`.
-/
namespace Shroud.Lex

/-! ### `run` is compositional -/

theorem run_append {σ : Type} (step : σ → Char → σ × List Out) (a b : List Char) :
    ∀ s : σ, run step s (a ++ b) =
      ((run step (run step s a).1 b).1, (run step s a).2 ++ (run step (run step s a).1 b).2) := by
  induction a with
  | nil => intro s; simp [run]
  | cons c cs ih => intro s; simp [run, ih, List.append_assoc]

theorem run_append_state {σ : Type} (step : σ → Char → σ × List Out) (a b : List Char) (s : σ) :
    (run step s (a ++ b)).1 = (run step (run step s a).1 b).1 := by
  rw [run_append]

theorem run_append_out {σ : Type} (step : σ → Char → σ × List Out) (a b : List Char) (s : σ) :
    (run step s (a ++ b)).2 = (run step s a).2 ++ (run step (run step s a).1 b).2 := by
  rw [run_append]

theorem run_singleton {σ : Type} (step : σ → Char → σ × List Out) (s : σ) (c : Char) :
    run step s [c] = step s c := by
  simp [run]

/-! ### separators -/

theorem pushTok_nil (l : List Tok) : pushTok [] l = l := by simp [pushTok]

theorem pushLine_nil (ls : List (List Tok)) : pushLine [] ls = ls := by simp [pushLine]

theorem parse_append (x y : List Out) : parse (x ++ y) = x.foldr consOut (parse y) := by
  simp [parse, List.foldr_append]

theorem parse_cons (o : Out) (z : List Out) : parse (o :: z) = consOut o (parse z) := by
  simp [parse]

theorem consOut_nl (a : Acc) : consOut .nl a = ⟨[], [], close a⟩ := by
  simp [consOut, close]

theorem parse_nl (z : List Out) : parse (.nl :: z) = ⟨[], [], tokens z⟩ := by
  simp [parse_cons, consOut_nl, tokens]

theorem tokens_sp (z : List Out) : tokens (.sp :: z) = tokens z := by
  simp [tokens, parse_cons, consOut, close, pushTok_nil]

theorem tokens_nl (z : List Out) : tokens (.nl :: z) = tokens z := by
  simp [tokens, parse_nl, close, pushTok_nil, pushLine_nil]

theorem tokens_ws (w z : List Out) (hw : w.all isWs = true) : tokens (w ++ z) = tokens z := by
  induction w with
  | nil => simp
  | cons o w ih =>
    simp only [List.all_cons, Bool.and_eq_true] at hw
    cases o with
    | sp => simpa [tokens_sp] using ih hw.2
    | nl => simpa [tokens_nl] using ih hw.2
    | ch c => simp [isWs] at hw
    | lit c => simp [isWs] at hw

/-- what follows a line end matters only through its tokens -/
theorem tokens_after_nl (x z1 z2 : List Out) (h : tokens z1 = tokens z2) :
    tokens (x ++ .nl :: z1) = tokens (x ++ .nl :: z2) := by
  have h' : close (parse z1) = close (parse z2) := h
  simp only [tokens, parse_append, parse_nl, h']

/-- separators inserted at a line boundary are invisible -/
theorem tokens_insert_ws (x w y : List Out) (hw : w.all isWs = true)
    (hx : x = [] ∨ ∃ x', x = x' ++ [.nl]) :
    tokens (x ++ w ++ y) = tokens (x ++ y) := by
  rcases hx with rfl | ⟨x', rfl⟩
  · simpa using tokens_ws w y hw
  · simp only [List.append_assoc, List.singleton_append]
    exact tokens_after_nl x' (w ++ y) y (tokens_ws w y hw)

/-- a separator directly before a line end is invisible -/
theorem tokens_sp_before_nl (x z : List Out) :
    tokens (x ++ .sp :: .nl :: z) = tokens (x ++ .nl :: z) := by
  have : parse (.sp :: .nl :: z) = parse (.nl :: z) := by
    simp [parse_cons (.sp), parse_nl, consOut, pushTok_nil]
  simp only [tokens, parse_append, this]

/-! ### files -/

theorem joinLines_append (a b : List Line) : joinLines (a ++ b) = joinLines a ++ joinLines b := by
  simp [joinLines]

theorem joinLines_cons (l : Line) (ls : List Line) :
    joinLines (l :: ls) = l ++ '\n' :: joinLines ls := by
  simp [joinLines]

theorem joinLines_nil : joinLines [] = [] := rfl

/-- a non-empty file ends with a newline -/
theorem joinLines_ends (ls : List Line) : joinLines ls = [] ∨ ∃ p, joinLines ls = p ++ ['\n'] := by
  induction ls with
  | nil => exact Or.inl rfl
  | cons l ls ih =>
    right
    rcases ih with h | ⟨p, h⟩
    · exact ⟨l, by simp [joinLines_cons, h]⟩
    · exact ⟨l ++ '\n' :: p, by simp [joinLines_cons, h]⟩

end Shroud.Lex
