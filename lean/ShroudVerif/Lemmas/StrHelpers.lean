import ShroudVerif.Model.StrHelpers
/-! Specifications of the byte loops of `Model/StrHelpers.lean` in terms of list operations.
    Buffers are split as `pre ++ (mid ++ post)`; an offset is `pre.length`. -/
namespace Shroud.Str

/- These four are deliberately NOT proved by `rfl`: a `rfl` simp lemma is applied by `dsimp`
   top-down, which instantiates the continuation with the whole (large) interpreter state before
   any projection is reduced and makes `simp` on `Model/StrStmts.lean` flows blow up. -/
@[simp] theorem Res.ok_bind {α β : Type} (a : α) (f : α → Res β) : (Res.ok a).bind f = f a := by
  cases h : f a <;> simp [Res.bind, h]
@[simp] theorem Res.oob_bind {α β : Type} (f : α → Res β) : (Res.oob : Res α).bind f = .oob := by
  simp [Res.bind]
@[simp] theorem Res.map_ok {α β : Type} (a : α) (f : α → β) : (Res.ok a).map f = .ok (f a) := by
  simp [Res.map]
@[simp] theorem Res.map_oob {α β : Type} (f : α → β) : (Res.oob : Res α).map f = .oob := by
  simp [Res.map]

theorem rd_lt {b : Buf} {i : Nat} (h : i < b.length) : rd b i = .ok b[i] := by simp [rd, h]
theorem rd_ge {b : Buf} {i : Nat} (h : b.length ≤ i) : rd b i = .oob := by
  simp only [rd]; rw [dif_neg]; omega
theorem wr_lt {b : Buf} {i : Nat} (v : Nat) (h : i < b.length) : wr b i v = .ok (b.set i v) := by simp [wr, h]
theorem wr_ge {b : Buf} {i : Nat} (v : Nat) (h : b.length ≤ i) : wr b i v = .oob := by
  simp only [wr]; rw [if_neg]; omega

theorem rd_app (pre : Buf) (x : Nat) (post : Buf) : rd (pre ++ x :: post) pre.length = .ok x := by
  simp [rd]

theorem wr_app (pre : Buf) (x : Nat) (post : Buf) (v : Nat) :
    wr (pre ++ x :: post) pre.length v = .ok (pre ++ v :: post) := by
  simp [wr]

/-- split a buffer at an offset and a length -/
theorem split3 (b : Buf) (off n : Nat) (h : off + n ≤ b.length) :
    b = b.take off ++ ((b.drop off).take n ++ b.drop (off + n)) ∧
    (b.take off).length = off ∧ ((b.drop off).take n).length = n := by
  refine ⟨?_, by simp; omega, by simp; omega⟩
  rw [← List.drop_drop, List.take_append_drop, List.take_append_drop]

theorem memset_app (pre mid post : Buf) (v : Nat) :
    memset (pre ++ (mid ++ post)) pre.length v mid.length
      = .ok (pre ++ (List.replicate mid.length v ++ post)) := by
  induction mid generalizing pre with
  | nil => simp [memset]
  | cons m ms ih =>
    simp only [memset, List.length_cons, List.cons_append, wr_app]
    have := ih (pre ++ [v])
    simp only [List.append_assoc, List.length_append, List.length_cons, List.length_nil,
      List.singleton_append, Nat.zero_add] at this
    rw [this]
    simp [List.replicate_succ]

theorem memset_ok (b : Buf) (off v n : Nat) (h : off + n ≤ b.length) :
    memset b off v n = .ok (b.take off ++ (List.replicate n v ++ b.drop (off + n))) := by
  obtain ⟨e, l1, l2⟩ := split3 b off n h
  have := memset_app (b.take off) ((b.drop off).take n) (b.drop (off + n)) v
  rw [← e, l1, l2] at this
  exact this

theorem memset_oob (b : Buf) (off v n : Nat) (hn : 0 < n) (h : b.length < off + n) : memset b off v n = .oob := by
  induction n generalizing b off with
  | zero => omega
  | succ n ih =>
    by_cases h1 : off < b.length
    · simp only [memset, wr_lt v h1]
      exact ih _ _ (by omega) (by rw [List.length_set]; omega)
    · simp [memset, wr_ge v (Nat.le_of_not_lt h1)]

theorem memcpy_app (dp dm dq sp sm sq : Buf) (h : dm.length = sm.length) :
    memcpy (dp ++ (dm ++ dq)) dp.length (sp ++ (sm ++ sq)) sp.length sm.length
      = .ok (dp ++ (sm ++ dq)) := by
  induction sm generalizing dp dm sp with
  | nil =>
    cases dm with
    | nil => simp [memcpy]
    | cons _ _ => simp at h
  | cons x xs ih =>
    cases dm with
    | nil => simp at h
    | cons y ys =>
      simp only [memcpy, List.length_cons, List.cons_append, rd_app, wr_app]
      have := ih (dp ++ [x]) ys (sp ++ [x]) (by simpa using h)
      simp only [List.append_assoc, List.length_append, List.length_cons, List.length_nil,
        List.singleton_append, Nat.zero_add] at this
      rw [this]

theorem memcpy_ok (d : Buf) (doff : Nat) (s : Buf) (soff n : Nat)
    (hd : doff + n ≤ d.length) (hs : soff + n ≤ s.length) :
    memcpy d doff s soff n = .ok (d.take doff ++ ((s.drop soff).take n ++ d.drop (doff + n))) := by
  obtain ⟨e, l1, l2⟩ := split3 d doff n hd
  obtain ⟨e', l1', l2'⟩ := split3 s soff n hs
  have := memcpy_app (d.take doff) ((d.drop doff).take n) (d.drop (doff + n))
    (s.take soff) ((s.drop soff).take n) (s.drop (soff + n)) (by rw [l2, l2'])
  rw [← e, ← e', l1, l1', l2'] at this
  exact this

/-- `strlen` on a buffer holding `str` (no NUL) followed by a NUL -/
theorem strlenAux_app (pre str post : Buf) (fuel : Nat) (h0 : ∀ c ∈ str, c ≠ NUL) (hf : str.length < fuel) :
    strlenAux (pre ++ (str ++ NUL :: post)) pre.length fuel = .ok str.length := by
  induction str generalizing pre fuel with
  | nil =>
    cases fuel with
    | zero => simp at hf
    | succ f => simp [strlenAux, rd_app]
  | cons x xs ih =>
    cases fuel with
    | zero => simp at hf
    | succ f =>
      have hx : x ≠ NUL := h0 x (by simp)
      simp only [strlenAux, List.cons_append, rd_app, hx, if_false]
      have := ih (pre ++ [x]) f (fun c hc => h0 c (by simp [hc])) (by simpa using hf)
      simp only [List.append_assoc, List.length_append, List.length_cons, List.length_nil,
        List.singleton_append, Nat.zero_add] at this
      rw [this]; simp

theorem strlen_app (str post : Buf) (h0 : ∀ c ∈ str, c ≠ NUL) :
    strlen (str ++ NUL :: post) = .ok str.length := by
  have := strlenAux_app [] str post ((str ++ NUL :: post).length + 1) h0 (by simp; omega)
  simpa [strlen] using this

/-- without a NUL in the rest of the buffer `strlen` runs off its end -/
theorem strlenAux_oob (b : Buf) (i fuel : Nat) (h0 : ∀ c ∈ b.drop i, c ≠ NUL) :
    strlenAux b i fuel = .oob := by
  induction fuel generalizing i with
  | zero => simp [strlenAux]
  | succ f ih =>
    by_cases hi : i < b.length
    · have hc : b[i] ≠ NUL := h0 _ (by
        rw [List.mem_iff_getElem]; exact ⟨0, by simp; omega, by simp⟩)
      simp only [strlenAux, rd_lt hi, hc, if_false]
      rw [ih (i + 1) (fun c hc => h0 c (by
        have : b.drop (i + 1) = (b.drop i).drop 1 := by simp
        rw [this] at hc; exact List.mem_of_mem_drop hc))]
      rfl
    · simp [strlenAux, rd_ge (Nat.le_of_not_lt hi)]

theorem strlen_oob (b : Buf) (h0 : ∀ c ∈ b, c ≠ NUL) : strlen b = .oob :=
  strlenAux_oob b 0 _ (by simpa using h0)

/-! ### trailing blanks -/

theorem rtrim_concat (s : List Nat) (c : Nat) :
    rtrim (s ++ [c]) = if c = BLANK then rtrim s else s ++ [c] := by
  by_cases h : c = BLANK <;> simp [rtrim, h]

theorem rtrim_length_le (s : List Nat) : (rtrim s).length ≤ s.length := by
  simp only [rtrim, List.length_reverse]
  have := (List.dropWhile_suffix (fun x => decide (x = BLANK)) (l := s.reverse)).length_le
  simpa using this

theorem rtrim_prefix (s : List Nat) : rtrim s = s.take (rtrim s).length := by
  have hs := List.dropWhile_suffix (fun x => decide (x = BLANK)) (l := s.reverse)
  obtain ⟨t, ht⟩ := hs
  have : s = rtrim s ++ t.reverse := by
    have := congrArg List.reverse ht
    simp only [List.reverse_append, List.reverse_reverse] at this
    simpa [rtrim] using this.symm
  calc rtrim s = (rtrim s ++ t.reverse).take (rtrim s).length := by simp
    _ = s.take (rtrim s).length := by rw [← this]

theorem lenTrimAt_app (pre s post : Buf) :
    lenTrimAt (pre ++ (s ++ post)) pre.length s.length = .ok (rtrim s).length := by
  generalize hn : s.length = n
  induction n generalizing s post with
  | zero =>
    have : s = [] := List.eq_nil_of_length_eq_zero hn
    subst this; simp [lenTrimAt, rtrim]
  | succ n ih =>
    have hne : s ≠ [] := by intro h; simp [h] at hn
    obtain ⟨s', c, rfl⟩ : ∃ s' c, s = s' ++ [c] := ⟨s.dropLast, s.getLast hne, (List.dropLast_concat_getLast hne).symm⟩
    have hl : s'.length = n := by simpa using hn
    have hrd : rd (pre ++ (s' ++ [c] ++ post)) (pre.length + n) = .ok c := by
      have := rd_app (pre ++ s') c post
      simpa [hl] using this
    simp only [lenTrimAt, hrd, rtrim_concat]
    by_cases hc : c = BLANK
    · simp only [hc, ne_eq, not_true_eq_false, if_false, if_true]
      have := ih s' (post := [BLANK] ++ post) hl
      simpa [hc] using this
    · simp [hc, hl]

theorem lenTrimAt_ok (b : Buf) (off n : Nat) (h : off + n ≤ b.length) :
    lenTrimAt b off n = .ok (rtrim ((b.drop off).take n)).length := by
  obtain ⟨e, l1, l2⟩ := split3 b off n h
  have := lenTrimAt_app (b.take off) ((b.drop off).take n) (b.drop (off + n))
  rw [← e, l1, l2] at this
  exact this

/-- the scan starts at the last byte: a length beyond the capacity is an out-of-bounds read -/
theorem lenTrimAt_oob (b : Buf) (off n : Nat) (hn : 0 < n) (h : b.length < off + n) : lenTrimAt b off n = .oob := by
  cases n with
  | zero => omega
  | succ n => simp [lenTrimAt, rd_ge (show b.length ≤ off + n by omega)]

/-! ### strncpy -/

theorem strncpy_app (dp dm dq sp sm sq : Buf) (hl : dm.length = sm.length) (hp : dp.length = sp.length)
    (h0 : ∀ c ∈ sm, c ≠ NUL) :
    strncpy (dp ++ (dm ++ dq)) (sp ++ (sm ++ sq)) dp.length sm.length = .ok (dp ++ (sm ++ dq)) := by
  induction sm generalizing dp dm sp with
  | nil =>
    cases dm with
    | nil => simp [strncpy]
    | cons _ _ => simp at hl
  | cons x xs ih =>
    cases dm with
    | nil => simp at hl
    | cons y ys =>
      have hr : rd (sp ++ x :: (xs ++ sq)) dp.length = .ok x := by rw [hp]; exact rd_app _ _ _
      have hx : x ≠ NUL := h0 x (by simp)
      simp only [strncpy, List.length_cons, hr, List.cons_append, wr_app, hx, if_false]
      have := ih (dp ++ [x]) ys (sp ++ [x]) (by simpa using hl) (by simp [hp])
        (fun c hc => h0 c (by simp [hc]))
      simp only [List.append_assoc, List.length_append, List.length_cons, List.length_nil,
        List.singleton_append, Nat.zero_add] at this
      rw [this]

/-- whatever the source holds, `strncpy(d+i, s+i, n)` writes exactly `d[i .. i+n)` and reads no
    further than `s[i+n)` -/
theorem strncpy_confined (dp dm dq s : Buf) (hs : dp.length + dm.length ≤ s.length) :
    ∃ r, strncpy (dp ++ (dm ++ dq)) s dp.length dm.length = .ok (dp ++ (r ++ dq)) ∧ r.length = dm.length := by
  induction dm generalizing dp with
  | nil => exact ⟨[], by simp [strncpy], rfl⟩
  | cons y ys ih =>
    have hi : dp.length < s.length := by simp at hs; omega
    simp only [strncpy, List.length_cons, rd_lt hi, List.cons_append, wr_app]
    by_cases hc : s[dp.length] = NUL
    · simp only [hc, if_true]
      have := memset_app (dp ++ [NUL]) ys dq NUL
      simp only [List.append_assoc, List.length_append, List.length_cons, List.length_nil,
        List.singleton_append, Nat.zero_add] at this
      exact ⟨NUL :: List.replicate ys.length NUL, by rw [this]; simp, by simp⟩
    · simp only [hc, if_false]
      obtain ⟨r, hr, hlen⟩ := ih (dp ++ [s[dp.length]]) (by simp at hs ⊢; omega)
      simp only [List.append_assoc, List.length_append, List.length_cons, List.length_nil,
        List.singleton_append, Nat.zero_add] at hr
      exact ⟨s[dp.length] :: r, by rw [hr]; simp, by simp [hlen]⟩

/-! ### `size_t` -> `int` -/

theorem narrow32_of_lt (n : Nat) (h : n < 2147483648) : narrow32 n = (n : Int) := by
  unfold narrow32; omega

theorem narrow32_two31 : narrow32 2147483648 = -2147483648 := by
  unfold narrow32; omega

/-! ### misc list facts -/

theorem takeWhile_app_stop {p : Nat → Bool} (l r : List Nat) (x : Nat) (hl : ∀ a ∈ l, p a = true) (hx : p x = false) :
    (l ++ x :: r).takeWhile p = l := by
  induction l with
  | nil => simp [hx]
  | cons a as ih =>
    have ha : p a = true := hl a (by simp)
    simp only [List.cons_append, List.takeWhile_cons, ha, if_true]
    rw [ih (fun b hb => hl b (by simp [hb]))]

theorem mem_rtrim {s : List Nat} {c : Nat} (h : c ∈ rtrim s) : c ∈ s := by
  rw [rtrim_prefix s] at h
  exact List.mem_of_mem_take h

theorem fassign_short (L : Nat) (s : List Nat) (h : s.length ≤ L) :
    fassign L s = s ++ List.replicate (L - s.length) BLANK := by
  simp only [fassign, List.take_append, List.take_replicate]
  rw [List.take_of_length_le h]
  congr 2; omega

theorem fassign_long (L : Nat) (s : List Nat) (h : L ≤ s.length) : fassign L s = s.take L := by
  simp only [fassign, List.take_append]
  have : L - s.length = 0 := by omega
  simp [this]

theorem fassign_length (L : Nat) (s : List Nat) : (fassign L s).length = L := by
  simp [fassign]

end Shroud.Str
