import ShroudVerif.Lemmas.Enum
/-! Lemmas for the emitted file blocks of C11 (rendering by `write_lines`, reading the block back). -/
namespace Shroud.Enum

/-! ### words inside lines -/

/-- a non-empty run of word characters -/
def isWord (w : Str) : Prop := w ≠ [] ∧ ∀ c ∈ w, isWordChar c = true

theorem isWord_of_isIdent {w : Str} (h : isIdent w = true) : isWord w := by
  obtain ⟨hne, hw, _⟩ := goodWord_identC h; exact ⟨hne, hw⟩

theorem isWord_of_isIdentF {w : Str} (h : isIdentF w = true) : isWord w := by
  obtain ⟨hne, hw, _⟩ := goodWord_identF h; exact ⟨hne, hw⟩

/-- `rest` does not continue a word -/
theorem takeWhile_word {w : Str} (hw : isWord w) (rest : Str) (hr : wordEnd rest = true) :
    (w ++ rest).takeWhile isWordChar = w ∧ (w ++ rest).dropWhile isWordChar = rest := by
  have h1 : rest.takeWhile isWordChar = [] ∧ rest.dropWhile isWordChar = rest := by
    cases rest with
    | nil => simp
    | cons c cs =>
      simp only [wordEnd, Bool.not_eq_true'] at hr
      simp [hr]
  rw [List.takeWhile_append_of_pos hw.2, List.dropWhile_append_of_pos hw.2, h1.1, h1.2]
  simp

theorem word_head_ne {w : Str} (hw : isWord w) : ∃ d ds, w = d :: ds ∧ isWordChar d = true := by
  obtain ⟨hne, h⟩ := hw
  cases w with
  | nil => exact absurd rfl hne
  | cons d ds => exact ⟨d, ds, rfl, h d (by simp)⟩

theorem trimL_indent (n : Nat) (s : Str) (h : ∀ d ds, s = d :: ds → d ≠ ' ') : trimL (indentOf n ++ s) = s := by
  have hall : ∀ c ∈ indentOf n, (decide (c = ' ')) = true := by
    intro c hc
    simp only [indentOf, List.mem_flatten, List.mem_replicate] at hc
    obtain ⟨l, ⟨_, rfl⟩, hc⟩ := hc
    simp at hc
    simp [hc]
  unfold trimL
  rw [List.dropWhile_append_of_pos hall]
  cases s with
  | nil => rfl
  | cons d ds => simp [h d ds rfl]

theorem word_not_space {d : Char} (h : isWordChar d = true) : d ≠ ' ' ∧ d ≠ '-' ∧ d ≠ '+' ∧ d ≠ '/' ∧ d ≠ '!' ∧ d ≠ ',' := by
  refine ⟨?_, ?_, ?_, ?_, ?_, ?_⟩ <;> (intro hd; subst hd; revert h; decide)


/-! ### rendering -/

/-- a line without `write_lines` directives -/
def Plain (l : Str) : Prop := (∃ c r, l = c :: r ∧ c ≠ '-') ∧ l.getLast? ≠ some '+'

theorem render_plain (n : Nat) {l : Str} (h : Plain l) (ls : List Str) :
    renderItems n (l :: ls) = (indentOf n ++ l) :: renderItems n ls := by
  obtain ⟨⟨c, r, rfl, hc⟩, hl⟩ := h
  rw [renderItems]
  simp [hc, hl]

theorem render_plains (n : Nat) (items : List Str) (h : ∀ l ∈ items, Plain l) (tail : List Str) :
    renderItems n (items ++ tail) = items.map (indentOf n ++ ·) ++ renderItems n tail := by
  induction items with
  | nil => rfl
  | cons l ls ih =>
    rw [List.cons_append, render_plain n (h l (by simp)), ih (fun x hx => h x (by simp [hx]))]
    rfl

theorem getLast?_append_ne {a b : Str} (hb : b ≠ []) : (a ++ b).getLast? = b.getLast? := by
  cases b with
  | nil => exact absurd rfl hb
  | cons c cs =>
    rw [List.getLast?_append]
    cases h : (c :: cs).getLast? with
    | none => simp at h
    | some x => rfl

/-! ### the C block -/

def cBody (o : Out) : Str :=
  o.cname ++ (match o.cvalue with | some t => " = ".toList ++ t | none => [])

theorem cMemberItem_eq (o : Out) : cMemberItem o = cBody o ++ [','] := by
  unfold cMemberItem cBody; cases o.cvalue <;> simp

/-- member lines after `output[-1] = output[-1][:-1]` -/
def bodiesC : List Out → List Str
  | [] => []
  | [o] => [cBody o]
  | o :: os => (cBody o ++ [',']) :: bodiesC os

theorem strip_items : ∀ os : List Out, os ≠ [] → stripLastChar (os.map cMemberItem) = bodiesC os := by
  intro os
  induction os with
  | nil => intro h; exact absurd rfl h
  | cons o os ih =>
    intro _
    cases os with
    | nil => simp [stripLastChar, bodiesC, cMemberItem_eq]
    | cons o' os' =>
      have := ih (by simp)
      simp only [List.map_cons] at this ⊢
      rw [stripLastChar, this]
      · simp only [bodiesC, cMemberItem_eq]
      · simp

/-- what the block reader needs to know about a member -/
def OutOKc (o : Out) : Prop := isWord o.cname ∧ ∀ t, o.cvalue = some t → t.getLast? ≠ some '+'

theorem cBody_facts {o : Out} (h : OutOKc o) :
    (∃ d r, cBody o = d :: r ∧ isWordChar d = true) ∧ (cBody o).getLast? ≠ some '+' := by
  obtain ⟨hw, hv⟩ := h
  obtain ⟨d, ds, hd, hdw⟩ := word_head_ne hw
  refine ⟨⟨d, ds ++ (match o.cvalue with | some t => " = ".toList ++ t | none => []), by simp [cBody, hd], hdw⟩, ?_⟩
  unfold cBody
  cases hc : o.cvalue with
  | none =>
    simp only [List.append_nil]
    intro hl
    have := List.mem_of_getLast? hl
    exact (word_not_space (hw.2 _ this)).2.2.1 rfl
  | some t =>
    simp only
    cases t with
    | nil => rw [getLast?_append_ne (by simp)]; decide
    | cons c cs =>
      rw [getLast?_append_ne (by simp), getLast?_append_ne (by simp)]
      exact hv _ hc

theorem parseMemberC_body {o : Out} (h : OutOKc o) :
    parseMemberC (indentOf 1 ++ cBody o) = some (o.cname, o.cvalue) := by
  obtain ⟨⟨d, r, hd, hdw⟩, _⟩ := cBody_facts h
  have htrim : trimL (indentOf 1 ++ cBody o) = cBody o :=
    trimL_indent 1 _ (by intro d' ds' h'; rw [hd] at h'; simp only [List.cons.injEq] at h'; rw [← h'.1]; exact (word_not_space hdw).1)
  unfold parseMemberC
  simp only [htrim]
  unfold cBody
  cases hc : o.cvalue with
  | none =>
    obtain ⟨h1, h2⟩ := takeWhile_word h.1 [] rfl
    simp only [List.append_nil] at h1 h2 ⊢
    rw [h1, h2]
    simp [h.1.1]
  | some t =>
    obtain ⟨h1, h2⟩ := takeWhile_word h.1 (" = ".toList ++ t) (by simp [wordEnd]; decide)
    simp only
    rw [h1, h2]
    simp [h.1.1]

theorem bodiesC_plain : ∀ os : List Out, (∀ o ∈ os, OutOKc o) → ∀ l ∈ bodiesC os, Plain l := by
  intro os
  induction os with
  | nil => intro _ l hl; simp [bodiesC] at hl
  | cons o os ih =>
    intro h l hl
    obtain ⟨⟨d, r, hd, hdw⟩, hlast⟩ := cBody_facts (h o (by simp))
    have hdm := (word_not_space hdw).2.1
    cases os with
    | nil =>
      simp only [bodiesC, List.mem_singleton] at hl
      subst hl
      exact ⟨⟨d, r, hd, hdm⟩, hlast⟩
    | cons o' os' =>
      simp only [bodiesC, List.mem_cons] at hl
      rcases hl with hl | hl
      · subst hl
        refine ⟨⟨d, r ++ [','], by simp [hd], hdm⟩, ?_⟩
        rw [getLast?_append_ne (by simp)]; decide
      · exact ih (fun x hx => h x (by simp [hx])) l (by simpa [bodiesC] using hl)

theorem parseMembersC_bodies : ∀ os : List Out, os ≠ [] → (∀ o ∈ os, OutOKc o) →
    parseMembersC ((bodiesC os).map (indentOf 1 ++ ·)) = some (header os) := by
  intro os
  induction os with
  | nil => intro h; exact absurd rfl h
  | cons o os ih =>
    intro _ h
    have ho := parseMemberC_body (h o (by simp))
    cases os with
    | nil => simp [bodiesC, parseMembersC, ho, header]
    | cons o' os' =>
      have ih' := ih (by simp) (fun x hx => h x (by simp [hx]))
      have hne : (bodiesC (o' :: os')).map (indentOf 1 ++ ·) ≠ [] := by
        cases os' <;> simp [bodiesC]
      have hstrip : stripComma (indentOf 1 ++ (cBody o ++ [','])) = some (indentOf 1 ++ cBody o) := by
        unfold stripComma
        rw [← List.append_assoc, getLast?_append_ne (by simp)]
        simp
      cases hb : (bodiesC (o' :: os')).map (indentOf 1 ++ ·) with
      | nil => exact absurd hb hne
      | cons l2 ls2 =>
        rw [hb] at ih'
        simp only [bodiesC, List.map_cons]
        rw [hb]
        simp only [parseMembersC, hstrip, ih', ho, Option.map_some, header, List.map_cons]



theorem stripLastChar_cons {l : Str} {ls : List Str} (h : ls ≠ []) :
    stripLastChar (l :: ls) = l :: stripLastChar ls := by
  cases ls with
  | nil => exact absurd rfl h
  | cons a as => rw [stripLastChar]; simp

theorem bodyBeforeClose_append (M : List Str) (l : Str) (h : (trimL l == "};".toList) = true) :
    bodyBeforeClose (M ++ [l]) = some M := by
  induction M with
  | nil => simp [bodyBeforeClose]; simpa using h
  | cons m M ih =>
    cases hM : M ++ [l] with
    | nil => simp at hM
    | cons a as =>
      rw [List.cons_append, hM, bodyBeforeClose, ← hM, ih]
      · rfl
      · simp

theorem word_last {w : Str} (hw : isWord w) : w.getLast? ≠ some '+' := by
  intro h
  exact (word_not_space (hw.2 _ (List.mem_of_getLast? h))).2.2.1 rfl

/-- the rendered C block, spelled out -/
theorem cBlock_eq (b : BlockCfg) (os : List Out) (hne : os ≠ []) (hos : ∀ o ∈ os, OutOKc o)
    (hen : isWord b.cfg.ename) (hwc : b.wrapC = true) :
    cBlock b os = [[], "//  ".toList ++ b.nsScope ++ b.cfg.ename, "enum ".toList ++ cEnumName b.cfg ++ " {".toList]
      ++ (bodiesC os).map (indentOf 1 ++ ·) ++ ["};".toList] := by
  have hm : os.map cMemberItem ≠ [] := by simpa using hne
  have hcmt : Plain ("//  ".toList ++ b.nsScope ++ b.cfg.ename) := by
    refine ⟨⟨'/', "/  ".toList ++ b.nsScope ++ b.cfg.ename, by simp, by decide⟩, ?_⟩
    rw [getLast?_append_ne hen.1]; exact word_last hen
  have hemp : os.isEmpty = false := by cases os <;> simp_all
  unfold cBlock cItems
  simp only [hwc, Bool.not_true, hemp, Bool.false_eq_true, if_false, List.cons_append, List.nil_append]
  rw [stripLastChar_cons (by simp), stripLastChar_cons (by simp), stripLastChar_cons hm, strip_items os hne]
  simp only [List.cons_append]
  rw [renderItems]
  simp only [List.isEmpty_nil, if_true]
  rw [render_plain 0 hcmt, renderItems]
  have h1 : ("enum ".toList ++ cEnumName b.cfg ++ " {+".toList).isEmpty = false := by simp
  have h2 : ("enum ".toList ++ cEnumName b.cfg ++ " {+".toList).head? ≠ some '-' := by simp
  have h3 : ("enum ".toList ++ cEnumName b.cfg ++ " {+".toList).getLast? = some '+' := by
    rw [getLast?_append_ne (by simp)]; rfl
  have h4 : ("enum ".toList ++ cEnumName b.cfg ++ " {+".toList).dropLast
      = "enum ".toList ++ cEnumName b.cfg ++ " {".toList := by
    rw [List.dropLast_append_of_ne_nil (by simp)]; rfl
  simp only [h1, h2, h3, h4, if_false, if_true, Bool.false_eq_true]
  rw [render_plains 1 (bodiesC os) (bodiesC_plain os hos)]
  simp [renderItems, indentOf]

theorem parseBlockC_cBlock (b : BlockCfg) (os : List Out) (hne : os ≠ []) (hos : ∀ o ∈ os, OutOKc o)
    (hen : isWord b.cfg.ename) (hcn : isIdent (cEnumName b.cfg) = true) (hwc : b.wrapC = true) :
    parseBlockC (cBlock b os) = some (header os) := by
  rw [cBlock_eq b os hne hos hen hwc]
  have hX := isWord_of_isIdent hcn
  have hskip1 : isBlankOrCommentC ([] : Str) = true := rfl
  have hskip2 : isBlankOrCommentC ("//  ".toList ++ b.nsScope ++ b.cfg.ename) = true := by
    simp [isBlankOrCommentC, trimL, startsWith]
  have htrim : trimL ("enum ".toList ++ cEnumName b.cfg ++ " {".toList)
      = "enum ".toList ++ cEnumName b.cfg ++ " {".toList := by simp [trimL]
  have hhead : isBlankOrCommentC ("enum ".toList ++ cEnumName b.cfg ++ " {".toList) = false := by
    unfold isBlankOrCommentC; rw [htrim]; simp [startsWith]
  have htw := takeWhile_word hX " {".toList (by decide)
  have hEnum : isEnumHead ("enum ".toList ++ cEnumName b.cfg ++ " {".toList) = true := by
    have hdrop : List.drop 5 ("enum ".toList ++ cEnumName b.cfg ++ " {".toList) = cEnumName b.cfg ++ " {".toList := by
      simp
    unfold isEnumHead
    simp only [htrim, hdrop, htw.1, htw.2, hcn]
    simp [startsWith]
  unfold parseBlockC
  simp only [List.cons_append, List.nil_append, List.dropWhile_cons, hskip1, hskip2, hhead, if_true,
    Bool.false_eq_true, if_false, hEnum]
  rw [bodyBeforeClose_append _ _ (by decide)]
  simpa using parseMembersC_bodies os hne hos



/-! ### the Fortran block -/

def OutOKf (o : Out) : Prop := isWord o.fname ∧ o.fvalue.getLast? ≠ some '+'

theorem fp_head : ∃ r, fParamPrefix = 'i' :: r := ⟨fParamPrefix.tail, by rfl⟩

theorem startsWith_append (p x : Str) : startsWith p (p ++ x) = true := by
  simp [startsWith]

theorem fMemberItem_assoc (o : Out) :
    fMemberItem o = fParamPrefix ++ (o.fname ++ (" = ".toList ++ o.fvalue)) := by
  simp [fMemberItem]

theorem fMemberItem_plain {o : Out} (h : OutOKf o) : Plain (fMemberItem o) := by
  obtain ⟨r, hr⟩ := fp_head
  refine ⟨⟨'i', r ++ (o.fname ++ (" = ".toList ++ o.fvalue)), by rw [fMemberItem_assoc, hr]; rfl, by decide⟩, ?_⟩
  rw [fMemberItem_assoc]
  cases hv : o.fvalue with
  | nil =>
    rw [getLast?_append_ne (by simp), getLast?_append_ne (by simp)]; decide
  | cons c cs =>
    rw [getLast?_append_ne (by simp), getLast?_append_ne (by simp), getLast?_append_ne (by simp), ← hv]; exact h.2

theorem parseMemberF_item {o : Out} (h : OutOKf o) :
    isBlankOrCommentF (indentOf 1 ++ fMemberItem o) = false ∧
    parseMemberF (indentOf 1 ++ fMemberItem o) = some (o.fname, o.fvalue) := by
  obtain ⟨r, hr⟩ := fp_head
  have hitem : fMemberItem o = 'i' :: (r ++ (o.fname ++ (" = ".toList ++ o.fvalue))) := by
    rw [fMemberItem_assoc, hr]; rfl
  have htrim : trimL (indentOf 1 ++ fMemberItem o) = fMemberItem o :=
    trimL_indent 1 _ (by intro d ds hd; rw [hitem] at hd; simp only [List.cons.injEq] at hd; rw [← hd.1]; decide)
  have hpre : startsWith fParamPrefix (fMemberItem o) = true := by
    rw [fMemberItem_assoc]; exact startsWith_append _ _
  have hdrop : (fMemberItem o).drop fParamPrefix.length = o.fname ++ (" = ".toList ++ o.fvalue) := by
    rw [fMemberItem_assoc]; exact List.drop_left
  obtain ⟨h1, h2⟩ := takeWhile_word h.1 (" = ".toList ++ o.fvalue) (by simp [wordEnd]; decide)
  constructor
  · unfold isBlankOrCommentF; rw [htrim, hitem]
    simp [startsWith]
  · unfold parseMemberF
    simp only [htrim, hpre, if_true, hdrop, h1, h2]
    simp [h.1.1]

theorem parseBlockF_members : ∀ os : List Out, (∀ o ∈ os, OutOKf o) →
    parseBlockF ((os.map fMemberItem).map (indentOf 1 ++ ·)) = some (fmodule os) := by
  intro os
  induction os with
  | nil => intro _; rfl
  | cons o os ih =>
    intro h
    obtain ⟨h1, h2⟩ := parseMemberF_item (h o (by simp))
    have := ih (fun x hx => h x (by simp [hx]))
    simp only [List.map_cons, parseBlockF, h1, Bool.false_eq_true, if_false, h2, this, fmodule]

theorem fBlock_parse (b : BlockCfg) (os : List Out) (hos : ∀ o ∈ os, OutOKf o) (hen : isWord b.cfg.ename)
    (hwf : b.wrapF = true) :
    parseBlockF (fBlock b os) = some (fmodule os) := by
  let cmt : Str := (if b.scopeWord.isEmpty then "!  enum ".toList
        else "!  enum ".toList ++ b.scopeWord ++ [' ']) ++ b.nsScope ++ b.cfg.ename
  have hc1 : ∃ r, cmt = '!' :: r := by
    simp only [cmt]; split <;> exact ⟨_, by simp; rfl⟩
  obtain ⟨r, hr⟩ := hc1
  have hcmt : Plain cmt := by
    refine ⟨⟨'!', r, hr, by decide⟩, ?_⟩
    simp only [cmt]
    rw [getLast?_append_ne hen.1]; exact word_last hen
  have hskip : isBlankOrCommentF (indentOf 1 ++ cmt) = true := by
    have : trimL (indentOf 1 ++ cmt) = cmt := trimL_indent 1 _ (by intro d ds hd; rw [hr] at hd; simp at hd; rw [← hd.1]; decide)
    unfold isBlankOrCommentF; rw [this, hr]; simp [startsWith]
  have hplain : ∀ l ∈ os.map fMemberItem, Plain l := by
    intro l hl
    obtain ⟨o, ho, rfl⟩ := List.mem_map.mp hl
    exact fMemberItem_plain (hos o ho)
  have hb : fBlock b os = [[], indentOf 1 ++ cmt] ++ (os.map fMemberItem).map (indentOf 1 ++ ·) := by
    unfold fBlock fItems
    simp only [hwf, Bool.not_true, Bool.false_eq_true, if_false, List.cons_append, List.nil_append]
    rw [renderItems]
    simp only [List.isEmpty_nil, if_true]
    rw [render_plain 1 hcmt]
    have := render_plains 1 (os.map fMemberItem) hplain []
    simp only [List.append_nil] at this
    rw [this]; simp [renderItems]
  rw [hb]
  have hblank : isBlankOrCommentF ([] : Str) = true := rfl
  simp only [List.cons_append, List.nil_append, parseBlockF, hblank, hskip, if_true]
  exact parseBlockF_members os hos



/-! ### the last character of what Shroud writes for a value -/

def goodLast (t : Str) : Prop := ∃ c, t.getLast? = some c ∧ (isWordChar c = true ∨ c = ')')

theorem goodLast_ne_plus {t : Str} (h : goodLast t) : t.getLast? ≠ some '+' := by
  obtain ⟨c, hc, hw⟩ := h
  rw [hc]
  intro heq
  simp only [Option.some.injEq] at heq
  subst heq
  rcases hw with hw | hw
  · revert hw; decide
  · revert hw; decide

theorem goodLast_word {w : Str} (hw : isWord w) : goodLast w := by
  cases h : List.getLast? w with
  | none => exact absurd (List.getLast?_eq_none_iff.mp h) hw.1
  | some c => exact ⟨c, h, Or.inl (hw.2 c (List.mem_of_getLast? h))⟩

theorem goodLast_append {a b : Str} (hb : b ≠ []) (h : goodLast b) : goodLast (a ++ b) := by
  unfold goodLast; rw [getLast?_append_ne hb]; exact h

theorem goodLast_ne_nil {t : Str} (h : goodLast t) : t ≠ [] := by
  obtain ⟨c, hc, _⟩ := h
  intro ht; subst ht; simp at hc

theorem goodLast_cons (c : Char) {t : Str} (h : goodLast t) : goodLast (c :: t) := by
  have := goodLast_append (a := [c]) (goodLast_ne_nil h) h
  simpa using this

theorem goodLast_wrapSigned {p : Str} (h : goodLast p) : goodLast (wrapSigned p) := by
  unfold wrapSigned
  split
  · have : goodLast ([')'] : Str) := ⟨')', rfl, Or.inr rfl⟩
    have := goodLast_append (a := '(' :: p) (by simp) this
    simpa using this
  · exact h

theorem print_last {fid flit : Str → Str}
    (hlit : ∀ t, t ≠ [] → t.all Char.isDigit = true → isWord (flit t))
    (hid : ∀ n, isIdent n = true → isWord (fid n)) :
    ∀ e : Expr, e.wf = true → goodLast (printWith fid flit e) := by
  intro e
  induction e with
  | lit t =>
    intro hwf
    simp only [Expr.wf, Bool.and_eq_true, decide_eq_true_eq] at hwf
    exact goodLast_word (hlit t (by simpa using hwf.1) hwf.2)
  | id n => intro hwf; exact goodLast_word (hid n (by simpa [Expr.wf] using hwf))
  | paren e _ =>
    intro _
    have : goodLast ([')'] : Str) := ⟨')', rfl, Or.inr rfl⟩
    have := goodLast_append (a := '(' :: printWith fid flit e) (by simp) this
    simpa [printWith] using this
  | un s e ih =>
    intro hwf
    rw [wf_un] at hwf
    simp only [Bool.and_eq_true] at hwf
    exact goodLast_cons _ (goodLast_wrapSigned (ih hwf.1))
  | bin l op r _ ihr =>
    intro hwf
    rw [wf_bin] at hwf
    simp only [Bool.and_eq_true] at hwf
    have h := goodLast_cons op.ch (goodLast_wrapSigned (ihr hwf.1.1.2))
    exact goodLast_append (goodLast_ne_nil h) h

theorem showNat_word (k : Nat) : isWord (showNat k) :=
  ⟨(showNat_spec k).1, fun c hc => isDigit_word ((showNat_spec k).2.1 c hc)⟩

theorem goodLast_showInt (v : Int) : goodLast (showInt v) := by
  cases v with
  | ofNat n => exact goodLast_word (showNat_word n)
  | negSucc n => exact goodLast_cons _ (goodLast_word (showNat_word (n + 1)))

theorem goodLast_plusN (b : Str) (k : Nat) : goodLast (plusN b k) := by
  have h := goodLast_cons '+' (goodLast_word (showNat_word k))
  exact goodLast_append (goodLast_ne_nil h) h

theorem o2d_word {t : Str} (hne : t ≠ []) (hd : t.all Char.isDigit = true) : isWord (octalToDecimal t) := by
  obtain ⟨h1, h2⟩ := o2d_digits hne hd
  exact ⟨h1, fun c hc => isDigit_word (List.all_eq_true.mp h2 c hc)⟩

/-! ### renamed identifiers are words -/

theorem lookup_map_some (g : Str → Str) (l : List Str) (n v : Str)
    (h : (l.map (fun k => (k, g k))).lookup n = some v) : v = g n ∧ n ∈ l := by
  induction l with
  | nil => simp at h
  | cons a l ih =>
    simp only [List.map_cons, List.lookup_cons] at h
    by_cases ha : n = a
    · subst ha; simp at h; exact ⟨h.symm, by simp⟩
    · have : (n == a) = false := by simpa using ha
      rw [this] at h
      obtain ⟨h1, h2⟩ := ih h
      exact ⟨h1, by simp [h2]⟩

theorem rename_word {c : Cfg} {ms : List Member} (hok : EnumOK c ms) {n : Str} (hn : isIdent n = true) :
    isWord (rename (csyms c ms) n) ∧ isWord (rename (fsyms c ms) n) := by
  have hc : csyms c ms = ((names ms).reverse).map (fun k => (k, cName c k)) := by
    simp [csyms, names, List.map_reverse, Function.comp_def]
  have hf : fsyms c ms = ((names ms).reverse).map (fun k => (k, fName c k)) := by
    simp [fsyms, names, List.map_reverse, Function.comp_def]
  constructor
  · unfold rename
    cases h : (csyms c ms).lookup n with
    | none => exact isWord_of_isIdent hn
    | some v =>
      rw [hc] at h
      obtain ⟨rfl, hm⟩ := lookup_map_some _ _ _ _ h
      exact isWord_of_isIdent (hok.cident n (by simpa using hm))
  · unfold rename
    cases h : (fsyms c ms).lookup n with
    | none => exact isWord_of_isIdent hn
    | some v =>
      rw [hf] at h
      obtain ⟨rfl, hm⟩ := lookup_map_some _ _ _ _ h
      exact isWord_of_isIdentF (hok.fident n (by simpa using hm))

/-- every member written by the loop can be rendered and read back -/
theorem enumLoop_ok {c : Cfg} {ms : List Member} (hok : EnumOK c ms) :
    ∀ (rest : List Member) (st : St), (∀ m ∈ rest, m ∈ ms) →
      ∀ o ∈ enumLoop c (csyms c ms) (fsyms c ms) st rest, OutOKc o ∧ OutOKf o := by
  intro rest
  induction rest with
  | nil => intro st _ o ho; simp [enumLoop] at ho
  | cons m rest ih =>
    intro st hmem o ho
    obtain ⟨n, oe⟩ := m
    have hn : n ∈ names ms := List.mem_map.mpr ⟨(n, oe), hmem _ (by simp), rfl⟩
    have hcw := isWord_of_isIdent (hok.cident n hn)
    have hfw := isWord_of_isIdentF (hok.fident n hn)
    have hmem' : ∀ m ∈ rest, m ∈ ms := fun m hm => hmem m (by simp [hm])
    cases oe with
    | none =>
      simp only [enumLoop, List.mem_cons] at ho
      rcases ho with rfl | ho
      · refine ⟨⟨hcw, by intro t ht; simp at ht⟩, hfw, ?_⟩
        cases st with
        | int k => exact goodLast_ne_plus (goodLast_showInt k)
        | text cb fb k => exact goodLast_ne_plus (goodLast_plusN fb k)
      · exact ih _ hmem' o ho
    | some e =>
      have hwf : e.wf = true := hok.wf (n, some e) (hmem _ (by simp)) e rfl
      cases hpy : pyIntLiteral (printNode e) with
      | some pv =>
        simp only [enumLoop, hpy, List.mem_cons] at ho
        rcases ho with rfl | ho
        · exact ⟨⟨hcw, by intro t ht; simp only [Option.some.injEq] at ht; subst ht; exact goodLast_ne_plus (goodLast_showInt pv)⟩,
            hfw, goodLast_ne_plus (goodLast_showInt pv)⟩
        · exact ih _ hmem' o ho
      | none =>
        simp only [enumLoop, hpy, List.mem_cons] at ho
        rcases ho with rfl | ho
        · have hC := print_last (fid := rename (csyms c ms)) (flit := octalToDecimal) (fun t h1 h2 => o2d_word h1 h2)
            (fun n hn => (rename_word hok hn).1) e hwf
          have hF := print_last (fid := rename (fsyms c ms)) (flit := octalToDecimal) (fun t h1 h2 => o2d_word h1 h2)
            (fun n hn => (rename_word hok hn).2) e hwf
          exact ⟨⟨hcw, by intro t ht; simp only [Option.some.injEq] at ht; subst ht; exact goodLast_ne_plus hC⟩,
            hfw, goodLast_ne_plus hF⟩
        · exact ih _ hmem' o ho


end Shroud.Enum
