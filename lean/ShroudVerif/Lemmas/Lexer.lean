import ShroudVerif.Model.Lexer
/-! The character-level tokenizer consumes its input completely and never fails. -/
namespace Shroud.Lexer
open Shroud.Decl

theorem spanP_append (p : Char → Bool) : ∀ s, (spanP p s).1 ++ (spanP p s).2 = s := by
  intro s
  induction s with
  | nil => rfl
  | cons c cs ih =>
    simp only [spanP]
    split
    · simp [ih]
    · rfl

theorem digits_append (s : List Char) : digits s ++ afterDigits s = s := spanP_append isDigit s

theorem exponent_append (s t r : List Char) (h : exponent s = some (t, r)) : t ++ r = s ∧ t ≠ [] := by
  cases s with
  | nil => simp [exponent] at h
  | cons e r0 =>
    simp only [exponent] at h
    by_cases he : e = 'E' ∨ e = 'e'
    · simp only [he, if_true] at h
      cases r0 with
      | nil => simp at h
      | cons sg r1 =>
        simp only [] at h
        by_cases hs : sg = '+' ∨ sg = '-'
        · simp only [hs, if_true] at h
          by_cases hd : (digits r1).isEmpty = true
          · simp [hd] at h
          · simp only [hd, if_false] at h
            cases h
            exact ⟨by simp [digits_append], by simp⟩
        · simp only [hs, if_false] at h
          by_cases hd : (digits (sg :: r1)).isEmpty = true
          · simp [hd] at h
          · simp only [hd, if_false] at h
            cases h
            exact ⟨by simp [digits_append], by simp⟩
    · simp [he] at h

theorem mantissa_append (s m rm : List Char) (h : mantissa s = some (m, rm)) : m ++ rm = s ∧ m ≠ [] := by
  unfold mantissa at h
  have hs := digits_append s
  split at h
  · rename_i r1 heq
    have h1 := digits_append r1
    rw [heq] at hs
    by_cases hd : (digits s).isEmpty = true
    · simp only [hd, Bool.not_true, Bool.false_eq_true, if_false] at h
      by_cases hd2 : (digits r1).isEmpty = true
      · simp [hd2] at h
      · simp only [hd2, Bool.not_false, if_true] at h
        cases h
        have hnil : digits s = [] := by simpa using hd
        rw [hnil] at hs
        refine ⟨?_, by simp⟩
        simp only [List.nil_append] at hs
        conv => rhs; rw [← hs]
        simp [h1]
    · simp only [hd, Bool.not_false, if_true] at h
      cases h
      refine ⟨?_, by simp⟩
      conv => rhs; rw [← hs]
      simp [h1]
  · cases h

theorem lexReal_append (s t r : List Char) (h : lexReal s = some (t, r)) : t ++ r = s ∧ t ≠ [] := by
  unfold lexReal at h
  split at h
  · rename_i m rm hm
    have hk := mantissa_append s m rm hm
    split at h
    · rename_i e re he
      have := exponent_append _ _ _ he
      cases h
      exact ⟨by rw [List.append_assoc, this.1, hk.1], by simp [hk.2]⟩
    · cases h; exact hk
  · by_cases hd : (digits s).isEmpty = true
    · simp [hd] at h
    · simp only [hd] at h
      cases he : exponent (afterDigits s) with
      | none => rw [he] at h; simp at h
      | some er =>
        obtain ⟨e, re⟩ := er
        rw [he] at h
        simp at h
        obtain ⟨rfl, rfl⟩ := h
        have := exponent_append _ _ _ he
        refine ⟨by rw [List.append_assoc, this.1, digits_append], ?_⟩
        intro hh
        simp at hh
        exact hd (by simp [hh.1])

theorem lexQuoted_append (q : Char) (s t r : List Char) (h : lexQuoted q s = some (t, r)) : t ++ r = s ∧ t ≠ [] := by
  cases s with
  | nil => simp [lexQuoted] at h
  | cons c cs =>
    simp only [lexQuoted] at h
    by_cases hc : c = q
    · simp only [hc, if_true] at h
      have := spanP_append (fun x => x ≠ q) cs
      split at h
      · rename_i c2 r2 heq
        by_cases h2 : c2 = q
        · simp only [h2, if_true] at h
          cases h
          rw [heq] at this
          refine ⟨?_, by simp⟩
          conv => rhs; rw [← this]
          simp [hc, h2]
        · simp [h2] at h
      · cases h
    · simp [hc] at h

/-- one step always matches a non-empty prefix of a non-empty input -/
theorem lexOne_spec (s : List Char) (hne : s ≠ []) :
    ∃ k t r, lexOne s = some (k, t, r) ∧ t ++ r = s ∧ t ≠ [] := by
  cases s with
  | nil => exact absurd rfl hne
  | cons c cs =>
    unfold lexOne
    simp only []
    split
    · rename_i t r h
      exact ⟨_, t, r, rfl, lexReal_append _ _ _ h⟩
    · split
      · rename_i hd
        refine ⟨_, _, _, rfl, digits_append (c :: cs), ?_⟩
        simp [digits, spanP, hd]
      · split
        · rename_i t r h
          exact ⟨_, t, r, rfl, lexQuoted_append _ _ _ _ h⟩
        · split
          · rename_i t r h
            exact ⟨_, t, r, rfl, lexQuoted_append _ _ _ _ h⟩
          · split
            · exact ⟨_, _, _, rfl, rfl, by simp⟩
            · split
              · rename_i hc
                split
                · rename_i r heq
                  exact ⟨_, _, _, rfl, by simp [hc, heq], by simp⟩
                · exact ⟨_, _, _, rfl, rfl, by simp⟩
              · split
                · rename_i hc
                  split
                  · rename_i r heq
                    exact ⟨_, _, _, rfl, by simp [hc, heq], by simp⟩
                  · exact ⟨_, _, _, rfl, rfl, by simp⟩
                · split
                  · rename_i hid
                    have := spanP_append isIdChar (c :: cs)
                    refine ⟨_, _, _, rfl, this, ?_⟩
                    have : isIdChar c = true := by simp [isIdChar, hid]
                    simp [spanP, this]
                  · split
                    · exact ⟨_, _, _, rfl, rfl, by simp⟩
                    · split
                      · exact ⟨_, _, _, rfl, rfl, by simp⟩
                      · exact ⟨_, _, _, rfl, rfl, by simp⟩

def textOf (ps : List Piece) : List Char := (ps.map (·.text)).flatten

/-- with enough fuel the loop ends normally and the pieces, in order, spell the input -/
theorem pieces_spec : ∀ (n : Nat) (s : List Char) (acc : List Piece), n > s.length →
    ∃ ps, pieces n s acc = .ok ps ∧ textOf ps = textOf acc.reverse ++ s := by
  intro n
  induction n with
  | zero => intro s acc h; omega
  | succ n ih =>
    intro s acc h
    cases s with
    | nil => exact ⟨acc.reverse, by simp [pieces], by simp⟩
    | cons c cs =>
      obtain ⟨k, t, r, h1, h2, h3⟩ := lexOne_spec (c :: cs) (by simp)
      have hlen : r.length < (c :: cs).length := by
        rw [← h2]
        cases t with
        | nil => exact absurd rfl h3
        | cons a as => simp; omega
      obtain ⟨ps, hp, ht⟩ := ih r ({ kind := k, text := t } :: acc) (by omega)
      refine ⟨ps, ?_, ?_⟩
      · simp only [pieces, h1]; exact hp
      · rw [ht, ← h2]
        simp [textOf, List.append_assoc]

end Shroud.Lexer
