import ShroudVerif.Model.LuaDispatch
/-! Helper lemmas for C18 (Lua dispatch). -/
namespace Shroud.LuaDispatch

/-! ### stack indexing -/

theorem at_succ_of_lt (s : Stack) (i : Nat) (h : i < s.length) : s.at (i + 1) = s[i] := by
  simp [Stack.at, h]

theorem at_cons_succ (v : Val) (s : Stack) (i : Nat) : Stack.at (v :: s) (i + 2) = Stack.at s (i + 1) := by
  simp [Stack.at]

theorem at_above (s : Stack) (i : Nat) (h : s.length ≤ i) : s.at (i + 1) = Val.absent := by
  simp [Stack.at, h]

/-- reading `n` consecutive indices starting at `i+1` gives the stack segment -/
theorem map_at_idxFrom (s : Stack) : ∀ (n i : Nat), i + n ≤ s.length →
    (idxFrom (i + 1) n).map s.at = (s.drop i).take n := by
  intro n
  induction n with
  | zero => intro i _; simp [idxFrom]
  | succ n ih =>
    intro i h
    have hi : i < s.length := by omega
    rw [idxFrom, List.map_cons, ih (i + 1) (by omega), at_succ_of_lt s i hi,
      List.drop_eq_getElem_cons hi, List.take_succ_cons]

/-- the emitted `lua_type` tests hold exactly when the stack segment has the tags -/
theorem checksHold_checksFrom (s : Stack) : ∀ (ts : List LType) (i : Nat), i + ts.length ≤ s.length →
    (checksHold s (checksFrom (i + 1) ts) = true ↔ ((s.drop i).take ts.length).map (·.ty) = ts) := by
  intro ts
  induction ts with
  | nil => intro i _; simp [checksFrom, checksHold]
  | cons t ts ih =>
    intro i h
    have hi : i < s.length := by simp at h; omega
    have h' : i + 1 + ts.length ≤ s.length := by simp at h; omega
    have := ih (i + 1) h'
    simp only [checksHold] at this
    simp only [checksFrom, checksHold, List.all_cons, Bool.and_eq_true, beq_iff_eq, List.length_cons]
    rw [this, at_succ_of_lt s i hi, List.drop_eq_getElem_cons hi, List.take_succ_cons, List.map_cons,
      List.cons.injEq]

/-! ### `all_calls` -/

theorem nargs_callsOfParams (k : Kind) (i : Nat) (o : Overload) :
    ∀ (ps seen : List Param) (c : Call), c ∈ callsOfParams (mkCall k i o) seen ps →
      c.nargs ≤ seen.length + ps.length := by
  intro ps
  induction ps with
  | nil =>
    intro seen c hc
    simp [callsOfParams] at hc
    subst hc
    simp [mkCall, Call.nargs]
  | cons p ps ih =>
    intro seen c hc
    simp only [callsOfParams, List.mem_append] at hc
    rcases hc with hc | hc
    · split at hc
      · simp at hc; subst hc; simp [mkCall, Call.nargs]
      · simp at hc
    · have := ih (seen ++ [p]) c hc
      simp at this ⊢
      omega

theorem nargs_callsFrom (k : Kind) : ∀ (ovs : List Overload) (i : Nat) (c : Call),
    c ∈ callsFrom k i ovs → c.nargs ≤ maxargs ovs := by
  intro ovs
  induction ovs with
  | nil => intro i c hc; simp [callsFrom] at hc
  | cons o os ih =>
    intro i c hc
    simp only [callsFrom, List.mem_append] at hc
    simp only [maxargs]
    rcases hc with hc | hc
    · have := nargs_callsOfParams k i o o.params [] c hc
      simp at this
      omega
    · have := ih (i + 1) c hc
      omega

theorem callsOfParams_ne_nil (mk : List Param → Call) : ∀ (ps seen : List Param),
    callsOfParams mk seen ps ≠ [] := by
  intro ps
  induction ps with
  | nil => intro seen; simp [callsOfParams]
  | cons p ps ih => intro seen; simp [callsOfParams, ih]

/-! ### the decision list of one count -/

theorem branchesFor_nil_of_forall (k : Kind) (l : Layout) (n : Nat) : ∀ (calls : List Call) (ci : Nat),
    (∀ c ∈ calls, c.nargs ≠ n) → branchesFor k l n ci calls = [] := by
  intro calls
  induction calls with
  | nil => intro ci _; rfl
  | cons c cs ih =>
    intro ci h
    have hc : c.nargs ≠ n := h c (by simp)
    simp only [branchesFor, hc, if_false]
    exact ih (ci + 1) (fun c' hc' => h c' (by simp [hc']))

theorem length_branchesFor (k : Kind) (l : Layout) (n : Nat) : ∀ (calls : List Call) (ci : Nat),
    (branchesFor k l n ci calls).length = (byCount calls n).length := by
  intro calls
  induction calls with
  | nil => intro ci; rfl
  | cons c cs ih =>
    intro ci
    by_cases hc : c.nargs = n
    · simp [branchesFor, byCount, hc]
      simpa [byCount] using ih (ci + 1)
    · simp [branchesFor, byCount, hc]
      simpa [byCount] using ih (ci + 1)

theorem checks_branchesFor_zero (k : Kind) (l : Layout) : ∀ (calls : List Call) (ci : Nat),
    ∀ b ∈ branchesFor k l 0 ci calls, b.checks = [] := by
  intro calls
  induction calls with
  | nil => intro ci b hb; simp [branchesFor] at hb
  | cons c cs ih =>
    intro ci b hb
    by_cases hc : c.nargs = 0
    · simp only [branchesFor, hc, if_true, List.mem_cons] at hb
      rcases hb with hb | hb
      · subst hb
        have : c.types = [] := by simpa [Call.nargs] using hc
        simp [branchOf, this, checksFrom]
      · exact ih (ci + 1) b hb
    · simp only [branchesFor, hc, if_false] at hb
      exact ih (ci + 1) b hb

theorem firstMatch_some_types (ts : List LType) : ∀ (calls : List Call) (i j : Nat) (c : Call),
    firstMatch ts i calls = some (j, c) → c.types = ts := by
  intro calls
  induction calls with
  | nil => intro i j c h; simp [firstMatch] at h
  | cons c' cs ih =>
    intro i j c h
    simp only [firstMatch] at h
    split at h
    · simp at h; obtain ⟨_, rfl⟩ := h; assumption
    · exact ih _ _ _ h

/-- the `if / else if` chain of `case n` selects the first call (declaration order) whose
    parameter tags equal the tags of the `n` values above the object -/
theorem runChain_branchesFor (selfOk : Val → Bool) (k : Kind) (off n : Nat) (pl : Nat) (s : Stack)
    (hs : s.length = off + n) :
    ∀ (calls : List Call) (ci : Nat),
      runChain selfOk (branchesFor k ⟨off, off, pl⟩ n ci calls) s =
        match firstMatch ((s.drop off).map (·.ty)) ci calls with
        | some (cj, c) => runOne selfOk (emitOf k ⟨off, off, pl⟩ cj c) s
        | none => .error [] := by
  intro calls
  induction calls with
  | nil => intro ci; simp [branchesFor, runChain, firstMatch]
  | cons c cs ih =>
    intro ci
    by_cases hc : c.nargs = n
    · have hlen : off + c.types.length ≤ s.length := by simp [Call.nargs] at hc; omega
      have hiff := checksHold_checksFrom s c.types off hlen
      have htake : (s.drop off).take c.types.length = s.drop off := by
        apply List.take_of_length_le
        simp [Call.nargs] at hc
        simp; omega
      rw [htake] at hiff
      simp only [branchesFor, hc, if_true, runChain, branchOf, firstMatch]
      by_cases hm : c.types = (s.drop off).map (·.ty)
      · have : checksHold s (checksFrom (1 + off) c.types) = true := by
          rw [Nat.add_comm 1 off]; exact hiff.mpr hm.symm
        rw [if_pos this, if_pos hm]
      · have : ¬ checksHold s (checksFrom (1 + off) c.types) = true := by
          rw [Nat.add_comm 1 off]; intro h; exact hm (hiff.mp h).symm
        simp only [this, hm, if_false]
        exact ih (ci + 1)
    · have hm : c.types ≠ (s.drop off).map (·.ty) := by
        intro h
        apply hc
        have := congrArg List.length h
        simp at this
        simp [Call.nargs]; omega
      simp only [branchesFor, hc, if_false, firstMatch, hm]
      exact ih (ci + 1)

/-! ### `switch (SH_nargs)` -/

theorem find_filterMap_key {β : Type} (f : Nat → Option (Nat × β))
    (hf : ∀ x y, f x = some y → y.1 = x) (n : Nat) : ∀ (L : List Nat),
    (L.filterMap f).find? (fun c => c.1 = n) = if n ∈ L then f n else none := by
  intro L
  induction L with
  | nil => simp
  | cons x xs ih =>
    rw [List.filterMap_cons]
    cases hx : f x with
    | none =>
      simp only [ih, List.mem_cons]
      by_cases hn : n = x
      · subst hn; simp [hx]
      · simp [hn]
    | some y =>
      have hy := hf x y hx
      simp only [List.find?_cons, List.mem_cons]
      by_cases hn : n = x
      · subst hn; simp [hy, hx]
      · have : ¬ y.1 = n := by rw [hy]; exact fun h => hn h.symm
        simp [this, hn, ih]

theorem caseOf_key (k : Kind) (l : Layout) (calls : List Call) (x : Nat) (y : Nat × List Branch)
    (h : caseOf k l calls x = some y) : y.1 = x := by
  unfold caseOf at h
  split at h
  · simp at h
  · simp at h; rw [← h]

theorem find_casesFor (k : Kind) (l : Layout) (calls : List Call) (m n : Nat)
    (hb : ∀ c ∈ calls, c.nargs ≤ m) :
    (casesFor k l calls m).find? (fun c => c.1 = n) = caseOf k l calls n := by
  unfold casesFor
  rw [find_filterMap_key (caseOf k l calls) (caseOf_key k l calls) n]
  by_cases hn : n ∈ List.range (m + 1)
  · simp [hn]
  · simp only [hn, if_false]
    have : branchesFor k l n 0 calls = [] := by
      apply branchesFor_nil_of_forall
      intro c hc h
      have := hb c hc
      simp at hn
      omega
    simp [caseOf, this]

theorem runBlocks_single (selfOk : Val → Bool) (b : Branch) (s : Stack) :
    runBlocks selfOk [b] s [] 0 = runOne selfOk b.emit s := by
  simp only [runBlocks, runOne]
  cases runEmit selfOk b.emit s <;> simp

/-- whatever the count, the `switch` behaves like the `if` chain over the calls of that count,
    provided at most one call takes no arguments -/
theorem run_switch (selfOk : Val → Bool) (k : Kind) (l : Layout) (calls : List Call) (m : Nat)
    (s : Stack) (hb : ∀ c ∈ calls, c.nargs ≤ m) (hz : (byCount calls 0).length ≤ 1)
    (hoff : l.countOff ≤ s.length) :
    run selfOk (.switch l.countOff (casesFor k l calls m)) s =
      runChain selfOk (branchesFor k l (s.length - l.countOff) 0 calls) s := by
  have hlt : ¬ s.length < l.countOff := by omega
  simp only [run, hlt, if_false, find_casesFor k l calls m _ hb]
  generalize hn : s.length - l.countOff = n
  unfold caseOf
  cases hbr : branchesFor k l n 0 calls with
  | nil => simp [runChain]
  | cons b bs =>
    cases n with
    | zero =>
      simp only
      have hl := length_branchesFor k l 0 calls 0
      rw [hbr] at hl
      have hbs : bs = [] := by
        cases bs with
        | nil => rfl
        | cons b' bs' => simp at hl; omega
      subst hbs
      have hck : b.checks = [] := checks_branchesFor_zero k l calls 0 b (by simp [hbr])
      rw [runBlocks_single]
      simp [runChain, hck, checksHold]
    | succ n' => simp only

/-! ### one `do_function` body on a stack of the right depth -/

theorem runOne_emitOf_noself (selfOk : Val → Bool) (k : Kind) (hk : k.selfOffset = 0) (cj : Nat) (c : Call)
    (s : Stack) (hn : c.nargs = s.length) :
    runOne selfOk (emitOf k (Layout.fixed k) cj c) s =
      if argsOk s c.argCls then .ret [⟨cj, c.ov, none, s⟩] c.nresults else .error [] := by
  have h := map_at_idxFrom s c.nargs 0 (by omega)
  simp only [Nat.zero_add, List.drop_zero] at h
  rw [hn, List.take_length] at h
  by_cases ha : argsOk s c.argCls <;>
    simp [runOne, runEmit, emitOf, selfIdxOf, Layout.fixed, hk, hn, h, ha]

theorem runOne_emitOf_self (selfOk : Val → Bool) (k : Kind) (hk : k.selfOffset = 1) (cj : Nat) (c : Call)
    (self : Val) (args : List Val) (hn : c.nargs = args.length) :
    runOne selfOk (emitOf k (Layout.fixed k) cj c) (self :: args) =
      if argsOk args c.argCls && selfOk self then .ret [⟨cj, c.ov, some self, args⟩] c.nresults
      else .error [] := by
  have h := map_at_idxFrom (self :: args) c.nargs 1 (by simp; omega)
  simp only [List.drop_succ_cons, List.drop_zero] at h
  have h2 : List.take c.nargs args = args := List.take_of_length_le (by omega)
  rw [h2] at h
  simp only [runOne, runEmit, emitOf, selfIdxOf, Layout.fixed, hk]
  simp only [Nat.reduceAdd] at h ⊢
  simp only [h, Stack.at]
  by_cases ha : argsOk args c.argCls <;> by_cases hs : selfOk self <;> simp [hs, ha]

/-! ### first match -/

theorem firstMatch_none (ts : List LType) : ∀ (calls : List Call) (i : Nat),
    firstMatch ts i calls = none ↔ ∀ c ∈ calls, c.types ≠ ts := by
  intro calls
  induction calls with
  | nil => intro i; simp [firstMatch]
  | cons c cs ih =>
    intro i
    by_cases h : c.types = ts
    · simp [firstMatch, h]
    · simp [firstMatch, h, ih (i + 1)]

theorem firstMatch_spec (ts : List LType) : ∀ (calls : List Call) (i j : Nat) (c : Call),
    firstMatch ts i calls = some (j, c) ↔
      ∃ d, j = i + d ∧ calls[d]? = some c ∧ c.types = ts ∧
        ∀ d' c', d' < d → calls[d']? = some c' → c'.types ≠ ts := by
  intro calls
  induction calls with
  | nil => intro i j c; simp [firstMatch]
  | cons c0 cs ih =>
    intro i j c
    by_cases h : c0.types = ts
    · simp only [firstMatch, h, if_true, Option.some.injEq, Prod.mk.injEq]
      constructor
      · rintro ⟨rfl, rfl⟩
        exact ⟨0, by simp, by simp, h, by intro d' c' hd; omega⟩
      · rintro ⟨d, hj, hget, _, hmin⟩
        cases d with
        | zero => simp at hget; exact ⟨by omega, hget⟩
        | succ d => exact absurd h (hmin 0 c0 (by omega) (by simp))
    · simp only [firstMatch, h, if_false]
      rw [ih (i + 1) j c]
      constructor
      · rintro ⟨d, hj, hget, hty, hmin⟩
        refine ⟨d + 1, by omega, by simpa using hget, hty, ?_⟩
        intro d' c' hd hg
        cases d' with
        | zero => simp at hg; subst hg; exact h
        | succ d' => exact hmin d' c' (by omega) (by simpa using hg)
      · rintro ⟨d, hj, hget, hty, hmin⟩
        cases d with
        | zero => simp at hget; subst hget; exact absurd hty h
        | succ d =>
          refine ⟨d, by omega, by simpa using hget, hty, ?_⟩
          intro d' c' hd hg
          exact hmin (d' + 1) c' (by omega) (by simpa using hg)

/-! ### `all_calls`, characterised on declarations -/

theorem mem_callsOfParams (mk : List Param → Call) : ∀ (ps seen : List Param) (c : Call),
    c ∈ callsOfParams mk seen ps ↔
      ∃ n, n ≤ ps.length ∧ (n = ps.length ∨ (ps[n]?).map (·.hasInit) = some true) ∧
        c = mk (seen ++ ps.take n) := by
  intro ps
  induction ps with
  | nil =>
    intro seen c
    simp [callsOfParams]
  | cons p ps ih =>
    intro seen c
    simp only [callsOfParams, List.mem_append, ih (seen ++ [p]) c]
    constructor
    · rintro (h | ⟨n, hn, hd, hc⟩)
      · split at h
        · rename_i hp
          simp at h
          exact ⟨0, by simp, Or.inr (by simp [hp]), by simpa using h⟩
        · simp at h
      · refine ⟨n + 1, by simp; omega, ?_, by simpa using hc⟩
        rcases hd with hd | hd
        · exact Or.inl (by simp [hd])
        · exact Or.inr (by simpa using hd)
    · rintro ⟨n, hn, hd, hc⟩
      cases n with
      | zero =>
        left
        rcases hd with hd | hd
        · simp at hd
        · simp at hd
          simp [hd]
          simpa using hc
      | succ n =>
        right
        refine ⟨n, by simp at hn; omega, ?_, by simpa using hc⟩
        rcases hd with hd | hd
        · exact Or.inl (by simpa using hd)
        · exact Or.inr (by simpa using hd)

theorem mem_callsFrom (k : Kind) : ∀ (ovs : List Overload) (i : Nat) (c : Call),
    c ∈ callsFrom k i ovs ↔
      ∃ d o n, ovs[d]? = some o ∧ n ≤ o.params.length ∧
        (n = o.params.length ∨ (o.params[n]?).map (·.hasInit) = some true) ∧
        c = mkCall k (i + d) o (o.params.take n) := by
  intro ovs
  induction ovs with
  | nil => intro i c; simp [callsFrom]
  | cons o os ih =>
    intro i c
    simp only [callsFrom, List.mem_append, mem_callsOfParams, ih (i + 1) c, List.nil_append]
    constructor
    · rintro (⟨n, hn, hd, hc⟩ | ⟨d, o', n, hget, hn, hd, hc⟩)
      · exact ⟨0, o, n, by simp, hn, hd, by simpa using hc⟩
      · exact ⟨d + 1, o', n, by simpa using hget, hn, hd, by rw [hc]; congr 1; omega⟩
    · rintro ⟨d, o', n, hget, hn, hd, hc⟩
      cases d with
      | zero =>
        simp at hget; subst hget
        exact Or.inl ⟨n, hn, hd, by simpa using hc⟩
      | succ d =>
        exact Or.inr ⟨d, o', n, by simpa using hget, hn, hd, by rw [hc]; congr 1; omega⟩

/-! ### the dict of wrapped classes -/

theorem dictGet_luaClassesFrom_none (keyOf : QName → QName) : ∀ (qs : List QName) (i : Nat) (x : QName),
    (∀ q ∈ qs, keyOf q ≠ x) → dictGet (luaClassesFrom keyOf i qs) x = none := by
  intro qs
  induction qs with
  | nil => intro i x _; rfl
  | cons q qs ih =>
    intro i x h
    simp only [luaClassesFrom, dictGet]
    rw [ih (i + 1) x (fun q' hq' => h q' (List.mem_cons_of_mem _ hq'))]
    simp [h q (List.mem_cons_self ..)]

theorem dictGet_luaClassesFrom_nodup (keyOf : QName → QName) : ∀ (qs : List QName) (i j : Nat) (q : QName),
    (qs.map keyOf).Nodup → qs[j]? = some q →
    dictGet (luaClassesFrom keyOf i qs) (keyOf q) = some (i + j) := by
  intro qs
  induction qs with
  | nil => intro i j q _ h; simp at h
  | cons q0 qs ih =>
    intro i j q hn h
    simp only [List.map_cons, List.nodup_cons] at hn
    cases j with
    | zero =>
      simp at h; subst h
      simp only [luaClassesFrom, dictGet]
      rw [dictGet_luaClassesFrom_none keyOf qs (i + 1) (keyOf q0)
        (fun q' hq' he => hn.1 (List.mem_map.mpr ⟨q', hq', he⟩))]
      simp
    | succ j =>
      simp only [List.getElem?_cons_succ] at h
      simp only [luaClassesFrom, dictGet]
      rw [ih (i + 1) j q hn.2 h]
      simp; omega

/-- whatever is found was inserted under the key asked for -/
theorem dictGet_luaClassesFrom_some (keyOf : QName → QName) : ∀ (qs : List QName) (i k : Nat) (x : QName),
    dictGet (luaClassesFrom keyOf i qs) x = some k → ∃ j q, k = i + j ∧ qs[j]? = some q ∧ keyOf q = x := by
  intro qs
  induction qs with
  | nil => intro i k x h; simp [luaClassesFrom, dictGet] at h
  | cons q0 qs ih =>
    intro i k x h
    simp only [luaClassesFrom, dictGet] at h
    cases hr : dictGet (luaClassesFrom keyOf (i + 1) qs) x with
    | some w =>
      rw [hr] at h
      simp at h; subst h
      obtain ⟨j, q, hk, hq, he⟩ := ih (i + 1) w x hr
      exact ⟨j + 1, q, by omega, by simpa using hq, he⟩
    | none =>
      rw [hr] at h
      by_cases he : keyOf q0 = x
      · simp [he] at h
        exact ⟨0, q0, by omega, by simp, he⟩
      · simp [he] at h

end Shroud.LuaDispatch
