import ShroudVerif.Model.PyDispatch
/-! Helper lemmas for C03 (Python argument parsing / default-argument switch / overload dispatch). -/
namespace Shroud.PyDispatch

/-- slots agree with the parameter list: one slot per visible parameter, and an unfilled slot
belongs to a parameter with a default. -/
def missingOk : List Param → List (Option Val) → Bool
  | [], slots => slots.isEmpty
  | p :: ps, slots =>
    if p.vis then
      match slots with
      | some _ :: r => missingOk ps r
      | none :: r => p.hasDefault && missingOk ps r
      | [] => false
    else missingOk ps slots

def allOpt (ps : List Param) : Bool := ps.all (fun q => q.vis && q.hasDefault)

theorem trailing_of_allOpt : ∀ ps, allOpt ps = true → trailing ps = true
  | [], _ => rfl
  | p :: ps, h => by
    simp only [allOpt, List.all_cons, Bool.and_eq_true] at h
    simp [trailing, h.1, h.2]

theorem kwlist_cons_vis {p : Param} {ps : List Param} (h : p.vis = true) :
    kwlist (p :: ps) = p.name :: kwlist ps := by
  simp [kwlist, visible, h]

theorem kwlist_cons_invis {p : Param} {ps : List Param} (h : p.vis = false) :
    kwlist (p :: ps) = kwlist ps := by
  simp [kwlist, visible, h]

theorem visible_cons_vis {p : Param} {ps : List Param} (h : p.vis = true) :
    visible (p :: ps) = p :: visible ps := by
  simp [visible, h]

theorem visible_cons_invis {p : Param} {ps : List Param} (h : p.vis = false) :
    visible (p :: ps) = visible ps := by
  simp [visible, h]

/-- an accepted parse stores exactly the supplied values, one slot per visible parameter, and leaves
only defaulted parameters untouched. -/
theorem parseItems_ok (ps : List Param) : ∀ (fo : Bool) (pos : List Val) (kw : List (Nat × Val))
    (slots : List (Option Val)),
    trailing ps = true → (fo = true → allOpt ps = true) →
    parseItems fo (fmtItems fo ps) (kwlist ps) pos kw = .ok slots →
    slots = supplied (visible ps) pos kw ∧ missingOk ps slots = true := by
  induction ps with
  | nil =>
    intro fo pos kw slots _ _ h
    simp [fmtItems, parseItems] at h
    subst h
    simp [visible, supplied, missingOk]
  | cons p ps ih =>
    intro fo pos kw slots htr hfo h
    by_cases hv : p.vis = true
    · rw [kwlist_cons_vis hv] at h
      rw [visible_cons_vis hv]
      by_cases hd : p.hasDefault = true
      · -- defaulted parameter: the rest is all optional
        have hall : allOpt ps = true := by
          cases fo with
          | true =>
            have := hfo rfl
            simp only [allOpt, List.all_cons, Bool.and_eq_true] at this
            simpa [allOpt] using this.2
          | false => simpa [trailing, hv, hd, allOpt] using htr
        have htr' := trailing_of_allOpt ps hall
        have key : parseItems true (.unit p.unit :: fmtItems true ps) (p.name :: kwlist ps) pos kw = .ok slots := by
          cases fo with
          | true => simpa [fmtItems, hv, hd] using h
          | false => simpa [fmtItems, hv, hd, parseItems] using h
        simp only [parseItems] at key
        cases hoff : offered p.name pos kw with
        | none =>
          rw [hoff] at key
          simp only [if_true] at key
          cases hrec : parseItems true (fmtItems true ps) (kwlist ps) pos.tail kw with
          | error e => rw [hrec] at key; cases key
          | ok r =>
            rw [hrec] at key
            injection key with key
            have := ih true pos.tail kw r htr' (fun _ => hall) hrec
            subst key
            simp [supplied, hoff, missingOk, hv, hd, this.1.symm, this.2]
        | some v =>
          rw [hoff] at key
          by_cases hok : p.unit.ok v = true
          · simp only [hok, if_true] at key
            cases hrec : parseItems true (fmtItems true ps) (kwlist ps) pos.tail kw with
            | error e => rw [hrec] at key; cases key
            | ok r =>
              rw [hrec] at key
              injection key with key
              have := ih true pos.tail kw r htr' (fun _ => hall) hrec
              subst key
              simp [supplied, hoff, missingOk, hv, this.1.symm, this.2]
          · simp [hok] at key
      · -- required parameter: `fo` must still be false
        have hd' : p.hasDefault = false := by simpa using hd
        have hfo' : fo = false := by
          cases fo with
          | false => rfl
          | true =>
            have := hfo rfl
            simp [allOpt, hd'] at this
        subst hfo'
        have htr' : trailing ps = true := by simpa [trailing, hv, hd'] using htr
        have key : parseItems false (.unit p.unit :: fmtItems false ps) (p.name :: kwlist ps) pos kw = .ok slots := by
          simpa [fmtItems, hv, hd'] using h
        simp only [parseItems] at key
        cases hoff : offered p.name pos kw with
        | none => rw [hoff] at key; simp at key
        | some v =>
          rw [hoff] at key
          by_cases hok : p.unit.ok v = true
          · simp only [hok, if_true] at key
            cases hrec : parseItems false (fmtItems false ps) (kwlist ps) pos.tail kw with
            | error e => rw [hrec] at key; cases key
            | ok r =>
              rw [hrec] at key
              injection key with key
              have := ih false pos.tail kw r htr' (by intro hh; cases hh) hrec
              subst key
              simp [supplied, hoff, missingOk, hv, this.1.symm, this.2]
          · simp [hok] at key
    · have hv' : p.vis = false := by simpa using hv
      have hfo' : fo = false := by
        cases fo with
        | false => rfl
        | true =>
          have := hfo rfl
          simp [allOpt, hv'] at this
      subst hfo'
      rw [kwlist_cons_invis hv'] at h
      rw [visible_cons_invis hv']
      have htr' : trailing ps = true := by simpa [trailing, hv'] using htr
      have h' : parseItems false (fmtItems false ps) (kwlist ps) pos kw = .ok slots := by
        simpa [fmtItems, hv'] using h
      have := ih false pos kw slots htr' (by intro hh; cases hh) h'
      simp [missingOk, hv', this.1.symm, this.2]

/-- all remaining parameters optional and no slot filled: the specification asks for defaults only. -/
theorem specArgs_all_none : ∀ (ps : List Param) (slots : List (Option Val)),
    allOpt ps = true → slots.all (·.isNone) = true →
    specArgs ps slots = List.replicate ps.length .dflt
  | [], _, _, _ => rfl
  | p :: ps, slots, h, hs => by
    simp only [allOpt, List.all_cons, Bool.and_eq_true] at h
    have hv := h.1.1
    cases slots with
    | nil =>
      simp only [specArgs, hv, if_true, List.length_cons, List.replicate_succ]
      rw [specArgs_all_none ps [] (by simpa [allOpt] using h.2) (by simp)]
    | cons s r =>
      cases s with
      | some v => simp at hs
      | none =>
        simp only [specArgs, hv, if_true, List.length_cons, List.replicate_succ]
        rw [specArgs_all_none ps r (by simpa [allOpt] using h.2) (by simpa using hs)]

/-- the `switch` picks the call that passes exactly the filled prefix. -/
theorem switch_prefix (ps : List Param) : ∀ (npy nc j : Nat) (slots : List (Option Val)),
    trailing ps = true → prefixMask j slots = true → missingOk ps slots = true →
    ∃ k, k ≤ ps.length ∧
      (defaultCalls npy nc ps).find? (fun c => c.1 == npy + j) = some (npy + j, nc + k) ∧
      callArgs (ps.take k) slots ++ List.replicate (ps.length - k) .dflt = specArgs ps slots := by
  induction ps with
  | nil =>
    intro npy nc j slots _ hp hm
    have hs : slots = [] := by simpa [missingOk] using hm
    subst hs
    cases j with
    | zero => exact ⟨0, by simp, by simp [defaultCalls], by simp [callArgs, specArgs]⟩
    | succ j => simp [prefixMask] at hp
  | cons p ps ih =>
    intro npy nc j slots htr hp hm
    by_cases hv : p.vis = true
    · cases slots with
      | nil => simp [missingOk, hv] at hm
      | cons s r =>
        cases s with
        | none =>
          -- nothing more supplied: this parameter has a default and its case is selected
          have hd : p.hasDefault = true := by
            simp only [missingOk, hv, if_true, Bool.and_eq_true] at hm
            exact hm.1
          have hj : j = 0 := by
            cases j with
            | zero => rfl
            | succ j => simp [prefixMask] at hp
          subst hj
          have hall : allOpt ps = true := by simpa [trailing, hv, hd, allOpt] using htr
          have hnone : r.all (·.isNone) = true := by simpa [prefixMask] using hp
          refine ⟨0, by simp, by simp [defaultCalls, hv, hd], ?_⟩
          simp only [List.take_zero, callArgs, List.nil_append, Nat.sub_zero, List.length_cons,
            List.replicate_succ, specArgs, hv, if_true]
          rw [specArgs_all_none ps r hall hnone]
        | some v =>
          cases j with
          | zero => simp [prefixMask] at hp
          | succ j =>
            have hp' : prefixMask j r = true := by simpa [prefixMask] using hp
            have hm' : missingOk ps r = true := by simpa [missingOk, hv] using hm
            have htr' : trailing ps = true := by
              by_cases hd : p.hasDefault = true
              · exact trailing_of_allOpt ps (by simpa [trailing, hv, hd, allOpt] using htr)
              · have hd' : p.hasDefault = false := by simpa using hd
                simpa [trailing, hv, hd'] using htr
            obtain ⟨k, hk, hfind, hargs⟩ := ih (npy + 1) (nc + 1) j r htr' hp' hm'
            refine ⟨k + 1, by simpa using hk, ?_, ?_⟩
            · have e1 : npy + 1 + j = npy + (j + 1) := by omega
              have e2 : nc + 1 + k = nc + (k + 1) := by omega
              rw [e1, e2] at hfind
              by_cases hd : p.hasDefault = true
              · simp only [defaultCalls, hv, hd, if_true, List.find?_cons]
                have : (npy == npy + (j + 1)) = false := by
                  simp only [beq_eq_false_iff_ne, ne_eq]; omega
                simp only [this]
                exact hfind
              · have hd' : p.hasDefault = false := by simpa using hd
                simp only [defaultCalls, hv, hd', if_true]
                simpa using hfind
            · simp only [List.take_succ_cons, callArgs, hv, if_true, List.cons_append, List.length_cons,
                Nat.add_sub_add_right, specArgs]
              rw [hargs]
    · have hv' : p.vis = false := by simpa using hv
      have htr' : trailing ps = true := by simpa [trailing, hv'] using htr
      have hm' : missingOk ps slots = true := by simpa [missingOk, hv'] using hm
      obtain ⟨k, hk, hfind, hargs⟩ := ih npy (nc + 1) j slots htr' hp hm'
      refine ⟨k + 1, by simpa using hk, ?_, ?_⟩
      · have e2 : nc + 1 + k = nc + (k + 1) := by omega
        rw [e2] at hfind
        simpa [defaultCalls, hv'] using hfind
      · simp only [List.take_succ_cons, callArgs, hv', List.cons_append, List.length_cons,
          Nat.add_sub_add_right, specArgs, Bool.false_eq_true, if_false]
        rw [hargs]

/-- without a defaulted visible parameter an accepted parse fills every slot. -/
theorem callArgs_eq_specArgs_noDefault : ∀ (ps : List Param) (slots : List (Option Val)),
    foundDefault ps = false → missingOk ps slots = true → callArgs ps slots = specArgs ps slots
  | [], _, _, _ => rfl
  | p :: ps, slots, hf, hm => by
    have hf' : foundDefault ps = false := by
      simp only [foundDefault, List.any_cons, Bool.or_eq_false_iff] at hf
      simpa [foundDefault] using hf.2
    by_cases hv : p.vis = true
    · have hd : p.hasDefault = false := by
        simp only [foundDefault, List.any_cons, Bool.or_eq_false_iff, hv, Bool.true_and] at hf
        exact hf.1
      cases slots with
      | nil => simp [missingOk, hv] at hm
      | cons s r =>
        cases s with
        | none => simp [missingOk, hv, hd] at hm
        | some v =>
          have hm' : missingOk ps r = true := by simpa [missingOk, hv] using hm
          simp only [callArgs, specArgs, hv, if_true]
          rw [callArgs_eq_specArgs_noDefault ps r hf' hm']
    · have hv' : p.vis = false := by simpa using hv
      have hm' : missingOk ps slots = true := by simpa [missingOk, hv'] using hm
      simp only [callArgs, specArgs, hv', Bool.false_eq_true, if_false]
      rw [callArgs_eq_specArgs_noDefault ps slots hf' hm']

theorem hasDefaultArg_of_foundDefault (ps : List Param) (h : foundDefault ps = true) :
    hasDefaultArg ps = true := by
  simp only [foundDefault, List.any_eq_true, Bool.and_eq_true] at h
  obtain ⟨p, hp, _, hd⟩ := h
  simp only [hasDefaultArg, List.any_eq_true]
  exact ⟨p, hp, hd⟩

/-- the generated format and keyword list have one unit per name: CPython's
"more argument specifiers than keyword list entries" SystemError cannot occur. -/
theorem parseItems_no_systemError (ps : List Param) : ∀ (opt fo : Bool) (pos : List Val) (kw : List (Nat × Val)),
    parseItems opt (fmtItems fo ps) (kwlist ps) pos kw ≠ .error .systemError := by
  induction ps with
  | nil => intro opt fo pos kw; simp [fmtItems, parseItems]
  | cons p ps ih =>
    intro opt fo pos kw
    by_cases hv : p.vis = true
    · rw [kwlist_cons_vis hv]
      have step : ∀ (o f : Bool), parseItems o (.unit p.unit :: fmtItems f ps) (p.name :: kwlist ps) pos kw
          ≠ .error .systemError := by
        intro o f
        simp only [parseItems]
        cases offered p.name pos kw with
        | none =>
          cases o with
          | false => simp
          | true =>
            simp only [if_true]
            cases hrec : parseItems true (fmtItems f ps) (kwlist ps) pos.tail kw with
            | error e =>
              intro hh
              injection hh with hh
              exact ih true f pos.tail kw (by rw [hrec, hh])
            | ok r => simp
        | some v =>
          by_cases hok : p.unit.ok v = true
          · simp only [hok, if_true]
            cases hrec : parseItems o (fmtItems f ps) (kwlist ps) pos.tail kw with
            | error e =>
              intro hh
              injection hh with hh
              exact ih o f pos.tail kw (by rw [hrec, hh])
            | ok r => simp
          · simp [hok]
      by_cases hb : (p.hasDefault && !fo) = true
      · simp only [fmtItems, hv, hb, if_true, parseItems]
        exact step true true
      · have hb' : (p.hasDefault && !fo) = false := by simpa using hb
        simp only [fmtItems, hv, hb', if_true, Bool.false_eq_true, if_false]
        exact step opt fo
    · have hv' : p.vis = false := by simpa using hv
      rw [kwlist_cons_invis hv']
      simp only [fmtItems, hv', Bool.false_eq_true, if_false]
      exact ih opt fo pos kw

/-- a supplied value rejected by its unit makes the parse raise TypeError. -/
theorem parseItems_bad (ps : List Param) : ∀ (opt fo : Bool) (pos : List Val) (kw : List (Nat × Val)),
    badSupplied (visible ps) pos kw = true →
    parseItems opt (fmtItems fo ps) (kwlist ps) pos kw = .error .typeError := by
  induction ps with
  | nil => intro opt fo pos kw h; simp [visible, badSupplied] at h
  | cons p ps ih =>
    intro opt fo pos kw h
    by_cases hv : p.vis = true
    · rw [kwlist_cons_vis hv]
      rw [visible_cons_vis hv] at h
      have step : ∀ (o f : Bool), parseItems o (.unit p.unit :: fmtItems f ps) (p.name :: kwlist ps) pos kw
          = .error .typeError := by
        intro o f
        simp only [parseItems]
        simp only [badSupplied, Bool.or_eq_true] at h
        cases hoff : offered p.name pos kw with
        | none =>
          rw [hoff] at h
          have hb : badSupplied (visible ps) pos.tail kw = true := by simpa using h
          cases o with
          | false => simp
          | true => simp [ih true f pos.tail kw hb]
        | some v =>
          rw [hoff] at h
          by_cases hok : p.unit.ok v = true
          · have hb : badSupplied (visible ps) pos.tail kw = true := by simpa [hok] using h
            simp [hok, ih o f pos.tail kw hb]
          · simp [hok]
      by_cases hb : (p.hasDefault && !fo) = true
      · simp only [fmtItems, hv, hb, if_true, parseItems]
        exact step true true
      · have hb' : (p.hasDefault && !fo) = false := by simpa using hb
        simp only [fmtItems, hv, hb', if_true, Bool.false_eq_true, if_false]
        exact step opt fo
    · have hv' : p.vis = false := by simpa using hv
      rw [kwlist_cons_invis hv']
      rw [visible_cons_invis hv'] at h
      simp only [fmtItems, hv', Bool.false_eq_true, if_false]
      exact ih opt fo pos kw h

/-! ### converse: the switch is right only for a filled prefix -/

theorem defaultCalls_bounds (ps : List Param) : ∀ (npy nc : Nat) (e : Nat × Nat),
    e ∈ defaultCalls npy nc ps → npy ≤ e.1 ∧ nc ≤ e.2 ∧ e.2 ≤ nc + ps.length := by
  induction ps with
  | nil =>
    intro npy nc e he
    simp only [defaultCalls, List.mem_singleton] at he
    subst he
    simp
  | cons p ps ih =>
    intro npy nc e he
    by_cases hv : p.vis = true
    · by_cases hd : p.hasDefault = true
      · simp only [defaultCalls, hv, hd, if_true, List.mem_cons] at he
        rcases he with he | he
        · subst he; simp
        · have := ih (npy + 1) (nc + 1) e he
          simp only [List.length_cons]; omega
      · have hd' : p.hasDefault = false := by simpa using hd
        simp only [defaultCalls, hv, hd', if_true, Bool.false_eq_true, if_false] at he
        have := ih (npy + 1) (nc + 1) e he
        simp only [List.length_cons]; omega
    · have hv' : p.vis = false := by simpa using hv
      simp only [defaultCalls, hv', Bool.false_eq_true, if_false] at he
      have := ih npy (nc + 1) e he
      simp only [List.length_cons]; omega

/-- only defaults asked for and everything optional: no slot was filled. -/
theorem all_none_of_spec_dflt : ∀ (ps : List Param) (slots : List (Option Val)),
    allOpt ps = true → missingOk ps slots = true →
    specArgs ps slots = List.replicate ps.length .dflt → slots.all (·.isNone) = true
  | [], slots, _, hm, _ => by
    have : slots = [] := by simpa [missingOk] using hm
    subst this; rfl
  | p :: ps, slots, h, hm, hs => by
    simp only [allOpt, List.all_cons, Bool.and_eq_true] at h
    have hv := h.1.1
    cases slots with
    | nil => simp [missingOk, hv] at hm
    | cons s r =>
      cases s with
      | some v => simp [specArgs, hv, List.replicate_succ] at hs
      | none =>
        have hm' : missingOk ps r = true := by
          simp only [missingOk, hv, if_true, Bool.and_eq_true] at hm
          exact hm.2
        have hs' : specArgs ps r = List.replicate ps.length .dflt := by
          simpa [specArgs, hv, List.replicate_succ] using hs
        have := all_none_of_spec_dflt ps r (by simpa [allOpt] using h.2) hm' hs'
        simpa using this

/-- if the selected `case` happens to pass what the specification asks for, then exactly the first
`j` slots were filled. -/
theorem switch_exact (ps : List Param) : ∀ (npy nc j : Nat) (slots : List (Option Val)) (e : Nat × Nat),
    trailing ps = true → missingOk ps slots = true →
    (defaultCalls npy nc ps).find? (fun c => c.1 == npy + j) = some e →
    callArgs (ps.take (e.2 - nc)) slots ++ List.replicate (ps.length - (e.2 - nc)) .dflt = specArgs ps slots →
    prefixMask j slots = true := by
  induction ps with
  | nil =>
    intro npy nc j slots e _ hm hfind _
    have hs : slots = [] := by simpa [missingOk] using hm
    subst hs
    simp only [defaultCalls, List.find?_cons, List.find?_nil] at hfind
    split at hfind
    · rename_i hh
      have : j = 0 := by
        simp only [beq_iff_eq] at hh; omega
      subst this; rfl
    · cases hfind
  | cons p ps ih =>
    intro npy nc j slots e htr hm hfind heq
    have hmem := List.mem_of_find?_eq_some hfind
    have hb := defaultCalls_bounds (p :: ps) npy nc e hmem
    by_cases hv : p.vis = true
    · cases slots with
      | nil => simp [missingOk, hv] at hm
      | cons s r =>
        have hm' : missingOk ps r = true := by
          cases s with
          | none =>
            simp only [missingOk, hv, if_true, Bool.and_eq_true] at hm
            exact hm.2
          | some v => simpa [missingOk, hv] using hm
        have htr' : trailing ps = true := by
          by_cases hd : p.hasDefault = true
          · exact trailing_of_allOpt ps (by simpa [trailing, hv, hd, allOpt] using htr)
          · have hd' : p.hasDefault = false := by simpa using hd
            simpa [trailing, hv, hd'] using htr
        cases j with
        | zero =>
          by_cases hd : p.hasDefault = true
          · -- `case npy` found at the head
            have he : e = (npy, nc) := by
              simp only [defaultCalls, hv, hd, if_true, List.find?_cons, Nat.add_zero, beq_self_eq_true] at hfind
              exact (Option.some.inj hfind).symm
            subst he
            have hall : allOpt ps = true := by simpa [trailing, hv, hd, allOpt] using htr
            simp only [Nat.sub_self, List.take_zero, callArgs, List.nil_append, Nat.sub_zero, List.length_cons,
              List.replicate_succ] at heq
            cases s with
            | some v => simp [specArgs, hv] at heq
            | none =>
              have hs' : specArgs ps r = List.replicate ps.length .dflt := by
                simp only [specArgs, hv, if_true, List.cons.injEq, true_and] at heq
                exact heq.symm
              have := all_none_of_spec_dflt ps r hall hm' hs'
              simpa [prefixMask] using this
          · have hd' : p.hasDefault = false := by simpa using hd
            simp only [defaultCalls, hv, hd', if_true, Bool.false_eq_true, if_false] at hmem
            have := defaultCalls_bounds ps (npy + 1) (nc + 1) e hmem
            have hp := List.find?_some hfind
            simp only [beq_iff_eq] at hp
            omega
        | succ j' =>
          have hfind' : (defaultCalls (npy + 1) (nc + 1) ps).find? (fun c => c.1 == npy + 1 + j') = some e := by
            have e1 : npy + 1 + j' = npy + (j' + 1) := by omega
            rw [e1]
            by_cases hd : p.hasDefault = true
            · simp only [defaultCalls, hv, hd, if_true, List.find?_cons] at hfind
              have : (npy == npy + (j' + 1)) = false := by
                simp only [beq_eq_false_iff_ne, ne_eq]; omega
              simpa [this] using hfind
            · have hd' : p.hasDefault = false := by simpa using hd
              simpa [defaultCalls, hv, hd'] using hfind
          have hmem' := List.mem_of_find?_eq_some hfind'
          have hb' := defaultCalls_bounds ps (npy + 1) (nc + 1) e hmem'
          have hk : e.2 - nc = (e.2 - (nc + 1)) + 1 := by omega
          rw [hk] at heq
          simp only [List.take_succ_cons, callArgs, hv, if_true, List.length_cons, Nat.add_sub_add_right] at heq
          cases s with
          | none => simp [specArgs, hv] at heq
          | some v =>
            simp only [List.cons_append, specArgs, hv, if_true, List.cons.injEq, true_and] at heq
            have := ih (npy + 1) (nc + 1) j' r e htr' hm' hfind' heq
            simpa [prefixMask] using this
    · have hv' : p.vis = false := by simpa using hv
      have htr' : trailing ps = true := by simpa [trailing, hv'] using htr
      have hm' : missingOk ps slots = true := by simpa [missingOk, hv'] using hm
      have hfind' : (defaultCalls npy (nc + 1) ps).find? (fun c => c.1 == npy + j) = some e := by
        simpa [defaultCalls, hv'] using hfind
      have hmem' := List.mem_of_find?_eq_some hfind'
      have hb' := defaultCalls_bounds ps npy (nc + 1) e hmem'
      have hk : e.2 - nc = (e.2 - (nc + 1)) + 1 := by omega
      rw [hk] at heq
      simp only [List.take_succ_cons, callArgs, hv', Bool.false_eq_true, if_false, List.length_cons,
        Nat.add_sub_add_right, List.cons_append, specArgs, List.cons.injEq, true_and] at heq
      exact ih npy (nc + 1) j slots e htr' hm' hfind' heq

/-! ### counting supplied arguments -/

theorem lookupKw_isSome_mem : ∀ (kw : List (Nat × Val)) (m : Nat),
    (lookupKw m kw).isSome = true → m ∈ kw.map (·.1)
  | [], m, h => by simp [lookupKw] at h
  | (k, v) :: kw, m, h => by
    simp only [lookupKw] at h
    by_cases hk : (k == m) = true
    · simp only [beq_iff_eq] at hk
      simp [hk]
    · simp only [hk, Bool.false_eq_true, if_false] at h
      have := lookupKw_isSome_mem kw m h
      simp only [List.map_cons, List.mem_cons]
      exact Or.inr this

theorem countP_or_disjoint (p q : Nat → Bool) : ∀ l : List Nat,
    (∀ x ∈ l, ¬ (p x = true ∧ q x = true)) →
    l.countP (fun x => p x || q x) = l.countP p + l.countP q
  | [], _ => by simp
  | a :: l, h => by
    have ih := countP_or_disjoint p q l (fun x hx => h x (List.mem_cons_of_mem _ hx))
    have ha := h a (List.mem_cons_self ..)
    simp only [List.countP_cons, ih]
    cases hp : p a <;> cases hq : q a <;> simp_all <;> omega

theorem countP_beq_one (k : Nat) : ∀ l : List Nat, l.Nodup → k ∈ l → l.countP (fun m => k == m) = 1
  | [], _, h => by simp at h
  | a :: l, hn, h => by
    rw [List.nodup_cons] at hn
    simp only [List.countP_cons]
    by_cases hka : k = a
    · subst hka
      have : l.countP (fun m => k == m) = 0 := by
        rw [List.countP_eq_zero]
        intro x hx
        simp only [beq_iff_eq]
        intro hkx
        subst hkx
        exact hn.1 hx
      simp [this]
    · have hm : k ∈ l := by
        rcases List.mem_cons.mp h with h1 | h1
        · exact absurd h1 hka
        · exact h1
      have := countP_beq_one k l hn.2 hm
      simp [this, hka]

theorem count_lookup (names : List Nat) : ∀ kw : List (Nat × Val),
    names.Nodup → (kw.map (·.1)).Nodup → (∀ e ∈ kw, e.1 ∈ names) →
    names.countP (fun m => (lookupKw m kw).isSome) = kw.length
  | [], _, _, _ => by simp [lookupKw]
  | (k, v) :: kw, hn, hk, hsub => by
    simp only [List.map_cons, List.nodup_cons] at hk
    have ih := count_lookup names kw hn hk.2 (fun e he => hsub e (List.mem_cons_of_mem _ he))
    have hfun : (fun m => (lookupKw m ((k, v) :: kw)).isSome) = (fun m => (k == m) || (lookupKw m kw).isSome) := by
      funext m
      simp only [lookupKw]
      by_cases hkm : (k == m) = true <;> simp [hkm]
    rw [hfun, countP_or_disjoint]
    · rw [countP_beq_one k names hn (hsub (k, v) (List.mem_cons_self ..)), ih]
      simp only [List.length_cons]; omega
    · intro x _ hx
      simp only [beq_iff_eq] at hx
      obtain ⟨h1, h2⟩ := hx
      subst h1
      exact hk.1 (lookupKw_isSome_mem kw k h2)

theorem supplied_count : ∀ (vis : List Param) (pos : List Val) (kw : List (Nat × Val)),
    pos.length ≤ vis.length →
    (supplied vis pos kw).countP (·.isSome)
      = pos.length + ((vis.drop pos.length).map (·.name)).countP (fun m => (lookupKw m kw).isSome)
  | [], pos, kw, h => by
    have : pos = [] := by
      cases pos with
      | nil => rfl
      | cons a l => simp at h
    subst this
    simp [supplied]
  | p :: vs, [], kw, _ => by
    have ih := supplied_count vs [] kw (by simp)
    simp only [supplied, offered, List.tail_nil, List.countP_cons, List.length_nil, List.drop_zero, List.map_cons,
      Nat.zero_add] at ih ⊢
    rw [ih]
  | p :: vs, v :: pos, kw, h => by
    have ih := supplied_count vs pos kw (by simpa using h)
    simp only [supplied, offered, List.tail_cons, List.countP_cons, Option.isSome_some, if_true, List.length_cons,
      List.drop_succ_cons]
    rw [ih]; omega

/-- with at most one defaulted parameter the filled slots always form a prefix. -/
theorem prefix_of_single_default : ∀ (ps : List Param) (slots : List (Option Val)),
    trailing ps = true → missingOk ps slots = true → countDefaults ps ≤ 1 →
    prefixMask (slots.countP (·.isSome)) slots = true
  | [], slots, _, hm, _ => by
    have : slots = [] := by simpa [missingOk] using hm
    subst this; rfl
  | p :: ps, slots, htr, hm, hc => by
    by_cases hv : p.vis = true
    · cases slots with
      | nil => simp [missingOk, hv] at hm
      | cons s r =>
        cases s with
        | some v =>
          have hm' : missingOk ps r = true := by simpa [missingOk, hv] using hm
          have htr' : trailing ps = true := by
            by_cases hd : p.hasDefault = true
            · exact trailing_of_allOpt ps (by simpa [trailing, hv, hd, allOpt] using htr)
            · have hd' : p.hasDefault = false := by simpa using hd
              simpa [trailing, hv, hd'] using htr
          have hc' : countDefaults ps ≤ 1 := by
            simp only [countDefaults, List.countP_cons] at hc ⊢
            omega
          have := prefix_of_single_default ps r htr' hm' hc'
          simpa [List.countP_cons, prefixMask] using this
        | none =>
          have hd : p.hasDefault = true := by
            simp only [missingOk, hv, if_true, Bool.and_eq_true] at hm
            exact hm.1
          have hm' : missingOk ps r = true := by
            simp only [missingOk, hv, if_true, Bool.and_eq_true] at hm
            exact hm.2
          have hall : allOpt ps = true := by simpa [trailing, hv, hd, allOpt] using htr
          have hps : ps = [] := by
            cases ps with
            | nil => rfl
            | cons q qs =>
              simp only [allOpt, List.all_cons, Bool.and_eq_true] at hall
              simp only [countDefaults, List.countP_cons, hv, hd, Bool.and_self, if_true, hall.1.1, hall.1.2] at hc
              omega
          subst hps
          have hr : r = [] := by simpa [missingOk] using hm'
          subst hr
          rfl
    · have hv' : p.vis = false := by simpa using hv
      have htr' : trailing ps = true := by simpa [trailing, hv'] using htr
      have hm' : missingOk ps slots = true := by simpa [missingOk, hv'] using hm
      have hc' : countDefaults ps ≤ 1 := by
        simpa [countDefaults, List.countP_cons, hv'] using hc
      exact prefix_of_single_default ps slots htr' hm' hc'

theorem foldl_outs (ps : List Param) : ∀ acc : List Item,
    ps.foldl (fun acc p => if p.isOut then acc ++ [Item.outArg p.name] else acc) acc
      = acc ++ (ps.filter Param.isOut).map (fun p => Item.outArg p.name) := by
  induction ps with
  | nil => intro acc; simp
  | cons p ps ih =>
    intro acc
    by_cases h : p.isOut = true
    · simp [List.foldl_cons, h, ih]
    · have h' : p.isOut = false := by simpa using h
      simp [List.foldl_cons, h', ih]

end Shroud.PyDispatch
