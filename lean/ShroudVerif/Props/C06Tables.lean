import ShroudVerif.Gen.Capsule
/-!
# C06 (5)  table theorem over the regenerated statement tables

`Gen/Capsule.lean` is rewritten by `tools/extract_capsule.py` from the working tree's *effective*
statement blocks (`statements.fc_statements`, `wrapp.py_statements`, both languages) on every run.
Codes: alloc 1 ShroudStrAlloc, 2 ShroudStrArrayAlloc, 3 `new`, 4 `malloc`; free 1 ShroudStrFree,
2 ShroudStrArrayFree, 3 `delete`, 4 `free`; hand-over 1 C capsule/context receives a registered
`{idtor}`, 2 NumPy capsule with destructor and context, 3 `PP_<T>_to_Object_idtor(ptr, capsule_order)`
with a registered destructor.
-/
namespace Shroud.Capsule
open Shroud.Gen.Capsule

/-- everything a block allocates before the call is either freed with the matching deallocator
    after the call (and on the `fail:` path when the block can jump there), or - for `new`/`malloc` -
    handed to a capsule for which a destructor is registered (and released on the `fail:` path) -/
def _root_.Shroud.Gen.Capsule.Row.ok (r : Row) : Bool :=
  r.allocs.all fun a =>
    (r.frees.contains a && (!r.gotoFail || r.fails.contains a)) ||
    ((a == 3 || a == 4) && r.handover != 0 && (!r.gotoFail || r.fails.contains a))

/-- **(5)** every effective statement block that allocates a temporary releases it (also on its
    `fail:` path) or hands it to a capsule with a registered destructor.  (Before /repo commit
    d32c736 the two Python struct-as-class `intent(out)` blocks violated this: index 0.) -/
theorem temporaries_released_or_handed_over : ∀ r ∈ rows, r.ok = true := by
  decide +kernel

/-- non-vacuity: the regenerated table has allocating blocks of every alloc code -/
theorem table_nonvacuous :
    (rows.filter (fun r => r.allocs.contains 1)).length ≥ 4 ∧
    (rows.filter (fun r => r.allocs.contains 2)).length ≥ 1 ∧
    (rows.filter (fun r => r.allocs.contains 3)).length ≥ 6 ∧
    (rows.filter (fun r => r.allocs.contains 4)).length ≥ 2 := by
  decide +kernel

/-- **capsule arguments are finalised on entry**: every Fortran argument of the capsule type in the
    regenerated statement blocks is `intent(OUT)`.  A capsule has a `final` procedure, so passing a
    capsule that still owns memory to a second owner(caller) call releases that memory first
    (model: `Shroud.Capsule.capsule_reuse_releases_previous`); with any other intent the old
    `{addr, idtor}` would be overwritten and its memory could never be released. -/
theorem capsule_arguments_intent_out :
    capsuleArgIntents ≠ [] ∧ ∀ r ∈ capsuleArgIntents, r.2 = 0 := by decide +kernel

/-- **key of the destructor registry**: `compute_idtor` registers a class's destructor under the
    typemap's namespace-qualified `cxx_type`, which is injective on C++ types (two classes with the same
    unqualified name in different namespaces get different keys; model:
    `Shroud.Capsule.distinct_keys_own_destructor`, witness `same_key_runs_first_destructor`) -/
theorem registry_key_is_qualified_type : registryKeyCode = 0 := by decide

end Shroud.Capsule
