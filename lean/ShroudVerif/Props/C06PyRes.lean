import ShroudVerif.Gen.PyRes
import ShroudVerif.Gen.Capsule
/-!
# C06, Python half: acquire / release discipline of the argument blocks on every exit path

Model: `Model/PyRes.lean`; table: `Gen/PyRes.lean`, regenerated from `wrapp.py_statements` by
`tools/extract_pyres.py` on every run.
-/
namespace Shroud.PyRes
open Shroud.Gen.PyRes

theorem runPhase_none_ok (evs : List Ev) (s : St) : (runPhase evs s none).2 = false := by
  induction evs generalizing s with
  | nil => rfl
  | cons e es ih => simp [runPhase, ih]

/-- a stop index beyond the clause never triggers -/
theorem runPhase_stop_ge (evs : List Ev) (s : St) (i : Nat) (h : evs.length ≤ i) :
    runPhase evs s (some i) = runPhase evs s none := by
  induction evs generalizing s i with
  | nil => cases i <;> rfl
  | cons e es ih =>
    cases i with
    | zero => simp at h
    | succ i => simp only [runPhase]; exact ih _ _ (by simpa using h)

theorem runBlk_own_ge (b : Blk) (p i : Nat) (hp : p ≤ 2) (h : (b.phase p).length ≤ i) :
    runBlk b (.own p i) = runBlk b .success := by
  have h0 := runPhase_none_ok b.parse St.init
  have h1 := fun s => runPhase_none_ok b.pre s
  have h2 := fun s => runPhase_none_ok b.post s
  have hp' : p = 0 ∨ p = 1 ∨ p = 2 := by omega
  rcases hp' with rfl | rfl | rfl
  · simp only [Blk.phase] at h
    simp [runBlk, runPhase_stop_ge _ _ _ h, h0, h1, h2]
  · simp only [Blk.phase] at h
    simp [runBlk, runPhase_stop_ge _ _ _ h, h0, h1, h2]
  · simp only [Blk.phase] at h
    simp [runBlk, runPhase_stop_ge _ _ _ h, h0, h1, h2]

/-- the bounded check covers every stop point a wrapper can produce for a block -/
theorem check_sound (b : Blk) (late : Bool) (hc : b.check late = true) (s : Stop)
    (hs : match s with
      | .success => True
      | .ext d => d ≤ 2 ∨ (d = 3 ∧ late = true)
      | .own p _ => p ≤ 2) : bad b (runBlk b s) = false := by
  unfold Blk.check at hc
  rw [List.all_eq_true] at hc
  have use : ∀ t, t ∈ b.stops late → bad b (runBlk b t) = false := by
    intro t ht; simpa using hc t ht
  cases s with
  | success => exact use _ (by simp [Blk.stops])
  | ext d =>
    have hs : d ≤ 2 ∨ (d = 3 ∧ late = true) := hs
    have : d = 0 ∨ d = 1 ∨ d = 2 ∨ (d = 3 ∧ late = true) := by
      rcases hs with h | h
      · omega
      · exact Or.inr (Or.inr (Or.inr h))
    rcases this with rfl | rfl | rfl | ⟨rfl, hl⟩
    · exact use _ (by simp [Blk.stops])
    · exact use _ (by simp [Blk.stops])
    · exact use _ (by simp [Blk.stops])
    · exact use _ (by simp [Blk.stops, hl])
  | own p i =>
    have hs : p ≤ 2 := hs
    by_cases hi : i < (b.phase p).length
    · have hp' : p = 0 ∨ p = 1 ∨ p = 2 := by omega
      apply use
      rcases hp' with rfl | rfl | rfl <;>
        simp only [Blk.phase] at hi <;> simp [Blk.stops, hi]
    · rw [runBlk_own_ge b p i hs (by omega)]
      exact use _ (by simp [Blk.stops])

/-- **every path, every argument list**: if every block of a wrapper passes the check, then for
    every list of argument blocks and every place where the wrapper can stop - success, or any
    fallible step `idx` of clause `phase` of argument `k` (conversion failure at argument k in
    post_parse / pre_call, allocation failure in post_call) - every block ends with no pointer still
    owned (except the object handed to the caller on success), nothing released twice and nothing
    released that was not acquired (NULL-safe releases on variables that start as NULL) -/
theorem wrapper_releases_exactly_once (bs : List Blk) (hall : ∀ b ∈ bs, b.check true = true)
    (g : GStop) (j : Nat) (b : Blk) (hb : bs[j]? = some b) :
    bad b (runBlk b (progOf g j)) = false := by
  have hm : b ∈ bs := List.mem_of_getElem? hb
  apply check_sound b true (hall b hm)
  cases g with
  | success => simp [progOf]
  | failAt k p i =>
    by_cases h1 : j = k
    · simp only [progOf, h1, if_true]; show min p 2 ≤ 2; omega
    · by_cases h2 : j < k
      · simp [progOf, h1, h2]; omega
      · simp [progOf, h1, h2]; omega

/-- the same when only the early check holds, for every stop at which no block has completed its
    post_call clause before another block fails -/
theorem wrapper_releases_exactly_once_partial (bs : List Blk) (hall : ∀ b ∈ bs, b.check false = true)
    (g : GStop) (j : Nat) (b : Blk) (hb : bs[j]? = some b) (hearly : progOf g j ≠ .ext 3) :
    bad b (runBlk b (progOf g j)) = false := by
  have hm : b ∈ bs := List.mem_of_getElem? hb
  apply check_sound b false (hall b hm)
  cases g with
  | success => simp [progOf]
  | failAt k p i =>
    by_cases h1 : j = k
    · simp only [progOf, h1, if_true]; show min p 2 ≤ 2; omega
    · by_cases h2 : j < k
      · simp only [progOf, h1, h2, if_false, if_true] at hearly ⊢
        show min p 2 + 1 ≤ 2 ∨ (min p 2 + 1 = 3 ∧ false = true)
        by_cases e : min p 2 + 1 = 3
        · exact absurd (by rw [e]) hearly
        · omega
      · simp only [progOf, h1, h2, if_false]
        show min p 2 ≤ 2 ∨ (min p 2 = 3 ∧ false = true); omega

/-! ### table theorems (regenerated data) -/

/-- the block hands `{cxx_var}` to a NumPy capsule (`PyCapsule_New(cxx_var, .., destructor)`) -/
def Blk.numpyCapsule (b : Blk) : Bool := b.post.contains (5, 32)

/-- **table, `_partial`**: every argument/result block of `py_statements`, both languages, releases
    exactly what it acquired on success, on each of its own failures and when another argument fails
    before this block's post_call has run - except the NumPy-capsule blocks (next theorem).
    Missing for the full statement: those blocks, and failures of a later argument's post_call
    (`py_blocks_late_failure`). -/
theorem py_blocks_release_on_every_path_partial :
    ∀ r ∈ rows, r.2.2.check false = true ∨ r.2.2.numpyCapsule = true := by decide +kernel

/-- the full early statement is false on the current tables: in `py_struct_result_numpy`,
    `py_vector_out_numpy`, `py_vector_result_numpy`, when `PyArray_SetBaseObject` fails the `fail:`
    code releases `{cxx_var}` through `PY_release_memory_function` AND drops the capsule whose
    destructor releases the same memory -/
theorem py_numpy_capsule_setbase_failure_double_release :
    ¬ ∀ r ∈ rows, r.2.2.check false = true := by decide +kernel

/-- structural reasons for a block to misbehave when a LATER argument's post_call fails -/
def Blk.lateRisk (b : Blk) : Bool :=
  b.post.any (fun e => e.1 == 3) ||                           -- released in post_call, released again in fail
  ((b.post.contains (1, 0) || b.post.contains (2, 0)) && !b.fail.contains (3, 0)) ||  -- result object / extra reference not dropped in fail
  (b.fail.contains (3, 3) && b.post.any (fun e => e.1 == 5))  -- memory given away, still freed in fail

theorem py_blocks_late_failure_classified :
    ∀ r ∈ rows, r.2.2.check true = true ∨ r.2.2.lateRisk = true := by decide +kernel

/-- the full statement (hypothesis of `wrapper_releases_exactly_once` for all blocks) is false on the
    current tables: e.g. `py_char_**_in` drops `{value_var}.dataobj` in post_call and again in `fail` -/
theorem py_blocks_late_failure : ¬ ∀ r ∈ rows, r.2.2.check true = true := by decide +kernel

/-- non-vacuity: blocks that do pass the full check exist in number, and a two-argument wrapper
    built from table rows satisfies the hypothesis of `wrapper_releases_exactly_once` -/
theorem py_table_nonvacuous :
    (rows.filter (fun r => r.2.2.check true)).length ≥ 40 ∧
    (rows.filter (fun r => r.2.2.parse ≠ [] ∨ r.2.2.pre ≠ [])).length ≥ 20 := by decide +kernel

example : ∀ b ∈ [(⟨[(1, 1)], [], [], [(3, 1)], [(3, 1)], false⟩ : Blk),
                 ⟨[], [(1, 3)], [(1, 0)], [(3, 3), (4, 3)], [(3, 0), (3, 3)], true⟩], b.check true = true := by decide

/-! ### member descriptors: any sequence of assignments, failed assignments and reads -/

theorem member_step_clean (m : Member) (hc : m.check = true) (s : St) (hs : s ∈ cleanStates) (o : DOp) :
    m.run s o ∈ cleanStates ∧ (runEvs m.dealloc s).settled = true := by
  unfold Member.check at hc
  rw [List.all_eq_true] at hc
  have h := hc s hs
  simp only [Bool.and_eq_true, List.all_eq_true] at h
  refine ⟨?_, h.2⟩
  have ho : o ∈ [DOp.setOk, .setBad, .get] := by cases o <;> simp
  have := h.1 o ho
  simpa using this

/-- **every call sequence on one object**: if the member's generated setter / getter / dealloc code
    passes the check, then after ANY sequence of successful assignments, failed assignments
    (conversion error) and reads, followed by the deallocation of the object, every reference the
    object owned has been released exactly once: nothing is still owned, nothing was released twice,
    no owned reference was overwritten -/
theorem member_sequences_release_exactly_once (m : Member) (hc : m.check = true) (ops : List DOp) :
    (runEvs m.dealloc (m.runAll St.init ops)).settled = true := by
  have hinit : St.init ∈ cleanStates := by simp [cleanStates, St.init]
  suffices ∀ s, s ∈ cleanStates → (runEvs m.dealloc (m.runAll s ops)).settled = true from this _ hinit
  induction ops with
  | nil => intro s hs; exact (member_step_clean m hc s hs .get).2
  | cons o os ih =>
    intro s hs
    simp only [Member.runAll, List.foldl_cons]
    exact ih _ (member_step_clean m hc s hs o).1

/-- **table**: every effective `py_descr_*` block of `wrapp.py_statements` (both languages), with the
    release lines of `Wrapp.tp_del`, passes the check -/
theorem py_members_release_exactly_once : ∀ r ∈ members, r.2.2.check = true := by decide +kernel

/-- sensitivity witness: a setter whose error branch clears the other variable (the released one
    keeps its stale pointer) fails the check; *assign, failed assign, dealloc* releases twice -/
theorem member_stale_pointer_double_release :
    (⟨[(3, 1)], [(4, 0)], [(2, 1)], [], [(3, 0), (3, 1)]⟩ : Member).check = false ∧
    (runEvs [(3, 0), (3, 1)] ((⟨[(3, 1)], [(4, 0)], [(2, 1)], [], [(3, 0), (3, 1)]⟩ : Member).runAll St.init
      [.setOk, .setBad])).dbl = true := by decide

theorem py_members_nonvacuous :
    (members.filter (fun r => r.2.2.onOk ≠ [])).length ≥ 6 ∧ (members.filter (fun r => r.2.2.getter ≠ [])).length ≥ 2 := by
  decide +kernel

/-! ### the by-value result is allocated exactly once on every default-argument path -/

theorem emitPath_not_pending (pre : List Ev) (sites : List Bool) : emitPath pre sites false = [] := by
  induction sites with
  | nil => rfl
  | cons r rs ih => simp [emitPath, ih]

/-- if every emission site resets the pending list, each executed path - whichever `case` of the
    default-argument switch is taken - runs the result's pre_call (the wrapper's allocation) exactly once -/
theorem result_pre_call_once (pre : List Ev) (sites : List Bool) (hne : sites ≠ [])
    (hall : ∀ r ∈ sites, r = true) : emitPath pre sites true = pre := by
  cases sites with
  | nil => exact absurd rfl hne
  | cons r rs =>
    have hr : r = true := hall r (by simp)
    simp [emitPath, hr, emitPath_not_pending]

/-- regenerated from `Wrapp.wrap_function`: every emission of `result_pre_call` is followed by its reset -/
theorem result_pre_call_sites_reset : resultPreCallSites ≠ [] ∧ ∀ r ∈ resultPreCallSites, r = true := by
  decide +kernel

/-- sensitivity witness: a site that does not reset makes the path allocate twice; the first block
    is overwritten while still owned (lost) -/
theorem result_pre_call_twice_loses_block :
    emitPath [(1, 3)] [false, true] true = [(1, 3), (1, 3)] ∧
    (runEvs (emitPath [(1, 3)] [false, true] true) St.init).lost = true := by decide

/-! ### a result released by a user `final` clause: copied out first, released afterwards -/

/-- groups that neither obtain, read nor release the result -/
def neutralGroup (g : Nat) : Bool := g != 1 && g != 3 && g != 4

theorem flatMap_neutral (l : List Nat) (h : ∀ g ∈ l, neutralGroup g = true) :
    l.flatMap finalGroupEvents = [] := by
  induction l with
  | nil => rfl
  | cons g gs ih =>
    have hg := h g (by simp)
    have hgs := ih (fun x hx => h x (by simp [hx]))
    simp only [List.flatMap_cons, hgs, List.append_nil]
    unfold neutralGroup at hg
    unfold finalGroupEvents
    split <;> simp_all

/-- **never early, exactly once**: for EVERY order of statement groups in which the call comes
    before post_call and post_call before final (any other groups anywhere in between), the result is
    read while it is alive and released exactly once -/
theorem final_after_copy_out (a b c d : List Nat)
    (ha : ∀ g ∈ a, neutralGroup g = true) (hb : ∀ g ∈ b, neutralGroup g = true)
    (hc : ∀ g ∈ c, neutralGroup g = true) (hd : ∀ g ∈ d, neutralGroup g = true) :
    (runGroups (a ++ [1] ++ b ++ [3] ++ c ++ [4] ++ d)).releasedOnceNeverEarly = true := by
  unfold runGroups
  simp only [List.flatMap_append, flatMap_neutral a ha, flatMap_neutral b hb, flatMap_neutral c hc,
    flatMap_neutral d hd, List.flatMap_cons, List.flatMap_nil, List.append_nil, List.nil_append]
  decide

/-- regenerated from `Wrapc.wrap_function`: the order the generator uses has that shape -/
theorem wrap_order_releases_after_copy_out :
    Shroud.Gen.Capsule.wrapGroupOrder = [0, 1, 2, 3, 4, 5] ∧
    (runGroups Shroud.Gen.Capsule.wrapGroupOrder).releasedOnceNeverEarly = true := by decide +kernel

/-- sensitivity witness: with `final` ahead of post_call the copy reads released memory -/
theorem final_before_copy_out_reads_released :
    (runGroups [0, 1, 2, 4, 3, 5]).dbl = true := by decide

end Shroud.PyRes
