import ShroudVerif.Lemmas.Names
/-!
# C08  Every callable C++ signature gets exactly one, distinct wrapper name

Property theorems only (helpers live in `Lemmas/Names.lean`).  All statements quantify over
every list of function descriptions of a scope (no size bound), every scope and every prefix.
-/
namespace Shroud.Names

/-! ## (e) `un_camel` -/

/-- `un_camel` only lower-cases and inserts `'_'`: its result is the lower-cased input with
    underscores inserted. -/
theorem unCamel_inserts (s : Str) : Inserts (lower s) (unCamel s) :=
  unCamelAux_inserts 0 none s

/-- The result has no upper-case letter. -/
theorem unCamel_noUpper (s : Str) : ∀ c ∈ unCamel s, isUpper c = false :=
  unCamelAux_noUpper 0 none s

/-- `un_camel` is the identity on its range. -/
theorem unCamel_idempotent (s : Str) : unCamel (unCamel s) = unCamel s :=
  unCamelAux_id_of_noUpper 0 none _ (unCamel_noUpper s)

example : unCamel "getHTTPResponseCode".toList = "get_http_response_code".toList := by decide
example : unCamel "aBc".toList = "abc".toList := by decide   -- index 1 never gets an underscore

/-! ## core lemmas: numbering is injective, the automatic form is recognisable -/

theorem autoSuffix_injective {m n : Nat} (h : autoSuffix m = autoSuffix n) : m = n :=
  autoSuffix_inj h

theorem autoSuffix_isAuto (n : Nat) : isAuto (autoSuffix n) = true := autoSuffix_isAuto' n

/-! ## (d) predictability: names are the documented templates -/

theorem c_name_predictable (sc : Scope) (r : Rec) :
    cName sc r = sc.cPrefix ++ sc.cScope ++ unCamel r.name ++ r.sfx ++ r.tsfx := by
  simp [cName, evalTemplate, C_name_template, Rec.env, Env.get]

theorem f_names_predictable (sc : Scope) (r : Rec) :
    fImpl sc r = sc.fScope ++ unCamel r.name ++ r.sfx ++ r.tsfx
    ∧ fFunction sc r = unCamel r.name ++ r.sfx ++ r.tsfx
    ∧ fcName sc r = lower ("c_".toList ++ sc.fScope ++ unCamel r.name ++ r.sfx ++ r.tsfx) := by
  simp [fImpl, fFunction, fcName, evalTemplate, F_name_impl_template, F_name_function_template,
    F_C_name_template, Rec.env, Env.get]

/-! ## (a) counts -/

/-- The first loop of `define_function_suffix` produces, for one declaration with `d`
    trailing defaults and `t` instantiations, `d` clones, the declaration itself and `t`
    template clones. -/
theorem stage1Fn_length (sc : Scope) (f : Fn) :
    (stage1Fn sc f).length = f.ndefaults + 1 + f.tinst.length := by
  have h : ∀ (o : Rec) (w : Wrap) (l : List TInst) (i : Nat), (templateClones o w i l).length = l.length := by
    intro o w l
    induction l with
    | nil => intro _; rfl
    | cons t ts ih => intro i; simp [templateClones, ih]
  unfold stage1Fn
  split
  · rename_i he
    have : f.tinst = [] := by simpa using he
    simp [this]
  · simp [h]; omega

/-- Number of C entry points documented for one declaration: one per admissible number of
    trailing defaulted arguments of the declaration (`d + 1`), or `d` + one per template
    instantiation for a function template; doubled when a bufferify variant exists. -/
def cCount (f : Fn) : Nat :=
  (f.ndefaults + (if f.tinst.isEmpty then 1 else f.tinst.length)) * (if f.hasBuf then 2 else 1)

/-- Number of Fortran specific procedures: one per C-level signature, or one per
    `fortran_generic` entry when such a list is given. -/
def fCount (f : Fn) : Nat :=
  (f.ndefaults + (if f.tinst.isEmpty then 1 else f.tinst.length))
    * (if f.generics.isEmpty then 1 else f.generics.length)


theorem stage1Fn_sum_cw (sc : Scope) (f : Fn) (hc : sc.w0.c = true) (hf : sc.w0.f = true) :
    ((stage1Fn sc f).map cw).sum = cCount f := by
  have k1 : ∀ x ∈ (List.range f.ndefaults).map (defaultClone sc f),
      cw x = if f.hasBuf then 2 else 1 := by
    intro x hx
    simp only [List.mem_map] at hx
    obtain ⟨k, _, rfl⟩ := hx
    simp [cw, defaultClone, Fn.base, hc, hf]
  unfold stage1Fn cCount
  rw [List.map_append, List.sum_append, List.map_map, ← List.map_map,
    sum_map_const cw _ _ k1]
  by_cases ht : f.tinst.isEmpty = true
  · simp only [ht, ↓reduceIte]
    simp [cw, original_wrap, original_hasBuf, hc, hf, Nat.add_mul]
  · simp only [ht, Bool.false_eq_true, ↓reduceIte]
    rw [List.map_cons, List.sum_cons,
      templateClones_sum cw (if f.hasBuf then 2 else 1) (original sc f) sc.w0
        (by intro t; simp [cw, original_hasBuf, hc, hf])]
    simp [cw, Nat.add_mul]

theorem stage1Fn_sum_fw (sc : Scope) (f : Fn) (hf : sc.w0.f = true) :
    ((stage1Fn sc f).map fw).sum = fCount f := by
  have hg : (genericSuffixes 0 f.generics).isEmpty = f.generics.isEmpty := by
    cases h : f.generics with
    | nil => rfl
    | cons a l => cases a <;> simp [genericSuffixes]
  have k1 : ∀ x ∈ (List.range f.ndefaults).map (defaultClone sc f),
      fw x = if f.generics.isEmpty then 1 else f.generics.length := by
    intro x hx
    simp only [List.mem_map] at hx
    obtain ⟨k, _, rfl⟩ := hx
    simp [fw, defaultClone, Fn.base, hg, genericSuffixes_length, hf]
  unfold stage1Fn fCount
  rw [List.map_append, List.sum_append, List.map_map, ← List.map_map,
    sum_map_const fw _ _ k1]
  by_cases ht : f.tinst.isEmpty = true
  · simp only [ht, ↓reduceIte]
    simp [fw, original_wrap, original_generics, hf, hg, genericSuffixes_length, Nat.add_mul]
  · simp only [ht, Bool.false_eq_true, ↓reduceIte]
    rw [List.map_cons, List.sum_cons,
      templateClones_sum fw (if f.generics.isEmpty then 1 else f.generics.length) (original sc f) sc.w0
        (by intro t; simp [fw, original_generics, hf, hg, genericSuffixes_length])]
    simp [fw, Nat.add_mul]

/-- **(a) count, C.**  With C and Fortran wrapping on, the expansion of a scope emits exactly
    the documented number of C entry points: for every declaration one per admissible number of
    trailing defaulted arguments (`d + 1`), `t` for the instantiations of a function template,
    and one more each where a bufferify variant exists. -/
theorem count_c_entry_points (sc : Scope) (fs : List Fn) (hc : sc.w0.c = true) (hf : sc.w0.f = true) :
    ((expand sc fs).filter (fun r => r.wrap.c)).length = (fs.map cCount).sum := by
  rw [← List.countP_eq_length_filter]
  unfold expand core
  rw [countP_c_flatMap_genericRec, countP_c_flatMap_bufferifyRec, number_map_cw]
  unfold stage1
  induction fs with
  | nil => rfl
  | cons f fs ih =>
    rw [List.flatMap_cons, List.map_append, List.sum_append, ih, stage1Fn_sum_cw sc f hc hf]
    simp

/-- **(a) count, Fortran.**  Exactly one Fortran specific per C-level signature, or one per
    `fortran_generic` entry (`g`) where such a list is given. -/
theorem count_fortran_specifics (sc : Scope) (fs : List Fn) (hf : sc.w0.f = true) :
    ((expand sc fs).filter (fun r => r.wrap.f)).length = (fs.map fCount).sum := by
  rw [← List.countP_eq_length_filter]
  unfold expand core
  rw [countP_f_flatMap_genericRec, sum_fw_flatMap_bufferifyRec, number_map_fw]
  unfold stage1
  induction fs with
  | nil => rfl
  | cons f fs ih =>
    rw [List.flatMap_cons, List.map_append, List.sum_append, ih, stage1Fn_sum_fw sc f hf]
    simp

/-! ## (b) distinctness -/

/-- General form: any name built as `pre ++ underscore_name ++ function_suffix ++
    template_suffix` is distinct over the visible entry points after default-argument
    expansion, template expansion and overload numbering. -/
theorem core_names_nodup (vis : Wrap → Bool) (pre : Str) (sc : Scope) (fs : List Fn)
    (ok : CoreOK vis (stage1 sc fs)) :
    (((core sc fs).filter (fun r => vis r.wrap)).map (nameWith pre)).Nodup :=
  number_names_nodup pre _ ok

/-- **(b) C symbols.**  Inside the domain `CoreOK`, all C names emitted for a scope by
    default-argument expansion, template expansion and overload numbering are pairwise
    distinct. -/
theorem c_names_distinct (sc : Scope) (fs : List Fn) (ok : CoreOK (fun w => w.c) (stage1 sc fs)) :
    (((core sc fs).filter (fun r => r.wrap.c)).map (cName sc)).Nodup := by
  have h := core_names_nodup (fun w => w.c) (sc.cPrefix ++ sc.cScope) sc fs ok
  have e : cName sc = nameWith (sc.cPrefix ++ sc.cScope) := by
    funext r; simp [c_name_predictable, nameWith]
  rw [e]; exact h

/-- **(b) Fortran module entities.**  Likewise for the Fortran implementation names. -/
theorem fortran_names_distinct (sc : Scope) (fs : List Fn) (ok : CoreOK (fun w => w.f) (stage1 sc fs)) :
    (((core sc fs).filter (fun r => r.wrap.f)).map (fImpl sc)).Nodup := by
  have h := core_names_nodup (fun w => w.f) sc.fScope sc fs ok
  have e : fImpl sc = nameWith sc.fScope := by
    funext r; simp [(f_names_predictable sc r).1, nameWith]
  rw [e]; exact h

/-! ### a non-trivial instance of the hypotheses, and the known ways to leave the domain -/

def exScope : Scope :=
  { cPrefix := "NM_".toList, cScope := "outer_".toList, fScope := [], derived := [], isClass := false,
    w0 := ⟨true, true, false, false⟩ }

def exFn (name : String) (np nd : Nat) (sfx : Option String) : Fn :=
  { name := name.toList, nparams := np, ndefaults := nd, suffix := sfx.map String.toList, dsuffix := [],
    tinst := [], generics := [], hasBuf := false, isCtor := false }

/-- two overloads of `fooBar` (one with two defaulted arguments, one with an explicit suffix), a
    function template with two instantiations and a single function -/
def exFns : List Fn :=
  [ exFn "fooBar" 3 2 none, exFn "fooBar" 1 0 (some "_dbl"),
    { exFn "tmpl" 1 0 none with tinst := [⟨none, 1, "_int".toList⟩, ⟨none, 1, "_double".toList⟩] },
    exFn "get" 0 0 none ]

example : CoreOK (fun w => w.c) (stage1 exScope exFns) := by
  constructor <;> decide +kernel
example : CoreOK (fun w => w.f) (stage1 exScope exFns) := by
  constructor <;> decide +kernel
example : ((core exScope exFns).filter (fun r => r.wrap.c)).map (cName exScope)
    = ["NM_outer_foo_bar_0", "NM_outer_foo_bar_1", "NM_outer_foo_bar_2", "NM_outer_foo_bar_dbl",
       "NM_outer_tmpl_int", "NM_outer_tmpl_double", "NM_outer_get"].map String.toList := by
  decide +kernel

/-- Outside the domain (DESIGN 2.3 #18): an explicit `function_suffix: _1` on one overload
    coincides with the automatic `_1` of another; two C functions get the same name. -/
theorem explicit_suffix_clash :
    ¬ (((core exScope [exFn "f" 1 0 (some "_1"), exFn "f" 1 0 none, exFn "f" 1 0 none]).filter
          (fun r => r.wrap.c)).map (cName exScope)).Nodup
    ∧ ¬ CoreOK (fun w => w.c) (stage1 exScope [exFn "f" 1 0 (some "_1"), exFn "f" 1 0 none, exFn "f" 1 0 none]) := by
  refine ⟨by decide +kernel, fun ok => ?_⟩
  have := ok.explicit_not_auto
  revert this
  decide +kernel

/-- Pairwise distinct underscore forms alone are not enough: two overloads of `get` are
    numbered `get_0`, `get_1`, and a function called `get_1` already has that name.  Hence the
    prefix-freeness clause of `CoreOK`. -/
theorem distinct_underscore_forms_insufficient :
    unCamel "get".toList ≠ unCamel "get_1".toList
    ∧ ¬ (((core exScope [exFn "get" 1 0 none, exFn "get" 2 0 none, exFn "get_1" 0 0 none]).filter
          (fun r => r.wrap.c)).map (cName exScope)).Nodup := by
  constructor <;> decide +kernel

/-! ### the whole pipeline: `_bufferify` clones and `fortran_generic` clones -/

/-- Suffix extensions of the C entry points of a record: itself and, when a bufferify variant
    is made, `_bufferify`. -/
def cExt (r : Rec) : List Str := [] :: (if r.wrap.f && r.hasBuf then [bufSuffix] else [])

/-- Suffix extensions of the Fortran specifics of a record: itself, or one per
    `fortran_generic` entry. -/
def fExt (r : Rec) : List Str := if r.generics.isEmpty then [[]] else r.generics

theorem expand_c_names_eq (sc : Scope) (fs : List Fn) :
    ((expand sc fs).filter (fun r => r.wrap.c)).map (cName sc)
      = ((core sc fs).filter (fun r => r.wrap.c)).flatMap
          (fun r => (cExt r).map (nameExt (sc.cPrefix ++ sc.cScope) r)) := by
  have one : ∀ r : Rec, ((genericRec r).filter (fun x => x.wrap.c)).map (cName sc)
      = ([r].filter (fun x => x.wrap.c)).map (cName sc) := by
    intro r
    unfold genericRec
    split
    · by_cases hc : r.wrap.c = true <;>
        simp [hc, List.filter_cons, List.filter_map, Function.comp_def, c_name_predictable]
    · rfl
  have cA : ∀ X : List Rec, ((X.flatMap genericRec).filter (fun r => r.wrap.c)).map (cName sc)
      = (X.filter (fun r => r.wrap.c)).map (cName sc) := by
    intro X
    induction X with
    | nil => rfl
    | cons r X ih =>
      have e2 : r :: X = [r] ++ X := rfl
      rw [List.flatMap_cons, List.filter_append, List.map_append, ih, one r, e2, List.filter_append,
        List.map_append]
  have cB : ∀ r : Rec, ((bufferifyRec r).filter (fun x => x.wrap.c)).map (cName sc)
      = ([r].filter (fun x => x.wrap.c)).flatMap
          (fun r => (cExt r).map (nameExt (sc.cPrefix ++ sc.cScope) r)) := by
    intro r
    by_cases hc : r.wrap.c = true <;> by_cases hf : r.wrap.f = true <;> by_cases hb : r.hasBuf = true <;>
      simp [bufferifyRec, cExt, nameExt, c_name_predictable, hc, hf, hb, List.filter_cons]
  unfold expand
  rw [cA]
  generalize core sc fs = N
  induction N with
  | nil => rfl
  | cons r N ih =>
    have e2 : r :: N = [r] ++ N := rfl
    rw [List.flatMap_cons, List.filter_append, List.map_append, ih, cB r, e2, List.filter_append,
      List.flatMap_append]

theorem expand_f_names_eq' (pre : Str) (sc : Scope) (fs : List Fn) :
    ((expand sc fs).filter (fun r => r.wrap.f)).map (nameWith pre)
      = ((core sc fs).filter (fun r => r.wrap.f)).flatMap
          (fun r => (fExt r).map (nameExt pre r)) := by
  have fG : ∀ r : Rec, ((genericRec r).filter (fun x => x.wrap.f)).map (nameWith pre)
      = ([r].filter (fun x => x.wrap.f)).flatMap (fun r => (fExt r).map (nameExt pre r)) := by
    intro r
    unfold genericRec fExt
    by_cases hf : r.wrap.f = true
    · by_cases hg : r.generics.isEmpty = true
      · have hg' : r.generics = [] := by simpa using hg
        simp [hf, hg', List.filter_cons, nameExt, nameWith]
      · have hg' : r.generics ≠ [] := by simpa using hg
        have hall : r.generics.filter (fun _ => true) = r.generics := List.filter_eq_self.2 (by simp)
        simp [hf, hg', hall, List.filter_cons, List.filter_map, Function.comp_def, nameExt, nameWith]
    · simp [hf, List.filter_cons]
  have fB : ∀ r : Rec, (((bufferifyRec r).flatMap genericRec).filter (fun x => x.wrap.f)).map (nameWith pre)
      = ([r].filter (fun x => x.wrap.f)).flatMap (fun r => (fExt r).map (nameExt pre r)) := by
    intro r
    unfold bufferifyRec
    split
    · rw [List.flatMap_cons, List.flatMap_cons, List.flatMap_nil, List.append_nil, List.filter_append,
        List.map_append, fG r]
      simp [genericRec, List.filter_cons]
    · simpa using fG r
  unfold expand
  generalize core sc fs = N
  induction N with
  | nil => rfl
  | cons r N ih =>
    have e2 : r :: N = [r] ++ N := rfl
    rw [List.flatMap_cons, List.flatMap_append, List.filter_append, List.map_append, ih, fB r, e2,
      List.filter_append, List.flatMap_append]

theorem fImpl_eq_nameWith (sc : Scope) : fImpl sc = nameWith sc.fScope := by
  funext r; simp [(f_names_predictable sc r).1, nameWith]

theorem fFunction_eq_nameWith (sc : Scope) : fFunction sc = nameWith [] := by
  funext r; simp [(f_names_predictable sc r).2.1, nameWith]

theorem expand_f_names_eq (sc : Scope) (fs : List Fn) :
    ((expand sc fs).filter (fun r => r.wrap.f)).map (fImpl sc)
      = ((core sc fs).filter (fun r => r.wrap.f)).flatMap
          (fun r => (fExt r).map (nameExt sc.fScope r)) := by
  rw [fImpl_eq_nameWith]; exact expand_f_names_eq' _ sc fs

theorem cExt_renumber (s i : Nat) (r : Rec) : cExt (renumber s i r) = cExt r := by
  simp [cExt]
theorem fExt_renumber (s i : Nat) (r : Rec) : fExt (renumber s i r) = fExt r := by
  simp [fExt]

/-- **(b) C symbols, whole pipeline.**  All C names a scope emits (default-argument
    variants, template instantiations, numbered overloads and their `_bufferify` clones) are
    pairwise distinct, provided additionally that explicit suffixes are single `_token`s and
    templated functions have no bufferify variant. -/
theorem expand_c_names_distinct (sc : Scope) (fs : List Fn)
    (ok : CoreOK (fun w => w.c) (stage1 sc fs))
    (tok : ∀ r ∈ stage1 sc fs, eligible r = true → r.sfxLocal = true → isTok r.sfx = true)
    (tb : ∀ r ∈ stage1 sc fs, eligible r = false → r.hasBuf = false) :
    (((expand sc fs).filter (fun r => r.wrap.c)).map (cName sc)).Nodup := by
  rw [expand_c_names_eq]
  refine number_ext_names_nodup (vis := fun w => w.c) cExt_renumber _ _ ok ⟨?_, ?_, ?_, tok⟩
  · intro r _ e he
    unfold cExt at he
    split at he
    · simp at he; rcases he with rfl | rfl
      · rfl
      · exact bufSuffix_extLike
    · simp at he; subst he; rfl
  · intro r _
    unfold cExt
    split
    · have : ([] : Str) ≠ bufSuffix := by decide
      simp [this]
    · simp
  · intro r hr ht e he
    simpa [cExt, tb r hr ht] using he

/-- Hypotheses of the Fortran distinctness theorems, on the entry points of `stage1`. -/
structure FortranOK (l : List Rec) : Prop where
  core : CoreOK (fun w => w.f) l
  tok : ∀ r ∈ l, eligible r = true → r.sfxLocal = true → isTok r.sfx = true
  gl : ∀ r ∈ l, ∀ g ∈ r.generics, extLike g = true
  gn : ∀ r ∈ l, r.generics.Nodup
  tg : ∀ r ∈ l, eligible r = false → r.generics = []

theorem expand_f_names_nodup (pre : Str) (sc : Scope) (fs : List Fn) (ok : FortranOK (stage1 sc fs)) :
    (((expand sc fs).filter (fun r => r.wrap.f)).map (nameWith pre)).Nodup := by
  rw [expand_f_names_eq']
  refine number_ext_names_nodup (vis := fun w => w.f) fExt_renumber _ _ ok.core ⟨?_, ?_, ?_, ok.tok⟩
  · intro r hr e he
    unfold fExt at he
    split at he
    · simp at he; subst he; rfl
    · exact ok.gl r hr e he
  · intro r hr
    unfold fExt
    split
    · simp
    · exact ok.gn r hr
  · intro r hr ht e he
    simpa [fExt, ok.tg r hr ht] using he

/-- **(c) each once.**  No generic interface and no type-bound generic lists a specific twice:
    the members filed under any key are pairwise distinct (type-bound generics list the
    binding names `F_name_function`, interfaces the procedure names `F_name_impl`). -/
theorem generic_members_distinct (sc : Scope) (fs : List Fn) (ok : FortranOK (stage1 sc fs))
    (sel : Rec → Bool) (pre : Str) (hsel : ∀ r, sel r = true → genericMember sc r = nameWith pre r)
    (key : Str) :
    (tableGet key (genericTable sc sel (expand sc fs) [])).Nodup := by
  rw [tableGet_genericTable]
  simp only [tableGet, List.nil_append]
  have e : ((expand sc fs).filter fun r => r.wrap.f && sel r && genericKey sc r == key).map (genericMember sc)
      = ((expand sc fs).filter fun r => r.wrap.f && sel r && genericKey sc r == key).map (nameWith pre) := by
    apply List.map_congr_left
    intro r hr
    have := (List.mem_filter.1 hr).2
    simp only [Bool.and_eq_true] at this
    exact hsel r this.1.2
  rw [e]
  have sub : List.Sublist
      (((expand sc fs).filter fun r => r.wrap.f && sel r && genericKey sc r == key).map (nameWith pre))
      (((expand sc fs).filter (fun r => r.wrap.f)).map (nameWith pre)) := by
    apply List.Sublist.map
    have : ((expand sc fs).filter fun r => r.wrap.f && sel r && genericKey sc r == key)
        = ((expand sc fs).filter (fun r => r.wrap.f)).filter (fun r => sel r && genericKey sc r == key) := by
      rw [List.filter_filter]
      congr 1; funext r
      cases r.wrap.f <;> cases sel r <;> cases (genericKey sc r == key) <;> rfl
    rw [this]
    exact List.filter_sublist
  exact (expand_f_names_nodup pre sc fs ok).sublist sub

/-- Type-bound generics of a class: every `generic :: key => ...` lists each binding once. -/
theorem type_bound_generic_members_distinct (sc : Scope) (fs : List Fn) (ok : FortranOK (stage1 sc fs))
    (key : Str) : (tableGet key (genericTable sc (typeBound sc) (expand sc fs) [])).Nodup :=
  generic_members_distinct sc fs ok (typeBound sc) [] (by
    intro r h; simp [genericMember, h, fFunction_eq_nameWith]) key

/-- Module-level interfaces: every `interface key` lists each procedure once. -/
theorem interface_members_distinct (sc : Scope) (fs : List Fn) (ok : FortranOK (stage1 sc fs))
    (key : Str) : (tableGet key (genericTable sc (moduleLevel sc) (expand sc fs) [])).Nodup :=
  generic_members_distinct sc fs ok (moduleLevel sc) sc.fScope (by
    intro r h
    have : typeBound sc r = false := by simpa [moduleLevel] using h
    simp [genericMember, this, fImpl_eq_nameWith]) key

/-- **(b) Fortran module entities, whole pipeline.**  All Fortran specific names a scope
    emits, including the `function_suffix ++ generic_suffix` names of `fortran_generic`
    clones, are pairwise distinct, provided additionally that explicit suffixes are single
    `_token`s, generic suffixes are pairwise distinct and empty or `_`-initial, and templated
    functions have no `fortran_generic` list. -/
theorem expand_fortran_names_distinct (sc : Scope) (fs : List Fn)
    (ok : CoreOK (fun w => w.f) (stage1 sc fs))
    (tok : ∀ r ∈ stage1 sc fs, eligible r = true → r.sfxLocal = true → isTok r.sfx = true)
    (gl : ∀ r ∈ stage1 sc fs, ∀ g ∈ r.generics, extLike g = true)
    (gn : ∀ r ∈ stage1 sc fs, r.generics.Nodup)
    (tg : ∀ r ∈ stage1 sc fs, eligible r = false → r.generics = []) :
    (((expand sc fs).filter (fun r => r.wrap.f)).map (fImpl sc)).Nodup := by
  rw [expand_f_names_eq]
  refine number_ext_names_nodup (vis := fun w => w.f) fExt_renumber _ _ ok ⟨?_, ?_, ?_, tok⟩
  · intro r hr e he
    unfold fExt at he
    split at he
    · simp at he; subst he; rfl
    · exact gl r hr e he
  · intro r hr
    unfold fExt
    split
    · simp
    · exact gn r hr
  · intro r hr ht e he
    simpa [fExt, tg r hr ht] using he

/-- `exFns` plus a function with a `std::string` argument and a default, and one with a
    `fortran_generic` list -/
def exFns2 : List Fn :=
  exFns ++ [{ exFn "str" 2 1 none with hasBuf := true },
            { exFn "gen" 1 0 none with generics := [none, some "_dbl".toList] }]

example : CoreOK (fun w => w.c) (stage1 exScope exFns2) := by constructor <;> decide +kernel
example : CoreOK (fun w => w.f) (stage1 exScope exFns2) := by constructor <;> decide +kernel
example : ∀ r ∈ stage1 exScope exFns2, eligible r = true → r.sfxLocal = true → isTok r.sfx = true := by
  decide +kernel
example : ∀ r ∈ stage1 exScope exFns2, eligible r = false → r.hasBuf = false := by decide +kernel
example : ∀ r ∈ stage1 exScope exFns2, ∀ g ∈ r.generics, extLike g = true := by decide +kernel
example : ∀ r ∈ stage1 exScope exFns2, r.generics.Nodup := by decide +kernel
example : ∀ r ∈ stage1 exScope exFns2, eligible r = false → r.generics = [] := by decide +kernel
example : (((expand exScope exFns2).filter (fun r => r.wrap.f)).map (fImpl exScope))
    = ["foo_bar_0", "foo_bar_1", "foo_bar_2", "foo_bar_dbl", "tmpl_int", "tmpl_double", "get",
       "str_0", "str_1", "gen_0", "gen_dbl"].map String.toList := by
  decide +kernel

example : (((expand exScope (exFns ++ [{ exFn "str" 2 1 none with hasBuf := true },
      { exFn "gen" 1 0 none with generics := [none, some "_dbl".toList] }])).filter
        (fun r => r.wrap.c)).map (cName exScope))
    = ["NM_outer_foo_bar_0", "NM_outer_foo_bar_1", "NM_outer_foo_bar_2", "NM_outer_foo_bar_dbl",
       "NM_outer_tmpl_int", "NM_outer_tmpl_double", "NM_outer_get",
       "NM_outer_str_0", "NM_outer_str_0_bufferify", "NM_outer_str_1", "NM_outer_str_1_bufferify",
       "NM_outer_gen"].map String.toList := by
  decide +kernel

/-! ### across scopes -/

theorem templateClones_name (o : Rec) (w : Wrap) : ∀ (l : List TInst) (i : Nat),
    ∀ r ∈ templateClones o w i l, r.name = o.name := by
  intro l
  induction l with
  | nil => intro _ r h; simp [templateClones] at h
  | cons t ts ih =>
    intro i r h
    simp only [templateClones, List.mem_cons] at h
    rcases h with rfl | h
    · rfl
    · exact ih _ r h

theorem original_name (sc : Scope) (f : Fn) : (original sc f).name = f.name := by
  unfold original; repeat' split
  all_goals rfl

/-- Every record of the expansion carries the name of one of the declarations. -/
theorem expand_name_mem (sc : Scope) (fs : List Fn) :
    ∀ r ∈ expand sc fs, ∃ f ∈ fs, r.name = f.name := by
  intro r hr
  unfold expand at hr
  simp only [List.mem_flatMap] at hr
  obtain ⟨r1, ⟨r2, hr2, hr1⟩, hr⟩ := hr
  have h1 : r.name = r1.name := by
    unfold genericRec at hr
    split at hr
    · simp only [List.mem_cons, List.mem_map] at hr
      rcases hr with rfl | ⟨g, _, rfl⟩ <;> rfl
    · simp at hr; rw [hr]
  have h2 : r1.name = r2.name := by
    unfold bufferifyRec at hr1
    split at hr1
    · simp only [List.mem_cons, List.not_mem_nil, or_false] at hr1
      rcases hr1 with rfl | rfl <;> rfl
    · simp at hr1; rw [hr1]
  obtain ⟨r3, hr3, i, _, e⟩ := mem_numberAux (all := stage1 sc fs) _ [] hr2
  have h3 : r2.name = r3.name := by rw [e]; simp
  unfold stage1 at hr3
  simp only [List.mem_flatMap] at hr3
  obtain ⟨f, hf, hr3⟩ := hr3
  refine ⟨f, hf, ?_⟩
  rw [h1, h2, h3]
  unfold stage1Fn at hr3
  simp only [List.mem_append, List.mem_map] at hr3
  rcases hr3 with ⟨k, _, rfl⟩ | hr3
  · rfl
  · split at hr3
    · simp at hr3; rw [hr3, original_name]
    · simp only [List.mem_cons] at hr3
      rcases hr3 with rfl | hr3
      · exact original_name sc f
      · rw [templateClones_name _ _ _ _ r3 hr3, original_name]

/-- All C names one scope emits. -/
def cNamesOf (p : Scope × List Fn) : List Str :=
  ((expand p.1 p.2).filter (fun r => r.wrap.c)).map (cName p.1)

/-- Scopes are separated: same library prefix, and `C_name_scope ++ underscore_name` of a
    declaration in one scope is never a prefix of that of a declaration in another scope
    (e.g. distinct namespace/class paths whose `_`-joined forms are not prefixes of one another). -/
def ScopesSep (P : List (Scope × List Fn)) : Prop :=
  P.Pairwise fun a b => a.1.cPrefix = b.1.cPrefix ∧ ∀ f ∈ a.2, ∀ g ∈ b.2,
    ¬ (a.1.cScope ++ unCamel f.name <+: b.1.cScope ++ unCamel g.name)
    ∧ ¬ (b.1.cScope ++ unCamel g.name <+: a.1.cScope ++ unCamel f.name)

/-- **(b) C symbols of a whole library.**  With separated scopes, the external C symbols of
    all scopes together are pairwise distinct. -/
theorem program_c_names_distinct (P : List (Scope × List Fn))
    (each : ∀ p ∈ P, (cNamesOf p).Nodup) (sep : ScopesSep P) :
    (P.flatMap cNamesOf).Nodup := by
  unfold List.Nodup
  rw [List.pairwise_flatMap]
  refine ⟨each, sep.imp ?_⟩
  intro a b ⟨hp, hsep⟩ x hx y hy
  unfold cNamesOf at hx hy
  simp only [List.mem_map, List.mem_filter] at hx hy
  obtain ⟨r1, ⟨hr1, _⟩, rfl⟩ := hx
  obtain ⟨r2, ⟨hr2, _⟩, rfl⟩ := hy
  obtain ⟨f, hf, e1⟩ := expand_name_mem _ _ r1 hr1
  obtain ⟨g, hg, e2⟩ := expand_name_mem _ _ r2 hr2
  rw [c_name_predictable, c_name_predictable, hp, e1, e2]
  intro h
  simp only [List.append_assoc] at h
  have h := List.append_cancel_left h
  obtain ⟨n1, n2⟩ := hsep f hf g hg
  have := append_ne_of_not_prefix (t1 := r1.sfx ++ r1.tsfx) (t2 := r2.sfx ++ r2.tsfx) n1 n2
  exact this (by simpa [List.append_assoc] using h)

/-- Library-level statement in terms of the per-scope hypotheses. -/
theorem program_c_names_distinct' (P : List (Scope × List Fn))
    (ok : ∀ p ∈ P, CoreOK (fun w => w.c) (stage1 p.1 p.2)
      ∧ (∀ r ∈ stage1 p.1 p.2, eligible r = true → r.sfxLocal = true → isTok r.sfx = true)
      ∧ (∀ r ∈ stage1 p.1 p.2, eligible r = false → r.hasBuf = false))
    (sep : ScopesSep P) : (P.flatMap cNamesOf).Nodup :=
  program_c_names_distinct P
    (fun p hp => expand_c_names_distinct p.1 p.2 (ok p hp).1 (ok p hp).2.1 (ok p hp).2.2) sep

example : ScopesSep [(exScope, exFns), ({ exScope with cScope := "ns2_".toList }, exFns)] := by
  unfold ScopesSep
  decide +kernel

/-- **(c) generic interfaces and type-bound generics.**  The table built while wrapping
    (per module for interfaces, per class for `generic ::` bindings) lists, under every key,
    exactly the names of the wrapped records of that kind filed under that key, in order. -/
theorem generic_interface_members (sc : Scope) (sel : Rec → Bool) (recs : List Rec) (key : Str) :
    tableGet key (genericTable sc sel recs [])
      = (recs.filter fun r => r.wrap.f && sel r && genericKey sc r == key).map (genericMember sc) := by
  rw [tableGet_genericTable]; simp [tableGet]

end Shroud.Names
