import ShroudVerif.Lemmas.Names
/-!
# C08  Every callable C++ signature gets exactly one, distinct wrapper name

Property theorems only (helpers live in `Lemmas/Names.lean`).  All statements quantify over
every list of function descriptions of a scope (no size bound), every scope and every prefix.
-/
namespace Shroud.Names

/-! ## (e) `un_camel` -/

/-- `un_camel` only lower-cases and inserts `'_'`: its result is the lower-cased input with
    underscores inserted. -/
theorem unCamel_inserts (s : Str) : Inserts (lower s) (unCamel s) :=
  unCamelAux_inserts 0 none s

/-- The result has no upper-case letter. -/
theorem unCamel_noUpper (s : Str) : ∀ c ∈ unCamel s, isUpper c = false :=
  unCamelAux_noUpper 0 none s

/-- `un_camel` is the identity on its range. -/
theorem unCamel_idempotent (s : Str) : unCamel (unCamel s) = unCamel s :=
  unCamelAux_id_of_noUpper 0 none _ (unCamel_noUpper s)

example : unCamel "getHTTPResponseCode".toList = "get_http_response_code".toList := by decide
example : unCamel "aBc".toList = "abc".toList := by decide   -- index 1 never gets an underscore

/-! ## core lemmas: numbering is injective, the automatic form is recognisable -/

theorem autoSuffix_injective {m n : Nat} (h : autoSuffix m = autoSuffix n) : m = n :=
  autoSuffix_inj h

theorem autoSuffix_isAuto (n : Nat) : isAuto (autoSuffix n) = true := autoSuffix_isAuto' n

/-! ## (d) predictability: names are the documented templates -/

theorem c_name_predictable (sc : Scope) (r : Rec) :
    cName sc r = sc.cPrefix ++ sc.cScope ++ unCamel r.name ++ r.sfx ++ r.tsfx := by
  simp [cName, evalTemplate, C_name_template, Rec.env, Env.get]

theorem f_names_predictable (sc : Scope) (r : Rec) :
    fImpl sc r = sc.fScope ++ unCamel r.name ++ r.sfx ++ r.tsfx
    ∧ fFunction sc r = unCamel r.name ++ r.sfx ++ r.tsfx
    ∧ fcName sc r = lower ("c_".toList ++ sc.fScope ++ unCamel r.name ++ r.sfx ++ r.tsfx) := by
  simp [fImpl, fFunction, fcName, evalTemplate, F_name_impl_template, F_name_function_template,
    F_C_name_template, Rec.env, Env.get]

/-! ## (a) counts -/

theorem templateClones_length (o : Rec) (w : Wrap) : ∀ (l : List TInst) (i : Nat),
    (templateClones o w i l).length = l.length := by
  intro l
  induction l with
  | nil => intro _; rfl
  | cons t ts ih => intro i; simp [templateClones, ih]

theorem templateClones_fields (o : Rec) (w : Wrap) : ∀ (l : List TInst) (i : Nat),
    ∀ c ∈ templateClones o w i l, c.wrap = w ∧ c.hasBuf = o.hasBuf ∧ c.generics = o.generics := by
  intro l
  induction l with
  | nil => intro _ c h; simp [templateClones] at h
  | cons t ts ih =>
    intro i c h
    simp only [templateClones, List.mem_cons] at h
    rcases h with rfl | h
    · exact ⟨rfl, rfl, rfl⟩
    · exact ih _ c h

theorem numberVariants_length : ∀ (l : List Rec) (i : Nat), (numberVariants i l).length = l.length := by
  intro l
  induction l with
  | nil => intro _; rfl
  | cons r l ih => intro i; simp [numberVariants, ih]

theorem numberVariants_map (g : Rec → Nat) (hg : ∀ r s, g { r with sfx := s } = g r) :
    ∀ (l : List Rec) (i : Nat), (numberVariants i l).map g = l.map g := by
  intro l
  induction l with
  | nil => intro _; rfl
  | cons r l ih =>
    intro i
    simp only [numberVariants, List.map_cons, ih]
    split <;> simp [hg]

theorem variants_length (f : Fn) (c : Rec) : (variants f c).length = f.ndefaults + 1 := by
  simp [variants, numberVariants_length]

theorem sum_flatMap_const (g : Rec → List Rec) (w : Rec → Nat) (m : Nat) (l : List Rec)
    (h : ∀ c ∈ l, ((g c).map w).sum = m) : ((l.flatMap g).map w).sum = l.length * m := by
  induction l with
  | nil => simp
  | cons c l ih =>
    rw [List.flatMap_cons, List.map_append, List.sum_append, h c (by simp),
      ih (fun x hx => h x (by simp [hx])), List.length_cons, Nat.add_mul]
    omega

/-- Weights that only look at the C/Fortran wrap flags, the bufferify flag and the generic
    list are the same for an instantiated clone and all its default-argument variants. -/
theorem variants_sum (g : Rec → Nat) (hs : ∀ r s, g { r with sfx := s } = g r)
    (hv : ∀ f c k, g (variantClone f c k) = g c) (hl : ∀ f c, g (variantLast f c) = g c)
    (f : Fn) (c : Rec) : ((variants f c).map g).sum = (f.ndefaults + 1) * g c := by
  unfold variants
  rw [numberVariants_map g hs, List.map_append, List.sum_append, List.map_map,
    sum_map_const (g ∘ variantClone f c) (g c) _ (by intro k _; exact hv f c k)]
  simp [hl, Nat.add_mul]

theorem cw_variantClone (f : Fn) (c : Rec) (k : Nat) : cw (variantClone f c k) = cw c := by
  by_cases h : c.wrap.c = true <;> simp [cw, hasClone, variantClone, h]
theorem cw_variantLast (f : Fn) (c : Rec) : cw (variantLast f c) = cw c := by
  unfold variantLast; split <;> rfl
theorem fw_variantClone (f : Fn) (c : Rec) (k : Nat) : fw (variantClone f c k) = fw c := by
  simp [fw, variantClone]
theorem fw_variantLast (f : Fn) (c : Rec) : fw (variantLast f c) = fw c := by
  unfold variantLast; split <;> rfl

/-- The first loop of `define_function_suffix` produces, for one declaration with `d`
    trailing defaults and `t` instantiations: `d` clones and the declaration; for a function
    template the declaration and `t` clones, each with its `d` default-argument variants; for a
    member that uses a class template parameter one more clone. -/
theorem stage1Fn_length (sc : Scope) (f : Fn) :
    (stage1Fn sc f).length
      = if f.tinst.isEmpty then f.ndefaults + 1 + (if f.usesT then 1 else 0)
        else 1 + f.tinst.length * (f.ndefaults + 1) := by
  unfold stage1Fn
  by_cases he : f.tinst.isEmpty = true
  · by_cases hu : f.usesT = true
    · by_cases hd : f.ndefaults = 0
      · simp [he, hu, hd]
      · simp [he, hu, hd]
    · simp [he, hu]
  · by_cases hd : f.ndefaults = 0
    · simp [he, hd, templateClones_length]; omega
    · simp only [he, hd, Bool.false_eq_true, ↓reduceIte, List.length_cons]
      have : ∀ l : List Rec, (l.flatMap (variants f)).length = l.length * (f.ndefaults + 1) := by
        intro l
        induction l with
        | nil => simp
        | cons c l ih => rw [List.flatMap_cons, List.length_append, ih, variants_length,
            List.length_cons, Nat.add_mul]; omega
      rw [this, templateClones_length]; omega

/-- Number of C entry points documented for one declaration: one per admissible number of
    trailing defaulted arguments (`d + 1`), for each instantiation of a function template
    (`t * (d + 1)`); doubled when a bufferify variant exists. -/
def cCount (f : Fn) : Nat :=
  (if f.tinst.isEmpty then f.ndefaults + 1 else f.tinst.length * (f.ndefaults + 1))
    * (if f.hasBuf then 2 else 1)

/-- Number of Fortran specific procedures: one per C-level signature, or one per
    `fortran_generic` entry when such a list is given. -/
def fCount (f : Fn) : Nat :=
  (if f.tinst.isEmpty then f.ndefaults + 1 else f.tinst.length * (f.ndefaults + 1))
    * (if f.generics.isEmpty then 1 else f.generics.length)

theorem stage1Fn_sum (sc : Scope) (f : Fn) (g : Rec → Nat) (K : Nat)
    (hs : ∀ r s, g { r with sfx := s } = g r)
    (hv : ∀ f c k, g (variantClone f c k) = g c) (hl : ∀ f c, g (variantLast f c) = g c)
    (h0 : ∀ r : Rec, r.wrap = ⟨false, false, false, false⟩ → g r = 0)
    (hdc : ∀ k, g (defaultClone sc f k) = K)
    (ho : g (original sc f) = K)
    (hu : g (usesTClone sc f) = K)
    (hc : ∀ c ∈ templateClones (f.base sc) (f.w0 sc) 0 f.tinst, g c = K) :
    ((stage1Fn sc f).map g).sum
      = (if f.tinst.isEmpty then f.ndefaults + 1 else f.tinst.length * (f.ndefaults + 1)) * K := by
  unfold stage1Fn
  by_cases he : f.tinst.isEmpty = true
  · simp only [he, ↓reduceIte]
    by_cases hut : f.usesT = true
    · by_cases hd : f.ndefaults = 0
      · simp [hut, hd, hu, h0]
      · simp only [hut, hd, ↓reduceIte, List.map_cons, List.sum_cons]
        rw [h0 _ rfl, List.map_append, List.sum_append, List.map_map,
          sum_map_const (g ∘ variantClone f (usesTClone sc f)) K _ (by intro k _; simp [hv, hu])]
        simp [hl, hu, Nat.add_mul]
    · simp only [hut, Bool.false_eq_true, ↓reduceIte]
      rw [List.map_append, List.sum_append, List.map_map,
        sum_map_const (g ∘ defaultClone sc f) K _ (by intro k _; exact hdc k)]
      simp [ho, Nat.add_mul]
  · by_cases hd : f.ndefaults = 0
    · simp only [he, hd, Bool.false_eq_true, ↓reduceIte, List.map_cons, List.sum_cons]
      rw [h0 _ rfl, sum_map_const g K _ hc, templateClones_length]
      simp
    · simp only [he, hd, Bool.false_eq_true, ↓reduceIte, List.map_cons, List.sum_cons]
      rw [h0 _ rfl, sum_flatMap_const (variants f) g ((f.ndefaults + 1) * K) _
        (by intro c hcm; rw [variants_sum g hs hv hl, hc c hcm]), templateClones_length]
      simp [Nat.mul_assoc]

theorem stage1Fn_sum_cw (sc : Scope) (f : Fn) (hc : (f.w0 sc).c = true) (hf : (f.w0 sc).f = true) :
    ((stage1Fn sc f).map cw).sum = cCount f := by
  unfold cCount
  apply stage1Fn_sum sc f cw _ (by intro r s; rfl) cw_variantClone cw_variantLast
  · intro r h; simp [cw, hasClone, h]
  · intro k; by_cases hb : f.hasBuf = true <;> simp [cw, hasClone, defaultClone, Fn.base, hc, hf, hb]
  · by_cases hb : f.hasBuf = true <;> simp [cw, hasClone, original_wrap, original_hasBuf, hc, hf, hb]
  · by_cases hb : f.hasBuf = true <;> simp [cw, hasClone, usesTClone, Fn.base, hc, hf, hb]
  · intro c hcm
    obtain ⟨h1, h2, _⟩ := templateClones_fields _ _ _ _ c hcm
    by_cases hb : f.hasBuf = true <;> simp [cw, hasClone, h1, h2, hc, hf, Fn.base, hb]

theorem stage1Fn_sum_fw (sc : Scope) (f : Fn) (hf : (f.w0 sc).f = true) :
    ((stage1Fn sc f).map fw).sum = fCount f := by
  have hg : (genericSuffixes 0 f.generics).isEmpty = f.generics.isEmpty := by
    cases h : f.generics with
    | nil => rfl
    | cons a l => cases a <;> simp [genericSuffixes]
  unfold fCount
  apply stage1Fn_sum sc f fw _ (by intro r s; rfl) fw_variantClone fw_variantLast
  · intro r h; simp [fw, h]
  · intro k; simp [fw, defaultClone, Fn.base, hg, genericSuffixes_length, hf]
  · simp [fw, original_wrap, original_generics, hf, hg, genericSuffixes_length]
  · simp [fw, usesTClone, Fn.base, hf, hg, genericSuffixes_length]
  · intro c hcm
    obtain ⟨h1, _, h3⟩ := templateClones_fields _ _ _ _ c hcm
    simp [fw, h1, h3, hf, Fn.base, hg, genericSuffixes_length]

/-- **(a) count, C.**  With C and Fortran wrapping on, the expansion of a scope emits exactly
    the documented number of C entry points: for every declaration one per admissible number of
    trailing defaulted arguments (`d + 1`), `t` for the instantiations of a function template,
    and one more each where a bufferify variant exists. -/
theorem count_c_entry_points (sc : Scope) (fs : List Fn)
    (hc : ∀ f ∈ fs, (f.w0 sc).c = true) (hf : ∀ f ∈ fs, (f.w0 sc).f = true) :
    ((expand sc fs).filter (fun r => r.wrap.c)).length = (fs.map cCount).sum := by
  rw [← List.countP_eq_length_filter]
  unfold expand core
  rw [countP_c_flatMap_genericRec, countP_c_flatMap_bufferifyRec, number_map_cw]
  unfold stage1
  induction fs with
  | nil => rfl
  | cons f fs ih =>
    rw [List.flatMap_cons, List.map_append, List.sum_append,
      ih (fun g hg => hc g (by simp [hg])) (fun g hg => hf g (by simp [hg])),
      stage1Fn_sum_cw sc f (hc f (by simp)) (hf f (by simp))]
    simp

/-- **(a) count, Fortran.**  Exactly one Fortran specific per C-level signature, or one per
    `fortran_generic` entry (`g`) where such a list is given. -/
theorem count_fortran_specifics (sc : Scope) (fs : List Fn) (hf : ∀ f ∈ fs, (f.w0 sc).f = true) :
    ((expand sc fs).filter (fun r => r.wrap.f)).length = (fs.map fCount).sum := by
  rw [← List.countP_eq_length_filter]
  unfold expand core
  rw [countP_f_flatMap_genericRec, sum_fw_flatMap_bufferifyRec, number_map_fw]
  unfold stage1
  induction fs with
  | nil => rfl
  | cons f fs ih =>
    rw [List.flatMap_cons, List.map_append, List.sum_append,
      ih (fun g hg => hf g (by simp [hg])), stage1Fn_sum_fw sc f (hf f (by simp))]
    simp

/-! ## (b) distinctness -/

/-- General form: any name built as `pre ++ underscore_name ++ function_suffix ++
    template_suffix` is distinct over the visible entry points after default-argument
    expansion, template expansion and overload numbering. -/
theorem core_names_nodup (vis : Wrap → Bool) (pre : Str) (sc : Scope) (fs : List Fn)
    (ok : CoreOK vis (stage1 sc fs)) :
    (((core sc fs).filter (fun r => vis r.wrap)).map (nameWith pre)).Nodup :=
  number_names_nodup pre _ ok

/-- **(b) C symbols.**  Inside the domain `CoreOK`, all C names emitted for a scope by
    default-argument expansion, template expansion and overload numbering are pairwise
    distinct. -/
theorem c_names_distinct (sc : Scope) (fs : List Fn) (ok : CoreOK (fun w => w.c) (stage1 sc fs)) :
    (((core sc fs).filter (fun r => r.wrap.c)).map (cName sc)).Nodup := by
  have h := core_names_nodup (fun w => w.c) (sc.cPrefix ++ sc.cScope) sc fs ok
  have e : cName sc = nameWith (sc.cPrefix ++ sc.cScope) := by
    funext r; simp [c_name_predictable, nameWith]
  rw [e]; exact h

/-- **(b) Fortran module entities.**  Likewise for the Fortran implementation names. -/
theorem fortran_names_distinct (sc : Scope) (fs : List Fn) (ok : CoreOK (fun w => w.f) (stage1 sc fs)) :
    (((core sc fs).filter (fun r => r.wrap.f)).map (fImpl sc)).Nodup := by
  have h := core_names_nodup (fun w => w.f) sc.fScope sc fs ok
  have e : fImpl sc = nameWith sc.fScope := by
    funext r; simp [(f_names_predictable sc r).1, nameWith]
  rw [e]; exact h

/-! ### a non-trivial instance of the hypotheses, and the known ways to leave the domain -/

def exScope : Scope :=
  { cPrefix := "NM_".toList, cScope := "outer_".toList, fScope := [], derived := [], isClass := false, tsfx0 := [],
    w0 := ⟨true, true, false, false⟩ }

def exFn (name : String) (np nd : Nat) (sfx : Option String) : Fn :=
  { name := name.toList, nparams := np, ndefaults := nd, suffix := sfx.map String.toList, dsuffix := [],
    tinst := [], generics := [], hasBuf := false, isCtor := false, usesT := false, cppIf := none }

/-- two overloads of `fooBar` (one with two defaulted arguments, one with an explicit suffix), a
    function template with two instantiations and a single function -/
def exFns : List Fn :=
  [ exFn "fooBar" 3 2 none, exFn "fooBar" 1 0 (some "_dbl"),
    { exFn "tmpl" 1 0 none with tinst := [⟨none, 1, "_int".toList⟩, ⟨none, 1, "_double".toList⟩] },
    exFn "get" 0 0 none ]

example : CoreOK (fun w => w.c) (stage1 exScope exFns) := by
  constructor <;> decide +kernel
example : CoreOK (fun w => w.f) (stage1 exScope exFns) := by
  constructor <;> decide +kernel
example : ((core exScope exFns).filter (fun r => r.wrap.c)).map (cName exScope)
    = ["NM_outer_foo_bar_0", "NM_outer_foo_bar_1", "NM_outer_foo_bar_2", "NM_outer_foo_bar_dbl",
       "NM_outer_tmpl_int", "NM_outer_tmpl_double", "NM_outer_get"].map String.toList := by
  decide +kernel

/-- A function template with default arguments (after the repair of `define_function_suffix`):
    every instantiation gets its default-argument variants, numbered per instantiation. -/
def exTmplDefault : List Fn :=
  [{ exFn "tmpl" 3 2 none with tinst := [⟨none, 1, "_int".toList⟩, ⟨none, 1, "_double".toList⟩] }]

example : ((core exScope exTmplDefault).filter (fun r => r.wrap.c)).map (cName exScope)
    = ["NM_outer_tmpl_0_int", "NM_outer_tmpl_1_int", "NM_outer_tmpl_2_int",
       "NM_outer_tmpl_0_double", "NM_outer_tmpl_1_double", "NM_outer_tmpl_2_double"].map String.toList := by
  decide +kernel
example : CoreOK (fun w => w.c) (stage1 exScope exTmplDefault) := by constructor <;> decide +kernel

/-- A member of a class template that uses the template parameter and has default arguments
    (after the repair): the instantiated clone and its default-argument variants, numbered. -/
example : ((core exScope [{ exFn "fill" 3 2 none with usesT := true }]).filter (fun r => r.wrap.c)).map
      (cName exScope)
    = ["NM_outer_fill_0", "NM_outer_fill_1", "NM_outer_fill_2"].map String.toList := by
  decide +kernel

/-- Outside the domain (DESIGN 2.3 #18): an explicit `function_suffix: _1` on one overload
    coincides with the automatic `_1` of another; two C functions get the same name. -/
theorem explicit_suffix_clash :
    ¬ (((core exScope [exFn "f" 1 0 (some "_1"), exFn "f" 1 0 none, exFn "f" 1 0 none]).filter
          (fun r => r.wrap.c)).map (cName exScope)).Nodup
    ∧ ¬ CoreOK (fun w => w.c) (stage1 exScope [exFn "f" 1 0 (some "_1"), exFn "f" 1 0 none, exFn "f" 1 0 none]) := by
  refine ⟨by decide +kernel, fun ok => ?_⟩
  have := ok.explicit_not_auto
  revert this
  decide +kernel

/-- Pairwise distinct underscore forms alone are not enough: two overloads of `get` are
    numbered `get_0`, `get_1`, and a function called `get_1` already has that name.  Hence the
    prefix-freeness clause of `CoreOK`. -/
theorem distinct_underscore_forms_insufficient :
    unCamel "get".toList ≠ unCamel "get_1".toList
    ∧ ¬ (((core exScope [exFn "get" 1 0 none, exFn "get" 2 0 none, exFn "get_1" 0 0 none]).filter
          (fun r => r.wrap.c)).map (cName exScope)).Nodup := by
  constructor <;> decide +kernel

/-! ### the whole pipeline: `_bufferify` clones and `fortran_generic` clones -/

/-- Suffix extensions of the C entry points of a record: itself when it has a C wrapper and,
    when a clone for Fortran is made, that clone's suffix (`_bufferify`, or `_CFI` with `F_CFI`). -/
def cExt (r : Rec) : List Str :=
  (if r.wrap.c then [[]] else []) ++ (if hasClone r then [cloneSuffix r] else [])

/-- Records that can contribute a C entry point: C-wrapped, or Fortran-wrapped (the CFI clone is
    a C function made for the Fortran wrapper alone). -/
def cVis (w : Wrap) : Bool := w.c || w.f

/-- Suffix extensions of the Fortran specifics of a record: itself, or one per
    `fortran_generic` entry. -/
def fExt (r : Rec) : List Str := if r.generics.isEmpty then [[]] else r.generics

theorem expand_c_names_eq (sc : Scope) (fs : List Fn) :
    ((expand sc fs).filter (fun r => r.wrap.c)).map (cName sc)
      = ((core sc fs).filter (fun r => cVis r.wrap)).flatMap
          (fun r => (cExt r).map (nameExt (sc.cPrefix ++ sc.cScope) r)) := by
  have one : ∀ r : Rec, ((genericRec r).filter (fun x => x.wrap.c)).map (cName sc)
      = ([r].filter (fun x => x.wrap.c)).map (cName sc) := by
    intro r
    unfold genericRec
    split
    · by_cases hc : r.wrap.c = true <;>
        simp [hc, List.filter_cons, List.filter_map, Function.comp_def, c_name_predictable]
    · rfl
  have cA : ∀ X : List Rec, ((X.flatMap genericRec).filter (fun r => r.wrap.c)).map (cName sc)
      = (X.filter (fun r => r.wrap.c)).map (cName sc) := by
    intro X
    induction X with
    | nil => rfl
    | cons r X ih =>
      have e2 : r :: X = [r] ++ X := rfl
      rw [List.flatMap_cons, List.filter_append, List.map_append, ih, one r, e2, List.filter_append,
        List.map_append]
  have cB : ∀ r : Rec, ((bufferifyRec r).filter (fun x => x.wrap.c)).map (cName sc)
      = ([r].filter (fun x => cVis x.wrap)).flatMap
          (fun r => (cExt r).map (nameExt (sc.cPrefix ++ sc.cScope) r)) := by
    intro r
    by_cases hc : r.wrap.c = true <;> by_cases hf : r.wrap.f = true <;> by_cases hb : r.hasBuf = true <;>
      by_cases hk : r.cfi = true <;>
      simp [bufferifyRec, hasClone, cVis, cExt, nameExt, c_name_predictable, hc, hf, hb, hk, List.filter_cons]
  unfold expand
  rw [cA]
  generalize core sc fs = N
  induction N with
  | nil => rfl
  | cons r N ih =>
    have e2 : r :: N = [r] ++ N := rfl
    rw [List.flatMap_cons, List.filter_append, List.map_append, ih, cB r, e2, List.filter_append,
      List.flatMap_append]

theorem expand_f_names_eq' (pre : Str) (sc : Scope) (fs : List Fn) :
    ((expand sc fs).filter (fun r => r.wrap.f)).map (nameWith pre)
      = ((core sc fs).filter (fun r => r.wrap.f)).flatMap
          (fun r => (fExt r).map (nameExt pre r)) := by
  have fG : ∀ r : Rec, ((genericRec r).filter (fun x => x.wrap.f)).map (nameWith pre)
      = ([r].filter (fun x => x.wrap.f)).flatMap (fun r => (fExt r).map (nameExt pre r)) := by
    intro r
    unfold genericRec fExt
    by_cases hf : r.wrap.f = true
    · by_cases hg : r.generics.isEmpty = true
      · have hg' : r.generics = [] := by simpa using hg
        simp [hf, hg', List.filter_cons, nameExt, nameWith]
      · have hg' : r.generics ≠ [] := by simpa using hg
        have hall : r.generics.filter (fun _ => true) = r.generics := List.filter_eq_self.2 (by simp)
        simp [hf, hg', hall, List.filter_cons, List.filter_map, Function.comp_def, nameExt, nameWith]
    · simp [hf, List.filter_cons]
  have fB : ∀ r : Rec, (((bufferifyRec r).flatMap genericRec).filter (fun x => x.wrap.f)).map (nameWith pre)
      = ([r].filter (fun x => x.wrap.f)).flatMap (fun r => (fExt r).map (nameExt pre r)) := by
    intro r
    unfold bufferifyRec
    split
    · rw [List.flatMap_cons, List.flatMap_cons, List.flatMap_nil, List.append_nil, List.filter_append,
        List.map_append, fG r]
      simp [genericRec, List.filter_cons]
    · simpa using fG r
  unfold expand
  generalize core sc fs = N
  induction N with
  | nil => rfl
  | cons r N ih =>
    have e2 : r :: N = [r] ++ N := rfl
    rw [List.flatMap_cons, List.flatMap_append, List.filter_append, List.map_append, ih, fB r, e2,
      List.filter_append, List.flatMap_append]

theorem fImpl_eq_nameWith (sc : Scope) : fImpl sc = nameWith sc.fScope := by
  funext r; simp [(f_names_predictable sc r).1, nameWith]

theorem fFunction_eq_nameWith (sc : Scope) : fFunction sc = nameWith [] := by
  funext r; simp [(f_names_predictable sc r).2.1, nameWith]

theorem expand_f_names_eq (sc : Scope) (fs : List Fn) :
    ((expand sc fs).filter (fun r => r.wrap.f)).map (fImpl sc)
      = ((core sc fs).filter (fun r => r.wrap.f)).flatMap
          (fun r => (fExt r).map (nameExt sc.fScope r)) := by
  rw [fImpl_eq_nameWith]; exact expand_f_names_eq' _ sc fs

theorem cExt_renumber (s i : Nat) (r : Rec) : cExt (renumber s i r) = cExt r := by
  simp [cExt]

theorem cExt_mem {r : Rec} {e : Str} (he : e ∈ cExt r) :
    e = [] ∨ (hasClone r = true ∧ e = cloneSuffix r) := by
  unfold cExt at he
  rw [List.mem_append] at he
  rcases he with he | he
  · split at he
    · simp at he; exact Or.inl he
    · simp at he
  · split at he
    · rename_i hk; simp at he; exact Or.inr ⟨hk, he⟩
    · simp at he
theorem fExt_renumber (s i : Nat) (r : Rec) : fExt (renumber s i r) = fExt r := by
  simp [fExt]

/-- **(b) C symbols, whole pipeline.**  All C names a scope emits (default-argument
    variants, template instantiations, numbered overloads and their `_bufferify` clones) are
    pairwise distinct, provided additionally that explicit suffixes are single `_token`s and
    templated functions have no bufferify variant. -/
theorem expand_c_names_distinct (sc : Scope) (fs : List Fn)
    (ok : CoreOK cVis (stage1 sc fs))
    (tok : ∀ r ∈ stage1 sc fs, eligible r = true → r.sfxLocal = true → isTok r.sfx = true)
    (tb : ∀ r ∈ stage1 sc fs, eligible r = false → r.hasBuf = false) :
    (((expand sc fs).filter (fun r => r.wrap.c)).map (cName sc)).Nodup := by
  rw [expand_c_names_eq]
  refine number_ext_names_nodup (vis := cVis) cExt_renumber _ _ ok ⟨?_, ?_, ?_, tok⟩
  · intro r _ e he
    rcases cExt_mem he with rfl | ⟨_, rfl⟩
    · rfl
    · exact cloneSuffix_extLike r
  · intro r _
    unfold cExt
    have := cloneSuffix_ne_nil r
    by_cases hc : r.wrap.c = true <;> by_cases hk : hasClone r = true <;> simp [hc, hk, this]
  · intro r hr ht e he
    rcases cExt_mem he with rfl | ⟨hk, _⟩
    · rfl
    · simp [hasClone, tb r hr ht] at hk

/-- Hypotheses of the Fortran distinctness theorems, on the entry points of `stage1`. -/
structure FortranOK (l : List Rec) : Prop where
  core : CoreOK (fun w => w.f) l
  tok : ∀ r ∈ l, eligible r = true → r.sfxLocal = true → isTok r.sfx = true
  gl : ∀ r ∈ l, ∀ g ∈ r.generics, extLike g = true
  gn : ∀ r ∈ l, r.generics.Nodup
  tg : ∀ r ∈ l, eligible r = false → r.generics = []

theorem expand_f_names_nodup (pre : Str) (sc : Scope) (fs : List Fn) (ok : FortranOK (stage1 sc fs)) :
    (((expand sc fs).filter (fun r => r.wrap.f)).map (nameWith pre)).Nodup := by
  rw [expand_f_names_eq']
  refine number_ext_names_nodup (vis := fun w => w.f) fExt_renumber _ _ ok.core ⟨?_, ?_, ?_, ok.tok⟩
  · intro r hr e he
    unfold fExt at he
    split at he
    · simp at he; subst he; rfl
    · exact ok.gl r hr e he
  · intro r hr
    unfold fExt
    split
    · simp
    · exact ok.gn r hr
  · intro r hr ht e he
    simpa [fExt, ok.tg r hr ht] using he

/-- **(c) each once.**  No generic interface and no type-bound generic lists a specific twice:
    the members filed under any key are pairwise distinct (type-bound generics list the
    binding names `F_name_function`, interfaces the procedure names `F_name_impl`). -/
theorem generic_members_distinct (sc : Scope) (fs : List Fn) (ok : FortranOK (stage1 sc fs))
    (sel : Rec → Bool) (pre : Str) (hsel : ∀ r, sel r = true → genericMember sc r = nameWith pre r)
    (key : Str) :
    (tableGet key (genericTable sc sel (expand sc fs) [])).Nodup := by
  rw [tableGet_genericTable]
  simp only [tableGet, List.nil_append]
  have e : ((expand sc fs).filter fun r => r.wrap.f && sel r && genericKey sc r == key).map (genericMember sc)
      = ((expand sc fs).filter fun r => r.wrap.f && sel r && genericKey sc r == key).map (nameWith pre) := by
    apply List.map_congr_left
    intro r hr
    have := (List.mem_filter.1 hr).2
    simp only [Bool.and_eq_true] at this
    exact hsel r this.1.2
  rw [e]
  have sub : List.Sublist
      (((expand sc fs).filter fun r => r.wrap.f && sel r && genericKey sc r == key).map (nameWith pre))
      (((expand sc fs).filter (fun r => r.wrap.f)).map (nameWith pre)) := by
    apply List.Sublist.map
    have : ((expand sc fs).filter fun r => r.wrap.f && sel r && genericKey sc r == key)
        = ((expand sc fs).filter (fun r => r.wrap.f)).filter (fun r => sel r && genericKey sc r == key) := by
      rw [List.filter_filter]
      congr 1; funext r
      cases r.wrap.f <;> cases sel r <;> cases (genericKey sc r == key) <;> rfl
    rw [this]
    exact List.filter_sublist
  exact (expand_f_names_nodup pre sc fs ok).sublist sub

/-- Type-bound generics of a class: every `generic :: key => ...` lists each binding once. -/
theorem type_bound_generic_members_distinct (sc : Scope) (fs : List Fn) (ok : FortranOK (stage1 sc fs))
    (key : Str) : (tableGet key (genericTable sc (typeBound sc) (expand sc fs) [])).Nodup :=
  generic_members_distinct sc fs ok (typeBound sc) [] (by
    intro r h; simp [genericMember, h, fFunction_eq_nameWith]) key

/-- Module-level interfaces: every `interface key` lists each procedure once. -/
theorem interface_members_distinct (sc : Scope) (fs : List Fn) (ok : FortranOK (stage1 sc fs))
    (key : Str) : (tableGet key (genericTable sc (moduleLevel sc) (expand sc fs) [])).Nodup :=
  generic_members_distinct sc fs ok (moduleLevel sc) sc.fScope (by
    intro r h
    have : typeBound sc r = false := by simpa [moduleLevel] using h
    simp [genericMember, this, fImpl_eq_nameWith]) key

/-- **(b) Fortran module entities, whole pipeline.**  All Fortran specific names a scope
    emits, including the `function_suffix ++ generic_suffix` names of `fortran_generic`
    clones, are pairwise distinct, provided additionally that explicit suffixes are single
    `_token`s, generic suffixes are pairwise distinct and empty or `_`-initial, and templated
    functions have no `fortran_generic` list. -/
theorem expand_fortran_names_distinct (sc : Scope) (fs : List Fn)
    (ok : CoreOK (fun w => w.f) (stage1 sc fs))
    (tok : ∀ r ∈ stage1 sc fs, eligible r = true → r.sfxLocal = true → isTok r.sfx = true)
    (gl : ∀ r ∈ stage1 sc fs, ∀ g ∈ r.generics, extLike g = true)
    (gn : ∀ r ∈ stage1 sc fs, r.generics.Nodup)
    (tg : ∀ r ∈ stage1 sc fs, eligible r = false → r.generics = []) :
    (((expand sc fs).filter (fun r => r.wrap.f)).map (fImpl sc)).Nodup := by
  rw [expand_f_names_eq]
  refine number_ext_names_nodup (vis := fun w => w.f) fExt_renumber _ _ ok ⟨?_, ?_, ?_, tok⟩
  · intro r hr e he
    unfold fExt at he
    split at he
    · simp at he; subst he; rfl
    · exact gl r hr e he
  · intro r hr
    unfold fExt
    split
    · simp
    · exact gn r hr
  · intro r hr ht e he
    simpa [fExt, tg r hr ht] using he

/-- `exFns` plus a function with a `std::string` argument and a default, and one with a
    `fortran_generic` list -/
def exFns2 : List Fn :=
  exFns ++ [{ exFn "str" 2 1 none with hasBuf := true },
            { exFn "gen" 1 0 none with generics := [none, some "_dbl".toList] }]

example : CoreOK cVis (stage1 exScope exFns2) := by constructor <;> decide +kernel
example : CoreOK (fun w => w.f) (stage1 exScope exFns2) := by constructor <;> decide +kernel
example : ∀ r ∈ stage1 exScope exFns2, eligible r = true → r.sfxLocal = true → isTok r.sfx = true := by
  decide +kernel
example : ∀ r ∈ stage1 exScope exFns2, eligible r = false → r.hasBuf = false := by decide +kernel
example : ∀ r ∈ stage1 exScope exFns2, ∀ g ∈ r.generics, extLike g = true := by decide +kernel
example : ∀ r ∈ stage1 exScope exFns2, r.generics.Nodup := by decide +kernel
example : ∀ r ∈ stage1 exScope exFns2, eligible r = false → r.generics = [] := by decide +kernel
example : (((expand exScope exFns2).filter (fun r => r.wrap.f)).map (fImpl exScope))
    = ["foo_bar_0", "foo_bar_1", "foo_bar_2", "foo_bar_dbl", "tmpl_int", "tmpl_double", "get",
       "str_0", "str_1", "gen_0", "gen_dbl"].map String.toList := by
  decide +kernel

example : (((expand exScope (exFns ++ [{ exFn "str" 2 1 none with hasBuf := true },
      { exFn "gen" 1 0 none with generics := [none, some "_dbl".toList] }])).filter
        (fun r => r.wrap.c)).map (cName exScope))
    = ["NM_outer_foo_bar_0", "NM_outer_foo_bar_1", "NM_outer_foo_bar_2", "NM_outer_foo_bar_dbl",
       "NM_outer_tmpl_int", "NM_outer_tmpl_double", "NM_outer_get",
       "NM_outer_str_0", "NM_outer_str_0_bufferify", "NM_outer_str_1", "NM_outer_str_1_bufferify",
       "NM_outer_gen"].map String.toList := by
  decide +kernel

/-- **clone names.**  The clone a record gets for Fortran (`arg_to_buffer`, or `arg_to_CFI` with
    option `F_CFI`) never keeps the C name of the record it is cloned from: its name is evaluated
    from the template after `function_suffix` was extended by `C_bufferify_suffix` /
    `C_cfi_suffix`. -/
theorem clone_name_ne_parent (sc : Scope) (r c : Rec) (hc : c ∈ bufferifyRec r) (hne : c ≠ r) :
    cName sc c ≠ cName sc r ∧ cName sc c
      = sc.cPrefix ++ sc.cScope ++ unCamel r.name ++ (r.sfx ++ cloneSuffix r) ++ r.tsfx := by
  unfold bufferifyRec at hc
  split at hc
  · simp only [List.mem_cons, List.not_mem_nil, or_false] at hc
    rcases hc with rfl | rfl
    · exact absurd rfl hne
    · refine ⟨?_, by rw [c_name_predictable]⟩
      rw [c_name_predictable, c_name_predictable]
      intro h
      have h := congrArg List.length h
      have hpos : (cloneSuffix r).length > 0 := by unfold cloneSuffix; split <;> decide
      simp only [List.length_append] at h
      omega
  · simp at hc; exact absurd hc hne

/-- The F_CFI shapes: a single function, an overload set and default-argument variants with a
    string argument each give the C wrapper and its `_CFI` clone, a function without its own C
    wrapper still gives the clone. -/
example : (((expand exScope [{ exFn "measure" 1 0 none with hasBuf := true, cfi := true },
      { exFn "rename" 1 0 none with hasBuf := true, cfi := true },
      { exFn "rename" 2 1 none with hasBuf := true, cfi := true },
      { exFn "only" 1 0 none with hasBuf := true, cfi := true, wrapOpt := some ⟨false, true, false, false⟩ },
      { exFn "keep" 1 0 none with hasBuf := true }]).filter
        (fun r => r.wrap.c)).map (cName exScope))
    = ["NM_outer_measure", "NM_outer_measure_CFI", "NM_outer_rename_0", "NM_outer_rename_0_CFI",
       "NM_outer_rename_1", "NM_outer_rename_1_CFI", "NM_outer_rename_2", "NM_outer_rename_2_CFI",
       "NM_outer_only_CFI", "NM_outer_keep", "NM_outer_keep_bufferify"].map String.toList := by
  decide +kernel

/-! ### across scopes -/

theorem templateClones_name (o : Rec) (w : Wrap) : ∀ (l : List TInst) (i : Nat),
    ∀ r ∈ templateClones o w i l, r.name = o.name ∧ r.isCtor = o.isCtor := by
  intro l
  induction l with
  | nil => intro _ r h; simp [templateClones] at h
  | cons t ts ih =>
    intro i r h
    simp only [templateClones, List.mem_cons] at h
    rcases h with rfl | h
    · exact ⟨rfl, rfl⟩
    · exact ih _ r h

theorem original_name (sc : Scope) (f : Fn) :
    (original sc f).name = f.name ∧ (original sc f).isCtor = f.isCtor := by
  unfold original; repeat' split
  all_goals exact ⟨rfl, rfl⟩

theorem numberVariants_mem : ∀ (l : List Rec) (i : Nat), ∀ r ∈ numberVariants i l,
    ∃ r0 ∈ l, r.name = r0.name ∧ r.isCtor = r0.isCtor := by
  intro l
  induction l with
  | nil => intro _ r h; simp [numberVariants] at h
  | cons a l ih =>
    intro i r h
    simp only [numberVariants, List.mem_cons] at h
    rcases h with rfl | h
    · refine ⟨a, by simp, ?_⟩
      split <;> exact ⟨rfl, rfl⟩
    · obtain ⟨r0, h0, e⟩ := ih _ r h
      exact ⟨r0, by simp [h0], e⟩

theorem stage1Fn_mem (sc : Scope) (f : Fn) :
    ∀ r ∈ stage1Fn sc f, r.name = f.name ∧ r.isCtor = f.isCtor := by
  intro r hr
  unfold stage1Fn at hr
  have hvl : ∀ c : Rec, (variantLast f c).name = c.name ∧ (variantLast f c).isCtor = c.isCtor := by
    intro c; unfold variantLast; split <;> exact ⟨rfl, rfl⟩
  split at hr
  · split at hr
    · split at hr
      · simp only [List.mem_cons, List.not_mem_nil, or_false] at hr
        rcases hr with rfl | rfl <;> exact ⟨rfl, rfl⟩
      · simp only [List.mem_cons, List.mem_append, List.mem_map, List.not_mem_nil, or_false] at hr
        rcases hr with rfl | ⟨k, _, rfl⟩ | rfl
        · exact ⟨rfl, rfl⟩
        · exact ⟨rfl, rfl⟩
        · exact hvl _
    · simp only [List.mem_append, List.mem_map, List.mem_singleton] at hr
      rcases hr with ⟨k, _, rfl⟩ | rfl
      · exact ⟨rfl, rfl⟩
      · exact original_name sc f
  · split at hr
    · simp only [List.mem_cons] at hr
      rcases hr with rfl | hr
      · exact ⟨rfl, rfl⟩
      · exact templateClones_name _ _ _ _ r hr
    · simp only [List.mem_cons, List.mem_flatMap] at hr
      rcases hr with rfl | ⟨c, hc, hr⟩
      · exact ⟨rfl, rfl⟩
      · have hcn := templateClones_name _ _ _ _ c hc
        obtain ⟨r0, h0, e⟩ := numberVariants_mem _ _ r hr
        simp only [List.mem_append, List.mem_map, List.mem_singleton] at h0
        rcases h0 with ⟨k, _, rfl⟩ | rfl
        · exact ⟨e.1.trans hcn.1, e.2.trans hcn.2⟩
        · have : (variantLast f c).name = c.name ∧ (variantLast f c).isCtor = c.isCtor := by
            unfold variantLast; split <;> exact ⟨rfl, rfl⟩
          exact ⟨e.1.trans (this.1.trans hcn.1), e.2.trans (this.2.trans hcn.2)⟩

/-- Every record of the expansion carries the name (and constructor flag) of one of the
    declarations. -/
theorem expand_mem (sc : Scope) (fs : List Fn) :
    ∀ r ∈ expand sc fs, ∃ f ∈ fs, r.name = f.name ∧ r.isCtor = f.isCtor := by
  intro r hr
  unfold expand at hr
  simp only [List.mem_flatMap] at hr
  obtain ⟨r1, ⟨r2, hr2, hr1⟩, hr⟩ := hr
  have h1 : r.name = r1.name ∧ r.isCtor = r1.isCtor := by
    unfold genericRec at hr
    split at hr
    · simp only [List.mem_cons, List.mem_map] at hr
      rcases hr with rfl | ⟨g, _, rfl⟩ <;> exact ⟨rfl, rfl⟩
    · simp at hr; rw [hr]; exact ⟨rfl, rfl⟩
  have h2 : r1.name = r2.name ∧ r1.isCtor = r2.isCtor := by
    unfold bufferifyRec at hr1
    split at hr1
    · simp only [List.mem_cons, List.not_mem_nil, or_false] at hr1
      rcases hr1 with rfl | rfl <;> exact ⟨rfl, rfl⟩
    · simp at hr1; rw [hr1]; exact ⟨rfl, rfl⟩
  obtain ⟨r3, hr3, i, _, e⟩ := mem_numberAux (all := stage1 sc fs) _ [] hr2
  have h3 : r2.name = r3.name ∧ r2.isCtor = r3.isCtor := by
    rw [e]; refine ⟨by simp, ?_⟩
    unfold renumber; repeat' split
    all_goals rfl
  unfold stage1 at hr3
  simp only [List.mem_flatMap] at hr3
  obtain ⟨f, hf, hr3⟩ := hr3
  refine ⟨f, hf, ?_⟩
  rw [h1.1, h2.1, h3.1, h1.2, h2.2, h3.2]
  exact stage1Fn_mem sc f r3 hr3

theorem expand_name_mem (sc : Scope) (fs : List Fn) :
    ∀ r ∈ expand sc fs, ∃ f ∈ fs, r.name = f.name := by
  intro r hr
  obtain ⟨f, hf, h, _⟩ := expand_mem sc fs r hr
  exact ⟨f, hf, h⟩

/-- All C names one scope emits. -/
def cNamesOf (p : Scope × List Fn) : List Str :=
  ((expand p.1 p.2).filter (fun r => r.wrap.c)).map (cName p.1)

/-- Scopes are separated: same library prefix, and `C_name_scope ++ underscore_name` of a
    declaration in one scope is never a prefix of that of a declaration in another scope
    (e.g. distinct namespace/class paths whose `_`-joined forms are not prefixes of one another). -/
def ScopesSep (P : List (Scope × List Fn)) : Prop :=
  P.Pairwise fun a b => a.1.cPrefix = b.1.cPrefix ∧ ∀ f ∈ a.2, ∀ g ∈ b.2,
    ¬ (a.1.cScope ++ unCamel f.name <+: b.1.cScope ++ unCamel g.name)
    ∧ ¬ (b.1.cScope ++ unCamel g.name <+: a.1.cScope ++ unCamel f.name)

/-- **(b) C symbols of a whole library.**  With separated scopes, the external C symbols of
    all scopes together are pairwise distinct. -/
theorem program_c_names_distinct (P : List (Scope × List Fn))
    (each : ∀ p ∈ P, (cNamesOf p).Nodup) (sep : ScopesSep P) :
    (P.flatMap cNamesOf).Nodup := by
  unfold List.Nodup
  rw [List.pairwise_flatMap]
  refine ⟨each, sep.imp ?_⟩
  intro a b ⟨hp, hsep⟩ x hx y hy
  unfold cNamesOf at hx hy
  simp only [List.mem_map, List.mem_filter] at hx hy
  obtain ⟨r1, ⟨hr1, _⟩, rfl⟩ := hx
  obtain ⟨r2, ⟨hr2, _⟩, rfl⟩ := hy
  obtain ⟨f, hf, e1⟩ := expand_name_mem _ _ r1 hr1
  obtain ⟨g, hg, e2⟩ := expand_name_mem _ _ r2 hr2
  rw [c_name_predictable, c_name_predictable, hp, e1, e2]
  intro h
  simp only [List.append_assoc] at h
  have h := List.append_cancel_left h
  obtain ⟨n1, n2⟩ := hsep f hf g hg
  have := append_ne_of_not_prefix (t1 := r1.sfx ++ r1.tsfx) (t2 := r2.sfx ++ r2.tsfx) n1 n2
  exact this (by simpa [List.append_assoc] using h)

/-- Library-level statement in terms of the per-scope hypotheses. -/
theorem program_c_names_distinct' (P : List (Scope × List Fn))
    (ok : ∀ p ∈ P, CoreOK cVis (stage1 p.1 p.2)
      ∧ (∀ r ∈ stage1 p.1 p.2, eligible r = true → r.sfxLocal = true → isTok r.sfx = true)
      ∧ (∀ r ∈ stage1 p.1 p.2, eligible r = false → r.hasBuf = false))
    (sep : ScopesSep P) : (P.flatMap cNamesOf).Nodup :=
  program_c_names_distinct P
    (fun p hp => expand_c_names_distinct p.1 p.2 (ok p hp).1 (ok p hp).2.1 (ok p hp).2.2) sep

example : ScopesSep [(exScope, exFns), ({ exScope with cScope := "ns2_".toList }, exFns)] := by
  unfold ScopesSep
  decide +kernel

/-! ### one Fortran module: the scopes folded into it -/

/-- All Fortran specific names one scope emits. -/
def fNamesOf (p : Scope × List Fn) : List Str :=
  ((expand p.1 p.2).filter (fun r => r.wrap.f)).map (fImpl p.1)

/-- Scopes of one module are separated: `F_name_scope ++ underscore_name` of a declaration of one
    scope (library level: empty scope; flattened namespace `ns_`; class `cls_`) is never a
    prefix of that of a declaration of another scope. -/
def FScopesSep (M : List (Scope × List Fn)) : Prop :=
  M.Pairwise fun a b => ∀ f ∈ a.2, ∀ g ∈ b.2,
    ¬ (a.1.fScope ++ unCamel f.name <+: b.1.fScope ++ unCamel g.name)
    ∧ ¬ (b.1.fScope ++ unCamel g.name <+: a.1.fScope ++ unCamel f.name)

/-- **(b) Fortran specifics of a module.**  The specific procedures of all scopes folded into
    one Fortran module (library-level functions, flattened namespaces, classes) are pairwise
    distinct. -/
theorem module_specifics_distinct (M : List (Scope × List Fn))
    (each : ∀ p ∈ M, FortranOK (stage1 p.1 p.2)) (sep : FScopesSep M) :
    (M.flatMap fNamesOf).Nodup := by
  unfold List.Nodup
  rw [List.pairwise_flatMap]
  refine ⟨fun p hp => ?_, sep.imp ?_⟩
  · have := expand_f_names_nodup p.1.fScope p.1 p.2 (each p hp)
    unfold fNamesOf
    rw [fImpl_eq_nameWith]; exact this
  · intro a b hsep x hx y hy
    unfold fNamesOf at hx hy
    simp only [List.mem_map, List.mem_filter] at hx hy
    obtain ⟨r1, ⟨hr1, _⟩, rfl⟩ := hx
    obtain ⟨r2, ⟨hr2, _⟩, rfl⟩ := hy
    obtain ⟨f, hf, e1⟩ := expand_name_mem _ _ r1 hr1
    obtain ⟨g, hg, e2⟩ := expand_name_mem _ _ r2 hr2
    rw [(f_names_predictable a.1 r1).1, (f_names_predictable b.1 r2).1, e1, e2]
    obtain ⟨n1, n2⟩ := hsep f hf g hg
    have := append_ne_of_not_prefix (t1 := r1.sfx ++ r1.tsfx) (t2 := r2.sfx ++ r2.tsfx) n1 n2
    intro h
    exact this (by simpa [List.append_assoc] using h)

theorem tableAdd_keys (k v : Str) (t : List (Str × List Str)) :
    (tableAdd k v t).map (·.1) = if k ∈ t.map (·.1) then t.map (·.1) else t.map (·.1) ++ [k] := by
  induction t with
  | nil => simp [tableAdd]
  | cons p t ih =>
    obtain ⟨k', vs⟩ := p
    by_cases h : k' = k
    · subst h; simp [tableAdd]
    · have h' : ¬ k = k' := fun e => h e.symm
      by_cases hm : k ∈ t.map (·.1)
      · simp [tableAdd, h, h', ih, hm]
      · simp [tableAdd, h, h', ih, hm]

theorem genericTable_keys (sc : Scope) (sel : Rec → Bool) (recs : List Rec) :
    ∀ t : List (Str × List Str), (t.map (·.1)).Nodup →
      ((genericTable sc sel recs t).map (·.1)).Nodup
      ∧ ∀ k ∈ (genericTable sc sel recs t).map (·.1),
          k ∈ t.map (·.1) ∨ ∃ r ∈ recs, sel r = true ∧ k = genericKey sc r := by
  induction recs with
  | nil => intro t ht; exact ⟨ht, fun k hk => Or.inl hk⟩
  | cons r recs ih =>
    intro t ht
    simp only [genericTable]
    split
    · rename_i hc
      simp only [Bool.and_eq_true] at hc
      have hn : ((tableAdd (genericKey sc r) (genericMember sc r) t).map (·.1)).Nodup := by
        rw [tableAdd_keys]
        split
        · exact ht
        · rename_i hm
          rw [List.nodup_append]
          exact ⟨ht, by simp, by intro a ha b hb; simp at hb; subst hb; exact fun e => hm (e ▸ ha)⟩
      obtain ⟨h1, h2⟩ := ih _ hn
      refine ⟨h1, fun k hk => ?_⟩
      rcases h2 k hk with h | ⟨r', hr', hs, e⟩
      · rw [tableAdd_keys] at h
        split at h
        · exact Or.inl h
        · simp only [List.mem_append, List.mem_singleton] at h
          rcases h with h | h
          · exact Or.inl h
          · exact Or.inr ⟨r, by simp, hc.2, h⟩
      · exact Or.inr ⟨r', by simp [hr'], hs, e⟩
    · obtain ⟨h1, h2⟩ := ih t ht
      refine ⟨h1, fun k hk => ?_⟩
      rcases h2 k hk with h | ⟨r', hr', hs, e⟩
      · exact Or.inl h
      · exact Or.inr ⟨r', by simp [hr'], hs, e⟩

/-- Names of the generic interfaces a scope files in the module table (a superset of those
    printed: an interface is printed when it has two members or is forced). -/
def gKeysOf (p : Scope × List Fn) : List Str :=
  (genericTable p.1 (moduleLevel p.1) (expand p.1 p.2) []).map (·.1)

/-- **(b) generic interface names of a module.**  The interface names of the scopes that hold
    free functions (library level and flattened namespaces) are pairwise distinct: one per
    C++ name inside a scope, scope-prefixed across scopes. -/
theorem module_generic_keys_distinct (M : List (Scope × List Fn))
    (free : ∀ p ∈ M, p.1.isClass = false ∧ ∀ f ∈ p.2, f.isCtor = false) (sep : FScopesSep M) :
    (M.flatMap gKeysOf).Nodup := by
  have form : ∀ p ∈ M, ∀ k ∈ gKeysOf p, ∃ f ∈ p.2, k = p.1.fScope ++ unCamel f.name := by
    intro p hp k hk
    rcases (genericTable_keys p.1 (moduleLevel p.1) (expand p.1 p.2) [] (by simp)).2 k hk with h | ⟨r, hr, _, e⟩
    · simp at h
    · obtain ⟨f, hf, hn, hc⟩ := expand_mem _ _ r hr
      refine ⟨f, hf, ?_⟩
      have hc' : r.isCtor = false := by rw [hc]; exact (free p hp).2 f hf
      rw [e]
      simp [genericKey, (free p hp).1, fGeneric, hc', evalTemplate, F_name_generic_template, Rec.env,
        Env.get, hn]
  unfold List.Nodup
  rw [List.pairwise_flatMap]
  refine ⟨fun p _ => (genericTable_keys p.1 _ _ [] (by simp)).1, ?_⟩
  have sep' : M.Pairwise fun a b => a ∈ M ∧ b ∈ M ∧ ∀ f ∈ a.2, ∀ g ∈ b.2,
      ¬ (a.1.fScope ++ unCamel f.name <+: b.1.fScope ++ unCamel g.name)
      ∧ ¬ (b.1.fScope ++ unCamel g.name <+: a.1.fScope ++ unCamel f.name) :=
    sep.imp_of_mem (fun ha hb h => ⟨ha, hb, h⟩)
  refine sep'.imp ?_
  intro a b ⟨ha, hb, hsep⟩ x hx y hy
  obtain ⟨f, hf, rfl⟩ := form a ha x hx
  obtain ⟨g, hg, rfl⟩ := form b hb y hy
  obtain ⟨n1, n2⟩ := hsep f hf g hg
  intro h
  exact n1 ⟨[], by simpa using h⟩

/-- **(b) module entities, partial.**  Specific procedures, generic interface names and the
    remaining entities of a module (`extra`: derived types, enumeration parameters) are pairwise
    distinct, given that no interface name equals a specific and that the extra names are
    distinct from each other and from both.  Missing for the full statement: deriving "no
    interface name equals a specific" from the suffix hypotheses (it needs non-empty generic and
    template suffixes), and a model of derived-type and enumeration names (not modelled; their
    documented prefixes `F_name_scope`/class name are taken as the side condition). -/
theorem module_entities_distinct_partial (M : List (Scope × List Fn)) (extra : List Str)
    (each : ∀ p ∈ M, FortranOK (stage1 p.1 p.2))
    (free : ∀ p ∈ M, p.1.isClass = false ∧ ∀ f ∈ p.2, f.isCtor = false) (sep : FScopesSep M)
    (hk : ∀ k ∈ M.flatMap gKeysOf, k ∉ M.flatMap fNamesOf)
    (hx : extra.Nodup ∧ ∀ e ∈ extra, e ∉ M.flatMap fNamesOf ∧ e ∉ M.flatMap gKeysOf) :
    (M.flatMap fNamesOf ++ (M.flatMap gKeysOf ++ extra)).Nodup := by
  rw [List.nodup_append]
  refine ⟨module_specifics_distinct M each sep, ?_, ?_⟩
  · rw [List.nodup_append]
    exact ⟨module_generic_keys_distinct M free sep, hx.1,
      fun a ha b hb e => (hx.2 b hb).2 (e ▸ ha)⟩
  · intro a ha b hb e
    simp only [List.mem_append] at hb
    rcases hb with hb | hb
    · exact hk b hb (e ▸ ha)
    · exact (hx.2 b hb).1 (e ▸ ha)

/-! ### class template instantiation -/

/-- **(d) predictability of the class scope.**  The `i`-th instantiation of a class template
    `name` is wrapped as the class `name ++ class_suffix`; its members get
    `C_name_scope = parent ++ name ++ class_suffix ++ "_"`, the lower-cased form for Fortran, and
    inherit an explicit `template_suffix`. -/
theorem class_instantiation_scope (pre : Str) (w0 : Wrap) (n : Str) (t : TInst) (i : Nat) (sc : Scope) :
    let sc' := scopeOf pre w0 [.clsT n t i] sc
    sc'.cScope = sc.cScope ++ (n ++ t.classSuffix i) ++ ['_']
    ∧ sc'.fScope = sc.fScope ++ lower (n ++ t.classSuffix i) ++ ['_']
    ∧ sc'.derived = lower (n ++ t.classSuffix i)
    ∧ sc'.isClass = true
    ∧ sc'.tsfx0 = t.explicit.getD sc.tsfx0 := by
  cases h : t.explicit <;> simp [scopeOf, h]

/-- **(b) instantiations of one class template are separated scopes.**  When the class
    suffixes of two instantiations are different single `_token`s (`_int`, `_double`, `_0`,
    an explicit `_dbl`), no name of one instantiation's scope is a prefix of a name of the
    other's, whatever the member names: the hypothesis `ScopesSep` holds between them. -/
theorem class_instantiations_separated (p n s1 s2 u1 u2 : Str)
    (h1 : isTok s1 = true) (h2 : isTok s2 = true) (hne : s1 ≠ s2) :
    ¬ (p ++ (n ++ s1) ++ ['_'] ++ u1 <+: p ++ (n ++ s2) ++ ['_'] ++ u2) := by
  rintro ⟨t, ht⟩
  simp only [List.append_assoc] at ht
  have ht := List.append_cancel_left (List.append_cancel_left ht)
  exact hne (tok_cancel (x := ['_'] ++ (u1 ++ t)) (y := ['_'] ++ u2) h1 h2 rfl rfl ht)

/-- Overloaded members of a class template that use the template parameter are numbered like
    any other overload set (after the repair of `define_function_suffix`; before it both were
    named `push`). -/
example : ((core exScope [{ exFn "push" 1 0 none with usesT := true },
                          { exFn "push" 2 0 none with usesT := true }]).filter
      (fun r => r.wrap.c)).map (cName exScope)
    = ["NM_outer_push_0", "NM_outer_push_1"].map String.toList := by
  decide +kernel

/-! ### members under preprocessor conditions -/

/-- **(c) type-bound generics with `cpp_if`.**  The `generic ::` lines of a type-bound generic
    list every member exactly once, and exactly under its own condition. -/
theorem type_bound_generic_own_condition (ms : List (Str × Option Str)) :
    (typeGenericLines ms).flatMap (fun l => l.2.map (fun b => (b, l.1))) = ms := by
  unfold typeGenericLines
  split
  · have : ∀ l : List (Str × Option Str),
        (l.map (fun m => (m.2, [m.1]))).flatMap (fun l => l.2.map (fun b => (b, l.1))) = l := by
      intro l
      induction l with
      | nil => rfl
      | cons m l ih => simp [List.flatMap_cons, ih]
    exact this ms
  · rename_i h
    simp only [List.any_eq_true, not_exists, not_and, Bool.not_eq_true, Option.isSome_eq_false_iff,
      Option.isNone_iff_eq_none] at h
    simp only [List.flatMap_cons, List.flatMap_nil, List.append_nil, List.map_map]
    induction ms with
    | nil => rfl
    | cons m ms ih =>
      simp only [List.map_cons, Function.comp]
      rw [ih (fun x hx => h x (by simp [hx]))]
      congr 1
      have := h m (by simp)
      cases m; simp_all

/-- **(c) generic interfaces with `cpp_if`.**  Every `module procedure` line is in force
    exactly under its member's own condition (promoted to the interface when common to all). -/
theorem generic_member_own_condition (ms : List (Str × Option Str)) :
    (interfaceLines ms).2.map (fun l => (l.2, effective (interfaceLines ms).1 l.1)) = ms := by
  unfold interfaceLines
  cases ms with
  | nil => rfl
  | cons m0 ms =>
    simp only
    split
    · rename_i h
      simp only [Bool.and_eq_true, List.all_eq_true, beq_iff_eq] at h
      obtain ⟨h0, hall⟩ := h
      obtain ⟨c, hc⟩ := Option.isSome_iff_exists.1 h0
      simp only [List.map_map]
      have : ∀ l : List (Str × Option Str), (∀ x ∈ l, x.2 = m0.2) →
          l.map ((fun l => (l.2, effective m0.2 l.1)) ∘ fun m => ((none : Option Str), m.1)) = l := by
        intro l hl
        induction l with
        | nil => rfl
        | cons x l ih =>
          simp only [List.map_cons, Function.comp]
          rw [ih (fun y hy => hl y (by simp [hy]))]
          congr 1
          have := hl x (by simp)
          cases x; simp_all [effective]
      exact this _ hall
    · simp only [List.map_map]
      have : ∀ l : List (Str × Option Str),
          l.map ((fun l => (l.2, effective none l.1)) ∘ fun m => (m.2, m.1)) = l := by
        intro l
        induction l with
        | nil => rfl
        | cons x l ih =>
          have e : ((fun l : Option Str × Str => (l.2, effective none l.1)) ∘ fun m : Str × Option Str => (m.2, m.1))
              = fun m => m := by funext m; simp [effective]
          rw [e]; simp
      exact this _

/-! ### Python and Lua method tables -/

/-- Hypothesis for the Python table: C++ names of different Python-wrapped functions of the
    scope are not prefixes of one another (keys are `function_name ++ suffixes`). -/
def PyNamesPF (recs : List Rec) : Prop :=
  ∀ a ∈ recs, ∀ b ∈ recs, a.wrap.py = true → b.wrap.py = true → a.name ≠ b.name → ¬ (a.name <+: b.name)

/-- **(b) `PyMethodDef` keys.**  The keys of the method table of a scope (single wrappers
    under `function_name ++ function_suffix ++ template_suffix`, one multi-dispatch entry per
    overloaded or multiply instantiated name) are pairwise distinct. -/
theorem py_table_keys_distinct (recs : List Rec) (pf : PyNamesPF recs) : (pyTable recs).Nodup := by
  unfold pyTable
  rw [List.nodup_append]
  refine ⟨?_, ?_, ?_⟩
  · -- single wrappers
    have hn := single_names_nodup recs
    unfold List.Nodup at hn ⊢
    rw [List.pairwise_map] at hn ⊢
    refine hn.imp_of_mem ?_
    intro a b ha hb hne
    have ha' := List.mem_filter.1 ha
    have hb' := List.mem_filter.1 hb
    simp only [pySingle, Bool.and_eq_true] at ha' hb'
    unfold pyKey
    exact append_ne_of_not_prefix (pf a ha'.1 b hb'.1 ha'.2.1.1 hb'.2.1.1 hne)
      (pf b hb'.1 a ha'.1 hb'.2.1.1 ha'.2.1.1 (Ne.symm hne))
  · exact (dedup_nodup _).sublist List.filter_sublist
  · -- a single wrapper's key is not a dispatcher's name
    intro x hx y hy hxy
    simp only [List.mem_map] at hx
    obtain ⟨a, ha, rfl⟩ := hx
    have ha' := List.mem_filter.1 ha
    simp only [pySingle, Bool.and_eq_true, beq_iff_eq] at ha'
    unfold pyDispatch at hy
    have hy' := List.mem_filter.1 hy
    have hmem := mem_dedup hy'.1
    simp only [List.mem_map, List.mem_filter, Bool.and_eq_true] at hmem
    obtain ⟨b, ⟨hb, hbp⟩, rfl⟩ := hmem
    have hcnt : pyCount recs b.name ≥ 2 := by simpa using hy'.2
    have hne : a.name ≠ b.name := by
      intro e; rw [e] at ha'; omega
    have := append_ne_of_not_prefix (t1 := (if a.hasDefault then [] else a.sfx) ++ a.tsfx) (t2 := [])
      (pf a ha'.1 b hb ha'.2.1.1 hbp.1 hne) (pf b hb a ha'.1 hbp.1 ha'.2.1.1 (Ne.symm hne))
    exact this (by simpa [pyKey] using hxy)

/-- **(b) `luaL_Reg` keys.**  A scope contributes one entry per C++ name. -/
theorem lua_table_keys_distinct (recs : List Rec) : (luaTable recs).Nodup := dedup_nodup _

/-- The multi-dispatch entry carries neither function nor template suffix (seed C08-r2-3): every
    dispatcher key is the C++ name of a Python-wrapped function of the scope. -/
theorem py_dispatch_keys_are_names (recs : List Rec) :
    ∀ k ∈ pyDispatch recs, ∃ r ∈ recs, r.wrap.py = true ∧ k = r.name := by
  intro k hk
  have hmem := mem_dedup (List.mem_filter.1 hk).1
  simp only [List.mem_map, List.mem_filter, Bool.and_eq_true] at hmem
  obtain ⟨b, ⟨hb, hbp⟩, rfl⟩ := hmem
  exact ⟨b, hb, hbp.1, rfl⟩

example : pyTable (expand { exScope with w0 := ⟨true, true, true, true⟩ } exFns2)
    = ["get", "str", "gen", "fooBar", "tmpl"].map String.toList := by decide +kernel
example : PyNamesPF (expand { exScope with w0 := ⟨true, true, true, true⟩ } exFns2) := by
  unfold PyNamesPF; decide +kernel

/-- **(c) generic interfaces and type-bound generics.**  The table built while wrapping
    (per module for interfaces, per class for `generic ::` bindings) lists, under every key,
    exactly the names of the wrapped records of that kind filed under that key, in order. -/
theorem generic_interface_members (sc : Scope) (sel : Rec → Bool) (recs : List Rec) (key : Str) :
    tableGet key (genericTable sc sel recs [])
      = (recs.filter fun r => r.wrap.f && sel r && genericKey sc r == key).map (genericMember sc) := by
  rw [tableGet_genericTable]; simp [tableGet]

end Shroud.Names
