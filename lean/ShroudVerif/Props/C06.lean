import ShroudVerif.Lemmas.Capsule
/-!
# C06  Wrapped objects and returned memory are released exactly once, never early

Model: `Model/Capsule.lean`.  Sections:
1. destructor-table invariant (`add_capsule_code`, `write_capsule_code` switch)
2. matching deallocator (`compute_idtor`, `find_idtor`)
3. histories over handles that are not copied: at most once / exactly once / idempotent release
4. library-owned results
5. table theorem over the regenerated statement tables (`Gen/Capsule.lean`) - see the end
6. aliased delete: the full statement is false
-/
namespace Shroud.Capsule

variable {α β : Type} [DecidableEq α]

/-! ## 1. Table invariant -/

/-- **(1)** every table reachable by registrations from the initial table (slot 0 reserved)
    satisfies the invariant: recorded index = position in `capsule_order`, dict lookup finds the
    entry, every `case` position comes from an entry -/
theorem table_invariant (noneName : α) (nothing : β) (rs : List (α × β)) :
    (regAll (Table.init noneName nothing) rs).Inv :=
  regAll_inv (add_inv Table.inv_empty noneName nothing) rs

/-- `capsule_code[name].index` is the position of `name` in `capsule_order`, and the generated
    `case index:` block holds exactly the lines registered with that name -/
theorem index_is_position (noneName : α) (nothing : β) (rs : List (α × β))
    (e : Entry α β) (he : e ∈ (regAll (Table.init noneName nothing) rs).code) :
    (regAll (Table.init noneName nothing) rs).order[e.index]? = some e.name ∧
    caseBody (regAll (Table.init noneName nothing) rs) e.index = some e.lines :=
  let hi := table_invariant noneName nothing rs
  ⟨(hi.pos e he).1, caseBody_of_mem hi he⟩

/-- the value `add_capsule_code` returns is a `case` label of the final switch whose body is the
    code first registered under that name, whatever is registered afterwards -/
theorem returned_index_runs_registered_code {t : Table α β} (hi : t.Inv) (n : α) (l : β)
    (later : List (α × β)) :
    ∃ b, caseBody (regAll (addCapsuleCode t n l).1 later) (addCapsuleCode t n l).2 = some b ∧
      (t.lookup n = none → b = l) ∧ (∀ e, t.lookup n = some e → b = e.lines) := by
  have hi' := add_inv hi n l
  have key : ∃ b, caseBody (addCapsuleCode t n l).1 (addCapsuleCode t n l).2 = some b ∧
      (t.lookup n = none → b = l) ∧ (∀ e, t.lookup n = some e → b = e.lines) := by
    cases hl : t.lookup n with
    | some e =>
      have hm := (lookup_some_mem hl).1
      refine ⟨e.lines, ?_, by simp, by simp⟩
      simpa [addCapsuleCode, hl] using caseBody_of_mem hi hm
    | none =>
      refine ⟨l, ?_, by simp, by simp⟩
      have hmem : (⟨n, t.code.length, l⟩ : Entry α β) ∈ (addCapsuleCode t n l).1.code := by
        simp [addCapsuleCode, hl]
      have := caseBody_of_mem hi' hmem
      simpa [addCapsuleCode, hl] using this
  obtain ⟨b, hb, h1, h2⟩ := key
  exact ⟨b, caseBody_regAll_stable hi' later hb, h1, h2⟩

/-- slot 0 is "nothing" in every reachable table -/
theorem slot_zero_is_nothing (noneName : α) (nothing : β) (rs : List (α × β)) :
    caseBody (regAll (Table.init noneName nothing) rs) 0 = some nothing := by
  have hi : (Table.init noneName nothing).Inv := add_inv Table.inv_empty noneName nothing
  apply caseBody_regAll_stable hi rs
  simp [Table.init, addCapsuleCode, Table.lookup, Table.empty, caseBody]

/-- distinct names get distinct indices -/
theorem indices_distinct {t : Table α β} (hi : t.Inv) {e1 e2 : Entry α β}
    (h1 : e1 ∈ t.code) (h2 : e2 ∈ t.code) (h : e1.index = e2.index) : e1 = e2 := by
  obtain ⟨a1, b1⟩ := hi.pos e1 h1
  obtain ⟨a2, b2⟩ := hi.pos e2 h2
  rw [h] at a1
  have hn : e1.name = e2.name := by simpa [a2] using a1.symm
  rw [hn] at b1
  simpa [b2] using b1.symm

example : caseBody (regAll (Table.init 0 0) [(5, 50), (7, 70), (5, 99)]) 2 = some 70 := by decide
example : (addCapsuleCode (regAll (Table.init 0 0) [(5, 50), (7, 70)]) 5 99).2 = 1 := by decide

/-! ## 2. Matching deallocator -/

theorem addDestructor_eq (t : Table α β) (n : α) (l : β) : addDestructor t n l = addCapsuleCode t n l := by
  unfold addDestructor addCapsuleCode
  cases t.lookup n <;> rfl

/-- generator invariant: the table invariant; the body registered under a name is the one that
    name stands for (`canon`, no two different release codes under one name); the idtor cached
    on a typemap selects that type's deallocator -/
structure WInv (canon tmBody : α → Dtor) (w : World α) : Prop where
  tinv : w.tbl.Inv
  cons : ∀ e ∈ w.tbl.code, e.lines = canon e.name
  cache : ∀ tm, w.cache tm ≠ 0 → caseBody w.tbl (w.cache tm) = some (tmBody tm)

theorem add_canon {canon : α → Dtor} {t : Table α Dtor} (hi : t.Inv)
    (hc : ∀ e ∈ t.code, e.lines = canon e.name) (n : α) :
    (addCapsuleCode t n (canon n)).1.Inv ∧
    (∀ e ∈ (addCapsuleCode t n (canon n)).1.code, e.lines = canon e.name) ∧
    caseBody (addCapsuleCode t n (canon n)).1 (addCapsuleCode t n (canon n)).2 = some (canon n) := by
  refine ⟨add_inv hi n _, ?_, ?_⟩
  · unfold addCapsuleCode
    cases hl : t.lookup n with
    | some e => simpa using hc
    | none =>
      intro e he
      simp only [List.mem_append, List.mem_singleton] at he
      rcases he with he | rfl
      · exact hc e he
      · rfl
  · obtain ⟨b, hb, h1, h2⟩ := returned_index_runs_registered_code hi n (canon n) []
    simp only [regAll] at hb
    cases hl : t.lookup n with
    | none => rw [hb, h1 hl]
    | some e =>
      obtain ⟨hm, hn⟩ := lookup_some_mem hl
      rw [hb, h2 e hl, hc e hm, hn]

/-- the generator starts in a state satisfying the invariant (`wrap_library` reserves slot 0) -/
theorem winv_init (canon tmBody : α → Dtor) (noneName : α) (h : canon noneName = .nothing) :
    WInv canon tmBody ⟨Table.init noneName .nothing, fun _ => 0⟩ := by
  refine ⟨add_inv Table.inv_empty noneName Dtor.nothing, ?_, by intro t ht; exact absurd rfl ht⟩
  intro e he
  simp [Table.init, addCapsuleCode, Table.lookup, Table.empty] at he
  subst he
  exact h.symm

/-- **injective keys**: two destructors registered under different names each get a `case` that
    runs their own code (whatever is registered later does not change that) -/
theorem distinct_keys_own_destructor {canon : α → Dtor} {t : Table α Dtor} (hi : t.Inv)
    (hc : ∀ e ∈ t.code, e.lines = canon e.name) (n1 n2 : α) :
    let r1 := addCapsuleCode t n1 (canon n1)
    let r2 := addCapsuleCode r1.1 n2 (canon n2)
    caseBody r2.1 r1.2 = some (canon n1) ∧ caseBody r2.1 r2.2 = some (canon n2) := by
  obtain ⟨a1, b1, c1⟩ := add_canon hi hc n1
  obtain ⟨_, _, c2⟩ := add_canon a1 b1 n2
  exact ⟨caseBody_add_stable a1 n2 _ c1, c2⟩

/-- the registry is keyed by name only: a second class registered under the SAME key (e.g. the
    unqualified class name of `alpha::Item` and `beta::Item`) gets the first class's index, and
    releasing its objects runs the first class's destructor on them (mismatch) -/
theorem same_key_runs_first_destructor :
    let t0 : Table Nat Dtor := Table.init 0 .nothing
    let r1 := addCapsuleCode t0 7 (.del 1)
    let r2 := addCapsuleCode r1.1 7 (.del 2)
    r2.2 = r1.2 ∧ caseBody r2.1 r2.2 = some (.del 1) ∧
    (run [.nothing, .del 1] St.init [.construct 0 2 1, .release 0]).mismatch = true := by decide

/-- the request is consistent with the static meaning of names and typemaps -/
structure FindIn.Consistent (canon tmBody : α → Dtor) (x : FindIn α) : Prop where
  body : (if x.cxxToC then Dtor.del x.ty else Dtor.free) = tmBody x.tm
  name : canon x.nm = tmBody x.tm
  pat : ∀ pn p, x.freePattern = some (pn, p) → canon pn = .pattern p
  stmt : ∀ dn, x.destructorName = some dn → canon dn = x.stmtDtor

/-- `compute_idtor` keeps the generator invariant -/
theorem computeIdtor_inv {canon tmBody : α → Dtor} {w : World α} (hw : WInv canon tmBody w)
    (tm nm : α) (ty : Nat) (hasDtor : Bool)
    (h1 : canon nm = .del ty) (h2 : tmBody tm = .del ty) :
    WInv canon tmBody (computeIdtor w tm nm ty hasDtor) := by
  unfold computeIdtor
  cases hasDtor with
  | false =>
    refine ⟨hw.tinv, hw.cons, ?_⟩
    intro t
    simp only [World.setCache, Bool.false_eq_true, if_false]
    by_cases e : t = tm
    · simp [e]
    · simp only [e, if_false]; exact hw.cache t
  | true =>
    obtain ⟨a, b, c⟩ := add_canon hw.tinv hw.cons nm
    rw [h1] at a b c
    refine ⟨a, b, ?_⟩
    intro t
    simp only [World.setCache, if_true]
    by_cases e : t = tm
    · simp only [e, if_true]; intro _; rw [h2]; exact c
    · simp only [e, if_false]; intro hne; exact caseBody_add_stable hw.tinv nm _ (hw.cache t hne)

theorem stmtBranch_spec {canon tmBody : α → Dtor} {w : World α} (hw : WInv canon tmBody w)
    (dn : α) (d : Dtor) (hcan : canon dn = d) :
    WInv canon tmBody (stmtBranch w dn d).1 ∧
    caseBody (stmtBranch w dn d).1.tbl (stmtBranch w dn d).2 = some d := by
  obtain ⟨a, b, c⟩ := add_canon hw.tinv hw.cons dn
  rw [hcan] at a b c
  unfold stmtBranch
  cases hl : w.tbl.lookup dn with
  | none =>
    refine ⟨⟨a, b, ?_⟩, c⟩
    intro t hne; exact caseBody_add_stable hw.tinv dn _ (hw.cache t hne)
  | some e =>
    refine ⟨hw, ?_⟩
    simpa [addCapsuleCode, hl] using c

theorem regBranch_spec {canon tmBody : α → Dtor} {w : World α} (hw : WInv canon tmBody w)
    (x : FindIn α) (hbody : (if x.cxxToC then Dtor.del x.ty else Dtor.free) = tmBody x.tm)
    (hname : canon x.nm = tmBody x.tm)
    (hpat : ∀ pn p, x.freePattern = some (pn, p) → canon pn = .pattern p) :
    WInv canon tmBody (regBranch w x).1 ∧
    ∃ d, caseBody (regBranch w x).1.tbl (regBranch w x).2 = some d ∧ d ≠ .nothing ∧
      d.Matches x.regKind = true := by
  unfold regBranch FindIn.regKind
  cases hfp : x.freePattern with
  | some pp =>
    obtain ⟨pn, p⟩ := pp
    have hcan := hpat pn p hfp
    obtain ⟨a, b, c⟩ := add_canon hw.tinv hw.cons pn
    rw [hcan] at a b c
    simp only [addDestructor_eq]
    refine ⟨⟨a, b, ?_⟩, .pattern p, c, by simp, by simp [Dtor.Matches]⟩
    intro t hne; exact caseBody_add_stable hw.tinv pn _ (hw.cache t hne)
  | none =>
    by_cases hc : w.cache x.tm ≠ 0
    · rw [if_pos hc]
      refine ⟨hw, tmBody x.tm, hw.cache x.tm hc, ?_, ?_⟩
      · rw [← hbody]; cases x.cxxToC <;> simp
      · rw [← hbody]; cases x.cxxToC <;> simp [Dtor.Matches]
    · rw [if_neg hc]
      simp only [addDestructor_eq]
      obtain ⟨a, b, c⟩ := add_canon hw.tinv hw.cons x.nm
      rw [hname, ← hbody] at a b c
      refine ⟨⟨a, b, ?_⟩, _, c, ?_, ?_⟩
      · intro t
        simp only [World.setCache]
        split
        · intro _; subst_vars; rw [← hbody]; exact c
        · intro hne; exact caseBody_add_stable hw.tinv x.nm _ (hw.cache t hne)
      · cases x.cxxToC <;> simp
      · cases x.cxxToC <;> simp [Dtor.Matches]

omit [DecidableEq α] in
theorem callerOwned_iff (x : FindIn α) :
    x.callerOwned = true ↔ ¬ (x.ownerDecision.1 = .library) ∧ ¬ ((!x.isPointer && !x.ownerDecision.2) = true) := by
  obtain ⟨dn, sd, oa, so, ip, fp, tm, nm, ty, c2c⟩ := x
  cases oa with
  | some o => cases o <;> cases ip <;> simp [FindIn.callerOwned, FindIn.ownerDecision]
  | none =>
    cases so with
    | some o => cases o <;> cases ip <;> simp [FindIn.callerOwned, FindIn.ownerDecision]
    | none => cases ip <;> simp [FindIn.callerOwned, FindIn.ownerDecision]

/-- **(2)(4)** `find_idtor`:
    * keeps the generator invariant;
    * a statement-level destructor (`std::string` / `std::vector` intermediates) gets the index
      whose `case` holds that statement's destructor;
    * caller-owned pointer results get an index whose `case` is not "nothing" and releases memory
      of the expected kind (`delete` for C++ objects, `free` for POD, the user's `free_pattern`);
    * anything else (owner(library), non-pointer values) gets idtor 0. -/
theorem findIdtor_matching {canon tmBody : α → Dtor} {w : World α} (hw : WInv canon tmBody w)
    (x : FindIn α) (hx : x.Consistent canon tmBody) :
    WInv canon tmBody (findIdtor w x).1 ∧
    (∀ dn, x.destructorName = some dn →
        caseBody (findIdtor w x).1.tbl (findIdtor w x).2 = some x.stmtDtor) ∧
    (x.destructorName = none → x.callerOwned = true →
        ∃ d, caseBody (findIdtor w x).1.tbl (findIdtor w x).2 = some d ∧ d ≠ .nothing ∧
             d.Matches x.expectedKind = true) ∧
    (x.destructorName = none → x.callerOwned = false → (findIdtor w x).2 = 0) := by
  cases hdn : x.destructorName with
  | some dn =>
    have := stmtBranch_spec hw dn x.stmtDtor (hx.stmt dn hdn)
    simp only [findIdtor, hdn]
    exact ⟨this.1, fun _ _ => this.2, by simp, by simp⟩
  | none =>
    have hreg := regBranch_spec hw x hx.body hx.name hx.pat
    have hiff := callerOwned_iff x
    by_cases hco : x.callerOwned = true
    · obtain ⟨h1, h2⟩ := hiff.mp hco
      have hf : findIdtor w x = regBranch w x := by
        simp only [findIdtor, hdn, h1, if_false]
        simp only [Bool.not_eq_true] at h2
        simp [h2]
      rw [hf]
      refine ⟨hreg.1, by simp, ?_, ?_⟩
      · intro _ _
        simpa [FindIn.expectedKind, hdn] using hreg.2
      · intro _ hc; rw [hco] at hc; exact absurd hc (by simp)
    · have hf : findIdtor w x = (w, 0) := by
        simp only [findIdtor, hdn]
        by_cases h1 : x.ownerDecision.1 = .library
        · simp [h1]
        · simp only [h1, if_false]
          by_cases h2 : (!x.isPointer && !x.ownerDecision.2) = true
          · simp [h2]
          · exact absurd (hiff.mpr ⟨h1, h2⟩) hco
      rw [hf]
      exact ⟨hw, by simp, fun _ hc => absurd hc hco, fun _ _ => rfl⟩

/-- non-vacuity: a class with a destructor, then an owner(caller) `int *` result, then a
    `std::vector` intermediate; indices 1, 2, 3 and matching bodies -/
example :
    let w0 : World Nat := ⟨Table.init 0 .nothing, fun _ => 0⟩
    let w1 := computeIdtor w0 10 10 10 true
    let r2 := findIdtor w1 ⟨none, .nothing, some .caller, some .library, true, none, 20, 20, 20, false⟩
    let r3 := findIdtor r2.1 ⟨some 30, .del 30, none, some .library, false, none, 31, 31, 31, false⟩
    let r4 := findIdtor r3.1 ⟨none, .nothing, some .caller, some .library, true, none, 10, 10, 10, true⟩
    (r2.2, r3.2, r4.2) = (2, 3, 1) ∧
    (caseBody r3.1.tbl 1, caseBody r3.1.tbl 2, caseBody r3.1.tbl 3) =
      (some (.del 10), some .free, some (.del 30)) := by decide

/-- why `canon` is a hypothesis: the table is keyed by name only, so a `free_pattern` whose name
    equals an already registered type name silently reuses that type's deallocator -/
example :
    let w0 : World Nat := ⟨Table.init 0 .nothing, fun _ => 0⟩
    let r1 := findIdtor w0 ⟨none, .nothing, some .caller, some .library, true, none, 20, 20, 20, false⟩
    let r2 := findIdtor r1.1 ⟨none, .nothing, some .caller, some .library, true, some (20, 7), 21, 21, 21, false⟩
    caseBody r2.1.tbl r2.2 = some .free := by decide

/-- `find_idtor` never changes a `case` that is already in the table (in particular the reserved
    "nothing to delete" slot 0 stays what it is) -/
theorem findIdtor_keeps_cases {w : World α} (hi : w.tbl.Inv) (x : FindIn α) {i : Nat} {d : Dtor}
    (h : caseBody w.tbl i = some d) : caseBody (findIdtor w x).1.tbl i = some d := by
  unfold findIdtor stmtBranch regBranch
  simp only [addDestructor_eq]
  repeat' split
  all_goals first
    | exact h
    | exact caseBody_add_stable hi _ _ h

/-- **(2) class without a wrapped destructor** (`~Class()` not declared in the YAML):
    `compute_idtor` registers nothing and leaves the typemap's cached index at 0 = "not yet known";
    the first constructor / owner(caller) pointer result of that class then does NOT take the cached
    0 (which would mean "nothing to delete"): `find_idtor` registers `delete reinterpret_cast<T*>`
    and the handle carries a non-zero index whose `case` is that `delete`. -/
theorem unwrapped_destructor_owned_result_is_deleted {canon tmBody : α → Dtor} {w : World α}
    (hw : WInv canon tmBody w) (hz : caseBody w.tbl 0 = some .nothing)
    (x : FindIn α) (hx : x.Consistent canon tmBody)
    (hdn : x.destructorName = none) (hfp : x.freePattern = none) (hcls : x.cxxToC = true)
    (hco : x.callerOwned = true) (h1 : canon x.nm = .del x.ty) (h2 : tmBody x.tm = .del x.ty) :
    let w' := computeIdtor w x.tm x.nm x.ty false
    (findIdtor w' x).2 ≠ 0 ∧
    caseBody (findIdtor w' x).1.tbl (findIdtor w' x).2 = some (.del x.ty) := by
  intro w'
  have hw' : WInv canon tmBody w' := computeIdtor_inv hw x.tm x.nm x.ty false h1 h2
  have hz' : caseBody w'.tbl 0 = some .nothing := by
    simpa [w', computeIdtor, World.setCache] using hz
  obtain ⟨_, _, hown, _⟩ := findIdtor_matching hw' x hx
  obtain ⟨d, hd, hne, hm⟩ := hown hdn hco
  have hk : x.expectedKind = .cxx x.ty := by
    simp [FindIn.expectedKind, FindIn.regKind, hdn, hfp, hcls]
  rw [hk] at hm
  have hdel : d = .del x.ty := by
    cases d <;> simp_all [Dtor.Matches]
  subst hdel
  refine ⟨?_, hd⟩
  intro h0
  have := findIdtor_keeps_cases hw'.tinv x hz'
  rw [h0] at hd
  rw [hd] at this
  exact absurd this (by simp)

/-- non-vacuity, and the two neighbouring shapes: class 10 has a wrapped destructor (index 1 from
    `compute_idtor`), class 20 has none: its constructor registers `delete` (index 2) and a later
    owner(caller) result of class 20 reuses it; an owner(library) result of class 20 gets 0 -/
example :
    let w0 : World Nat := ⟨Table.init 0 .nothing, fun _ => 0⟩
    let w1 := computeIdtor (computeIdtor w0 10 10 10 true) 20 20 20 false
    let r2 := findIdtor w1 ⟨none, .nothing, none, some .caller, false, none, 20, 20, 20, true⟩
    let r3 := findIdtor r2.1 ⟨none, .nothing, some .caller, some .library, true, none, 20, 20, 20, true⟩
    let r4 := findIdtor r3.1 ⟨none, .nothing, some .library, some .library, true, none, 20, 20, 20, true⟩
    (r2.2, r3.2, r4.2) = (2, 2, 0) ∧ caseBody r4.1.tbl 2 = some (.del 20) := by decide

/-- why the cached index must be compared with the SAME zero the "unknown" marker is stored as: a
    `find_idtor` that took a cached 0 for "known" would hand the caller-owned object index 0, whose
    `case` releases nothing - the object is then never freed (leak) -/
example :
    ((run [.nothing, .del 1] St.init [.construct 0 1 0, .release 0]).heap 1).frees = 0 ∧
    ((run [.nothing, .del 1] St.init [.construct 0 1 1, .release 0]).heap 1).frees = 1 := by decide

/-- the run-time switch table of a generator table -/
def Table.dtors (t : Table α Dtor) : List Dtor :=
  t.order.map (fun n => ((t.lookup n).map (·.lines)).getD .nothing)

theorem dtors_get {t : Table α Dtor} {i : Nat} {d : Dtor} (h : caseBody t i = some d) :
    t.dtors[i]? = some d := by
  unfold caseBody at h
  unfold Table.dtors
  cases ho : t.order[i]? with
  | none => simp [ho] at h
  | some n =>
    simp only [ho] at h
    simp only [List.getElem?_map, ho, Option.map_some]
    cases hl : t.lookup n with
    | none => simp [hl] at h
    | some e => simp [hl] at h ⊢; exact h

/-! ## 3. Histories -/

variable {tbl : List Dtor} {ht : Nat → Kind} {S : Nat → Prop}

theorem step_good (hz : tbl[0]? = some .nothing) {s : St} (g : Good tbl ht S s) (op : Op)
    (hw : op.WellTyped tbl) (hty : op.Typed ht) (hd : op.Disc S) : Good tbl ht S (step tbl s op) := by
  cases op with
  | construct h ty idt =>
    simp only [Op.Typed] at hty
    simp only [Op.WellTyped] at hw
    refine good_alloc g h (.cxx ty) false idt (fun _ => hty.symm) ?_
    intro _ d hd'
    rcases hw with rfl | hw
    · rw [hz] at hd'; left; exact (Option.some.inj hd').symm
    · rw [hw] at hd'; right; rw [← Option.some.inj hd', hty]; simp [Dtor.Matches]
  | method h =>
    simp only [step]
    split
    · rename_i hc
      have := (g.ptr h hc.1).2
      exact absurd this hc.2
    · exact g
  | copy src dst => exact good_copy g src dst hd.1 hd.2
  | delete h ty =>
    simp only [Op.Typed] at hty
    exact good_free g h _ (.del ty) hd (fun _ => by rw [hty]; simp [Dtor.Matches])
  | release h =>
    simp only [step, St.runSwitch]
    split
    · exact good_null g h 0
    · exact good_null g h 0
    · rename_i d hnot hsome
      refine good_free g h 0 d hd ?_
      intro hne
      rcases g.idt h hd hne d hsome with h1 | h1
      · exact absurd h1 hnot
      · exact h1
  | owned h k idt =>
    simp only [Op.Typed] at hty
    obtain ⟨d, h1, h2, h3⟩ := hw
    refine good_alloc g h k false idt (fun _ => hty.symm) ?_
    intro _ d' hd'
    rw [h1] at hd'; right; rw [← Option.some.inj hd', hty]; exact h3
  | borrowed h k =>
    simp only [Op.Typed] at hty
    refine good_alloc g h k true 0 (fun _ => hty.symm) ?_
    intro _ d' hd'
    rw [hz] at hd'; left; exact (Option.some.inj hd').symm
  | temp k idt => exact (good_temp g k idt hw).1

theorem run_good (hz : tbl[0]? = some .nothing) {s : St} (g : Good tbl ht S s) (hist : List Op)
    (hall : ∀ op ∈ hist, op.WellTyped tbl ∧ op.Typed ht ∧ op.Disc S) :
    Good tbl ht S (run tbl s hist) := by
  induction hist generalizing s with
  | nil => exact g
  | cons op ops ih =>
    simp only [run, List.foldl_cons]
    have h1 := hall op (by simp)
    exact ih (step_good hz g op h1.1 h1.2.1 h1.2.2) (fun o ho => hall o (by simp [ho]))

/-- **(3)/(6) `_partial`**: for every history, over any number of handles, in which the generated
    idtor constants are the matching ones, and in which the handles that are deleted / released
    (set `S`) are never the source or the target of a handle copy:
    every object is freed at most once, no method reads a freed object, every deallocator applied
    matches the allocation.  What is missing compared with the full statement: histories in which
    a handle in `S` is copied (the full statement is false there, see `histories_with_aliased_delete`). -/
theorem histories_without_aliased_delete_partial (hz : tbl[0]? = some .nothing) (hist : List Op)
    (hall : ∀ op ∈ hist, op.WellTyped tbl ∧ op.Typed ht ∧ op.Disc S) :
    (∀ a, ((run tbl St.init hist).heap a).frees ≤ 1) ∧ (run tbl St.init hist).uaf = false ∧
    (run tbl St.init hist).mismatch = false :=
  let g := run_good (ht := ht) (S := S) hz good_init hist hall
  ⟨g.once, g.nouaf, g.nomis⟩

/-- an operation of a history over the single handle `h0` (no copies) -/
def Op.Single (h0 : Nat) (op : Op) : Prop := (∀ h ∈ op.touches, h = h0) ∧ ∀ s d, op ≠ .copy s d

theorem single_disc {h0 : Nat} {op : Op} (h : op.Single h0) : op.Disc (· = h0) := by
  cases op with
  | copy s d => exact absurd rfl (h.2 s d)
  | delete h1 _ => exact h.1 h1 (by simp [Op.touches])
  | release h1 => exact h.1 h1 (by simp [Op.touches])
  | _ => trivial

/-- **(3)** every history over a single handle frees every object at most once, never reads a
    freed object, and only applies matching deallocators -/
theorem single_handle_freed_at_most_once (hz : tbl[0]? = some .nothing) (h0 : Nat) (hist : List Op)
    (hall : ∀ op ∈ hist, op.WellTyped tbl ∧ op.Typed ht ∧ op.Single h0) :
    (∀ a, ((run tbl St.init hist).heap a).frees ≤ 1) ∧ (run tbl St.init hist).uaf = false ∧
    (run tbl St.init hist).mismatch = false :=
  histories_without_aliased_delete_partial (ht := ht) (S := (· = h0)) hz hist
    (fun op ho => ⟨(hall op ho).1, (hall op ho).2.1, single_disc (hall op ho).2.2⟩)

example : ∀ op ∈ [Op.construct 0 1 1, .method 0, .release 0, .release 0, .owned 0 (.cxx 1) 1, .delete 0 1],
    op.WellTyped [.nothing, .del 1] ∧ op.Typed (fun _ => .cxx 1) ∧ op.Single 0 := by
  intro op ho
  simp only [List.mem_cons, List.not_mem_nil, or_false] at ho
  rcases ho with rfl | rfl | rfl | rfl | rfl | rfl <;>
    simp [Op.WellTyped, Op.Typed, Op.Single, Op.touches, Dtor.Matches]

/-- frees only grow, allocated addresses stay allocated -/
theorem step_mono (s : St) (op : Op) (a : Nat) (ha : a < s.next) :
    a < (step tbl s op).next ∧ (s.heap a).frees ≤ ((step tbl s op).heap a).frees := by
  cases op with
  | construct h ty idt => simp [step, alloc_heap_old s _ _ a ha]; omega
  | method h => simp only [step]; split <;> exact ⟨ha, Nat.le_refl _⟩
  | copy src dst => exact ⟨ha, Nat.le_refl _⟩
  | delete h ty => simp only [step, setH_heap, setH_next, freeAt_next]; exact ⟨ha, freeAt_frees_le s _ _ a⟩
  | release h => simp only [step, setH_heap, setH_next, runSwitch_next]; exact ⟨ha, runSwitch_frees_le tbl s _ a⟩
  | owned h k idt => simp [step, alloc_heap_old s _ _ a ha]; omega
  | borrowed h k => simp [step, alloc_heap_old s _ _ a ha]; omega
  | temp k idt =>
    simp only [step, runSwitch_next, alloc_next]
    refine ⟨by omega, ?_⟩
    have := runSwitch_frees_le tbl (s.alloc k false).1 ⟨(s.alloc k false).2, idt⟩ a
    rw [alloc_heap_old s _ _ a ha] at this
    exact this

theorem run_mono (s : St) (hist : List Op) (a : Nat) (ha : a < s.next) :
    (s.heap a).frees ≤ ((run tbl s hist).heap a).frees := by
  induction hist generalizing s with
  | nil => exact Nat.le_refl _
  | cons op ops ih =>
    simp only [run, List.foldl_cons]
    obtain ⟨h1, h2⟩ := step_mono (tbl := tbl) s op a ha
    exact Nat.le_trans h2 (ih _ h1)

/-- **(3) exactly once**: in a disciplined history, when the caller releases (finaliser /
    `SHROUD_memory_destructor`) a handle in `S` that holds a caller-owned object, the object is
    freed by that call and its free count stays exactly one whatever disciplined history follows -/
theorem release_frees_exactly_once (hz : tbl[0]? = some .nothing) {s : St} (g : Good tbl ht S s)
    (h : Nat) (hS : S h) (d : Dtor) (ha : (s.hs h).addr ≠ 0)
    (hd : tbl[(s.hs h).idtor]? = some d) (hn : d ≠ .nothing) (later : List Op)
    (hall : ∀ op ∈ later, op.WellTyped tbl ∧ op.Typed ht ∧ op.Disc S) :
    ((run tbl (step tbl s (.release h)) later).heap (s.hs h).addr).frees = 1 := by
  have g1 : Good tbl ht S (step tbl s (.release h)) := step_good hz g (.release h) trivial trivial hS
  have g2 := run_good hz g1 later hall
  obtain ⟨hlt, hfr⟩ := g.ptr h ha
  have hnow : ((step tbl s (.release h)).heap (s.hs h).addr).frees = 1 := by
    have : (s.runSwitch tbl (s.hs h)) = s.freeAt (s.hs h).addr d := by
      cases d <;> simp_all [St.runSwitch]
    simp [step, this, St.freeAt, ha, St.setH, upd, hfr]
  have hlt' : (s.hs h).addr < (step tbl s (.release h)).next := (step_mono s _ _ hlt).1
  have := run_mono (tbl := tbl) (step tbl s (.release h)) later _ hlt'
  have := g2.once (s.hs h).addr
  omega

/-- non-vacuity (concrete instance): owned result, release, then more disciplined operations -/
example : ((run [.nothing, .del 1] (step [.nothing, .del 1]
      (run [.nothing, .del 1] St.init [.owned 0 (.cxx 1) 1, .method 0]) (.release 0))
      [.release 0, .construct 0 1 1, .delete 0 1, .release 0]).heap 1).frees = 1 := by decide

/-- **a reused capsule**: Fortran finalises an `intent(OUT)` capsule argument on entry, i.e. the
    wrapper call `owned h ..` is preceded by `release h`: the memory the capsule held before is freed
    exactly once, whatever disciplined history follows -/
theorem capsule_reuse_releases_previous (hz : tbl[0]? = some .nothing) {s : St} (g : Good tbl ht S s)
    (h : Nat) (hS : S h) (d : Dtor) (ha : (s.hs h).addr ≠ 0)
    (hd : tbl[(s.hs h).idtor]? = some d) (hn : d ≠ .nothing) (k : Kind) (idt : Nat)
    (hw : (Op.owned h k idt).WellTyped tbl) (hty : ht h = k) (later : List Op)
    (hall : ∀ op ∈ later, op.WellTyped tbl ∧ op.Typed ht ∧ op.Disc S) :
    ((run tbl (step tbl s (.release h)) (.owned h k idt :: later)).heap (s.hs h).addr).frees = 1 :=
  release_frees_exactly_once hz g h hS d ha hd hn (.owned h k idt :: later) (by
    intro op ho
    simp only [List.mem_cons] at ho
    rcases ho with rfl | ho
    · exact ⟨hw, hty, trivial⟩
    · exact hall op ho)

/-- without the finalisation on entry the overwritten object is never freed (sensitivity witness) -/
theorem capsule_overwrite_without_release_leaks :
    ((run [.nothing, .free] St.init [.owned 0 .pod 1, .owned 0 .pod 1, .release 0]).heap 1).frees = 0 := by decide

/-- the same for the explicit destructor wrapper `<Class>_dtor` -/
theorem delete_frees_exactly_once (hz : tbl[0]? = some .nothing) {s : St} (g : Good tbl ht S s)
    (h ty : Nat) (hS : S h) (hty : ht h = .cxx ty) (ha : (s.hs h).addr ≠ 0) (later : List Op)
    (hall : ∀ op ∈ later, op.WellTyped tbl ∧ op.Typed ht ∧ op.Disc S) :
    ((run tbl (step tbl s (.delete h ty)) later).heap (s.hs h).addr).frees = 1 := by
  have g1 : Good tbl ht S (step tbl s (.delete h ty)) := step_good hz g (.delete h ty) trivial hty hS
  have g2 := run_good hz g1 later hall
  obtain ⟨hlt, hfr⟩ := g.ptr h ha
  have hnow : ((step tbl s (.delete h ty)).heap (s.hs h).addr).frees = 1 := by
    simp [step, St.freeAt, ha, St.setH, upd, hfr]
  have hlt' : (s.hs h).addr < (step tbl s (.delete h ty)).next := (step_mono s _ _ hlt).1
  have := run_mono (tbl := tbl) (step tbl s (.delete h ty)) later _ hlt'
  have := g2.once (s.hs h).addr
  omega

/-- **(3) release after release is a no-op**, for every state -/
theorem release_idempotent (s : St) (h : Nat) :
    step tbl (step tbl s (.release h)) (.release h) = step tbl s (.release h) := by
  simp only [step, setH_hs_self, runSwitch_null, setH_setH]

/-- after `delete` (the destructor wrapper) a `release` or a second `delete` frees nothing -/
theorem release_after_delete_noop (s : St) (h ty : Nat) :
    (step tbl (step tbl s (.delete h ty)) (.release h)).heap = (step tbl s (.delete h ty)).heap ∧
    (step tbl (step tbl s (.delete h ty)) (.delete h ty)).heap = (step tbl s (.delete h ty)).heap := by
  simp [step]

/-- sensitivity witness: without `cap->addr = NULL; cap->idtor = 0` a second release frees again -/
theorem release_without_reset_double_frees :
    ((([Op.construct 0 1 1, .release 0, .release 0]).foldl (stepNoReset [.nothing, .del 1]) St.init).heap 1).frees = 2 := by
  decide

/-- a temporary created for a call is released before the wrapper's caller continues -/
theorem temporary_released {s : St} (g : Good tbl ht S s) (k : Kind) (i : Nat)
    (hw : (Op.temp k i).WellTyped tbl) : ((step tbl s (.temp k i)).heap s.next).frees = 1 :=
  (good_temp g k i hw).2

/-! ## 4. Library-owned results -/

/-- **(4)** a function whose result is owner(library) stores idtor 0 -/
theorem borrowed_gets_idtor_zero (s : St) (h : Nat) (k : Kind) :
    (step tbl s (.borrowed h k)).hs h = ⟨s.next, 0⟩ ∧ ((step tbl s (.borrowed h k)).heap s.next).lib = true := by
  simp [step, St.alloc, St.setH, upd]

/-- invariant for (4): handles with a non-zero idtor never point to library-owned memory -/
structure LibSafe (s : St) : Prop where
  ptr : ∀ h, (s.hs h).addr < s.next
  zero : ∀ h, (s.hs h).addr ≠ 0 → (s.heap (s.hs h).addr).lib = true → (s.hs h).idtor = 0
  never : ∀ a, (s.heap a).lib = true → (s.heap a).frees = 0

def Op.NoDelete : Op → Prop
  | .delete _ _ => False
  | _ => True

theorem libsafe_step (hz : tbl[0]? = some .nothing) {s : St} (g : LibSafe s) (hp : 0 < s.next)
    (op : Op) (hnd : op.NoDelete) : LibSafe (step tbl s op) ∧ 0 < (step tbl s op).next := by
  have halloc : ∀ (h : Nat) (k : Kind) (lib : Bool) (i : Nat), (lib = true → i = 0) →
      LibSafe ((s.alloc k lib).1.setH h ⟨(s.alloc k lib).2, i⟩) := by
    intro h k lib i hli
    refine ⟨?_, ?_, ?_⟩
    · intro h'
      simp only [St.alloc, St.setH, upd]
      split
      · simp
      · have := g.ptr h'; omega
    · intro h'
      simp only [St.alloc, St.setH, upd]
      by_cases e : h' = h
      · simp [e]; exact fun _ => hli
      · simp only [e, if_false]
        have := g.ptr h'
        have hne : (s.hs h').addr ≠ s.next := by omega
        simp only [hne, if_false]
        exact g.zero h'
    · intro a
      simp only [St.alloc, St.setH, upd]
      split
      · simp
      · exact g.never a
  have hswitch : ∀ (s' : St) (c : Cap), LibSafe s' →
      (c.addr ≠ 0 → (s'.heap c.addr).lib = true → c.idtor = 0) → LibSafe (s'.runSwitch tbl c) := by
    intro s' c g' hc
    unfold St.runSwitch
    split
    · exact g'
    · exact g'
    · rename_i d hnot hsome
      unfold St.freeAt
      split
      · exact g'
      · rename_i hne
        have hnl : (s'.heap c.addr).lib ≠ true := by
          intro hl
          have := hc hne hl
          rw [this, hz] at hsome
          exact hnot (Option.some.inj hsome).symm
        refine ⟨g'.ptr, ?_, ?_⟩
        · intro h'
          simp only [upd]
          split
          · rename_i e; rw [e]; intro _ hl; exact absurd hl hnl
          · exact g'.zero h'
        · intro a
          simp only [upd]
          split
          · rename_i e; subst e; intro hl; exact absurd hl hnl
          · exact g'.never a
  have hsetnull : ∀ (s' : St) (h : Nat), LibSafe s' → 0 < s'.next → LibSafe (s'.setH h ⟨0, 0⟩) := by
    intro s' h g' hp'
    refine ⟨?_, ?_, g'.never⟩
    · intro h'
      simp only [St.setH, upd]
      split
      · exact hp'
      · exact g'.ptr h'
    · intro h'
      simp only [St.setH, upd]
      split
      · simp
      · exact g'.zero h'
  cases op with
  | construct h ty idt => exact ⟨halloc h _ false idt (by simp), by simp [step, St.alloc, St.setH]⟩
  | method h => simp only [step]; split <;> exact ⟨⟨g.ptr, g.zero, g.never⟩, hp⟩
  | copy src dst =>
    refine ⟨⟨?_, ?_, g.never⟩, hp⟩
    · intro h'
      simp only [step, St.setH, upd]
      split
      · exact g.ptr src
      · exact g.ptr h'
    · intro h'
      simp only [step, St.setH, upd]
      split
      · exact g.zero src
      · exact g.zero h'
  | delete h ty => exact absurd hnd (by simp [Op.NoDelete])
  | release h =>
    have h1 := hswitch s (s.hs h) g (g.zero h)
    have hn : (s.runSwitch tbl (s.hs h)).next = s.next := by
      unfold St.runSwitch St.freeAt; split <;> (try split) <;> simp
    exact ⟨hsetnull _ h h1 (by omega), by simp [step, St.setH]; omega⟩
  | owned h k idt => exact ⟨halloc h k false idt (by simp), by simp [step, St.alloc, St.setH]⟩
  | borrowed h k => exact ⟨halloc h k true 0 (by simp), by simp [step, St.alloc, St.setH]⟩
  | temp k idt =>
    simp only [step]
    have g1 : LibSafe (s.alloc k false).1 := by
      refine ⟨?_, ?_, ?_⟩
      · intro h'; have := g.ptr h'; simp [St.alloc]; omega
      · intro h'
        have := g.ptr h'
        have hne : (s.hs h').addr ≠ s.next := by omega
        simp only [St.alloc, upd, hne, if_false]
        exact g.zero h'
      · intro a
        simp only [St.alloc, upd]
        split
        · simp
        · exact g.never a
    have h1 := hswitch (s.alloc k false).1 ⟨(s.alloc k false).2, idt⟩ g1 (by simp [St.alloc, upd])
    refine ⟨h1, ?_⟩
    unfold St.runSwitch St.freeAt; split <;> (try split) <;> simp [St.alloc]

theorem libsafe_init : LibSafe St.init := ⟨by simp [St.init], by simp [St.init], by simp [St.init]⟩

/-- **(4)** for every history - copies of handles included - in which the caller does not call an
    explicit destructor wrapper: library-owned memory is never freed (neither by the finaliser /
    `SHROUD_memory_destructor`, nor by the copy-and-free helpers) -/
theorem library_owned_never_released (hz : tbl[0]? = some .nothing) (hist : List Op)
    (hnd : ∀ op ∈ hist, op.NoDelete) :
    ∀ a, ((run tbl St.init hist).heap a).lib = true → ((run tbl St.init hist).heap a).frees = 0 := by
  suffices ∀ (s : St), LibSafe s → 0 < s.next → LibSafe (run tbl s hist) from
    (this St.init libsafe_init (by simp [St.init])).never
  induction hist with
  | nil => intro s g _; exact g
  | cons op ops ih =>
    intro s g hp
    simp only [run, List.foldl_cons]
    obtain ⟨g1, hp1⟩ := libsafe_step hz g hp op (hnd op (by simp))
    exact ih (fun o ho => hnd o (by simp [ho])) _ g1 hp1

example : ∀ op ∈ [Op.borrowed 0 (.cxx 1), .copy 0 1, .release 0, .release 1, .method 1], op.NoDelete := by
  intro op ho
  simp only [List.mem_cons, List.not_mem_nil, or_false] at ho
  rcases ho with rfl | rfl | rfl | rfl | rfl <;> simp [Op.NoDelete]

/-- the statement of (4) without the restriction is false on the current code: the generated
    destructor wrapper `<Class>_dtor` does `delete SH_this` without looking at `idtor`, so
    *borrowed, delete* frees library-owned memory (single handle, well typed) -/
theorem library_owned_freed_by_explicit_delete :
    ¬ ∀ (hist : List Op), (∀ op ∈ hist, op.WellTyped [.nothing, .del 1] ∧ op.Single 0) →
      ∀ a, ((run [.nothing, .del 1] St.init hist).heap a).lib = true →
        ((run [.nothing, .del 1] St.init hist).heap a).frees = 0 := by
  intro h
  have := h [.borrowed 0 (.cxx 1), .delete 0 1] (by
    intro op ho
    simp only [List.mem_cons, List.not_mem_nil, or_false] at ho
    rcases ho with rfl | rfl <;> simp [Op.WellTyped, Op.Single, Op.touches]) 1 (by decide)
  revert this
  decide

/-! ## 6. Aliased delete -/

/-- **(6)** the full statement - "for every well-typed history over handles, copies included,
    every object is freed at most once" - is FALSE on the current code: copying a handle copies
    `{addr, idtor}`, and *construct, copy, delete, delete* frees the object twice (so does
    release/release through the two copies). -/
theorem histories_with_aliased_delete :
    ¬ ∀ (hist : List Op), (∀ op ∈ hist, op.WellTyped [.nothing, .del 1] ∧ op.Typed (fun _ => .cxx 1)) →
      ∀ a, ((run [.nothing, .del 1] St.init hist).heap a).frees ≤ 1 := by
  intro h
  have := h [.construct 0 1 1, .copy 0 1, .delete 0 1, .delete 1 1] (by
    intro op ho
    simp only [List.mem_cons, List.not_mem_nil, or_false] at ho
    rcases ho with rfl | rfl | rfl | rfl <;> simp [Op.WellTyped, Op.Typed]) 1
  revert this
  decide

theorem aliased_release_double_frees :
    ((run [.nothing, .del 1] St.init [.construct 0 1 1, .copy 0 1, .release 0, .release 1]).heap 1).frees = 2 := by
  decide

/-- and a method call through the surviving copy reads freed memory -/
theorem aliased_method_use_after_free :
    (run [.nothing, .del 1] St.init [.construct 0 1 1, .copy 0 1, .delete 0 1, .method 1]).uaf = true := by
  decide

/-! ## 7. The copy helper stays inside both buffers -/

theorem copyCount_le_dest (m n e : Nat) : copyCount m n e ≤ m * e := by
  unfold copyCount; split
  · exact Nat.le_refl _
  · exact Nat.mul_le_mul_right e (by omega)

theorem copyCount_le_src (m n e : Nat) : copyCount m n e ≤ n * e := by
  unfold copyCount; split
  · exact Nat.mul_le_mul_right e (by omega)
  · exact Nat.le_refl _

/-- **copy helper bounds**: for every destination of `m` elements and every vector of `n` elements
    of `e` bytes (shorter, equal, longer, empty), `ShroudCopyArray` reads only `src[0, k)` and writes
    only `dest[0, k)` with `k = min(m, n) * e`: the call is defined, the destination keeps its length,
    its first `k` bytes are the vector's first `k` bytes and every other byte is unchanged -/
theorem copyArray_in_bounds (dest src : List Nat) (m n e : Nat)
    (hd : dest.length = m * e) (hs : src.length = n * e) :
    ∃ r, copyArray dest src m n e = some r ∧ r.length = dest.length ∧
      r.take (copyCount m n e) = src.take (copyCount m n e) ∧
      r.drop (copyCount m n e) = dest.drop (copyCount m n e) := by
  have h1 := copyCount_le_dest m n e
  have h2 := copyCount_le_src m n e
  refine ⟨src.take (copyCount m n e) ++ dest.drop (copyCount m n e), ?_, ?_, ?_, ?_⟩
  · unfold copyArray memcpy
    rw [if_pos ⟨by omega, by omega⟩]
  · simp [List.length_append, List.length_take, List.length_drop]; omega
  · rw [List.take_append_of_le_length (by simp [List.length_take]; omega)]
    simp [List.take_take]
  · rw [List.drop_append_of_le_length (by simp [List.length_take]; omega)]
    simp

example : copyArray [9, 9, 9, 9, 9, 9] [1, 2, 3, 4, 5, 6, 7, 8, 9, 10] 3 5 2 = some [1, 2, 3, 4, 5, 6] := by decide
example : copyArray [9, 9, 9, 9] [] 4 0 1 = some [9, 9, 9, 9] := by decide

/-- sensitivity witness: with the clamp reversed (max instead of min) a shorter destination is
    overrun and a longer destination makes the helper read past the vector -/
theorem copy_with_max_out_of_bounds :
    memcpy [9, 9, 9] [1, 2, 3, 4, 5] (copyCountMax 3 5 1) = none ∧
    memcpy [9, 9, 9, 9, 9, 9, 9, 9] [1, 2, 3, 4, 5] (copyCountMax 8 5 1) = none := by decide

end Shroud.Capsule
