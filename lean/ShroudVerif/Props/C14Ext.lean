import ShroudVerif.Props.C14
import ShroudVerif.Model.ScopeExt
/-!
# C14, second part: the places where the alternative spellings are merged

* `FunctionNode.__init__` (`attrs:` / `fattrs:` groups, `fortran_generic` copies),
* `LibraryNode.__init__` (the library's option scope after the command-line merge),
* the search path of `main_with_args` over an abstract file system.

Model: `Model/ScopeExt.lean`.  All statements are for every parameter list,
every attribute group, every list of generic declarations, every option
dictionary, every file system predicate and every list of directories.
-/
namespace Shroud.Scope

/-! ## (5) attrs / fattrs groups = attributes written in the declaration -/

theorem mergeAttrs_nil (d : Dict AVal) : mergeAttrs d [] = d := rfl

/-- with mappings under every argument name the loop never raises and updates
    each parameter with the entries found under its own name -/
theorem mergeParams_allDicts (blk : Dict YAttr) (h : allDicts blk) (ps : List Param) :
    mergeParams blk ps = .ok (inlined blk ps) := by
  induction ps with
  | nil => rfl
  | cons p r ih =>
    unfold mergeParams
    rw [ih]
    cases hd : dget blk p.name with
    | none => simp [inlined, blockEntries, hd, mergeAttrs_nil]
    | some y =>
      cases y with
      | other => exact absurd hd (h p.name)
      | dict es => simp [inlined, blockEntries, hd]

/-- **the `attrs:` / `fattrs:` groups equal the same attributes written in the
    declaration**, for the parameters, for the function result and for every
    `fortran_generic` variant: constructing the node from the parsed declaration
    plus the two groups gives the node constructed from the declaration whose
    attribute dictionaries already hold the groups' entries after the inline
    ones (by `attrs_split` that is what the parser makes of the text with the
    attributes appended), with no groups. -/
theorem fn_attrs_block_eq_inline (i : FnIn) (blk : Dict YAttr) (fb : List (Nat × AVal))
    (h : allDicts blk) :
    fnInit { i with attrsKw := some blk, fattrsKw := some fb }
      = fnInit { i with params := inlined blk i.params, fattrs := mergeAttrs i.fattrs fb,
                        attrsKw := none, fattrsKw := none } := by
  simp [fnInit, mergeParams_allDicts blk h]

/-- an absent group is an empty group -/
theorem fn_attrs_absent_eq_empty (i : FnIn) :
    fnInit { i with attrsKw := none, fattrsKw := none }
      = fnInit { i with attrsKw := some [], fattrsKw := some [] } := by
  have h : allDicts ([] : Dict YAttr) := by intro k; simp [dget]
  have hi : inlined ([] : Dict YAttr) i.params = i.params := by
    simp [inlined, blockEntries, dget, mergeAttrs_nil]
  simp [fnInit, mergeParams_allDicts [] h, hi, mergeAttrs_nil]

/-- the link to the declaration text: the parameter whose attribute dictionary is
    parsed from the inline items `a` and which finds the items `b` under its name
    in the `attrs:` group becomes the parameter parsed from the text `a ++ b` -/
theorem inlined_is_inline_text (intern : List Char → Nat) (a b : List Item) (rest : List Tok)
    (hwf : ∀ it ∈ a ++ b, it.wf) (hrest : stops rest) (blk : Dict YAttr) (name ty : Nat)
    (hb : dget blk name = some (.dict (entries intern b))) :
    ∃ pa pab, parseAttrs intern (encAll a ++ rest) [] = .ok (pa, rest) ∧
      parseAttrs intern (encAll (a ++ b) ++ rest) [] = .ok (pab, rest) ∧
      inlined blk [⟨name, ty, pa⟩] = [⟨name, ty, pab⟩] := by
  refine ⟨_, _, inline_eq_attrs intern a rest (fun x hx => hwf x (by simp [hx])) hrest,
    inline_eq_attrs intern (a ++ b) rest hwf hrest, ?_⟩
  simp [inlined, blockEntries, hb, mergeAttrs, entries, dupdate_append]

/-- replacing by name keeps every parameter of another name where it is -/
theorem replaceFirst_keeps (g : Param) (ps : List Param) (i : Nat) (p : Param)
    (hp : ps[i]? = some p) (hn : g.name ≠ p.name) : (replaceFirst g ps)[i]? = some p := by
  induction ps generalizing i with
  | nil => simp at hp
  | cons q r ih =>
    unfold replaceFirst
    cases i with
    | zero =>
      simp at hp
      subst hp
      have : ¬ q.name = g.name := fun e => hn e.symm
      simp [this]
    | succ j =>
      simp at hp
      by_cases hq : q.name = g.name
      · simp [hq, hp]
      · simp [hq, ih j hp]

theorem applyGeneric_keeps (gs : List Param) (ps : List Param) (i : Nat) (p : Param)
    (hp : ps[i]? = some p) (hn : ∀ g ∈ gs, g.name ≠ p.name) :
    (applyGeneric ps gs)[i]? = some p := by
  induction gs generalizing ps with
  | nil => simpa [applyGeneric] using hp
  | cons g r ih =>
    have h1 := replaceFirst_keeps g ps i p hp (hn g (by simp))
    have := ih (replaceFirst g ps) h1 (fun x hx => hn x (by simp [hx]))
    simpa [applyGeneric] using this

/-- **every `fortran_generic` variant sees the merged attributes**: an argument
    that no declaration of the variant names is, in the variant's parameter
    list, the parameter *after* the `attrs:` group has been merged into it. -/
theorem fn_attrs_generic_sees_merged (i : FnIn) (blk : Dict YAttr) (h : allDicts blk)
    (o : FnOut) (ho : fnInit { i with attrsKw := some blk } = .ok o)
    (gi : Nat) (g : List Param) (hg : i.generics[gi]? = some g)
    (k : Nat) (p : Param) (hp : i.params[k]? = some p) (hn : ∀ d ∈ g, d.name ≠ p.name) :
    ∃ v, o.generics[gi]? = some v ∧
      v[k]? = some { p with attrs := mergeAttrs p.attrs (blockEntries blk p.name) } ∧
      o.params[k]? = some { p with attrs := mergeAttrs p.attrs (blockEntries blk p.name) } := by
  simp only [fnInit, mergeParams_allDicts blk h] at ho
  injection ho with ho
  subst ho
  have hk : (inlined blk i.params)[k]?
      = some { p with attrs := mergeAttrs p.attrs (blockEntries blk p.name) } := by
    simp [inlined, hp]
  refine ⟨applyGeneric (inlined blk i.params) g, by simp [hg], ?_, hk⟩
  exact applyGeneric_keeps g _ k _ hk (by simpa using hn)

/-- a declaration of the variant replaces the first parameter of its name
    entirely (the attributes of the replaced parameter are not carried over) -/
theorem replaceFirst_head (g p : Param) (r : List Param) (h : p.name = g.name) :
    replaceFirst g (p :: r) = g :: r := by simp [replaceFirst, h]

/-- **error case**: the construction raises exactly when some parameter's name
    has an entry in the `attrs:` group that is not a mapping -/
theorem fn_attrs_raises_iff (blk : Dict YAttr) (ps : List Param) :
    (∃ n, mergeParams blk ps = .notDict n) ↔ ∃ p ∈ ps, dget blk p.name = some .other := by
  induction ps with
  | nil => simp [mergeParams]
  | cons p r ih =>
    unfold mergeParams
    cases hd : dget blk p.name with
    | none =>
      cases hr : mergeParams blk r with
      | ok r' =>
        have : ¬ ∃ n, mergeParams blk r = .notDict n := by simp [hr]
        simp [hd]
        intro x hx
        exact fun e => this (ih.mpr ⟨x, hx, e⟩)
      | notDict n =>
        have := ih.mp ⟨n, hr⟩
        simp [hd]
        exact this
    | some y =>
      cases y with
      | other => simp [hd]
      | dict es =>
        cases hr : mergeParams blk r with
        | ok r' =>
          have : ¬ ∃ n, mergeParams blk r = .notDict n := by simp [hr]
          simp [hd]
          intro x hx
          exact fun e => this (ih.mpr ⟨x, hx, e⟩)
        | notDict n =>
          have := ih.mp ⟨n, hr⟩
          simp [hd]
          exact this

/-- ... and the argument named in the message is the first such parameter -/
theorem fn_attrs_raises_first (blk : Dict YAttr) (pre : List Param) (p : Param) (post : List Param)
    (hpre : ∀ q ∈ pre, dget blk q.name ≠ some .other) (hp : dget blk p.name = some .other) :
    mergeParams blk (pre ++ p :: post) = .notDict p.name := by
  induction pre with
  | nil => simp [mergeParams, hp]
  | cons q r ih =>
    have hq := hpre q (by simp)
    have ihr := ih (fun x hx => hpre x (by simp [hx]))
    simp only [List.cons_append]
    unfold mergeParams
    rw [ihr]
    cases hd : dget blk q.name with
    | none => rfl
    | some y =>
      cases y with
      | other => exact absurd hd hq
      | dict es => rfl

-- non-vacuity: `void f(int *out +intent(in), int n)` with `attrs: {out: {intent: out}}`,
-- `fattrs: {pure: True}` and one generic variant that replaces `n`
example :
    fnInit { params := [⟨1, 10, [(7, .str ['i', 'n'])]⟩, ⟨2, 11, []⟩], fattrs := [],
             attrsKw := some [(1, .dict [(7, .str ['o', 'u', 't'])])],
             fattrsKw := some [(9, .tru)], generics := [[⟨2, 12, []⟩]] }
      = .ok { params := [⟨1, 10, [(7, .str ['o', 'u', 't'])]⟩, ⟨2, 11, []⟩], fattrs := [(9, .tru)],
              generics := [[⟨1, 10, [(7, .str ['o', 'u', 't'])]⟩, ⟨2, 12, []⟩]] } := by decide
example : allDicts [(1, .dict [(7, .str ['o', 'u', 't'])])] := by
  intro k; simp only [dget]; split <;> simp
example : fnInit { params := [⟨1, 10, []⟩], fattrs := [], attrsKw := some [(1, .other)],
                   fattrsKw := none, generics := [] } = .notDict 1 := by decide

/-! ## (6) the library's option scope: command line = YAML file, derived options included -/

/-- **`--option` = the same fields in the YAML file, as the library sees them**:
    the option scope `LibraryNode.__init__` builds (defaults, update, promotion
    of `literalinclude` to `literalinclude2`) from the merged dictionary of a
    command-line run is the one it builds from the YAML file that states the
    same fields -/
theorem library_options_cli_eq_yaml (intern : List Char → Nat) (defaults : Dict CVal) (kLit kLit2 : Nat)
    (d : Dict CVal) (yl : Option (List Char))
    (pairs : List (List Char × List Char)) (hn : ∀ p ∈ pairs, '=' ∉ p.1) (c : Char) (l : List Char) :
    libOptionsOf defaults kLit kLit2
        (mergeCli intern (.dict d) yl (pairs.map (fun p => p.1 ++ '=' :: p.2)) (some (c :: l)))
      = some (libOptions defaults kLit kLit2
          (.dict (dupdate d (dupdate [] (pairs.map (fun p => (intern p.1, coerce p.2))))))) := by
  rw [cli_eq_yaml intern d yl pairs hn c l]
  rfl

/-- the same when the YAML file has no `options:` entry -/
theorem library_options_cli_eq_yaml_absent (intern : List Char → Nat) (defaults : Dict CVal) (kLit kLit2 : Nat)
    (yl : Option (List Char)) (p : List Char × List Char) (pairs : List (List Char × List Char))
    (hn : ∀ q ∈ p :: pairs, '=' ∉ q.1) :
    libOptionsOf defaults kLit kLit2
        (mergeCli intern .absent yl ((p :: pairs).map (fun p => p.1 ++ '=' :: p.2)) none)
      = some (libOptions defaults kLit kLit2
          (.dict (dupdate [] ((p :: pairs).map (fun p => (intern p.1, coerce p.2)))))) := by
  rw [cli_eq_yaml_absent intern yl p pairs hn]
  rfl

/-- **the promotion looks at the merged value**: wherever `literalinclude` got
    its final value from (defaults, YAML, command line), a true value sets
    `literalinclude2`, a false one leaves the merged dictionary as it is -/
theorem literalinclude_promotion (defaults d : Dict CVal) (kLit kLit2 : Nat) (v : CVal)
    (hv : dget (dupdate defaults d) kLit = some v) :
    (truthy v = true → dget (libOptions defaults kLit kLit2 (.dict d)) kLit2 = some (.bool true)) ∧
    (truthy v = false → libOptions defaults kLit kLit2 (.dict d) = dupdate defaults d) := by
  constructor
  · intro ht
    simp [libOptions, hv, ht, dget_dset_same]
  · intro hf
    simp [libOptions, hv, hf]

/-- any other option keeps the merged value -/
theorem library_options_other_key (defaults : Dict CVal) (kLit kLit2 : Nat) (y : YOpts) (k : Nat)
    (hk : k ≠ kLit2) :
    dget (libOptions defaults kLit kLit2 y) k
      = dget (match y with | .dict d => dupdate defaults d | _ => defaults) k := by
  unfold libOptions
  cases y <;> simp only <;> split <;> (try split) <;> simp [dget_dset_other _ _ _ _ hk]

example : libOptions [(1, .bool false), (2, .bool false)] 1 2 (.dict [(1, .str ['y'])])
    = [(1, .str ['y']), (2, .bool true)] := by decide

/-! ## (7) the search path -/

/-- **the first directory that holds the file wins**: the directories before it
    do not hold the file, whatever the later ones hold -/
theorem resolve_first (isFile : List Nat → Bool) (name : List Nat) (pre post : List (List Nat))
    (p : List Nat) (hpre : ∀ q ∈ pre, isFile (pathJoin q name) = false)
    (hp : isFile (pathJoin p name) = true) :
    resolve isFile name (pre ++ p :: post) = some (pathJoin p name) := by
  induction pre with
  | nil => simp [resolve, hp]
  | cons q r ih =>
    have := hpre q (by simp)
    simp [resolve, this, ih (fun x hx => hpre x (by simp [hx]))]

/-- "File not found" exactly when no directory of the path holds it -/
theorem resolve_none_iff (isFile : List Nat → Bool) (name : List Nat) (ps : List (List Nat)) :
    resolve isFile name ps = none ↔ ∀ q ∈ ps, isFile (pathJoin q name) = false := by
  induction ps with
  | nil => simp [resolve]
  | cons q r ih =>
    unfold resolve
    cases h : isFile (pathJoin q name) <;> simp [h, ih]

/-- searching `a` then `b` -/
theorem resolve_append (isFile : List Nat → Bool) (name : List Nat) (a b : List (List Nat)) :
    resolve isFile name (a ++ b) = (resolve isFile name a <|> resolve isFile name b) := by
  induction a with
  | nil => simp [resolve]
  | cons q r ih =>
    simp only [List.cons_append, resolve]
    cases h : isFile (pathJoin q name) <;> simp [ih]

/-- what is found is a file, under a directory of the path -/
theorem resolve_sound (isFile : List Nat → Bool) (name : List Nat) (ps : List (List Nat)) (f : List Nat)
    (h : resolve isFile name ps = some f) : isFile f = true ∧ ∃ q ∈ ps, f = pathJoin q name := by
  induction ps with
  | nil => simp [resolve] at h
  | cons q r ih =>
    unfold resolve at h
    cases hq : isFile (pathJoin q name) with
    | true =>
      simp [hq] at h
      subst h
      exact ⟨hq, q, by simp, rfl⟩
    | false =>
      simp [hq] at h
      obtain ⟨h1, x, hx, e⟩ := ih h
      exact ⟨h1, x, by simp [hx], e⟩

/-- **no `--path`: the current directory** (`./name`), and an absolute name is
    looked up as it is whatever the path says -/
theorem splicer_default_cwd (isFile : List Nat → Bool) (name : List Nat) :
    splicerFile isFile [] name
      = if isFile (pathJoin [46] name) then some (pathJoin [46] name) else none := by
  simp [splicerFile, searchPath, resolve]

theorem pathJoin_absolute (p rest : List Nat) : pathJoin p (47 :: rest) = 47 :: rest := rfl

theorem pathJoin_relative (p : List Nat) (c : Nat) (hp : p.getLast? = some c) (hc : c ≠ 47)
    (n : Nat) (rest : List Nat) (hn : n ≠ 47) : pathJoin p (n :: rest) = p ++ 47 :: n :: rest := by
  unfold pathJoin
  split
  · rename_i h; simp at h; exact absurd h.1 hn
  · rw [hp]
    split
    · rename_i h; simp at h
    · rename_i h; simp at h; exact absurd h hc
    · rfl

-- "a:b" "c" with the file only under b and c: b wins
example : splicerFile (fun f => f == [98, 47, 120] || f == [99, 47, 120]) [[97, 58, 98], [99]] [120]
    = some [98, 47, 120] := by decide

end Shroud.Scope
