import ShroudVerif.Model.Helpers
import ShroudVerif.Lemmas.Helpers
import ShroudVerif.Gen.Helpers
import ShroudVerif.Model.FModule
import ShroudVerif.Lemmas.FModule
import ShroudVerif.Gen.FModule
/-!
# C05  Every accepted input yields wrapper sources that compile and link

Compiler acceptance has no Lean model.  What is *logic* in this property is proved here:

1. the helper dependency closure `gather_helper_code` (four textual copies in wrapc/wrapf/wrapp/wrapl,
   one traversal): for ALL graphs and ALL request sets
   (1a) exactly the requested helpers and their transitive dependencies are emitted, each once;
   (1b) on acyclic graphs every helper is emitted after all of its dependencies;
   (1c) the traversal terminates on every graph, cyclic or not (the `done` set), and on closed
        graphs it does not raise `KeyError`;
2. table theorems over the REGENERATED helper graphs and statement templates
   (`Gen/Helpers.lean`, written by tools/extract_helpers.py from the /repo working tree):
   (2a) `CHelpers`, `FHelpers`, `LuaHelpers` are closed and acyclic (topological rank certificate);
   (2b) every `{field}` of every template is a field that exists for that entry kind;
3. the include list of `util.Header.write_headers` and the bracket lines of the four `wrapc` file
   skeletons: `#if`/`#endif` balanced and `extern "C" {`/`}` balanced for all inputs and option
   combinations; each header included at most once under a stated hypothesis (the unconditional
   statement is false on the current code: witness below).
-/
namespace Shroud.Helpers
open Shroud.Gen.Helpers

/-! ## 1. `gather_helper_code` -/

theorem gatherFrom_ok_inv {G : Graph} {order out : List Nat} (h : gatherFrom G order = .ok out) :
    ∃ st, loop (visit G (G.length + 1)) order ⟨[], []⟩ = .ok st ∧ st.out = out := by
  unfold gatherFrom at h
  split at h
  · rename_i st hst; exact ⟨st, hst, by cases h; rfl⟩
  · cases h
  · cases h

theorem gatherFrom_spec {G : Graph} {order out : List Nat} (h : gatherFrom G order = .ok out) :
    out.Nodup ∧ (∀ x, x ∈ out ↔ Reach G order x) ∧ (∀ x ∈ out, ∀ d ∈ deps G x, d ∈ out) := by
  obtain ⟨st, hst, rfl⟩ := gatherFrom_ok_inv h
  obtain ⟨e, o, nd, _, di, cl, tg, rc⟩ := loop_stepP (G := G) (visit_stepP G _) order _ st hst
  simp only [List.nil_append] at o
  have hdone : ∀ x, x ∈ st.done ↔ x ∈ st.out := by
    intro x; rw [di, o]; simp
  refine ⟨o ▸ nd, ?_, ?_⟩
  · intro x
    constructor
    · intro hx; exact rc x (o ▸ hx)
    · intro hr
      induction hr with
      | base hx => exact (hdone _).1 (tg _ hx)
      | step _ hd ih => exact (hdone _).1 (cl _ (o ▸ ih) _ hd)
  · intro x hx d hd
    exact (hdone d).1 (cl x (o ▸ hx) d hd)

/-- **(1a)** For every helper table and every request set: when `gather_helper_code` returns, the
    emitted list has no repetition and consists exactly of the requested helpers and their
    transitive `dependent_helpers`. -/
theorem gather_emits_closure_exactly_once (G : Graph) (req out : List Nat)
    (h : gatherHelperCode G req = .ok out) :
    out.Nodup ∧ ∀ x, x ∈ out ↔ Reach G req x := by
  obtain ⟨nd, hm, _⟩ := gatherFrom_spec h
  refine ⟨nd, fun x => ?_⟩
  rw [hm]
  constructor
  · intro hr; exact hr.mono (fun u hu => (mem_sortNat u req).1 hu)
  · intro hr; exact hr.mono (fun u hu => (mem_sortNat u req).2 hu)

/-- the emitted set is closed under `dependent_helpers` -/
theorem gather_dependency_closed (G : Graph) (req out : List Nat)
    (h : gatherHelperCode G req = .ok out) : ∀ x ∈ out, ∀ d ∈ deps G x, d ∈ out :=
  (gatherFrom_spec h).2.2

/-- **(1b)** On an acyclic table (some rank function decreases along every dependency edge) every
    helper is emitted after all of its dependencies: wherever `x` stands in the output, all of
    `dependent_helpers(x)` stand in the part before it.  No closedness hypothesis is needed: a
    dangling dependency makes the result `keyError`, not `ok`. -/
theorem gather_emits_after_dependencies (G : Graph) (rank : Nat → Nat)
    (hacyc : ∀ n ds, (n, ds) ∈ G → ∀ d ∈ ds, rank d < rank n)
    (req out : List Nat) (h : gatherHelperCode G req = .ok out) :
    ∀ pre x post, out = pre ++ x :: post → ∀ d ∈ deps G x, d ∈ pre := by
  obtain ⟨st, hst, rfl⟩ := gatherFrom_ok_inv h
  have hgray : ∀ d ∈ sortNat req, GrayAbove rank (⟨[], []⟩ : St) d := by
    intro d _ g hg; simp at hg
  exact loop_order (rank := rank) (visit_stepP G _) (visit_order G rank hacyc _) (sortNat req)
    ⟨[], []⟩ st (emittedAfterDeps_nil G) hgray hst

/-- (1b) is false without acyclicity: on the cycle `0 → 1 → 0` helper 1 is emitted before its
    dependency 0. -/
theorem gather_order_fails_on_cycle :
    ∃ (G : Graph) (req out : List Nat), gatherHelperCode G req = .ok out ∧
      ¬ (∀ pre x post, out = pre ++ x :: post → ∀ d ∈ deps G x, d ∈ pre) := by
  refine ⟨[(0, [1]), (1, [0])], [0], [1, 0], by decide, ?_⟩
  intro h
  have := h [] 1 [0] rfl 0 (by decide)
  simp at this

/-- **(1c)** The traversal terminates on every table, cyclic or not, closed or not: the bound
    `|G| + 1` on the recursion depth is never reached, because every descent marks a key that was
    not in `done`.  (The definition itself is accepted by Lean without `partial`.) -/
theorem gather_terminates (G : Graph) (req : List Nat) : gatherHelperCode G req ≠ .outOfFuel := by
  unfold gatherHelperCode gatherFrom
  have hloop : loop (visit G (G.length + 1)) (sortNat req) ⟨[], []⟩ ≠ .outOfFuel := by
    have hk : remaining G [] ≤ G.length := by
      have : ∀ ks : List Nat, countFree [] ks ≤ ks.length := by
        intro ks; induction ks with
        | nil => simp [countFree]
        | cons k ks ih => simp [countFree]; omega
      simpa [remaining, keys] using this (keys G)
    refine loop_no_fuel (P := fun s => remaining G s.done < G.length + 1) ?_ _ _ (by simp; omega)
    intro d s hp
    refine ⟨visit_no_fuel G _ d s hp, ?_⟩
    intro s' hs'
    obtain ⟨e, _, _, _, di, _, _, _⟩ := visit_stepP G _ d s s' hs'
    have := remaining_mono G s.done s'.done (fun x hx => (di x).2 (Or.inl hx))
    show remaining G s'.done < G.length + 1
    omega
  split
  · simp
  · simp
  · rename_i heq; exact absurd heq hloop

/-- On a closed table (every dependency names an existing helper) a request for existing helpers
    never raises `KeyError`: the result is a list. -/
theorem gather_ok_of_closed (G : Graph) (hc : Closed G) (req : List Nat)
    (hreq : ∀ r ∈ req, (G.lookup r).isSome) : ∃ out, gatherHelperCode G req = .ok out := by
  have hk : ∀ k, loop (visit G (G.length + 1)) (sortNat req) ⟨[], []⟩ ≠ .keyError k :=
    loop_no_keyError (fun d hd => visit_no_keyError G hc _ d (hreq d ((mem_sortNat d req).1 hd))) _
  have hf := gather_terminates G req
  unfold gatherHelperCode gatherFrom at hf ⊢
  split
  · exact ⟨_, rfl⟩
  · rename_i heq; exact absurd heq (hk _)
  · rename_i heq; simp [heq] at hf

/-- without closedness the code raises `KeyError` (concrete witness) -/
theorem gather_keyError_on_dangling : gatherHelperCode [(0, [7])] [0] = .keyError 7 := by decide

theorem closedB_sound (G : Graph) (h : closedB G = true) : Closed G := by
  intro n ds hm d hd
  simp only [closedB, List.all_eq_true] at h
  exact h (n, ds) hm d hd

theorem rankedB_sound (G : Graph) (rank : List (Nat × Nat)) (h : rankedB G rank = true) :
    ∀ n ds, (n, ds) ∈ G → ∀ d ∈ ds, rankOf rank d < rankOf rank n := by
  intro n ds hm d hd
  simp only [rankedB, List.all_eq_true] at h
  have := h (n, ds) hm d hd
  simp only [rankOf]
  split at this
  · rename_i rd rn h1 h2
    simp only at h1 h2
    simp [h1, h2]; simpa using this
  · cases this

/-- non-vacuity: a closed acyclic table with a shared dependency (diamond) and a request set whose
    sorted order differs from the emission order -/
example : gatherHelperCode [(0, [1, 2]), (1, [3]), (2, [3]), (3, [])] [2, 0] = .ok [3, 1, 2, 0] := by decide
example : ∀ n ds, (n, ds) ∈ ([(0, [1, 2]), (1, [3]), (2, [3]), (3, [])] : Graph) → ∀ d ∈ ds,
    rankOf [(0, 2), (1, 1), (2, 1), (3, 0)] d < rankOf [(0, 2), (1, 1), (2, 1), (3, 0)] n :=
  rankedB_sound _ _ (by decide)
example : Closed [(0, [1, 2]), (1, [3]), (2, [3]), (3, [])] := closedB_sound _ (by decide)
/-- a cyclic table is still traversed: each helper once -/
example : gatherHelperCode [(0, [1]), (1, [2]), (2, [0])] [1] = .ok [0, 2, 1] := by decide

/-! ## 2a. the current helper tables are closed and acyclic -/

theorem chelpers_closed : Closed cHelpers := closedB_sound _ (by decide +kernel)
theorem fhelpers_closed : Closed fHelpers := closedB_sound _ (by decide +kernel)
theorem luahelpers_closed : Closed luaHelpers := closedB_sound _ (by decide +kernel)

theorem chelpers_acyclic : ∀ n ds, (n, ds) ∈ cHelpers → ∀ d ∈ ds, rankOf cRank d < rankOf cRank n :=
  rankedB_sound _ _ (by decide +kernel)
theorem fhelpers_acyclic : ∀ n ds, (n, ds) ∈ fHelpers → ∀ d ∈ ds, rankOf fRank d < rankOf fRank n :=
  rankedB_sound _ _ (by decide +kernel)
theorem luahelpers_acyclic : ∀ n ds, (n, ds) ∈ luaHelpers → ∀ d ∈ ds, rankOf luaRank d < rankOf luaRank n :=
  rankedB_sound _ _ (by decide +kernel)

/-- keys of the regenerated tables are pairwise different (they come from Python dicts) -/
theorem helper_tables_keys_nodup :
    keysNodupB cHelpers = true ∧ keysNodupB fHelpers = true ∧ keysNodupB luaHelpers = true := by
  decide +kernel

/-- **the current tables, every request set**: the C/C++ (wrapc, wrapp) helper closure returns a
    list without repetition, containing exactly the requested helpers and their dependencies, each
    after its dependencies.  Same for the Fortran and Lua tables. -/
theorem chelpers_gather_correct (req : List Nat) (hreq : ∀ r ∈ req, (cHelpers.lookup r).isSome) :
    ∃ out, gatherHelperCode cHelpers req = .ok out ∧ out.Nodup ∧ (∀ x, x ∈ out ↔ Reach cHelpers req x) ∧
      ∀ pre x post, out = pre ++ x :: post → ∀ d ∈ deps cHelpers x, d ∈ pre := by
  obtain ⟨out, h⟩ := gather_ok_of_closed _ chelpers_closed req hreq
  obtain ⟨nd, hm⟩ := gather_emits_closure_exactly_once _ _ _ h
  exact ⟨out, h, nd, hm, gather_emits_after_dependencies _ _ chelpers_acyclic _ _ h⟩

theorem fhelpers_gather_correct (req : List Nat) (hreq : ∀ r ∈ req, (fHelpers.lookup r).isSome) :
    ∃ out, gatherHelperCode fHelpers req = .ok out ∧ out.Nodup ∧ (∀ x, x ∈ out ↔ Reach fHelpers req x) ∧
      ∀ pre x post, out = pre ++ x :: post → ∀ d ∈ deps fHelpers x, d ∈ pre := by
  obtain ⟨out, h⟩ := gather_ok_of_closed _ fhelpers_closed req hreq
  obtain ⟨nd, hm⟩ := gather_emits_closure_exactly_once _ _ _ h
  exact ⟨out, h, nd, hm, gather_emits_after_dependencies _ _ fhelpers_acyclic _ _ h⟩

theorem luahelpers_gather_correct (req : List Nat) (hreq : ∀ r ∈ req, (luaHelpers.lookup r).isSome) :
    ∃ out, gatherHelperCode luaHelpers req = .ok out ∧ out.Nodup ∧ (∀ x, x ∈ out ↔ Reach luaHelpers req x) ∧
      ∀ pre x post, out = pre ++ x :: post → ∀ d ∈ deps luaHelpers x, d ∈ pre := by
  obtain ⟨out, h⟩ := gather_ok_of_closed _ luahelpers_closed req hreq
  obtain ⟨nd, hm⟩ := gather_emits_closure_exactly_once _ _ _ h
  exact ⟨out, h, nd, hm, gather_emits_after_dependencies _ _ luahelpers_acyclic _ _ h⟩

/-! ## 2a'. helpers across modules -/

theorem mem_sharedHelpers (mods : List (List Nat)) (h : Nat) :
    h ∈ sharedHelpers mods ↔ ∃ m ∈ mods, h ∈ m := by
  induction mods with
  | nil => simp [sharedHelpers]
  | cons m rest ih =>
    simp only [sharedHelpers, List.mem_append, ih, List.mem_cons]
    constructor
    · rintro (h1 | ⟨q, hq, hh⟩)
      · exact ⟨m, Or.inl rfl, h1⟩
      · exact ⟨q, Or.inr hq, hh⟩
    · rintro ⟨q, rfl | hq, hh⟩
      · exact Or.inl hh
      · exact Or.inr ⟨q, hq, hh⟩

/-- **every helper used in any module is in the written utility file**: when the shared set is gathered for the utility
    file, every helper that any module (library, namespace, class file) asked for, and every transitive dependency of it,
    is emitted, each exactly once.  (What the code has to guarantee for this to apply: every module's `c_helper` reaches
    `shared_helper` before `write_impl_utility` runs: checked by the tie.) -/
theorem utility_covers_every_module (G : Graph) (mods : List (List Nat)) (out : List Nat)
    (h : utilityHelpers G mods = .ok out) :
    out.Nodup ∧ ∀ m ∈ mods, ∀ x, Reach G m x → x ∈ out := by
  obtain ⟨nd, hm⟩ := gather_emits_closure_exactly_once G _ out h
  refine ⟨nd, fun m hmm x hr => (hm x).2 (hr.mono ?_)⟩
  intro u hu
  exact (mem_sharedHelpers mods u).2 ⟨m, hmm, hu⟩

/-- on the current C helper table the utility gathering never fails for existing helpers -/
theorem utility_ok_on_chelpers (mods : List (List Nat))
    (hreq : ∀ m ∈ mods, ∀ r ∈ m, (cHelpers.lookup r).isSome) :
    ∃ out, utilityHelpers cHelpers mods = .ok out :=
  gather_ok_of_closed _ chelpers_closed _ (fun r hr => by
    obtain ⟨m, hm, hrm⟩ := (mem_sharedHelpers mods r).1 hr
    exact hreq m hm r hrm)

/-- non-vacuity: the namespace module alone needs helper 0 (which needs 1); the library module needs nothing -/
example : utilityHelpers [(0, [1]), (1, [])] [[], [0]] = .ok [1, 0] := by decide
/-- a module that is not merged (what the theorem's premise excludes): its helper is missing from the utility file -/
example : utilityHelpers [(0, [1]), (1, [])] [[]] = .ok [] := by decide

/-! ## 2b. placeholder closure -/

/-- all placeholders of all entries of a kind are provided fields of that kind -/
def placeholdersProvidedB (provided : List (Nat × List Nat)) (entries : List (Nat × Nat × List Nat)) : Bool :=
  entries.all fun e =>
    match provided.lookup e.1 with
    | some fs => e.2.2.all fun p => fs.contains p
    | none => false

/-- **(2b)** every `{field}` placeholder in every template line of every `fc_statements`,
    `py_statements`, `lua_statements` entry is a format field that exists for the entry's kind
    (kinds: 0 C clauses, 1 Fortran clauses, 2 Python, 3 Lua).  A placeholder outside the set is an
    `AttributeError`/`SystemExit("Error with template")` at generation time. -/
theorem placeholders_provided :
    ∀ e ∈ templateFields, ∃ fs, providedFields.lookup e.1 = some fs ∧ ∀ p ∈ e.2.2, p ∈ fs := by
  have h : placeholdersProvidedB providedFields templateFields = true := by decide +kernel
  intro e he
  simp only [placeholdersProvidedB, List.all_eq_true] at h
  have := h e he
  split at this
  · rename_i fs hfs
    simp only [List.all_eq_true] at this
    exact ⟨fs, hfs, fun p hp => by simpa using this p hp⟩
  · cases this

/-! ## 3. include list and bracket lines -/

/-- `Header.write_headers`: every `#if…` it writes is closed, no `#else`/`#endif` is unmatched, from
    any surrounding nesting depth; for all header sets, typemaps, languages, debug settings. -/
theorem write_headers_if_balanced (h : Hdr) (d : Nat) : ifDepth d (writeHeaders h) = some d :=
  writeHeaders_ifBal h d

/-- The ordered-dict part of `write_headers` (the `found` dictionary) never writes a header twice,
    and with the typemap-derived includes the whole list is repetition free **provided** the
    typemap-derived includes are themselves repetition free and are not also entered in one of the
    three ordered dicts.  `_partial`: the hypothesis is needed, see `write_headers_may_repeat`. -/
theorem write_headers_includes_once_partial (h : Hdr)
    (hT : (includes (typemapLines h (dictLoop h.cxxHeader []).2)).Nodup)
    (hdisj : ∀ x ∈ includes (typemapLines h (dictLoop h.cxxHeader []).2),
      x ∉ h.cxxHeader ∧ x ∉ h.typemapL ∧ x ∉ h.shroud) :
    (includes (writeHeaders h)).Nodup := by
  unfold writeHeaders
  simp only []
  obtain ⟨i1, f1⟩ := includes_category h.debug 0 [] h.cxxHeader ([], true, [])
  generalize ha1 : category h.debug 0 [] h.cxxHeader ([], true, []) = a1 at i1 f1
  simp only [includes, List.nil_append] at i1
  simp only at f1
  obtain ⟨i2, f2⟩ := includes_category h.debug 1 (typemapLines h a1.2.2) h.typemapL a1
  generalize ha2 : category h.debug 1 (typemapLines h a1.2.2) h.typemapL a1 = a2 at i2 f2
  obtain ⟨i3, _⟩ := includes_category h.debug 2 [] h.shroud a2
  rw [i3, i2, i1, f2, f1]
  simp only [includes, List.append_nil]
  obtain ⟨n1, m1, d1, _⟩ := dictLoop_spec h.cxxHeader []
  obtain ⟨n2, m2, d2, _⟩ := dictLoop_spec h.typemapL (dictLoop h.cxxHeader []).2
  obtain ⟨n3, m3, _, _⟩ := dictLoop_spec h.shroud (dictLoop h.typemapL (dictLoop h.cxxHeader []).2).2
  rw [List.nodup_append]
  refine ⟨?_, n3, ?_⟩
  · rw [List.nodup_append]
    refine ⟨?_, n2, ?_⟩
    · rw [List.nodup_append]
      refine ⟨n1, hT, ?_⟩
      intro a ha b hb hab; subst hab
      exact (hdisj a hb).1 (m1 a ha).1
    · intro a ha b hb hab; subst hab
      rcases List.mem_append.1 ha with h1 | h1
      · exact (m2 a hb).2 ((d1 a).2 (Or.inr (m1 a h1).1))
      · exact (hdisj a h1).2.1 (m2 a hb).1
  · intro a ha b hb hab; subst hab
    rcases List.mem_append.1 ha with h1 | h1
    · rcases List.mem_append.1 h1 with h2 | h2
      · exact (m3 a hb).2 ((d2 a).2 (Or.inl ((d1 a).2 (Or.inr (m1 a h2).1))))
      · exact (hdisj a h2).2.2 (m3 a hb).1
    · exact (m3 a hb).2 ((d2 a).2 (Or.inr (m2 a h1).1))

/-- non-vacuity of the hypotheses: a C++ header with a cxx_header, a typemap needing `<string>` under
    `#ifdef __cplusplus`, and the utility header -/
example : (includes (writeHeaders ⟨[1], [], [3], [⟨[], [2], [], [], false⟩], false, false, true, 3⟩)) = [1, 2, 3] := by
  decide

/-- The unconditional statement is false on the current code: `write_headers_nodes` consults the
    `found` dictionary but never enters what it writes, so a header required through a typemap's
    `impl_header` *and* entered with `add_typemap_list` is written twice (harmless for the
    compiler: headers carry include guards).  Witness: header 5. -/
theorem write_headers_may_repeat :
    ∃ h : Hdr, ¬ (includes (writeHeaders h)).Nodup :=
  ⟨⟨[], [5], [], [⟨[], [], [], [5], false⟩], true, false, false, 0⟩, by decide⟩

/-- **(3) `#if`/`#endif` balance of the four C wrapper file skeletons** (`write_header`,
    `write_impl`, `write_header_utility`, `write_impl_utility`), for every option combination
    (language, class `cpp_if`, doxygen, header present), every include state and any amount of
    neutral content: every conditional that is opened is closed, none is closed twice. -/
theorem skeletons_if_balanced (s : Sk) (h : Hdr) :
    ifDepth 0 (writeHeaderSk s h) = some 0 ∧ ifDepth 0 (writeImplSk s h) = some 0 ∧
    ifDepth 0 (writeHeaderUtilitySk s h) = some 0 ∧ ifDepth 0 (writeImplUtilitySk s h) = some 0 := by
  have hw : ∀ d, ifDepth d (writeHeaders h) = some d := writeHeaders_ifBal h
  have hb : ∀ k n d, ifDepth d (bodies k n) = some d := fun k n => ifBal_bodies k n
  obtain ⟨cxx, cppIf, dox, hn, nb⟩ := s
  refine ⟨?_, ?_, ?_, ?_⟩ <;>
    cases cxx <;> cases cppIf <;> cases dox <;> cases hn <;>
    simp [writeHeaderSk, writeImplSk, writeHeaderUtilitySk, writeImplUtilitySk, ifDepth_append_eq, hw, hb,
      externCOpen, externCClose, ifDepth]

/-- **(3) extern "C" balance of the same four skeletons**: every `extern "C" {` is closed by
    exactly one `}`; C libraries get none. -/
theorem skeletons_extern_balanced (s : Sk) (h : Hdr) :
    externDepth 0 (writeHeaderSk s h) = some 0 ∧ externDepth 0 (writeImplSk s h) = some 0 ∧
    externDepth 0 (writeHeaderUtilitySk s h) = some 0 ∧ externDepth 0 (writeImplUtilitySk s h) = some 0 := by
  have hw : ∀ d, externDepth d (writeHeaders h) = some d := writeHeaders_extBal h
  have hb : ∀ k n d, externDepth d (bodies k n) = some d := fun k n => extBal_bodies k n
  obtain ⟨cxx, cppIf, dox, hn, nb⟩ := s
  refine ⟨?_, ?_, ?_, ?_⟩ <;>
    cases cxx <;> cases cppIf <;> cases dox <;> cases hn <;>
    simp [writeHeaderSk, writeImplSk, writeHeaderUtilitySk, writeImplUtilitySk, externDepth_append_eq, hw, hb,
      externCOpen, externCClose, externDepth]

/-- `write_headers` writes no extern "C" line and is neutral for the brace counter -/
theorem write_headers_extern_neutral (h : Hdr) (d : Nat) : externDepth d (writeHeaders h) = some d :=
  writeHeaders_extBal h d

/-- the brackets really occur (non-vacuity): a C++ class header with `cpp_if` opens three conditionals
    deep and one extern "C" block -/
example : (writeHeaderSk ⟨true, true, false, false, 0⟩ ⟨[], [], [3], [], false, false, false, 3⟩).count (.ifOpen 0) = 2 := by decide
example : (writeHeaderSk ⟨true, true, false, false, 0⟩ ⟨[], [], [3], [], false, false, false, 3⟩).count .externOpen = 1 := by decide

/-- a skeleton that loses its closing `#endif` is unbalanced (what the theorem excludes) -/
example : ifDepth 0 ([.blank, .ifOpen 0, .externOpen, .endif] ++ [.blank, .ifOpen 0, .externClose]) = some 1 := by decide

end Shroud.Helpers

/-! ## 4. Fortran USE / IMPORT closure (`update_f_module`, `update_f_module_line`, `sort_module_info`) -/
namespace Shroud.FModule
open Shroud.Gen.FModule
open Shroud.Helpers (sortNat mem_sortNat)

/-- **exact content**: after any sequence of `update_f_module` / `update_f_module_line` / `set_f_module` calls a module's
    ONLY set holds exactly what was there before plus everything some call asked for. -/
theorem fmodule_exact (imp : Nat) (st : St) (us : List Upd) (k x : Nat) :
    x ∈ symsOf (runUpds imp st us).mods k ↔ x ∈ symsOf st.mods k ∨ ∃ u ∈ us, u.asks imp k x :=
  mem_runUpds imp us st k x

/-- **monotone**: no symbol already required for a module is ever dropped by a later call. -/
theorem fmodule_update_monotone (imp : Nat) (st : St) (us : List Upd) (k x : Nat)
    (h : x ∈ symsOf st.mods k) : x ∈ symsOf (runUpds imp st us).mods k :=
  (mem_runUpds imp us st k x).2 (Or.inl h)

/-- **complete**: every symbol any call asks for is in the final ONLY set of its module. -/
theorem fmodule_update_complete (imp : Nat) (st : St) (us : List Upd) (u : Upd) (hu : u ∈ us) (k x : Nat)
    (h : u.asks imp k x) : x ∈ symsOf (runUpds imp st us).mods k :=
  (mem_runUpds imp us st k x).2 (Or.inr ⟨u, hu, h⟩)

/-- **order independent as a set**: two call sequences with the same calls (any order, any repetition) give the same
    ONLY set for every module. -/
theorem fmodule_update_order_independent (imp : Nat) (st : St) (us us' : List Upd)
    (hsame : ∀ u, u ∈ us ↔ u ∈ us') (k x : Nat) :
    x ∈ symsOf (runUpds imp st us).mods k ↔ x ∈ symsOf (runUpds imp st us').mods k := by
  rw [mem_runUpds, mem_runUpds]
  constructor
  · rintro (h | ⟨u, hu, h⟩)
    · exact Or.inl h
    · exact Or.inr ⟨u, (hsame u).1 hu, h⟩
  · rintro (h | ⟨u, hu, h⟩)
    · exact Or.inl h
    · exact Or.inr ⟨u, (hsame u).2 hu, h⟩

/-- non-vacuity: two argument blocks of different kinds, in both orders -/
example : symsOf (runUpds 99 ⟨[], []⟩ [.dict [(0, [3])], .line [(0, [5])]]).mods 0 = [3, 5] := by decide
example : symsOf (runUpds 99 ⟨[], []⟩ [.line [(0, [5])], .dict [(0, [3])]]).mods 0 = [5, 3] := by decide

/-- **the USE lines cover the bookkeeping**: every required symbol of every module other than the one being written is
    listed in that module's `use ..., only :` line. -/
theorem use_lines_cover (st : St) (self m x : Nat) (hx : x ∈ symsOf st.mods m) (hm : m ≠ self) :
    ∃ ss, (m, some ss) ∈ (sortModuleInfo st self).1 ∧ x ∈ ss := by
  have hlook : ∃ l, st.mods.lookup m = some l := by
    unfold symsOf at hx
    cases h : st.mods.lookup m with
    | none => simp [h] at hx
    | some l => exact ⟨l, rfl⟩
  obtain ⟨l, hl⟩ := hlook
  have hk : m ∈ sortNat (st.mods.map Prod.fst) :=
    (mem_sortNat _ _).2 (Shroud.Helpers.lookup_some_mem_keys hl)
  have hne : (symsOf st.mods m).isEmpty = false := by
    cases hs : symsOf st.mods m with
    | nil => simp [hs] at hx
    | cons a b => rfl
  refine ⟨sortNat (symsOf st.mods m), ?_, (mem_sortNat _ _).2 hx⟩
  simp only [sortModuleInfo, List.mem_filterMap]
  exact ⟨m, hk, by simp [hm, hne]⟩

/-- As coded, an empty symbol dict means `use m` (everything).  A later request for one symbol turns that into an ONLY
    clause: the module-wide use is narrowed.  (Not reachable from the current tables: no f_module entry has an empty list.) -/
theorem only_clause_can_narrow :
    (sortModuleInfo (runUpds 99 ⟨[], []⟩ [.dict [(0, [])]]) 7).1 = [(0, none)] ∧
    (sortModuleInfo (runUpds 99 ⟨[], []⟩ [.dict [(0, [])], .dict [(0, [4])]]) 7).1 = [(0, some [4])] := by decide

theorem coveredB_sound (emitter : List Nat) (rows : List (Nat × Nat × List Nat × List Nat × List Nat))
    (h : coveredB emitter rows = true) :
    ∀ r ∈ rows, ∀ s ∈ r.2.2.1, s ∈ r.2.2.2.1 ∨ s ∈ r.2.2.2.2 ∨ (r.2.1 = 1 ∧ s ∈ emitter) := by
  intro r hr s hs
  simp only [coveredB, List.all_eq_true] at h
  have := h r hr s hs
  simp only [Bool.or_eq_true, Bool.and_eq_true, List.contains_iff_mem, beq_iff_eq] at this
  rcases this with (h1 | h1) | h1
  · exact Or.inl h1
  · exact Or.inr (Or.inl h1)
  · exact Or.inr (Or.inr h1)

/-- **table theorem (regenerated data)**: every iso_c_binding symbol written literally in a declaration template of a
    statement entry (`f_arg_decl` / `f_result_decl` of c_ entries, `arg_decl` of f_ entries), and the kind of `{f_type}` in
    an explicit interface declaration, is supplied by the entry's own `f_module` or `f_module_line`; for f_ entries the
    symbols the emitter adds itself (literal `set_f_module` calls) also count. -/
theorem fmodule_decl_covered :
    ∀ r ∈ declRows, ∀ s ∈ r.2.2.1, s ∈ r.2.2.2.1 ∨ s ∈ r.2.2.2.2 ∨ (r.2.1 = 1 ∧ s ∈ emitterAdds) :=
  coveredB_sound _ _ (by decide +kernel)

end Shroud.FModule
