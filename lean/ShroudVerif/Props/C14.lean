import ShroudVerif.Lemmas.Scope
import ShroudVerif.Gen.Cli
import ShroudVerif.Gen.OptReads
/-!
# C14  Equivalent ways of stating the same customisation give identical output

Property theorems over `Model/Scope.lean` (helpers in `Lemmas/Scope.lean`).
All statements quantify over every declaration tree, every key, every value,
every position in the tree, every attribute list and every option list.
-/
namespace Shroud.Scope

variable {β : Type}

/-! ## (1) lexical scoping -/

/-- **nearest enclosing definition**: a lookup through a chain of scopes
    returns the value of the first scope (from the inside) that defines the
    key, whatever the scopes further out say. -/
theorem lookup_nearest (pre post : List (Dict β)) (d : Dict β) (k : Nat) (v : β)
    (hpre : ∀ e ∈ pre, dget e k = none) (hd : dget d k = some v) :
    lookupChain (pre ++ d :: post) k = some v := by
  rw [lookupChain_append_none pre (d :: post) k hpre, lookupChain_cons, hd]

/-- ... and fails only when no scope of the chain defines the key -/
theorem lookup_none_iff (c : List (Dict β)) (k : Nat) :
    lookupChain c k = none ↔ ∀ d ∈ c, dget d k = none := by
  induction c with
  | nil => simp
  | cons d r ih =>
    rw [lookupChain_cons]
    cases h : dget d k with
    | none => simp [ih, h]
    | some v => simp [h]

example : lookupChain [[(1, 5)], [(2, 7), (1, 6)], [(2, 8)]] 2 = some 7 := by decide
example : lookup_nearest [[(1, 5)]] [[(2, 8)]] [(2, 7), (1, 6)] 2 7 (by decide) (by decide)
    = (lookup_nearest [[(1, 5)]] [[(2, 8)]] [(2, 7), (1, 6)] 2 7 (by decide) (by decide)) := rfl

/-- **the heap model is the chain model**: `Scope.__getattr__` finds `v`
    exactly when the chain of local dictionaries from that scope outwards
    answers `v` (same fuel on both sides, any heap, also after `clone` and
    `reparent`). -/
theorem look_found_iff_chain (h : Heap) (fuel i k v : Nat) :
    look h fuel i k = .found v ↔ lookupChain (chain h fuel i) k = some v := by
  induction fuel generalizing i with
  | zero => simp [look, chain]
  | succ n ih =>
    unfold look chain
    cases hi : h[i]? with
    | none => simp
    | some fr =>
      simp only [lookupChain_cons]
      cases hg : dget fr.locals k with
      | some w => simp
      | none =>
        cases hp : fr.parent with
        | none => simp
        | some p => simpa using ih p

/-- **container = members.**  Writing `k: v` on a container (namespace,
    class or block, anywhere in the tree, addressed by `p`) and writing it on
    every function inside that has no nearer definition give, function by
    function in creation order, the same lookup for every key; the functions
    outside the container (`pre`, `post`: the siblings and everything else)
    keep literally the chains they had in the unmodified description. -/
theorem container_eq_members (p : List Step) (d : Decls β) (ctx : List (Dict β)) (k : Nat) (v : β) :
    ∃ pre post midO midA midB,
      views ctx d = pre ++ midO ++ post ∧
      views ctx (atPath p (onContainer k v) d) = pre ++ midA ++ post ∧
      views ctx (atPath p (onMembersPush k v) d) = pre ++ midB ++ post ∧
      midA.length = midO.length ∧ midB.length = midO.length ∧
      ∀ k', looks midA k' = looks midB k' := by
  induction p generalizing d ctx with
  | nil =>
    cases d with
    | nil => exact ⟨[], [], [], [], [], by simp [atPath, onContainer, onMembersPush, views]⟩
    | fn n o rest =>
      exact ⟨views ctx (.fn n o rest), [], [], [], [], by simp [atPath, onContainer, onMembersPush]⟩
    | scope kd o body rest =>
      refine ⟨[], views ctx rest, views (o :: ctx) body, views (dset o k v :: ctx) body,
        views (o :: ctx) (push k v body), ?_, ?_, ?_, ?_, ?_, ?_⟩
      · simp [views]
      · simp [atPath, onContainer, views]
      · simp [atPath, onMembersPush, views]
      · exact views_length _ _ _
      · exact push_length _ _ _ _ _
      · intro k'
        apply push_agrees
        · simp [lookupChain_cons, dget_dset_same]
        · intro k2 e2; simp [lookupChain_cons, dget_dset_other o k k2 v e2]
  | cons s p ih =>
    cases s with
    | next =>
      cases d with
      | nil => exact ⟨[], [], [], [], [], by simp [atPath, views]⟩
      | fn n o rest =>
        obtain ⟨pre, post, mo, ma, mb, h0, h1, h2, l1, l2, ha⟩ := ih rest ctx
        exact ⟨(o :: ctx) :: pre, post, mo, ma, mb, by simp [views, h0], by simp [atPath, views, h1],
          by simp [atPath, views, h2], l1, l2, ha⟩
      | scope kd o body rest =>
        obtain ⟨pre, post, mo, ma, mb, h0, h1, h2, l1, l2, ha⟩ := ih rest ctx
        exact ⟨views (o :: ctx) body ++ pre, post, mo, ma, mb, by simp [views, h0],
          by simp [atPath, views, h1], by simp [atPath, views, h2], l1, l2, ha⟩
    | down =>
      cases d with
      | nil => exact ⟨[], [], [], [], [], by simp [atPath, views]⟩
      | fn n o rest =>
        exact ⟨views ctx (.fn n o rest), [], [], [], [], by simp [atPath]⟩
      | scope kd o body rest =>
        obtain ⟨pre, post, mo, ma, mb, h0, h1, h2, l1, l2, ha⟩ := ih body (o :: ctx)
        exact ⟨pre, post ++ views ctx rest, mo, ma, mb, by simp [views, h0],
          by simp [atPath, views, h1], by simp [atPath, views, h2], l1, l2, ha⟩

/-- the same with the customisation written on *every* contained function,
    when nothing inside the container defines `k` itself; then every contained
    function also answers exactly `v`. -/
theorem container_eq_each_member (kd : Kind) (o : Dict β) (body rest : Decls β)
    (ctx : List (Dict β)) (k : Nat) (v : β) (hfree : defines k body = false) (k' : Nat) :
    looks (views ctx (.scope kd (dset o k v) body rest)) k'
      = looks (views ctx (.scope kd o (setAll k v body) rest)) k' := by
  simp only [views, looks_append]
  rw [← push_eq_setAll k v body hfree]
  congr 1
  apply push_agrees
  · simp [lookupChain_cons, dget_dset_same]
  · intro k2 e2; simp [lookupChain_cons, dget_dset_other o k k2 v e2]

/-- a sibling of the container is unaffected (either way of writing it) -/
theorem sibling_unaffected (kd : Kind) (o : Dict β) (body rest : Decls β)
    (ctx : List (Dict β)) (k : Nat) (v : β) :
    (views ctx (.scope kd (dset o k v) body rest)).drop (views (o :: ctx) body).length = views ctx rest
    ∧ (views ctx (.scope kd o (setAll k v body) rest)).drop
        (views (o :: ctx) (setAll k v body)).length = views ctx rest := by
  constructor
  · simp only [views]
    rw [views_length (o :: ctx) (dset o k v :: ctx), List.drop_left]
  · simp only [views]
    rw [List.drop_left]

-- non-vacuity: a class with a block and a function; `k = 9` set on the class
example :
    looks (views [[(9, 0)]] (.scope .cls (dset [] 9 1) (.scope .block [] (.fn 1 [] .nil) (.fn 2 [] .nil)) (.fn 3 [] .nil))) 9
      = [some 1, some 1, some 0] := by decide
example : defines 9 (.scope .block ([] : Dict Nat) (.fn 1 [] .nil) (.fn 2 [] .nil)) = false := by decide

/-- **instantiating a class template does not disturb what exists**: `rehome`
    only appends clones and re-attaches the scope it is called for; every
    scope that existed before keeps its local dictionary, and every one other
    than `s` keeps its parent (for every heap, memo, fuel). -/
theorem rehome_frame (fuel : Nat) (h : Heap) (cl : List (Nat × Nat)) (s o n : Nat) :
    h.length ≤ (rehome fuel h cl s o n).1.length ∧
    ∀ i, i < h.length →
      ((rehome fuel h cl s o n).1[i]?).map (·.locals) = (h[i]?).map (·.locals) ∧
      (i ≠ s → ((rehome fuel h cl s o n).1[i]?).map (·.parent) = (h[i]?).map (·.parent)) := by
  induction fuel generalizing h cl s with
  | zero => simp [rehome]
  | succ k ih =>
    unfold rehome
    have rp : ∀ (hh : Heap) (q : Option Nat), hh.length = (reparent hh s q).length ∧
        ∀ i, i < hh.length →
          ((reparent hh s q)[i]?).map (·.locals) = (hh[i]?).map (·.locals) ∧
          (i ≠ s → ((reparent hh s q)[i]?).map (·.parent) = (hh[i]?).map (·.parent)) := by
      intro hh q
      refine ⟨by simp [reparent, modify_length], ?_⟩
      intro i _
      unfold reparent
      rw [modify_getElem?]
      by_cases e : i = s
      · subst e; cases hh[i]? <;> simp
      · simp [e]
    cases hs : h[s]? with
    | none => simp
    | some fr =>
      simp only []
      cases hp : fr.parent with
      | none =>
        simp only []
        exact ⟨Nat.le_of_eq (rp h _).1, (rp h _).2⟩
      | some p =>
        simp only []
        by_cases e : p = o
        · simp only [e, if_true]
          exact ⟨Nat.le_of_eq (rp h _).1, (rp h _).2⟩
        · simp only [e, if_false]
          cases hm : memoGet cl p with
          | some c =>
            simp only []
            exact ⟨Nat.le_of_eq (rp h _).1, (rp h _).2⟩
          | none =>
            simp only []
            obtain ⟨c2, cle, cget⟩ := clone_spec h p
            have IH := ih (clone h p).1 ((p, (clone h p).2) :: cl) (clone h p).2
            obtain ⟨l2, g2⟩ := IH
            have R := rp (rehome k (clone h p).1 ((p, (clone h p).2) :: cl) (clone h p).2 o n).1 (some (clone h p).2)
            refine ⟨by omega, ?_⟩
            intro i hi
            have hi1 : i < (clone h p).1.length := by omega
            have g := g2 i hi1
            have hne : i ≠ (clone h p).2 := by rw [c2]; omega
            have r := R.2 i (by omega)
            constructor
            · rw [r.1, g.1, cget i hi]
            · intro hs'
              rw [r.2 hs', g.2 hne, cget i hi]

/-! ## (2) an empty block is transparent -/

/-- a scope without local keys preserves every lookup made through it -/
theorem empty_frame_transparent (pre post : List (Dict β)) (k : Nat) :
    lookupChain (pre ++ [] :: post) k = lookupChain (pre ++ post) k := by
  induction pre with
  | nil => rfl
  | cons d r ih => simp only [List.cons_append, lookupChain_cons, ih]

/-- congruence of `atPath` for lookup-preserving rewrites -/
theorem atPath_congr (g : Decls β → Decls β) (k' : Nat)
    (hg : ∀ ctx x, looks (views ctx (g x)) k' = looks (views ctx x) k')
    (p : List Step) (d : Decls β) (ctx : List (Dict β)) :
    looks (views ctx (atPath p g d)) k' = looks (views ctx d) k' := by
  induction p generalizing d ctx with
  | nil => exact hg ctx d
  | cons s p ih =>
    cases s <;> cases d <;> simp [atPath, views, ih]

/-- **empty block.**  Replacing `- block: True` (no options) anywhere in the
    description by its declarations leaves every function's lookup of every key
    unchanged, functions in the same order. -/
theorem empty_block_transparent (p : List Step) (d : Decls β) (ctx : List (Dict β)) (k' : Nat) :
    looks (views ctx (atPath p unblockEmpty d)) k' = looks (views ctx d) k' := by
  apply atPath_congr
  intro ctx x
  unfold unblockEmpty
  split
  · rename_i body rest
    simp only [views_append, views, looks_append]
    congr 1
    exact views_ctx_congr _ _ _ _ (by simp [lookupChain_cons])
  · rfl

/-- a block (with or without options) appends its functions to its parent's
    list in order: the list is the one obtained by writing the declarations
    directly in the parent -/
theorem block_appends_to_parent (o : Dict β) (body rest : Decls β) :
    parentList (.scope .block o body rest) = parentList (unblock (.scope .block o body rest)) := by
  simp [unblock, parentList, parentList_append]

example : unblockEmpty (.scope .block ([] : Dict Nat) (.fn 1 [(3, 4)] .nil) (.fn 2 [] .nil))
    = .fn 1 [(3, 4)] (.fn 2 [] .nil) := rfl

/-! ## (3) inline attribute = `attrs` / `fattrs` entry -/

/-- the three inline syntaxes -/
inductive Item where
  | flag (name : List Char)                      -- `+name`
  | paren (name : List Char) (ts : List Tok)     -- `+name(tokens)`
  | eq (name : List Char) (t : Tok)              -- `+name=scalar`

def plusT : Tok := ⟨.plus, ['+']⟩

def Item.enc : Item → List Tok
  | .flag n => [plusT, ⟨.ident, n⟩]
  | .paren n ts => [plusT, ⟨.ident, n⟩, ⟨.lparen, ['(']⟩] ++ ts ++ [⟨.rparen, [')']⟩]
  | .eq n t => [plusT, ⟨.ident, n⟩, ⟨.equals, ['=']⟩, t]

/-- the value a YAML `attrs` entry has to carry to say the same thing -/
def Item.val : Item → AVal
  | .flag _ => .tru
  | .paren _ ts => .str (ts.map (·.val)).flatten
  | .eq _ t => (initVal t).getD .none

def Item.name : Item → List Char
  | .flag n | .paren n _ | .eq n _ => n

def Item.wf : Item → Prop
  | .flag _ => True
  | .paren _ ts => balOk ts 0 = true
  | .eq _ t => t.typ = .integer ∨ t.typ = .real ∨ t.typ = .dquote ∨ t.typ = .squote ∨ t.typ = .ident

def encAll (items : List Item) : List Tok := (items.map Item.enc).flatten
def entries (intern : List Char → Nat) (items : List Item) : List (Nat × AVal) :=
  items.map (fun it => (intern it.name, it.val))

/-- what may follow the attributes in a declaration: anything that does not
    continue an attribute (`+`, or `(` / `=` directly after a bare `+name`) -/
def stops (rest : List Tok) : Prop :=
  (cur rest).typ ≠ .plus ∧ (cur rest).typ ≠ .lparen ∧ (cur rest).typ ≠ .equals

theorem cur_stops_cases (rest : List Tok) (h : stops rest) :
    rest = [] ∨ ∃ t r, rest = t :: r ∧ t.typ ≠ .plus ∧ t.typ ≠ .lparen ∧ t.typ ≠ .equals := by
  cases rest with
  | nil => exact Or.inl rfl
  | cons t r => exact Or.inr ⟨t, r, rfl, h⟩

theorem parseAttr_stop (intern : List Char → Nat) (fuel : Nat) (rest : List Tok) (attrs : Dict AVal)
    (h : stops rest) : parseAttr intern fuel rest attrs = .ok (attrs, rest) := by
  cases fuel with
  | zero => rfl
  | succ n =>
    rcases cur_stops_cases rest h with e | ⟨t, r, e, h1, _, _⟩
    · subst e; rfl
    · subst e
      obtain ⟨ty, tv⟩ := t
      cases ty <;> first | rfl | exact (h1 rfl).elim

/-- what follows one item is either the next item (starts with `+`) or `rest` -/
theorem next_not_paren_eq (items : List Item) (rest : List Tok) (h : stops rest) :
    (cur (encAll items ++ rest)).typ ≠ .lparen ∧ (cur (encAll items ++ rest)).typ ≠ .equals := by
  cases items with
  | nil => exact ⟨h.2.1, h.2.2⟩
  | cons it r =>
    cases it <;> simp [encAll, Item.enc, cur, plusT]

/-- **inline = attrs.**  Parsing any list of inline attributes (all three
    syntaxes, well-formed) into the attribute dictionary `attrs` of a
    declaration yields exactly `attrs.update(entries)` for the corresponding
    `attrs:`/`fattrs:` entries, and consumes exactly the attribute tokens. -/
theorem inline_eq_update (intern : List Char → Nat) (items : List Item) (rest : List Tok)
    (attrs : Dict AVal) (fuel : Nat) (hf : items.length ≤ fuel)
    (hwf : ∀ it ∈ items, it.wf) (hrest : stops rest) :
    parseAttr intern fuel (encAll items ++ rest) attrs
      = .ok (mergeAttrs attrs (entries intern items), rest) := by
  induction items generalizing attrs fuel with
  | nil => simpa [encAll, entries, mergeAttrs] using parseAttr_stop intern fuel rest attrs hrest
  | cons it r ih =>
    cases fuel with
    | zero => simp at hf
    | succ n =>
      have hn : r.length ≤ n := by simpa using hf
      have hr : ∀ it ∈ r, it.wf := fun x hx => hwf x (by simp [hx])
      have hnx := next_not_paren_eq r rest hrest
      have henc : encAll (it :: r) ++ rest = it.enc ++ (encAll r ++ rest) := by
        simp [encAll]
      rw [henc]
      cases it with
      | flag name =>
        have step : parseAttr intern (n + 1) (Item.enc (.flag name) ++ (encAll r ++ rest)) attrs
            = parseAttr intern n (encAll r ++ rest) (dset attrs (intern name) .tru) := by
          simp only [Item.enc, plusT, List.cons_append, List.nil_append]
          generalize hq : encAll r ++ rest = q at hnx
          cases q with
          | nil => simp [parseAttr]
          | cons t q' =>
            obtain ⟨ty, tv⟩ := t
            cases ty <;> simp [cur] at hnx <;> simp [parseAttr]
        rw [step, ih _ n hn hr]
        simp [entries, mergeAttrs, dupdate_cons, Item.name, Item.val]
      | paren name ts =>
        have hb : balOk ts 0 = true := hwf (.paren name ts) (by simp)
        have step : parseAttr intern (n + 1) (Item.enc (.paren name ts) ++ (encAll r ++ rest)) attrs
            = parseAttr intern n (encAll r ++ rest)
                (dset attrs (intern name) (.str (ts.map (·.val)).flatten)) := by
          simp only [Item.enc, plusT, List.cons_append, List.nil_append, List.append_assoc, parseAttr]
          rw [collectParen_balanced ts 0 [] [')'] (encAll r ++ rest) hb]
          simp
        rw [step, ih _ n hn hr]
        simp [entries, mergeAttrs, dupdate_cons, Item.name, Item.val]
      | eq name t =>
        have ht := hwf (.eq name t) (by simp)
        have step : parseAttr intern (n + 1) (Item.enc (.eq name t) ++ (encAll r ++ rest)) attrs
            = parseAttr intern n (encAll r ++ rest) (dset attrs (intern name) ((initVal t).getD .none)) := by
          simp only [Item.enc, plusT, List.cons_append, List.nil_append, parseAttr]
          obtain ⟨ty, tv⟩ := t
          simp only [Item.wf] at ht
          rcases ht with e | e | e | e | e <;> subst e <;> simp [initializer, initVal, cur]
        rw [step, ih _ n hn hr]
        simp [entries, mergeAttrs, dupdate_cons, Item.name, Item.val]

/-- the entry point used by the parser: fuel = number of tokens -/
theorem inline_eq_attrs (intern : List Char → Nat) (items : List Item) (rest : List Tok)
    (hwf : ∀ it ∈ items, it.wf) (hrest : stops rest) :
    parseAttrs intern (encAll items ++ rest) [] = .ok (mergeAttrs [] (entries intern items), rest) := by
  apply inline_eq_update intern items rest [] _ _ hwf hrest
  have : ∀ (l : List Item), l.length ≤ (encAll l).length := by
    intro l
    induction l with
    | nil => simp
    | cons a r ih =>
      have : 1 ≤ a.enc.length := by cases a <;> simp [Item.enc]
      simp only [encAll, List.map_cons, List.flatten_cons, List.length_append, List.length_cons] at ih ⊢
      omega
  have := this items
  simp only [List.length_append]
  omega

/-- **any split** of the attributes between the declaration text and the
    `attrs`/`fattrs` dictionary gives the same attribute map as writing all of
    them inline (or all of them in the dictionary). -/
theorem attrs_split (intern : List Char → Nat) (a b : List Item) (rest : List Tok)
    (hwf : ∀ it ∈ a ++ b, it.wf) (hrest : stops rest) :
    (match parseAttrs intern (encAll a ++ rest) [] with
      | .ok (parsed, _) => some (mergeAttrs parsed (entries intern b))
      | .error _ => none)
    = (match parseAttrs intern (encAll (a ++ b) ++ rest) [] with
      | .ok (parsed, _) => some parsed
      | .error _ => none) := by
  rw [inline_eq_attrs intern a rest (fun x hx => hwf x (by simp [hx])) hrest,
      inline_eq_attrs intern (a ++ b) rest hwf hrest]
  simp [mergeAttrs, entries, dupdate_append]

/-- a later entry for the same name wins, in the text and in the dictionary alike -/
theorem merged_value (attrs : Dict AVal) (es : List (Nat × AVal)) (k : Nat) :
    dget (mergeAttrs attrs es) k = (lastBinding es k <|> dget attrs k) := by
  unfold mergeAttrs; exact dget_dupdate es attrs k

-- non-vacuity: `+intent(in)+rank=2+value` followed by `,`
example : parseAttrs (fun s => s.length)
    (encAll [.paren "intent".toList [⟨.ident, "in".toList⟩], .eq "rank".toList ⟨.integer, ['2']⟩,
             .flag "value".toList] ++ [⟨.other, [',']⟩]) []
    = .ok ([(6, .str ['i', 'n']), (4, .int ['2']), (5, .tru)], [⟨.other, [',']⟩]) := by decide
example : Item.wf (.paren "dimension".toList [⟨.ident, ['n']⟩, ⟨.lparen, ['(']⟩, ⟨.rparen, [')']⟩]) := by
  show balOk _ 0 = true
  decide

/-! ## (4) command line = YAML fields -/

theorem coerce_spellings :
    coerce "true".toList = .bool true ∧ coerce "True".toList = .bool true ∧
    coerce "false".toList = .bool false ∧ coerce "False".toList = .bool false := by decide

theorem coerce_other (s : List Char) (h1 : s ≠ "true".toList) (h2 : s ≠ "True".toList)
    (h3 : s ≠ "false".toList) (h4 : s ≠ "False".toList) (h5 : s = [] ∨ s.all isAsciiDigit = false) :
    coerce s = .str s := by
  unfold coerce
  rw [if_neg (by rintro (h | h); exact h1 h; exact h2 h),
      if_neg (by rintro (h | h); exact h3 h; exact h4 h),
      if_neg (by rintro ⟨a, b⟩; rcases h5 with e | e; exact a e; simp [e] at b)]

/-- a string of digits becomes the integer YAML would read -/
theorem coerce_digits : coerce "100".toList = .int 100 ∧ coerce "0".toList = .int 0 ∧
    coerce "1e3".toList = .str "1e3".toList ∧ coerce [] = .str [] := by decide

theorem splitEq_join (n v : List Char) (h : '=' ∉ n) : splitEq (n ++ '=' :: v) = some (n, v) := by
  induction n with
  | nil => simp [splitEq]
  | cons c r ih =>
    have hc : c ≠ '=' := fun e => h (by simp [e])
    have hr : '=' ∉ r := fun e => h (by simp [e])
    simp [splitEq, hc, ih hr]

/-- `--option n=v ...` builds `{}.update(coerced pairs)` -/
theorem cmdOptions_pairs (intern : List Char → Nat) (pairs : List (List Char × List Char))
    (hn : ∀ p ∈ pairs, '=' ∉ p.1) (acc : Dict CVal) :
    cmdOptions intern (pairs.map (fun p => p.1 ++ '=' :: p.2)) acc
      = some (dupdate acc (pairs.map (fun p => (intern p.1, coerce p.2)))) := by
  induction pairs generalizing acc with
  | nil => rfl
  | cons p r ih =>
    have h1 := hn p (by simp)
    simp only [List.map_cons, cmdOptions, splitEq_join p.1 p.2 h1, dupdate_cons]
    exact ih (fun q hq => hn q (by simp [hq])) _

/-- with nothing on the command line the YAML fields pass through -/
theorem mergeCli_none (intern : List Char → Nat) (y : YOpts) (yl : Option (List Char)) :
    mergeCli intern y yl [] none = .ok y yl := rfl

/-- **`--option` / `--language` = YAML fields.**  For every YAML `options`
    dictionary `d`, every list of `name=value` options and every `--language`,
    the top-level dictionary handed to `create_library_from_dictionary` is the
    one a YAML file states that has `options: d.update(coerced pairs)` and
    `language: l` and is run without these command-line arguments. -/
theorem cli_eq_yaml (intern : List Char → Nat) (d : Dict CVal) (yl : Option (List Char))
    (pairs : List (List Char × List Char)) (hn : ∀ p ∈ pairs, '=' ∉ p.1)
    (c : Char) (l : List Char) :
    mergeCli intern (.dict d) yl (pairs.map (fun p => p.1 ++ '=' :: p.2)) (some (c :: l))
      = mergeCli intern
          (.dict (dupdate d (dupdate [] (pairs.map (fun p => (intern p.1, coerce p.2))))))
          (some (c :: l)) [] none := by
  cases pairs with
  | nil => simp [mergeCli]
  | cons p r =>
    have := cmdOptions_pairs intern (p :: r) hn []
    simp only [List.map_cons] at this
    simp only [mergeCli, List.map_cons, this]

/-- the same when the YAML file has no `options:` entry at all -/
theorem cli_eq_yaml_absent (intern : List Char → Nat) (yl : Option (List Char))
    (p : List Char × List Char) (pairs : List (List Char × List Char))
    (hn : ∀ q ∈ p :: pairs, '=' ∉ q.1) :
    mergeCli intern .absent yl ((p :: pairs).map (fun p => p.1 ++ '=' :: p.2)) none
      = mergeCli intern
          (.dict (dupdate [] ((p :: pairs).map (fun p => (intern p.1, coerce p.2))))) yl [] none := by
  have := cmdOptions_pairs intern (p :: pairs) hn []
  simp only [List.map_cons] at this
  simp only [mergeCli, List.map_cons, this]

/-- what a lookup in the merged options answers: the last `--option` for the
    name (coerced), otherwise the YAML value -/
theorem cli_lookup (d : Dict CVal) (es : List (Nat × CVal)) (k : Nat) :
    dget (dupdate d (dupdate [] es)) k = (lastBinding es k <|> dget d k) := by
  rw [dget_dupdate (dupdate [] es) d k]
  have h2 := dget_dupdate es ([] : Dict CVal) k
  -- lastBinding of the deduplicated dictionary = lookup in it
  have h3 : ∀ (e : Dict CVal), Unique e → lastBinding e k = dget e k := by
    intro e
    induction e with
    | nil => intro _; rfl
    | cons a r ih =>
      intro hu
      obtain ⟨k0, v0⟩ := a
      have ihr := ih hu.2
      unfold lastBinding at ihr ⊢
      simp only [List.foldl_cons]
      by_cases h0 : k0 = k
      · subst h0
        have hnone : dget r k0 = none := hu.1
        simp only [if_true, dget]
        rw [hnone] at ihr
        -- no later binding of k0 in r
        have : ∀ (l : Dict CVal) (a : Option CVal),
            List.foldl (fun acc kv => if kv.1 = k0 then some kv.2 else acc) none l = none →
            List.foldl (fun acc kv => if kv.1 = k0 then some kv.2 else acc) a l = a := by
          intro l
          induction l with
          | nil => intro a _; rfl
          | cons b t iht =>
            intro a hb
            simp only [List.foldl_cons] at hb ⊢
            by_cases hbk : b.1 = k0
            · exfalso
              simp only [hbk, if_true] at hb
              have : ∀ (l : Dict CVal) (x : CVal),
                  List.foldl (fun acc kv => if kv.1 = k0 then some kv.2 else acc) (some x) l ≠ none := by
                intro l
                induction l with
                | nil => intro x; simp
                | cons b2 t2 ih2 =>
                  intro x
                  simp only [List.foldl_cons]
                  by_cases h5 : b2.1 = k0
                  · simp only [h5, if_true]; exact ih2 _
                  · simp only [h5, if_false]; exact ih2 _
              exact this t b.2 hb
            · simp only [hbk, if_false] at hb ⊢
              exact iht a hb
        rw [this r (some v0) ihr]
      · simp only [h0, if_false, dget]
        exact ihr
  have hu : ∀ (e : List (Nat × CVal)) (acc : Dict CVal), Unique acc → Unique (dupdate acc e) := by
    intro e
    induction e with
    | nil => intro acc h; exact h
    | cons a r ih =>
      intro acc h
      rw [dupdate_cons]
      apply ih
      -- dset keeps uniqueness
      clear ih
      induction acc with
      | nil => simp [dset, Unique]
      | cons b t iht =>
        obtain ⟨kb, vb⟩ := b
        by_cases hb : kb = a.1
        · simp only [dset, hb, if_true]; exact ⟨hb ▸ h.1, h.2⟩
        · simp only [dset, hb, if_false]
          refine ⟨?_, iht h.2⟩
          rw [dget_dset_other t a.1 kb a.2 hb]; exact h.1
  rw [h3 (dupdate [] es) (hu es [] trivial), h2]
  cases lastBinding es k <;> simp

/-- `--option foo` (no `=`) is a `ValueError`, and options on top of an empty
    `options:` entry an `AttributeError` (crash sites of the merge) -/
theorem cli_crash_sites (intern : List Char → Nat) :
    mergeCli intern .absent none ["debug".toList] none = .valueError ∧
    mergeCli intern .null none ["debug=true".toList] none = .attributeError := by
  constructor <;> rfl

example : mergeCli (fun s => s.length) (.dict [(5, .str ['x'])]) none
    ["debug=True".toList, "PY_array_arg=list".toList] (some "c".toList)
    = .ok (.dict [(5, .bool true), (12, .str "list".toList)]) (some ['c']) := by decide

/-! ### `create_wrapper` versus the command-line parser (regenerated table) -/
open Shroud.Gen.Cli in
/-- an assignment of `create_wrapper` is fine for field `f` when it passes a
    function parameter through or equals the parser's default for `f` -/
def okAssign (f : Nat) (v : V) : Bool :=
  match v with
  | .param _ | .listOfParam _ => true
  | .unknown => false
  | v => (parserDefaults.lookup f) == some v

open Shroud.Gen.Cli in
/-- **table theorem.**  Every field of the argument record that
    `main_with_args` reads is assigned by `create_wrapper`, and every
    assignment there is a pass-through parameter or the parser's default: the
    documented entry point equals the command line with the same arguments.
    (Before the fix `write_version`, `option`, `language` were never assigned.) -/
theorem create_wrapper_matches_parser :
    (∀ f ∈ reads, wrapperAssigns.any (·.1 == f) = true) ∧
    (∀ a ∈ wrapperAssigns, okAssign a.1 a.2 = true) ∧
    (∀ f ∈ reads, (parserDefaults.lookup f).isSome = true) := by decide

open Shroud.Gen.Cli in
def fieldId (name : String) : Nat := fieldNames.idxOf (name.toList.map Char.toNat)

open Shroud.Gen.Cli in
/-- the list an `append` option starts from, as written in `main()` -/
def appendDefault (f : Nat) : List (List Nat) :=
  match parserDefaults.lookup f with
  | some .emptyList => []
  | some (.strList l) => l
  | _ => [[63]]

open Shroud.Gen.Cli in
/-- **search path.**  `--path` (and `--option`) are `append` options whose
    default is the empty list (regenerated table), hence for every list of
    directories `ps` the path searched for `splicer:` files by the command line
    `--path p1 --path p2 ...` is the one searched by
    `create_wrapper(path=[p1, p2, ...])`; with no directories both search `.` -/
theorem cli_path_eq_create_wrapper :
    fieldId "path" ∈ appendFields ∧ fieldId "option" ∈ appendFields ∧
    appendDefault (fieldId "path") = [] ∧ appendDefault (fieldId "option") = [] ∧
    (∀ ps, searchPath (argparseAppend (appendDefault (fieldId "path")) ps) = searchPath ps) ∧
    searchPath [] = [[46]] := by
  have h : appendDefault (fieldId "path") = [] := by decide
  refine ⟨by decide, by decide, h, by decide, ?_, rfl⟩
  intro ps; rw [h]; rfl

example : searchPath ["a:b".toList.map Char.toNat, "c".toList.map Char.toNat]
    = ["a".toList.map Char.toNat, "b".toList.map Char.toNat, "c".toList.map Char.toNat] := by decide

open Shroud.Gen.Cli in
/-- **table theorem.**  `main.Config` binds no mutable object at class level,
    and the lists/dictionary that the wrappers only ever mutate (`cfiles`,
    `ffiles`, `pyfiles`, `fc_shared_helpers`) are created per instance in
    `__init__`: a second `create_wrapper` call in one process starts from the
    same empty configuration as a command-line run. -/
theorem config_no_shared_state :
    configClassMutable = [] ∧
    (∀ n ∈ ["cfiles".toList, "ffiles".toList, "pyfiles".toList, "fc_shared_helpers".toList],
      (n.map Char.toNat) ∈ configInitAttrs) := by decide

/-! ### which scope do the consumers read from? (regenerated table of every syntactic read) -/

/-- Library-level reads of a function-scoped option that are nevertheless
    right, as (option name, `file:Class.function`).  Empty: on the current
    tree no function-scoped option or format field is read through a
    library-level owner expression at all (file-level reads such as the
    doxygen file header go through the generic `node` of the file being
    written, not through `self.newlibrary`).  An entry added here must say
    why the value cannot differ between the functions of the library. -/
def allowedLibraryReads : List (List Nat × List Nat) := []

open Shroud.Gen.OptReads in
def readOk (fs : List Nat) (r : Nat × Owner × Nat) : Bool :=
  !(r.2.1 == Owner.library && fs.contains r.1)
    || allowedLibraryReads.contains (names.getD r.1 [], sites.getD r.2.2 [])

open Shroud.Gen.OptReads in
/-- **every consumer reads function-scoped settings from the function's
    scope chain** (static part).  In the regenerated table of all option /
    format reads of `shroud/*.py` (attribute, subscript, `.get`, through local
    aliases, through `eval_template` and through parameters such as
    `WrapFlags(options)`), no option of the function-scoped set -- and no
    format field of that set that is read explicitly -- is read through a
    library-level owner expression (`self.newlibrary.options`,
    `library.options`, `self.options` inside `LibraryNode`, ...) outside the
    allow list.  Format fields consumed through template strings are not in
    the table; they are covered by the output oracle only. -/
theorem function_scoped_not_read_at_library_level :
    (∀ r ∈ optionReads, readOk functionScopedOptions r = true) ∧
    (∀ r ∈ formatReads, readOk functionScopedFormats r = true) ∧
    functionScopedOptions ≠ [] ∧
    (∃ r ∈ optionReads, r.2.1 = Owner.library) ∧
    (∃ r ∈ optionReads, r.2.1 = Owner.node ∧ functionScopedOptions.contains r.1 = true) := by
  decide +kernel

open Shroud.Gen.OptReads in
/-- **no function-scoped setting is cached across declarations** (static
    part).  Whenever a value read from an option / format scope is stored in
    an attribute of a pass or wrapper object (`self.x = ... options.K ...`,
    regenerated list `cachedReads`; today the line lengths and two file-level
    names), `K` is not in the function-scoped set: such a value would be
    computed for one declaration and reused for the next. -/
theorem function_scoped_not_cached_across_declarations :
    ∀ r ∈ cachedReads,
      (if r.1 then functionScopedOptions else functionScopedFormats).contains r.2.1 = false := by
  decide +kernel

/-! ### a format field written directly = the same value given through its template option -/

/-- **library level**: writing `format: {K: v}` and writing the template option
    so that it yields `v` give the same, post-processed, field (for every
    dictionary without `K`, value and post-processing function). -/
theorem library_format_eq_template (d : Dict β) (k : Nat) (v t : β) (post : β → β)
    (hk : dget d k = none) :
    dget (libraryField d [(k, v)] k t post) k = some (post v) ∧
    dget (libraryField d [] k v post) k = some (post v) := by
  constructor
  · simp [libraryField, postD, evalTemplateD, dupdate, dhas, dget_dset_same]
  · simp [libraryField, postD, evalTemplateD, dupdate, dhas, hk, dget_dset_same]

/-- **namespace level**: the same for the order used by
    `NamespaceNode.default_format` (template, `format:`, post-processing). -/
theorem namespace_format_vs_template (d : Dict β) (k : Nat) (v t : β) (post : β → β)
    (hk : dget d k = none) :
    dget (namespaceField d [(k, v)] k t post) k = some (post v) ∧
    dget (namespaceField d [] k v post) k = some (post v) := by
  constructor
  · simp [namespaceField, postD, evalTemplateD, dupdate, dhas, hk, dget_dset_same]
  · simp [namespaceField, postD, evalTemplateD, dupdate, dhas, hk, dget_dset_same]

/-- the order used before the fix violated it: witness -/
example : dget (namespaceFieldOld ([] : Dict Nat) [(1, 7)] 1 9 (· + 100)) 1 = some 7 ∧
    dget (namespaceFieldOld ([] : Dict Nat) [] 1 7 (· + 100)) 1 = some 107 := by decide

example : dget (libraryField ([] : Dict Nat) [(1, 7)] 1 9 (· + 100)) 1 = some 107 := by decide

open Shroud.Gen.OptReads in
/-- **a container loop reads a member's option from the member** (static
    part): in the regenerated table, every read of a namespace-scoped option
    inside a loop over `.namespaces` -- and of a class-scoped option inside a
    loop over `.classes` -- is made on the loop variable's own scope, never on
    the enclosing node's; and the table is not empty. -/
theorem member_options_read_from_member :
    (∀ r ∈ loopReads, r.2.1 = 0 → namespaceScopedOptions.contains r.1 = true → r.2.2.1 = true) ∧
    (∀ r ∈ loopReads, r.2.1 = 1 → classScopedOptions.contains r.1 = true → r.2.2.1 = true) ∧
    (∃ r ∈ loopReads, r.2.1 = 0 ∧ namespaceScopedOptions.contains r.1 = true) := by
  decide +kernel

end Shroud.Scope
