import ShroudVerif.Lemmas.Enum
/-!
# C11  Enumeration constants keep their C++ values in C and Fortran

Model: `Model/Enum.lean` (`EnumNode.__init__`, `PrintNode`, `PrintNodeIdentifier`,
`int_literal` after the two `fix:` commits).  Reference: `cxxEnum`.  Observers of
the emitted text: `evalHeaderC` (C scanner + C constant-expression grammar) and
`evalModuleF` (Fortran scanner + level-2 expression grammar).

Assumption (stated, not proved): every value and intermediate result fits the
underlying type; values are mathematical integers here.  The expression tree is
the one built by Shroud's parser (`Expr.wf` describes its shape; property C09
covers the parser).
-/
namespace Shroud.Enum

/-- **Main theorem.**  For every enumeration whose values are in the accepted
    grammar (`EnumOK`: parser-shaped trees over integer literals and member
    names with `+ - * /`, unary signs, parentheses; generated names are
    identifiers and distinct in Fortran), of any length and nesting depth,
    plain or scoped, with any scope prefix: if C++ assigns the values `vs`
    (`cxxEnum`: implicit increments, earlier members in scope, octal literals,
    truncating division, no redeclaration), then the C compiler's reading of
    the generated enumerator list and the Fortran compiler's reading of the
    generated `parameter` statements both give exactly `vs`. -/
theorem enum_values_preserved (c : Cfg) (ms : List Member) (vs : List Int)
    (hok : EnumOK c ms) (h : cxxEnum ms = some vs) :
    evalHeaderC [] 0 (header (enumMembers c ms)) = some vs ∧
    evalModuleF [] (fmodule (enumMembers c ms)) = some vs :=
  loop_correct hok ms [] [] [] 0 (.int 0) vs (fun _ hm => hm) (by intro n hn; simp [hasKey] at hn)
    (by intro n v hn; simp at hn) rfl h

/-- C half of the main theorem. -/
theorem enum_c_values (c : Cfg) (ms : List Member) (vs : List Int)
    (hok : EnumOK c ms) (h : cxxEnum ms = some vs) :
    evalHeaderC [] 0 (header (enumMembers c ms)) = some vs :=
  (enum_values_preserved c ms vs hok h).1

/-- Fortran half of the main theorem. -/
theorem enum_fortran_values (c : Cfg) (ms : List Member) (vs : List Int)
    (hok : EnumOK c ms) (h : cxxEnum ms = some vs) :
    evalModuleF [] (fmodule (enumMembers c ms)) = some vs :=
  (enum_values_preserved c ms vs hok h).2

/-- One value expression: whatever Shroud writes for a well-formed expression
    whose identifiers are earlier members evaluates, in C and in Fortran, to the
    C++ value — in any scopes that agree with the C++ scope on those members. -/
theorem value_text_preserved {c : Cfg} {ms : List Member} (hok : EnumOK c ms)
    {env envC envF : Env} (hkeys : ∀ n, hasKey env n = true → n ∈ names ms) (hrel : Rel c env envC envF)
    {e : Expr} (hwf : e.wf = true) {v : Int} (hv : evalExpr env e = some v) :
    evalTextC envC (printNodeIdentifier (csyms c ms) e) = some v ∧
    evalTextF envF (printNodeIdentifier (fsyms c ms) e) = some v :=
  ⟨textC hok hkeys hrel hwf hv, textF hok hkeys hrel hwf hv⟩

/-- `int_literal` never disagrees with C++ when it accepts the printed value
    (this failed for `010` before the fix: `int("010") == 10`). -/
theorem int_literal_agrees {env : Env} {e : Expr} (hwf : e.wf = true) {pv v : Int}
    (hp : pyIntLiteral (printNode e) = some pv) (hv : evalExpr env e = some v) : pv = v :=
  pyInt_sound hwf hp hv

/-! ### why the two repairs were needed (the observers reject / misread the old text) -/

/-- `1 - -1` used to be written `1--1`: not a C constant expression (`--` is one
    token) and not a Fortran expression (two consecutive operators). -/
theorem old_text_1mm1_rejected :
    evalTextC [] "1--1".toList = none ∧ evalTextF [] "1--1".toList = none ∧
    evalTextC [] "1-(-1)".toList = some 2 ∧ evalTextF [] "1-(-1)".toList = some 2 := by decide

/-- `010` is eight in C++ and C but ten in Fortran; Shroud now writes `8`. -/
theorem old_text_octal_misread :
    litVal "010".toList = some 8 ∧ evalTextC [] "010".toList = some 8 ∧ evalTextF [] "010".toList = some 10 ∧
    printNodeIdentifier [] (.lit "010".toList) = "8".toList ∧ pyIntLiteral "010".toList = some 8 := by decide

/-! ### non-vacuity: a concrete enumeration meeting every hypothesis -/

def exCfg : Cfg := { cpre := "LIB_".toList, fpre := [], ename := "E".toList, isScoped := true }
/-- `enum class E { A, B = A + 010, C, D = 1 - -1, F = -D / 2 * (B - 3), G }` -/
def exEnum : List Member :=
  [("A".toList, none),
   ("B".toList, some (.bin (.id "A".toList) .add (.lit "010".toList))),
   ("C".toList, none),
   ("D".toList, some (.bin (.lit "1".toList) .sub (.un .neg (.lit "1".toList)))),
   ("F".toList, some (.bin (.bin (.un .neg (.id "D".toList)) .div (.lit "2".toList)) .mul
      (.paren (.bin (.id "B".toList) .sub (.lit "3".toList))))),
   ("G".toList, none)]

theorem exEnum_ok : EnumOK exCfg exEnum :=
  ⟨by decide, by decide, by decide, by decide⟩

example : cxxEnum exEnum = some [0, 8, 9, 2, -5, -4] := by decide

example : evalHeaderC [] 0 (header (enumMembers exCfg exEnum)) = some [0, 8, 9, 2, -5, -4] ∧
    evalModuleF [] (fmodule (enumMembers exCfg exEnum)) = some [0, 8, 9, 2, -5, -4] :=
  enum_values_preserved exCfg exEnum _ exEnum_ok (by decide)

/-- what is written for that enumeration -/
example : (enumMembers exCfg exEnum).map (fun o => (String.ofList o.cname, o.cvalue.map String.ofList, String.ofList o.fname, String.ofList o.fvalue)) =
    [("LIB_E_A", none, "e_a", "0"),
     ("LIB_E_B", some "LIB_E_A+8", "e_b", "e_a+8"),
     ("LIB_E_C", none, "e_c", "e_a+8+1"),
     ("LIB_E_D", some "1-(-1)", "e_d", "1-(-1)"),
     ("LIB_E_F", some "-LIB_E_D/2*(LIB_E_B-3)", "e_f", "-e_d/2*(e_b-3)"),
     ("LIB_E_G", none, "e_g", "-e_d/2*(e_b-3)+1")] := by decide

end Shroud.Enum
