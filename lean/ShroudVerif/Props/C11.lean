import ShroudVerif.Lemmas.EnumBlock
/-!
# C11  Enumeration constants keep their C++ values in C and Fortran

Model: `Model/Enum.lean` (`EnumNode.__init__`, `PrintNode`, `PrintNodeIdentifier`,
`int_literal` after the two `fix:` commits).  Reference: `cxxEnum`.  Observers of
the emitted text: `evalHeaderC` (C scanner + C constant-expression grammar) and
`evalModuleF` (Fortran scanner + level-2 expression grammar).

Assumption (stated, not proved): every value and intermediate result fits the
underlying type; values are mathematical integers here.  The expression tree is
the one built by Shroud's parser (`Expr.wf` describes its shape; property C09
covers the parser).
-/
namespace Shroud.Enum

/-- **Main theorem.**  For every enumeration whose values are in the accepted
    grammar (`EnumOK`: parser-shaped trees over integer literals and member
    names with `+ - * /`, unary signs, parentheses; generated names are
    identifiers and distinct in Fortran), of any length and nesting depth,
    plain or scoped, with any scope prefix: if C++ assigns the values `vs`
    (`cxxEnum`: implicit increments, earlier members in scope, octal literals,
    truncating division, no redeclaration), then the C compiler's reading of
    the generated enumerator list and the Fortran compiler's reading of the
    generated `parameter` statements both give exactly `vs`. -/
theorem enum_values_preserved (c : Cfg) (ms : List Member) (vs : List Int)
    (hok : EnumOK c ms) (h : cxxEnum ms = some vs) :
    evalHeaderC [] 0 (header (enumMembers c ms)) = some vs ∧
    evalModuleF [] (fmodule (enumMembers c ms)) = some vs :=
  loop_correct hok ms [] [] [] 0 (.int 0) vs (fun _ hm => hm) (by intro n hn; simp [hasKey] at hn)
    (by intro n v hn; simp at hn) rfl h

/-- C half of the main theorem. -/
theorem enum_c_values (c : Cfg) (ms : List Member) (vs : List Int)
    (hok : EnumOK c ms) (h : cxxEnum ms = some vs) :
    evalHeaderC [] 0 (header (enumMembers c ms)) = some vs :=
  (enum_values_preserved c ms vs hok h).1

/-- Fortran half of the main theorem. -/
theorem enum_fortran_values (c : Cfg) (ms : List Member) (vs : List Int)
    (hok : EnumOK c ms) (h : cxxEnum ms = some vs) :
    evalModuleF [] (fmodule (enumMembers c ms)) = some vs :=
  (enum_values_preserved c ms vs hok h).2

/-- One value expression: whatever Shroud writes for a well-formed expression
    whose identifiers are earlier members evaluates, in C and in Fortran, to the
    C++ value — in any scopes that agree with the C++ scope on those members. -/
theorem value_text_preserved {c : Cfg} {ms : List Member} (hok : EnumOK c ms)
    {env envC envF : Env} (hkeys : ∀ n, hasKey env n = true → n ∈ names ms) (hrel : Rel c env envC envF)
    {e : Expr} (hwf : e.wf = true) {v : Int} (hv : evalExpr env e = some v) :
    evalTextC envC (printNodeIdentifier (csyms c ms) e) = some v ∧
    evalTextF envF (printNodeIdentifier (fsyms c ms) e) = some v :=
  ⟨textC hok hkeys hrel hwf hv, textF hok hkeys hrel hwf hv⟩

/-- `int_literal` never disagrees with C++ when it accepts the printed value
    (this failed for `010` before the fix: `int("010") == 10`). -/
theorem int_literal_agrees {env : Env} {e : Expr} (hwf : e.wf = true) {pv v : Int}
    (hp : pyIntLiteral (printNode e) = some pv) (hv : evalExpr env e = some v) : pv = v :=
  pyInt_sound hwf hp hv


/-! ### the emitted file blocks -/

/-- **Block theorem.**  The lines `wrapc.wrap_enum` puts into the header (blank
    line, `//  scope::Name`, `enum PREFIX_Name {`, one indented enumerator per
    line with a comma after every one but the last, `};`) and the lines
    `wrapf.wrap_enum` puts into the module (blank line, `!  enum [class] scope::Name`,
    `integer(C_INT), parameter :: name = value`), rendered by `write_lines`,
    read back (`evalBlockC`: comments skipped, `enum identifier {`, a C89
    enumerator list, `};`; `evalBlockF`: every non-comment line a parameter
    statement) to exactly the C++ values, for every non-empty enumeration in
    the accepted grammar. -/
theorem enum_blocks_preserved (b : BlockCfg) (ms : List Member) (vs : List Int)
    (hok : EnumOK b.cfg ms) (hen : isIdent b.cfg.ename = true) (hcn : isIdent (cEnumName b.cfg) = true)
    (hne : ms ≠ []) (hwc : b.wrapC = true) (hwf : b.wrapF = true) (h : cxxEnum ms = some vs) :
    evalBlockC (cBlock b (enumMembers b.cfg ms)) = some vs ∧
    evalBlockF (fBlock b (enumMembers b.cfg ms)) = some vs := by
  have hos := enumLoop_ok hok ms (.int 0) (fun _ hm => hm)
  have hen' := isWord_of_isIdent hen
  have hne' : enumMembers b.cfg ms ≠ [] := by
    cases ms with
    | nil => exact absurd rfl hne
    | cons m ms' =>
      obtain ⟨n, oe⟩ := m
      cases oe with
      | none => simp [enumMembers, enumLoop]
      | some e => simp only [enumMembers, enumLoop]; split <;> simp
  obtain ⟨hC, hF⟩ := enum_values_preserved b.cfg ms vs hok h
  constructor
  · unfold evalBlockC
    rw [parseBlockC_cBlock b (enumMembers b.cfg ms) hne' (fun o ho => (hos o ho).1) hen' hcn hwc]
    exact hC
  · unfold evalBlockF
    rw [fBlock_parse b (enumMembers b.cfg ms) (fun o ho => (hos o ho).2) hen' hwf]
    exact hF

/-- The Fortran block needs no non-emptiness. -/
theorem enum_fortran_block (b : BlockCfg) (ms : List Member) (vs : List Int)
    (hok : EnumOK b.cfg ms) (hen : isIdent b.cfg.ename = true) (hwf : b.wrapF = true) (h : cxxEnum ms = some vs) :
    evalBlockF (fBlock b (enumMembers b.cfg ms)) = some vs := by
  unfold evalBlockF
  rw [fBlock_parse b (enumMembers b.cfg ms) (fun o ho => (enumLoop_ok hok ms (.int 0) (fun _ hm => hm) o ho).2) (isWord_of_isIdent hen) hwf]
  exact (enum_values_preserved b.cfg ms vs hok h).2

/-- **Wrap flags.**  An enumeration whose `wrap_c` / `wrap_fortran` / `wrap_python`
    option is off (its own, or inherited from its class) writes nothing into that
    language's output, whatever its members; the other languages are unaffected
    (the value theorems above hold under the flag of their language alone). -/
theorem enum_off_for_language_writes_nothing (b : BlockCfg) (ms : List Member) (os : List Out) :
    (b.wrapC = false → cBlock b os = []) ∧
    (b.wrapF = false → fBlock b os = []) ∧
    (b.wrapPy = false → pyItems b ms = []) := by
  refine ⟨?_, ?_, ?_⟩ <;> intro h <;> simp [cBlock, fBlock, cItems, fItems, pyItems, h, renderItems]

/-! ### the Python wrapper writes the enumerator itself -/

/-- **Python shape theorem.**  The value expression `wrapp.wrap_enum` writes for
    member `n` (`PyModule_AddIntConstant(m, "n", <expr>)` or
    `PyLong_FromLong(<expr>)`) names exactly the enumerator `n` of this
    enumeration in its declaring scope: the constant's value is the one the C++
    compiler assigned, by construction; nothing is recomputed. -/
theorem py_value_is_enumerator (b : BlockCfg) (n : Str) : pyDenotes b (pyValueExpr b n) = some n := by
  have sp : ∀ p x : Str, stripPrefix p (p ++ x) = some x := by
    intro p x; simp [stripPrefix, startsWith]
  unfold pyDenotes pyValueExpr
  split
  · exact sp _ _
  · have e1 : castOpen ++ b.nsScope ++ b.cfg.ename ++ "::".toList ++ n ++ [')']
        = castOpen ++ (b.nsScope ++ ((b.cfg.ename ++ "::".toList) ++ (n ++ [')']))) := by simp
    rw [e1, sp]
    simp only [Option.bind_some, sp]
    simp

/-- one line per member, in order, under the member's own name -/
theorem py_module_items (b : BlockCfg) (ms : List Member) (h : b.inClass = false) (hw : b.wrapPy = true) :
    pyItems b ms = [[], "// enum ".toList ++ b.nsScope ++ b.cfg.ename] ++
      ms.map (fun m => "PyModule_AddIntConstant(m, \"".toList ++ m.1 ++ "\", ".toList ++ pyValueExpr b m.1 ++ ");".toList) := by
  simp [pyItems, h, hw]

/-- class scope: one `tp_dict` entry per member, in order, under the member's own
    name, its value the enumerator itself (`py_value_is_enumerator`) -/
theorem py_class_items (b : BlockCfg) (ms : List Member) (h : b.inClass = true) (hw : b.wrapPy = true) :
    pyItems b ms = ["\n{+".toList, "// enumeration ".toList ++ b.cfg.ename, "PyObject *tmp_value;".toList] ++
      ms.map (fun m =>
        "tmp_value = PyLong_FromLong(".toList ++ pyValueExpr b m.1 ++ ");\n".toList ++
        "PyDict_SetItemString((PyObject*) ".toList ++ b.pyType ++ ".tp_dict, \"".toList ++ m.1 ++
        "\", tmp_value);\n".toList ++ "Py_DECREF(tmp_value);".toList) ++ ["-}".toList] := by
  simp [pyItems, h, hw]

/-! ### why the two repairs were needed (the observers reject / misread the old text) -/

/-- `1 - -1` used to be written `1--1`: not a C constant expression (`--` is one
    token) and not a Fortran expression (two consecutive operators). -/
theorem old_text_1mm1_rejected :
    evalTextC [] "1--1".toList = none ∧ evalTextF [] "1--1".toList = none ∧
    evalTextC [] "1-(-1)".toList = some 2 ∧ evalTextF [] "1-(-1)".toList = some 2 := by decide

/-- `010` is eight in C++ and C but ten in Fortran; Shroud now writes `8`. -/
theorem old_text_octal_misread :
    litVal "010".toList = some 8 ∧ evalTextC [] "010".toList = some 8 ∧ evalTextF [] "010".toList = some 10 ∧
    printNodeIdentifier [] (.lit "010".toList) = "8".toList ∧ pyIntLiteral "010".toList = some 8 := by decide

/-! ### non-vacuity: a concrete enumeration meeting every hypothesis -/

def exCfg : Cfg := { cpre := "LIB_".toList, fpre := [], ename := "E".toList, isScoped := true }
/-- `enum class E { A, B = A + 010, C, D = 1 - -1, F = -D / 2 * (B - 3), G }` -/
def exEnum : List Member :=
  [("A".toList, none),
   ("B".toList, some (.bin (.id "A".toList) .add (.lit "010".toList))),
   ("C".toList, none),
   ("D".toList, some (.bin (.lit "1".toList) .sub (.un .neg (.lit "1".toList)))),
   ("F".toList, some (.bin (.bin (.un .neg (.id "D".toList)) .div (.lit "2".toList)) .mul
      (.paren (.bin (.id "B".toList) .sub (.lit "3".toList))))),
   ("G".toList, none)]

theorem exEnum_ok : EnumOK exCfg exEnum :=
  ⟨by decide, by decide, by decide, by decide⟩

example : cxxEnum exEnum = some [0, 8, 9, 2, -5, -4] := by decide

example : evalHeaderC [] 0 (header (enumMembers exCfg exEnum)) = some [0, 8, 9, 2, -5, -4] ∧
    evalModuleF [] (fmodule (enumMembers exCfg exEnum)) = some [0, 8, 9, 2, -5, -4] :=
  enum_values_preserved exCfg exEnum _ exEnum_ok (by decide)

/-- what is written for that enumeration -/
example : (enumMembers exCfg exEnum).map (fun o => (String.ofList o.cname, o.cvalue.map String.ofList, String.ofList o.fname, String.ofList o.fvalue)) =
    [("LIB_E_A", none, "e_a", "0"),
     ("LIB_E_B", some "LIB_E_A+8", "e_b", "e_a+8"),
     ("LIB_E_C", none, "e_c", "e_a+8+1"),
     ("LIB_E_D", some "1-(-1)", "e_d", "1-(-1)"),
     ("LIB_E_F", some "-LIB_E_D/2*(LIB_E_B-3)", "e_f", "-e_d/2*(e_b-3)"),
     ("LIB_E_G", none, "e_g", "-e_d/2*(e_b-3)+1")] := by decide


def exBlock : BlockCfg := { cfg := exCfg, nsScope := "ns1::".toList, scopeWord := "class".toList, inClass := false, pyType := [] }

example : evalBlockC (cBlock exBlock (enumMembers exCfg exEnum)) = some [0, 8, 9, 2, -5, -4] ∧
    evalBlockF (fBlock exBlock (enumMembers exCfg exEnum)) = some [0, 8, 9, 2, -5, -4] :=
  enum_blocks_preserved exBlock exEnum _ exEnum_ok (by decide) (by decide) (by decide) rfl rfl (by decide)

/-- the C block of that enumeration as written to the header -/
example : (cBlock exBlock (enumMembers exCfg exEnum)).map String.ofList =
    ["", "//  ns1::E", "enum LIB_E {", "    LIB_E_A,", "    LIB_E_B = LIB_E_A+8,", "    LIB_E_C,",
     "    LIB_E_D = 1-(-1),", "    LIB_E_F = -LIB_E_D/2*(LIB_E_B-3),", "    LIB_E_G", "};"] := by decide

/-- An empty enumeration (`enum E {}` is legal C++) has no C counterpart (an
    enumerator list cannot be empty): nothing is written to the header (before the
    fix `enum LIB_E {` `};` was written, which the block reader and gcc reject),
    and the Fortran block is just its comment.  This is why
    `enum_blocks_preserved` asks for a non-empty member list on the C side. -/
theorem empty_enum_writes_no_c_block :
    cBlock exBlock (enumMembers exCfg []) = [] ∧
    evalBlockC ["enum LIB_E {".toList, "};".toList] = none ∧
    evalBlockF (fBlock exBlock (enumMembers exCfg [])) = some [] := by decide

example : (pyItems exBlock exEnum).map String.ofList =
    ["", "// enum ns1::E",
     "PyModule_AddIntConstant(m, \"A\", static_cast<long>(ns1::E::A));",
     "PyModule_AddIntConstant(m, \"B\", static_cast<long>(ns1::E::B));",
     "PyModule_AddIntConstant(m, \"C\", static_cast<long>(ns1::E::C));",
     "PyModule_AddIntConstant(m, \"D\", static_cast<long>(ns1::E::D));",
     "PyModule_AddIntConstant(m, \"F\", static_cast<long>(ns1::E::F));",
     "PyModule_AddIntConstant(m, \"G\", static_cast<long>(ns1::E::G));"] := by decide

end Shroud.Enum
