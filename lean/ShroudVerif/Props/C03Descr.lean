import ShroudVerif.Model.PyDescr
import ShroudVerif.Gen.PyDescr
/-!
# C03 struct / class member descriptors

Over `Model/PyDescr.lean` and the regenerated `Gen/PyDescr.lean` (every `py_descr_*` entry of `py_statements`,
setter / getter lines as op codes).  Statements are for every member value, every previous member state and every
offered Python object; the table theorems (`decide`) say that every regenerated entry has one of the shapes the
universal theorems are about.
-/
namespace Shroud.PyDescr
open Shroud.Gen.PyDescr

variable {α : Type}

attribute [local simp] S.conv S.ifErr S.retFail S.endBlock S.storeRv S.noop S.dropObj S.ifPtrHelperFails S.memNull
  S.objNull S.storeData S.storeObj S.ifFillHelperFails G.ifMemNull G.retNone G.ifObjCached G.retObj G.build G.retRv

/-! ## scalar members (`py_descr_native`) -/

/-- a convertible value is stored, converted; nothing else changes. -/
theorem scalar_set_good (st : St α) (c : α) (o : Nat) (h : st.err = false) :
    runSetter (.good c o) scalarSetter false st = (0, { st with mem := some c, rv := some c, rvObj := some o }) := by
  simp [runSetter, scalarSetter, convert, h]

/-- an object that does not convert: the setter returns -1 with the exception pending and the member is unchanged. -/
theorem scalar_set_bad_unchanged (st : St α) :
    (runSetter (.bad : PyV α) scalarSetter false st).1 = -1 ∧
    (runSetter (.bad : PyV α) scalarSetter false st).2.mem = st.mem ∧
    (runSetter (.bad : PyV α) scalarSetter false st).2.obj = st.obj := by
  simp [runSetter, scalarSetter, convert]

/-! ## fixed-size array members (`py_descr_native_[]_list`, `py_descr_char_[]`) -/

theorem arr_set_good (st : St α) (c : α) (o : Nat) :
    (runSetter (.good c o) arrSetter false st).1 = 0 ∧
    (runSetter (.good c o) arrSetter false st).2.mem = some c ∧
    (runSetter (.good c o) arrSetter false st).2.obj = none := by
  simp [runSetter, arrSetter]

/-- a rejected value leaves the array as it was (the cached object is dropped). -/
theorem arr_set_bad_unchanged (st : St α) :
    (runSetter (.bad : PyV α) arrSetter false st).1 = -1 ∧
    (runSetter (.bad : PyV α) arrSetter false st).2.mem = st.mem ∧
    (runSetter (.bad : PyV α) arrSetter false st).2.released = st.released ++ st.obj.toList := by
  simp [runSetter, arrSetter]

/-! ## pointer members (`py_descr_native_*_list`, `py_descr_char_*`, `py_descr_char_**_list`) -/

/-- a convertible value: the member points to the converted data, the converter's object is remembered and the
previously remembered object is released exactly once. -/
theorem ptr_set_good (ops : List Nat) (hops : ops = ptrSetter ∨ ops = ptrSetterNoComment)
    (st : St α) (c : α) (o : Nat) (h : st.err = false) :
    (runSetter (.good c o) ops false st).1 = 0 ∧
    (runSetter (.good c o) ops false st).2.mem = some c ∧
    (runSetter (.good c o) ops false st).2.obj = some o ∧
    (runSetter (.good c o) ops false st).2.released = st.released ++ st.obj.toList := by
  rcases hops with rfl | rfl <;> simp [runSetter, ptrSetter, ptrSetterNoComment, convert, h]

/-- a rejected value: -1, and the member is NOT left unchanged - it becomes NULL and the remembered object is dropped
(the getter then answers `None`).  This is the code that exists. -/
theorem ptr_set_bad_clears (ops : List Nat) (hops : ops = ptrSetter ∨ ops = ptrSetterNoComment) (st : St α) :
    (runSetter (.bad : PyV α) ops false st).1 = -1 ∧
    (runSetter (.bad : PyV α) ops false st).2.mem = none ∧
    (runSetter (.bad : PyV α) ops false st).2.obj = none ∧
    (runSetter (.bad : PyV α) ops false st).2.released = st.released ++ st.obj.toList := by
  rcases hops with rfl | rfl <;> simp [runSetter, ptrSetter, ptrSetterNoComment, convert]

/-- "a failed assignment leaves the member unchanged" is false for pointer members. -/
theorem ptr_set_bad_unchanged_is_false :
    ¬ (∀ (st : St Nat), (runSetter (.bad : PyV Nat) ptrSetter false st).2.mem = st.mem) := by
  intro h
  have := h (St.fresh (some 5) none)
  revert this
  decide

/-! ## every table entry -/

/-- every regenerated entry has a setter and a getter of a known shape. -/
theorem descr_rows_canonical :
    ∀ r ∈ clauses, setterClass r.2.1 ≠ 0 ∧ getterClass r.2.2 ≠ 0 := by decide

/-- the getter of every entry always reaches a `return`: with a member present it answers the remembered object
or an object built from the member; with a NULL pointer member, `None` (or the built / remembered object for kinds
without a NULL test). -/
theorem getter_total : ∀ r ∈ clauses, ∀ (st : St α), runGetter r.2.2 false st none ≠ .fellOff ∨ st.mem = none := by
  intro r hr st
  simp only [clauses, List.mem_cons, List.not_mem_nil, or_false] at hr
  cases hm : st.mem with
  | none => right; rfl
  | some m =>
    left
    cases ho : st.obj <;> rcases hr with rfl | rfl | rfl | rfl | rfl | rfl <;> simp [runGetter, hm, ho]

/-- **set then get, every member kind.**  For every regenerated entry, every previous state without a pending
exception, every convertible object: the setter succeeds and the getter then answers the value just stored -
either the remembered converter object `o` or a new object built from the stored C value `c`. -/
theorem set_then_get_roundtrip : ∀ r ∈ clauses, ∀ (st : St α) (c : α) (o : Nat), st.err = false →
    (runSetter (.good c o) r.2.1 false st).1 = 0 ∧
    (runGetter r.2.2 false (runSetter (.good c o) r.2.1 false st).2 none = .built c ∨
     runGetter r.2.2 false (runSetter (.good c o) r.2.1 false st).2 none = .cached o) := by
  intro r hr st c o h
  simp only [clauses, List.mem_cons, List.not_mem_nil, or_false] at hr
  rcases hr with rfl | rfl | rfl | rfl | rfl | rfl <;> simp [runSetter, runGetter, convert, h]

/-- **a rejected object, every member kind**: the setter answers -1 and the member afterwards is either what it
was (scalar and fixed-size array members) or NULL (pointer members); never a third value. -/
theorem set_bad_member : ∀ r ∈ clauses, ∀ (st : St α),
    (runSetter (.bad : PyV α) r.2.1 false st).1 = -1 ∧
    ((runSetter (.bad : PyV α) r.2.1 false st).2.mem = st.mem ∨
     (runSetter (.bad : PyV α) r.2.1 false st).2.mem = none) := by
  intro r hr st
  simp only [clauses, List.mem_cons, List.not_mem_nil, or_false] at hr
  rcases hr with rfl | rfl | rfl | rfl | rfl | rfl <;> simp [runSetter, convert]

/-! ## selection of the entry -/

theorem foldl_lookup_inv (tab : List (List Nat × Nat)) : ∀ (path : List Nat) (st : List Nat × Option Nat),
    (∀ r, st.2 = some r → ∃ e ∈ tab, e.2 = r) →
    ∀ r, (path.foldl (lookupStep tab) st).2 = some r → ∃ e ∈ tab, e.2 = r := by
  intro path
  induction path with
  | nil => intro st h r hr; exact h r hr
  | cons p ps ih =>
    intro st h r hr
    simp only [List.foldl_cons] at hr
    apply ih _ _ r hr
    intro r' hr'
    unfold lookupStep at hr'
    simp only at hr'
    split at hr'
    · cases hf : tab.find? (fun e => e.1 == st.1 ++ [p]) with
      | none => simp only [hf] at hr'; exact h r' hr'
      | some e =>
        simp only [hf, Option.some.injEq] at hr'
        exact ⟨e, List.mem_of_find?_eq_some hf, hr'⟩
    · exact h r' hr'

/-- for every table and every path the lookup answers an entry of the table or nothing (`py_default`). -/
theorem lookup_in_table (tab : List (List Nat × Nat)) (path : List Nat) (r : Nat)
    (h : lookup tab path = some r) : ∃ e ∈ tab, e.2 = r :=
  foldl_lookup_inv tab path ([], none) (by intro r h; cases h) r h

/-- the entries selected for the member kinds of the numpy-free subset (parts: see Gen/PyDescr.lean):
scalar natives, `T *`, `T [n]`, `char *`, `char **`, `char [n]`; `bool`, `char` and `std::string` scalars have no
entry (`#error` line in the generated file); an `int **` member falls back to the scalar entry. -/
theorem lookup_selects :
    lookup paths [0, 13] = some 0 ∧ lookup paths [0, 10, 20] = some 1 ∧ lookup paths [0, 12, 20] = some 4 ∧
    lookup paths [1, 10, 20] = some 2 ∧ lookup paths [1, 11, 20] = some 3 ∧ lookup paths [1, 12, 20] = some 7 ∧
    lookup paths [2, 13] = none ∧ lookup paths [1, 13] = none ∧ lookup paths [3, 13] = none ∧
    lookup paths [0, 11, 20] = some 0 := by decide

/-- non-vacuity of `lookup_in_table`. -/
example : lookup paths [0, 10, 20] = some 1 ∧ ([0, 10, 20], 1) ∈ paths := by decide

/-- non-vacuity of the state hypotheses: a fresh member satisfies `err = false`. -/
example : (St.fresh (some 3) (some 9) : St Nat).err = false ∧
    runSetter (.good 4 11) ptrSetterNoComment false (St.fresh (some 3) (some 9)) =
      (0, { mem := some 4, obj := some 11, released := [9], rv := some 4, rvObj := some 11, err := false }) := by decide

end Shroud.PyDescr
