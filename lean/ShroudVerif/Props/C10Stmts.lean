import ShroudVerif.Props.C10
import ShroudVerif.Gen.StrStmts
/-!
# C10, statement level: the regenerated character / std::string entries obey the documented rule

`Gen/StrStmts.lean` is regenerated from `shroud/statements.py` on every check.  The theorems
below are about those generated definitions:

* `table_len_rule`: which of `len` / `len_trim` / `size` every entry makes the Fortran wrapper
  pass (intent(in): `len_trim`; intent(out) and results: `len`; intent(inout): both; CFI and
  allocatable entries: none, the descriptor or the context carries the length).
* `flow_*`: for every Fortran value `t` and every library text `s` the composed flow
  Fortran actuals -> `pre_call` -> library -> `post_call` (interpreter `Model/StrStmts.lean`,
  helper calls discharged by the helper theorems of `Props/C10.lean`) hands the library the
  value without trailing blanks and leaves `take L (s ++ blanks)` in the variable, releases every
  temporary, and never leaves the buffers (`Res.ok`).

A change of a statement entry changes the generated definition and the theorem about it no
longer checks.
-/
namespace Shroud.StrStmts
open Shroud.Str

/-! ## the len / len_trim rule, as data -/

/-- entry number (see `Gen.entries`) and the lengths its `buf_args` request, in order -/
def expectLens : List (Nat × List LenArg) := [
  (0, [.trim]), (1, [.len]), (2, [.trim, .len]), (3, [.len]), (4, [.len]),
  (5, []), (6, []), (7, []), (8, []), (9, []), (10, []), (11, []),
  (12, [.size, .len]),
  (13, [.trim]), (14, [.trim]), (15, [.trim]), (16, [.len]), (17, [.len]),
  (18, [.trim, .len]), (19, [.trim, .len]), (20, [.len]), (21, [.len]), (22, [.len]),
  (23, []), (24, []), (25, []), (26, []), (27, []), (28, []), (29, []), (30, []), (31, []), (32, []),
  (33, []), (34, []), (35, []), (36, []), (37, []), (38, []),
  (39, []), (40, []), (41, []), (42, []), (43, []),
  (44, [.size, .len]), (45, [.size, .len]), (46, [.size, .len])]

theorem table_len_rule : Gen.entries.map (fun p => (p.1, p.2.lens)) = expectLens := by decide

/-- pointer, reference and by-value variants share their statement lines -/
theorem table_variants_agree :
    Gen.c_string_ptr_in_buf = Gen.c_string_ref_in_buf ∧ Gen.c_string_scalar_in_buf = Gen.c_string_ref_in_buf ∧
    Gen.c_string_ptr_out_buf = Gen.c_string_ref_out_buf ∧ Gen.c_string_ptr_inout_buf = Gen.c_string_ref_inout_buf ∧
    Gen.c_string_ptr_result_buf = Gen.c_string_scalar_result_buf ∧ Gen.c_string_ref_result_buf = Gen.c_string_scalar_result_buf ∧
    Gen.c_string_ptr_in_cfi = Gen.c_string_ref_in_cfi ∧ Gen.c_string_scalar_in_cfi = Gen.c_string_ref_in_cfi ∧
    Gen.c_string_ptr_out_cfi = Gen.c_string_ref_out_cfi ∧ Gen.c_string_ptr_inout_cfi = Gen.c_string_ref_inout_cfi ∧
    Gen.c_string_ptr_result_cfi = Gen.c_string_scalar_result_cfi ∧ Gen.c_string_ref_result_cfi = Gen.c_string_scalar_result_cfi ∧
    Gen.c_string_ref_result_buf_allocatable = Gen.c_string_ptr_result_buf_allocatable ∧
    Gen.c_string_ref_result_cfi_allocatable = Gen.c_string_ptr_result_cfi_allocatable ∧
    Gen.f_char_scalar_result_buf_allocatable = Gen.f_char_ptr_result_buf_allocatable ∧
    Gen.f_string_scalar_result_buf_allocatable = Gen.f_char_ptr_result_buf_allocatable ∧
    Gen.f_string_ptr_result_buf_allocatable = Gen.f_char_ptr_result_buf_allocatable ∧
    Gen.f_string_ref_result_buf_allocatable = Gen.f_char_ptr_result_buf_allocatable := by decide

/-! ## library side -/

theorem seeC_app (str post : Buf) (h0 : ∀ c ∈ str, c ≠ NUL) : seeC (str ++ NUL :: post) = .ok str := by
  simp [seeC, strlen_app str post h0]

theorem putC_ok (b s : Buf) (h : s.length + 1 ≤ b.length) :
    putC b s = .ok (s ++ NUL :: b.drop (s.length + 1)) := by
  unfold putC
  rw [memcpy_ok b 0 (s ++ [NUL]) 0 (s.length + 1) (by omega) (by simp)]
  have : List.take (s.length + 1) (s ++ [NUL]) = s ++ [NUL] := List.take_of_length_le (by simp)
  simp [this]

theorem no_nul_rtrim {t : Buf} (h0 : ∀ c ∈ t, c ≠ NUL) : ∀ c ∈ rtrim t, c ≠ NUL :=
  fun c hc => h0 c (mem_rtrim hc)

/-! ## intent(in): the library receives the value without trailing blanks -/

/-- `char *` intent(in), bufferify and CFI: a NUL-terminated copy of `rtrim t`; the Fortran
    variable is unchanged; the copy is released. -/
theorem flow_char_in (t : Buf) (h0 : ∀ c ∈ t, c ≠ NUL) :
    flow Gen.c_char_ptr_in_buf false false t .charIn = .ok ⟨some (rtrim t), none, t, 0, false⟩ ∧
    flow Gen.c_char_ptr_in_cfi true false t .charIn = .ok ⟨some (rtrim t), none, t, 0, false⟩ := by
  have hs := seeC_app (rtrim t) [] (no_nul_rtrim h0)
  have hs2 := seeC_app (rtrim t) (List.replicate (t.length - (rtrim t).length) UNINIT) (no_nul_rtrim h0)
  constructor
  · simp [Gen.c_char_ptr_in_buf, flow, flowArr, init, run, step, exec, call, finish, active, natLen, intLen,
      needCvar, strAlloc_in_buf, hs]
  · simp [Gen.c_char_ptr_in_cfi, flow, flowArr, init, run, step, exec, call, finish, active, natLen, intLen,
      needCvar, (strAlloc_inout t).2, (strAlloc_inout t).1, hs2]

example : flow Gen.c_char_ptr_in_buf false false [97, 32, 98, 32, 32] .charIn
    = .ok ⟨some [97, 32, 98], none, [97, 32, 98, 32, 32], 0, false⟩ := by decide

/-- `std::string` intent(in), pointer / reference / value, bufferify and CFI: the string is
    `rtrim t` (embedded NULs included), the variable is unchanged. -/
theorem flow_string_in (t : Buf) :
    flow Gen.c_string_ref_in_buf false false t .strIn = .ok ⟨some (rtrim t), none, t, 0, false⟩ ∧
    flow Gen.c_string_ref_in_cfi true false t .strIn = .ok ⟨some (rtrim t), none, t, 0, false⟩ := by
  have hm : memcpy (List.replicate (rtrim t).length UNINIT) 0 t 0 (rtrim t).length = .ok (rtrim t) := by
    rw [memcpy_ok _ 0 t 0 _ (by simp) (by simpa using rtrim_length_le t)]
    simp [← rtrim_prefix]
  have hl := lenTrim_eq_rtrim t t.length (Nat.le_refl _)
  rw [List.take_length] at hl
  constructor
  · simp [Gen.c_string_ref_in_buf, flow, flowArr, init, run, step, exec, call, finish, active, natLen,
      needCvar, hm]
  · simp [Gen.c_string_ref_in_cfi, flow, flowArr, init, run, step, exec, call, finish, active, natLen,
      needCvar, hl, hm]

example : flow Gen.c_string_ref_in_cfi true false [97, 0, 32, 32] .strIn
    = .ok ⟨some [97, 0], none, [97, 0, 32, 32], 0, false⟩ := by decide

/-! ## intent(out) and results: truncate or blank-pad to the declared length -/

/-- `char *` intent(out): the library stores `s` and its NUL in the variable itself (documented
    precondition: they fit), the wrapper blank-fills; bufferify and CFI. -/
theorem flow_char_out (t s : Buf) (h0 : ∀ c ∈ s, c ≠ NUL) (hfit : s.length < t.length)
    (h32 : s.length < 2147483648) :
    flow Gen.c_char_ptr_out_buf false true t (.charOut s) = .ok ⟨none, none, fassign t.length s, 0, false⟩ ∧
    flow Gen.c_char_ptr_out_cfi true false t (.charOut s) = .ok ⟨none, none, fassign t.length s, 0, false⟩ := by
  have hp := putC_ok t s (by omega)
  have hb := strBlankFill_spec s (t.drop (s.length + 1)) t.length h0 hfit (by simp; omega) h32
  have hd : (s ++ NUL :: t.drop (s.length + 1)).drop t.length = [] := by
    apply List.drop_eq_nil_of_le; simp; omega
  rw [hd, List.append_nil] at hb
  constructor
  · simp [Gen.c_char_ptr_out_buf, flow, flowArr, init, run, step, exec, call, finish, active, natLen, hp, hb]
  · simp [Gen.c_char_ptr_out_cfi, flow, flowArr, init, run, step, exec, call, finish, active, natLen, hp, hb]

example : flow Gen.c_char_ptr_out_buf false true [120, 120, 120, 120] (.charOut [97, 98])
    = .ok ⟨none, none, [97, 98, 32, 32], 0, false⟩ := by decide

/-- `char *` intent(inout): trimmed NUL-terminated copy of `len + 1` bytes in, the library may
    store up to `len` characters, `take L (s ++ blanks)` out, the copy is released. -/
theorem flow_char_inout (t s : Buf) (h0t : ∀ c ∈ t, c ≠ NUL) (h0 : ∀ c ∈ s, c ≠ NUL)
    (hfit : s.length ≤ t.length) (h32 : s.length < 2147483648) :
    flow Gen.c_char_ptr_inout_buf false false t (.charInout s)
      = .ok ⟨some (rtrim t), none, fassign t.length s, 0, false⟩ ∧
    flow Gen.c_char_ptr_inout_cfi true false t (.charInout s)
      = .ok ⟨some (rtrim t), none, fassign t.length s, 0, false⟩ := by
  have hk := rtrim_length_le t
  have hs := seeC_app (rtrim t) (List.replicate (t.length - (rtrim t).length) UNINIT) (no_nul_rtrim h0t)
  have hp := putC_ok (rtrim t ++ NUL :: List.replicate (t.length - (rtrim t).length) UNINIT) s (by simp; omega)
  have hc := strCopy_cstring t [] s
    ((rtrim t ++ NUL :: List.replicate (t.length - (rtrim t).length) UNINIT).drop (s.length + 1)) h0 h32
  simp only [List.append_nil] at hc
  constructor
  · simp [Gen.c_char_ptr_inout_buf, flow, flowArr, init, run, step, exec, call, finish, active, natLen, intLen,
      needCvar, (strAlloc_inout t).1, hs, hp, hc]
  · simp [Gen.c_char_ptr_inout_cfi, flow, flowArr, init, run, step, exec, call, finish, active, natLen, intLen,
      needCvar, (strAlloc_inout t).2, (strAlloc_inout t).1, hs, hp, hc]

example : flow Gen.c_char_ptr_inout_buf false false [97, 32, 32] (.charInout [98, 98, 98])
    = .ok ⟨some [97], none, [98, 98, 98], 0, false⟩ := by decide

/-- `char *` function result copied into `character(len=L)`: the C string truncated or padded;
    a NULL pointer gives blanks. -/
theorem flow_char_result (t s : Buf) (h0 : ∀ c ∈ s, c ≠ NUL) (h32 : s.length < 2147483648) :
    flow Gen.c_char_ptr_result_buf false false t (.charResult (some s)) = .ok ⟨none, none, fassign t.length s, 0, false⟩ ∧
    flow Gen.c_char_ptr_result_cfi true false t (.charResult (some s)) = .ok ⟨none, none, fassign t.length s, 0, false⟩ ∧
    flow Gen.c_char_ptr_result_buf false false t (.charResult none) = .ok ⟨none, none, List.replicate t.length BLANK, 0, false⟩ ∧
    flow Gen.c_char_ptr_result_cfi true false t (.charResult none) = .ok ⟨none, none, List.replicate t.length BLANK, 0, false⟩ := by
  have hc := strCopy_cstring t [] s [] h0 h32
  have hn := strCopy_null t [] (-1)
  simp only [List.append_nil] at hc hn
  refine ⟨?_, ?_, ?_, ?_⟩
  · simp [Gen.c_char_ptr_result_buf, flow, flowArr, init, run, step, exec, call, finish, active, natLen, needCvar, hc]
  · simp [Gen.c_char_ptr_result_cfi, flow, flowArr, init, run, step, exec, call, finish, active, natLen, needCvar, hc]
  · simp [Gen.c_char_ptr_result_buf, flow, flowArr, init, run, step, exec, call, finish, active, natLen, needCvar, hn]
  · simp [Gen.c_char_ptr_result_cfi, flow, flowArr, init, run, step, exec, call, finish, active, natLen, needCvar, hn]

/-- `char` function result into `character(len=L)`, `L ≥ 1`: the character, blank padded -/
theorem flow_char_scalar_result (t : Buf) (c : Nat) (h : 0 < t.length) :
    flow Gen.c_char_scalar_result_buf false false t (.charScalar c)
      = .ok ⟨none, none, c :: List.replicate (t.length - 1) BLANK, 0, false⟩ ∧
    flow Gen.c_char_scalar_result_cfi true false t (.charScalar c)
      = .ok ⟨none, none, c :: List.replicate (t.length - 1) BLANK, 0, false⟩ := by
  have hm := memset_app [] t [] BLANK
  simp only [List.nil_append, List.length_nil, List.append_nil] at hm
  obtain ⟨n, hn⟩ : ∃ n, t.length = n + 1 := ⟨t.length - 1, by omega⟩
  have hw : wr (List.replicate t.length BLANK) 0 c = .ok (c :: List.replicate (t.length - 1) BLANK) := by
    rw [hn, List.replicate_succ]
    simpa using wr_app [] BLANK (List.replicate n BLANK) c
  constructor
  · simp [Gen.c_char_scalar_result_buf, flow, flowArr, init, run, step, exec, call, finish, active, natLen, needCvar, hm, hw]
  · simp [Gen.c_char_scalar_result_cfi, flow, flowArr, init, run, step, exec, call, finish, active, natLen, needCvar, hm, hw]

/-- the `std::string` data()/size() copy-back for a text shorter than 2^31 -/
theorem strCopy_std (t s : Buf) (h32 : s.length < 2147483648) :
    strCopyStd t t.length s = .ok (fassign t.length s) := by
  unfold strCopyStd
  rw [narrow32_of_lt _ h32]
  have := strCopy_counted t [] (s ++ [NUL]) s.length (by simp)
  simpa using this

/-- `std::string` intent(out): `take L (s ++ blanks)`, bufferify and CFI -/
theorem flow_string_out (t s : Buf) (h32 : s.length < 2147483648) :
    flow Gen.c_string_ref_out_buf false false t (.strOut s) = .ok ⟨none, none, fassign t.length s, 0, false⟩ ∧
    flow Gen.c_string_ref_out_cfi true false t (.strOut s) = .ok ⟨none, none, fassign t.length s, 0, false⟩ := by
  have hc := strCopy_std t s h32
  constructor
  · simp [Gen.c_string_ref_out_buf, flow, flowArr, init, run, step, exec, call, finish, active, natLen, needCvar, hc]
  · simp [Gen.c_string_ref_out_cfi, flow, flowArr, init, run, step, exec, call, finish, active, natLen, needCvar, hc]

/-- `std::string` intent(inout): `rtrim t` in, `take L (s ++ blanks)` out -/
theorem flow_string_inout (t s : Buf) (h32 : s.length < 2147483648) :
    flow Gen.c_string_ref_inout_buf false false t (.strInout s)
      = .ok ⟨some (rtrim t), none, fassign t.length s, 0, false⟩ ∧
    flow Gen.c_string_ref_inout_cfi true false t (.strInout s)
      = .ok ⟨some (rtrim t), none, fassign t.length s, 0, false⟩ := by
  have hm : memcpy (List.replicate (rtrim t).length UNINIT) 0 t 0 (rtrim t).length = .ok (rtrim t) := by
    rw [memcpy_ok _ 0 t 0 _ (by simp) (by simpa using rtrim_length_le t)]
    simp [← rtrim_prefix]
  have hl := lenTrim_eq_rtrim t t.length (Nat.le_refl _)
  rw [List.take_length] at hl
  have hc := strCopy_std t s h32
  constructor
  · simp [Gen.c_string_ref_inout_buf, flow, flowArr, init, run, step, exec, call, finish, active, natLen,
      needCvar, hm, hc]
  · simp [Gen.c_string_ref_inout_cfi, flow, flowArr, init, run, step, exec, call, finish, active, natLen,
      needCvar, hl, hm, hc]

example : flow Gen.c_string_ref_inout_buf false false [97, 32, 32, 32] (.strInout [98, 98])
    = .ok ⟨some [97], none, [98, 98, 32, 32], 0, false⟩ := by decide

/-- `std::string` function result (value, pointer, reference) into `character(len=L)`; the empty
    string takes the NULL branch and gives blanks like every other text -/
theorem flow_string_result (t s : Buf) (h32 : s.length < 2147483648) :
    flow Gen.c_string_scalar_result_buf false false t (.strResult s) = .ok ⟨none, none, fassign t.length s, 0, false⟩ ∧
    flow Gen.c_string_scalar_result_cfi true false t (.strResult s) = .ok ⟨none, none, fassign t.length s, 0, false⟩ := by
  have hc := strCopy_std t s h32
  have hn := strCopy_null t [] 0
  simp only [List.append_nil] at hn
  cases s with
  | nil =>
    constructor
    · simp [Gen.c_string_scalar_result_buf, flow, flowArr, init, run, step, exec, call, finish, active, natLen,
        needCvar, hn, fassign]
    · simp [Gen.c_string_scalar_result_cfi, flow, flowArr, init, run, step, exec, call, finish, active, natLen,
        needCvar, hn, fassign]
  | cons x xs =>
    constructor
    · simp [Gen.c_string_scalar_result_buf, flow, flowArr, init, run, step, exec, call, finish, active, natLen,
        needCvar, hc]
    · simp [Gen.c_string_scalar_result_cfi, flow, flowArr, init, run, step, exec, call, finish, active, natLen,
        needCvar, hc]

/-- where the `size_t -> int` narrowing matters: a 2 GiB `std::string` makes the copy-back leave
    the buffers (negative count), whatever the variable is -/
theorem flow_string_out_narrowing_oob (t s : Buf) (h0 : ∀ c ∈ s, c ≠ NUL) (hlen : s.length = 2147483648) :
    flow Gen.c_string_ref_out_buf false false t (.strOut s) = .oob := by
  have hneg : narrow32 s.length < 0 := by rw [hlen, narrow32_two31]; decide
  have hsl := strlen_app s [] h0
  have hcp : strCopyStd t t.length s = .oob := by
    have h2 : (narrow32 s.length < (t.length : Int)) := by omega
    simp [strCopyStd, strCopy, hneg, hsl, strCopyTail, h2]
  simp [Gen.c_string_ref_out_buf, flow, flowArr, init, run, step, exec, call, finish, active, natLen, needCvar, hcp]

/-- texts of every length without NUL exist (in particular of length 2^31) -/
example (n : Nat) : ∃ s : Buf, (∀ c ∈ s, c ≠ NUL) ∧ s.length = n :=
  ⟨List.replicate n 97, by intro c hc; rw [(List.mem_replicate.mp hc).2]; decide, by simp⟩

/-! ## allocatable results -/

/-- `char *` result, allocatable: through the context and ShroudCopyStringAndFree (bufferify) and
    through CFI_allocate (CFI) the value is the C string; NULL gives a zero-length value
    (bufferify) or leaves the result unallocated (CFI). -/
theorem flow_char_result_allocatable (s : Buf) (h0 : ∀ c ∈ s, c ≠ NUL) :
    flowAlloc Gen.c_char_ptr_result_buf_allocatable (some Gen.f_char_ptr_result_buf_allocatable) false
        (.charResult (some s)) = .ok ⟨none, none, s, 0, false⟩ ∧
    flowAlloc Gen.c_char_ptr_result_cfi_allocatable none true (.charResult (some s)) = .ok ⟨none, none, s, 0, true⟩ ∧
    flowAlloc Gen.c_char_ptr_result_buf_allocatable (some Gen.f_char_ptr_result_buf_allocatable) false
        (.charResult none) = .ok ⟨none, none, [], 0, false⟩ ∧
    flowAlloc Gen.c_char_ptr_result_cfi_allocatable none true (.charResult none) = .ok ⟨none, none, [], 0, false⟩ := by
  have hsl := strlen_app s [] h0
  have hcs : copyString (some (s ++ [NUL])) s.length (List.replicate s.length UNINIT) s.length = .ok s := by
    have := allocatable_char_result s [] h0
    simpa [charResultCtx, hsl, allocatableResult] using this
  have hm : memcpy (List.replicate s.length UNINIT) 0 (s ++ [NUL]) 0 s.length = .ok s := by
    rw [memcpy_ok _ 0 _ 0 _ (by simp) (by simp)]; simp
  refine ⟨?_, ?_, ?_, ?_⟩
  · simp [Gen.c_char_ptr_result_buf_allocatable, Gen.f_char_ptr_result_buf_allocatable, flowAlloc, init, run, step,
      exec, call, finish, active, natLen, hsl, hcs]
  · simp [Gen.c_char_ptr_result_cfi_allocatable, flowAlloc, init, run, step, exec, call, finish, active, natLen,
      hsl, hm]
  · simp [Gen.c_char_ptr_result_buf_allocatable, Gen.f_char_ptr_result_buf_allocatable, flowAlloc, init, run, step,
      exec, call, finish, active, natLen, copyString]
  · simp [Gen.c_char_ptr_result_cfi_allocatable, flowAlloc, init, run, step, exec, call, finish, active, natLen]

/-- `std::string` result, allocatable, through CFI_allocate + memcpy: the value is the string for
    EVERY string (embedded NULs included) -/
theorem flow_string_result_cfi_allocatable (s : Buf) :
    flowAlloc Gen.c_string_ptr_result_cfi_allocatable none true (.strResult s) = .ok ⟨none, none, s, 0, true⟩ ∧
    flowAlloc Gen.c_string_scalar_result_cfi_allocatable none true (.strResult s) = .ok ⟨none, none, s, 0, true⟩ := by
  have hm : memcpy (List.replicate s.length UNINIT) 0 (s ++ [NUL]) 0 s.length = .ok s := by
    rw [memcpy_ok _ 0 _ 0 _ (by simp) (by simp)]; simp
  constructor
  · simp [Gen.c_string_ptr_result_cfi_allocatable, flowAlloc, init, run, step, exec, call, finish, active, natLen, hm]
  · simp [Gen.c_string_scalar_result_cfi_allocatable, flowAlloc, init, run, step, exec, call, finish, active, natLen, hm]

/-- `std::string` result, allocatable, bufferify path (ShroudStrToArray + copy_string), strings
    without NUL.  `_partial`: with an embedded NUL the value is zero-filled after it
    (`allocatable_string_embedded_nul_false`); the length is right for every string
    (`allocatable_string_length`). -/
theorem flow_string_result_buf_allocatable_partial (s : Buf) (h0 : ∀ c ∈ s, c ≠ NUL) :
    flowAlloc Gen.c_string_ptr_result_buf_allocatable (some Gen.f_string_ptr_result_buf_allocatable) false
      (.strResult s) = .ok ⟨none, none, s, 0, false⟩ := by
  have := allocatable_string_result_partial s h0
  simp only [allocatableResult] at this
  simp [Gen.c_string_ptr_result_buf_allocatable, Gen.f_string_ptr_result_buf_allocatable, flowAlloc, init, run, step,
    exec, call, finish, active, this]

/-! ## arrays -/

/-- `char **` intent(in), `CHARACTER(len) a(size)`: element `i` reaches C as the NUL-terminated
    `rtrim` of slice `i`; every block is released afterwards. -/
theorem flow_char_pp_in (slices : List Buf) (len : Nat) (h : ∀ s ∈ slices, s.length = len)
    (h0 : ∀ s ∈ slices, ∀ c ∈ s, c ≠ NUL) :
    flowArr Gen.c_char_pp_in_buf false false slices.flatten slices.length len .arrIn
      = .ok ⟨none, some (slices.map rtrim), slices.flatten, 0, false⟩ := by
  have ha := strArrayAlloc_spec slices len [] h
  simp only [List.append_nil] at ha
  have hfree : strArrayFree (slices.map fun s => rtrim s ++ [NUL]) slices.length = .ok [] := by
    simp [strArrayFree]
  have hcs : (slices.map fun s => rtrim s ++ [NUL]).map cstr = slices.map rtrim := by
    rw [List.map_map]
    apply List.map_congr_left
    intro s hs
    exact (in_cstr_no_nul s [] (h0 s hs)).1
  simp [Gen.c_char_pp_in_buf, flowArr, init, run, step, exec, call, finish, active, natLen, ha, hfree, hcs]

/-- `std::vector<std::string>` intent(in): the vector holds `rtrim` of every array element -/
theorem flow_vector_in (slices : List Buf) (len : Nat) (h : ∀ s ∈ slices, s.length = len) :
    flowArr Gen.c_vector_in_buf_string false false slices.flatten slices.length len .vecIn
      = .ok ⟨none, some (slices.map rtrim), slices.flatten, 0, false⟩ := by
  have hv := vecStringIn_spec slices len [] h
  simp only [List.append_nil] at hv
  simp [Gen.c_vector_in_buf_string, flowArr, init, run, step, exec, call, finish, active, natLen, hv]

/-- intent(out): the first `min(size, v.size())` elements are the returned texts truncated or
    blank-padded to `len`, the others are not touched -/
theorem flow_vector_out (slices : List Buf) (len : Nat) (vs : List (List Nat))
    (h : ∀ s ∈ slices, s.length = len) (h32 : ∀ v ∈ vs, v.length < 2147483648) :
    flowArr Gen.c_vector_out_buf_string false false slices.flatten slices.length len (.vecOut vs)
      = .ok ⟨none, none, (mergeOut len slices vs).flatten, 0, false⟩ := by
  have hv := vecStringOut_spec slices len [] vs h h32
  simp only [List.append_nil] at hv
  simp [Gen.c_vector_out_buf_string, flowArr, init, run, step, exec, call, finish, active, natLen, hv]

/-- intent(inout): both -/
theorem flow_vector_inout (slices : List Buf) (len : Nat) (vs : List (List Nat))
    (h : ∀ s ∈ slices, s.length = len) (h32 : ∀ v ∈ vs, v.length < 2147483648) :
    flowArr Gen.c_vector_inout_buf_string false false slices.flatten slices.length len (.vecInout vs)
      = .ok ⟨none, some (slices.map rtrim), (mergeOut len slices vs).flatten, 0, false⟩ := by
  have hi := vecStringIn_spec slices len [] h
  have hv := vecStringOut_spec slices len [] vs h h32
  simp only [List.append_nil] at hi hv
  simp [Gen.c_vector_inout_buf_string, flowArr, init, run, step, exec, call, finish, active, natLen, hi, hv]

example : flowArr Gen.c_vector_inout_buf_string false false [97, 32, 32, 32] 2 2 (.vecInout [[], [97, 97, 97]])
    = .ok ⟨none, some [[97], []], [32, 32, 97, 97], 0, false⟩ := by decide

/-! ## ShroudCopyStringAndFree: copy, then release -/

/-- the regenerated helper body fetches, clamps, copies and only then releases: for every input
    it behaves as the data part `copyString` and calls the destructor exactly once, whether or not
    the wrapper owns the storage -/
theorem copyString_order (cxx : Option Buf) (owned : Bool) (elemLen : Nat) (cvar : Buf) (cvarLen : Nat) :
    copyStringRun Gen.copyStringSteps cxx owned elemLen cvar cvarLen
      = (copyString cxx elemLen cvar cvarLen).map fun d => (d, 1) := by
  simp only [Gen.copyStringSteps, copyStringRun, csRun, csStep, copyString, Res.ok_bind]
  by_cases hn : (if elemLen < cvarLen then elemLen else cvarLen) > 0
  · cases cxx with
    | none => simp [hn]
    | some b =>
      cases h : strncpy cvar b 0 (if elemLen < cvarLen then elemLen else cvarLen) <;>
        simp [hn, h, csRun, csStep]
  · simp [hn, csRun, csStep]

/-- a `std::string` returned by value (owned by the capsule, no NUL inside) arrives complete in the
    allocatable result and is released once -/
theorem allocatable_owned_string (s : List Nat) (h0 : ∀ c ∈ s, c ≠ NUL) :
    copyStringRun Gen.copyStringSteps (strToArray s).1 true (strToArray s).2
        (List.replicate (strToArray s).2 UNINIT) (strToArray s).2 = .ok (s, 1) := by
  have := allocatable_string_result_partial s h0
  simp only [allocatableResult] at this
  rw [copyString_order, this]; rfl

example : copyStringRun Gen.copyStringSteps (some [97, 98, 0]) true 2 [120, 120] 2 = .ok ([97, 98], 1) := by decide

/-- witness that the order matters: with the release moved before the copy, every non-empty
    result the wrapper owns is read after it was freed ... -/
theorem release_before_copy_uaf (b cvar : Buf) (elemLen cvarLen : Nat) (h : 0 < elemLen) (h' : 0 < cvarLen) :
    copyStringRun [.fetchPtr, .initN, .clampN, .release, .copy] (some b) true elemLen cvar cvarLen = .oob := by
  have hn : (if elemLen < cvarLen then elemLen else cvarLen) > 0 := by split <;> omega
  simp [copyStringRun, csRun, csStep, hn]

/-- ... while library-owned results (destructor index 0) do not notice -/
theorem release_before_copy_unowned (cxx : Option Buf) (cvar : Buf) (elemLen cvarLen : Nat) :
    copyStringRun [.fetchPtr, .initN, .clampN, .release, .copy] cxx false elemLen cvar cvarLen
      = copyStringRun Gen.copyStringSteps cxx false elemLen cvar cvarLen := by
  simp only [Gen.copyStringSteps, copyStringRun, csRun, csStep, Res.ok_bind]
  by_cases hn : (if elemLen < cvarLen then elemLen else cvarLen) > 0
  · cases cxx with
    | none => simp [hn]
    | some b =>
      cases h : strncpy cvar b 0 (if elemLen < cvarLen then elemLen else cvarLen) <;>
        simp [hn, h, csRun, csStep]
  · simp [hn, csRun, csStep]

example : copyStringRun [.fetchPtr, .initN, .clampN, .release, .copy] (some [97, 0]) true 1 [120] 1 = .oob := by decide

/-! ## assembly order of the C wrapper body and user `final:` clauses -/

/-- the order observed on the output of `Wrapc.wrap_function`: copy-out before the user's final
    clause, the `return` last -/
theorem wrapOrder_eq : Gen.wrapOrder = [.preCall, .call, .postCall, .final, .ret] := by decide

/-- for EVERY regenerated entry: in the assembled body no template line reads the storage of the
    result after a user `final:` clause released it -/
theorem reads_precede_final :
    ∀ p ∈ Gen.entries, noReadAfterRelease (linearize p.2 [.userRelease] Gen.wrapOrder) = true := by decide

/-- the idiom `fstatements: c_buf: final: delete {cxx_var};` on a `const std::string *` result
    copied into `character(len=L)` (and its CFI variant): the text is copied out first, then the
    string is released, once -/
theorem flow_string_result_final_delete (t s : Buf) (h32 : s.length < 2147483648) :
    flowWith Gen.wrapOrder Gen.c_string_ptr_result_buf [.userRelease] false false t (.strResult s)
      = .ok (⟨none, none, fassign t.length s, 0, false⟩, 1) ∧
    flowWith Gen.wrapOrder Gen.c_string_ptr_result_cfi [.userRelease] true false t (.strResult s)
      = .ok (⟨none, none, fassign t.length s, 0, false⟩, 1) := by
  have hc := strCopy_std t s h32
  have hn := strCopy_null t [] 0
  simp only [List.append_nil] at hn
  cases s with
  | nil =>
    constructor
    · simp [Gen.wrapOrder, Gen.c_string_ptr_result_buf, flowWith, runGroups, init, run, step, exec, call, finish, active,
        natLen, needCvar, hn, fassign]
    · simp [Gen.wrapOrder, Gen.c_string_ptr_result_cfi, flowWith, runGroups, init, run, step, exec, call, finish, active,
        natLen, needCvar, hn, fassign]
  | cons x xs =>
    constructor
    · simp [Gen.wrapOrder, Gen.c_string_ptr_result_buf, flowWith, runGroups, init, run, step, exec, call, finish, active,
        natLen, needCvar, hc]
    · simp [Gen.wrapOrder, Gen.c_string_ptr_result_cfi, flowWith, runGroups, init, run, step, exec, call, finish, active,
        natLen, needCvar, hc]

/-- the same for a `const char *` result released with `free` -/
theorem flow_char_result_final_free (t s : Buf) (h0 : ∀ c ∈ s, c ≠ NUL) (h32 : s.length < 2147483648) :
    flowWith Gen.wrapOrder Gen.c_char_ptr_result_buf [.userRelease] false false t (.charResult (some s))
      = .ok (⟨none, none, fassign t.length s, 0, false⟩, 1) := by
  have hc := strCopy_cstring t [] s [] h0 h32
  simp only [List.append_nil] at hc
  simp [Gen.wrapOrder, Gen.c_char_ptr_result_buf, flowWith, runGroups, init, run, step, exec, call, finish, active,
    natLen, needCvar, hc]

example : flowWith Gen.wrapOrder Gen.c_string_ptr_result_buf [.userRelease] false false [120, 120, 120] (.strResult [97])
    = .ok (⟨none, none, [97, 32, 32], 0, false⟩, 1) := by decide

/-- witness that the order matters: with the final clause assembled before the copy-out, every
    result is read after its release, whatever the variable and the text -/
theorem final_before_post_uaf (t s : Buf) :
    flowWith [.preCall, .call, .final, .postCall, .ret] Gen.c_string_ptr_result_buf [.userRelease] false false t
      (.strResult s) = .oob := by
  simp [Gen.c_string_ptr_result_buf, flowWith, runGroups, init, run, step, exec, call, active]

example : noReadAfterRelease (linearize Gen.c_string_ptr_result_buf [.userRelease] [.preCall, .call, .final, .postCall, .ret])
    = false := by decide

end Shroud.StrStmts
