import ShroudVerif.Props.C02

/-!
# C02, second part: `language: c` libraries, `C_error_pattern`, `deref(scalar)`, enum pointer results

Over `Model/WrapC.lean` section (d) and the regenerated `Gen/CStmts.lean` (`entriesC`: the statement
table as configured for a C library).

* body order: where the `C_error_pattern` block sits in the generated body, for every wrapper;
* its effect on the result side for every result kind (fires: early return, post_call not run; silent:
  as without a pattern), and which variable it reads;
* `deref(scalar)` results, enum results behind a pointer / reference (after fix 0e96fba);
* C libraries: every reached entry of the c table is an identity plan (no local, no cast, no capsule),
  the wrapper - when one is needed at all - is transparent, and when none is needed the C name is the
  library function itself.
-/
namespace Shroud.WrapC
open Shroud.Gen.CStmts

/-! ## body order -/

theorem argPres_before : ∀ (ps : List ArgPlan) (i : Nat), (argPres ps i).all BodyOp.isBefore = true := by
  intro ps
  induction ps with
  | nil => intro i; rfl
  | cons p ps ih =>
    intro i
    simp only [argPres, List.all_append, ih, Bool.and_true]
    simp [List.all_map, Function.comp_def, BodyOp.isBefore]

theorem argPosts_after : ∀ (ps : List ArgPlan) (i : Nat), (argPosts ps i).all BodyOp.isAfter = true := by
  intro ps
  induction ps with
  | nil => intro i; rfl
  | cons p ps ih =>
    intro i
    simp only [argPosts, List.all_append, ih, Bool.and_true]
    simp [List.all_map, Function.comp_def, BodyOp.isAfter]

theorem convOps_after (p : ResPlan) : (convOps p).all BodyOp.isAfter = true := by
  unfold convOps; split <;> simp [BodyOp.isAfter]

theorem retOps_after (p : ResPlan) : (retOps p).all BodyOp.isAfter = true := by
  unfold retOps; split <;> simp [BodyOp.isAfter]

/-- statements placed before the call clause -/
def bodyBefore (w : Wrapper) (resE : Entry) : List BodyOp :=
  argPres w.args 0 ++ resE.pre.map (fun l => BodyOp.resPre l.1)

/-- statements placed after the error block -/
def bodyAfter (w : Wrapper) (resE : Entry) : List BodyOp :=
  (argPosts w.args 0 ++ resE.post.map (fun l => BodyOp.resPost l.1)) ++ (convOps w.res ++ retOps w.res)

theorem bodyBefore_all (w : Wrapper) (resE : Entry) : (bodyBefore w resE).all BodyOp.isBefore = true := by
  simp only [bodyBefore, List.all_append, argPres_before, Bool.true_and]
  simp [List.all_map, Function.comp_def, BodyOp.isBefore]

theorem bodyAfter_all (w : Wrapper) (resE : Entry) : (bodyAfter w resE).all BodyOp.isAfter = true := by
  simp only [bodyAfter, List.all_append, argPosts_after, convOps_after, retOps_after, Bool.true_and, Bool.and_true]
  simp [List.all_map, Function.comp_def, BodyOp.isAfter]

/-- **where the `C_error_pattern` block sits**, for EVERY wrapper (any argument list, any result plan,
    any result entry): immediately after the call clause; everything in front of the call is an argument
    conversion / pre_call declaration, everything behind the block is post_call, the `cxx_to_c`
    conversion or the return statement. -/
theorem error_pattern_position (w : Wrapper) (resE : Entry) (sc : PatScope) :
    bodyOf w resE (some sc) =
      bodyBefore w resE ++ [.call w.res.call, .errorPattern sc] ++ bodyAfter w resE ∧
    (bodyBefore w resE).all BodyOp.isBefore = true ∧ (bodyAfter w resE).all BodyOp.isAfter = true := by
  refine ⟨?_, bodyBefore_all w resE, bodyAfter_all w resE⟩
  simp [bodyOf, bodyBefore, bodyAfter, patOps, List.append_assoc]

theorem filter_pattern_of_before : ∀ (l : List BodyOp), l.all BodyOp.isBefore = true →
    l.filter BodyOp.isPattern = [] ∧ l.filter (fun o => !o.isPattern) = l := by
  intro l
  induction l with
  | nil => intro _; simp
  | cons o l ih =>
    intro h
    simp only [List.all_cons, Bool.and_eq_true] at h
    obtain ⟨h1, h2⟩ := h
    have := ih h2
    cases o <;> simp_all [BodyOp.isBefore, BodyOp.isPattern]

theorem filter_pattern_of_after : ∀ (l : List BodyOp), l.all BodyOp.isAfter = true →
    l.filter BodyOp.isPattern = [] ∧ l.filter (fun o => !o.isPattern) = l := by
  intro l
  induction l with
  | nil => intro _; simp
  | cons o l ih =>
    intro h
    simp only [List.all_cons, Bool.and_eq_true] at h
    obtain ⟨h1, h2⟩ := h
    have := ih h2
    cases o <;> simp_all [BodyOp.isAfter, BodyOp.isPattern]

/-- the block occurs exactly once, and removing it gives the body generated without a pattern -/
theorem error_pattern_once (w : Wrapper) (resE : Entry) (sc : PatScope) :
    (bodyOf w resE (some sc)).filter BodyOp.isPattern = [.errorPattern sc] ∧
    (bodyOf w resE (some sc)).filter (fun o => !o.isPattern) = bodyOf w resE none := by
  obtain ⟨h0, hb, ha⟩ := error_pattern_position w resE sc
  obtain ⟨b1, b2⟩ := filter_pattern_of_before _ hb
  obtain ⟨a1, a2⟩ := filter_pattern_of_after _ ha
  have hn : bodyOf w resE none = bodyBefore w resE ++ [.call w.res.call] ++ bodyAfter w resE := by
    simp [bodyOf, bodyBefore, bodyAfter, patOps, List.append_assoc]
  constructor
  · rw [h0, List.filter_append, List.filter_append, b1, a1]
    simp [List.filter, BodyOp.isPattern]
  · rw [h0, hn, List.filter_append, List.filter_append, b2, a2]
    simp [List.filter, BodyOp.isPattern]

/-- no call clause and no return statement on the wrong side of the block -/
theorem error_pattern_after_call_before_return (w : Wrapper) (resE : Entry) (sc : PatScope) :
    ∃ before after, bodyOf w resE (some sc) = before ++ [.call w.res.call, .errorPattern sc] ++ after ∧
      (∀ o ∈ before, o.isCall = false ∧ o.isAfter = false) ∧ (∀ o ∈ after, o.isCall = false ∧ o.isBefore = false) := by
  obtain ⟨h0, hb, ha⟩ := error_pattern_position w resE sc
  refine ⟨_, _, h0, ?_, ?_⟩
  · intro o ho
    have := List.all_eq_true.mp hb o ho
    cases o <;> simp_all [BodyOp.isBefore, BodyOp.isCall, BodyOp.isAfter]
  · intro o ho
    have := List.all_eq_true.mp ha o ho
    cases o <;> simp_all [BodyOp.isBefore, BodyOp.isCall, BodyOp.isAfter]

/-! ## scope of the pattern -/

theorem findResultArg_descOf : ∀ (ps : List Param) (i : Nat), findResultArg (ps.map descOf) i = none := by
  intro ps
  induction ps with
  | nil => intro i; rfl
  | cons p ps ih => intro i; simp [findResultArg, ih, descOf]

/-- a function's pattern is expanded in the scope of its result (`{cxx_var}` = the variable that holds
    what the C++ call returned), a subroutine's in the function scope -/
theorem pattern_scope (k : RKind) (m s c : Bool) (ps : List Param) :
    patScope (funcOf k m s c ps) = if k = .void ∨ k = .dtor then .func else .result := by
  simp only [patScope, funcOf, findResultArg_descOf]
  cases k <;> simp

/-! ## effect of the error block on the result side, for every result kind -/

def RKind.returnsValue (k : RKind) : Bool := !(k = .void || k = .dtor)

/-- the block reads the C++ result BEFORE the `cxx_to_c` conversion (the enum, not its int form; the
    `std::string`, not its characters), and for by-value class results / constructors the new object -/
theorem error_pattern_reads_cxx_result (k : RKind) (m s c : Bool) (ps : List Param) (r : CxxRet) (fresh : Nat)
    (hk : k.returnsValue = true) :
    patVar (resPlanOf k m s c ps) r fresh =
      if k = .shadowVal ∨ k = .ctor then .value (.ptr (.heap fresh)) else cxxDen r := by
  rw [table_res_shapes]
  cases k <;> simp_all [patVar, docRes, RKind.returnsValue]

/-- the block does not fire: the caller gets exactly what it gets without a pattern -/
theorem error_pattern_silent (h : Heap) (k : RKind) (m s c : Bool) (ps : List Param) (r : CxxRet)
    (tail fresh idtor : Nat) (g : Pattern) (hr : retTyped k r)
    (hg : g (patVar (resPlanOf k m s c ps) r fresh) = none) :
    runResultP h (resPlanOf k m s c ps) (some g) k.isPtr r (some tail) fresh idtor = expectedRes k r tail fresh idtor := by
  simp only [runResultP, hg]
  exact result_equivalence h k m s c ps r tail fresh idtor hr

/-- the block fires with `return v;`: the caller gets `v`; post_call did not run, so the handle passed
    for a class result is untouched - except for a constructor, whose call clause had already filled it -/
theorem error_pattern_fires (h : Heap) (k : RKind) (m s c : Bool) (ps : List Param) (r : CxxRet)
    (tail fresh idtor : Nat) (g : Pattern) (v : Val) (hk : k.returnsValue = true)
    (hg : g (patVar (resPlanOf k m s c ps) r fresh) = some v) :
    runResultP h (resPlanOf k m s c ps) (some g) k.isPtr r (some tail) fresh idtor =
      ⟨some v, if k = .ctor then some (tail, .capsule (some fresh) idtor) else none⟩ := by
  simp only [runResultP, hg]
  rw [table_res_shapes]
  cases k <;> simp_all [docRes, RKind.returnsValue]

/-- non-vacuity: a NULL check on a class pointer result -/
example :
    let g : Pattern := fun d => if d = .value .null then some .null else none
    runResultP (fun _ => .undef) (resPlanOf .shadowPtr true false false []) (some g) true (.ptr none) (some 3) 0 0
      = ⟨some .null, none⟩ ∧
    runResultP (fun _ => .undef) (resPlanOf .shadowPtr true false false []) (some g) true (.ptr (some 8)) (some 3) 0 0
      = ⟨some (.ptr (.heap 3)), some (3, .capsule (some 8) 0)⟩ := by decide +kernel

/-! ## `deref(scalar)` -/

def funcOfD (k : RKind) (ps : List Param) : FuncDesc := { funcOf k false false false ps with derefScalar := true }

def resPlanD (l : Lang) (tbl : List Entry) (k : RKind) (ps : List Param) : ResPlan :=
  assembleResL l (funcOfD k ps) (selectEntry tbl tree ((funcOfD k ps).resKey vocab)) false

/-- table theorem: a native pointer result with `deref(scalar)` is assigned and returned as `*{cxx_var}`,
    in a C++ and in a C library -/
theorem table_deref_scalar (ps : List Param) :
    resPlanD .cxx entries .nativePtr ps = ⟨.assign, .none, false, false, false, .derefCxx, []⟩ ∧
    resPlanD .c entriesC .nativePtr ps = ⟨.assign, .none, false, false, false, .derefCxx, []⟩ := by
  have e1 : resPlanD .cxx entries .nativePtr ps = resPlanD .cxx entries .nativePtr [] := rfl
  have e2 : resPlanD .c entriesC .nativePtr ps = resPlanD .c entriesC .nativePtr [] := rfl
  rw [e1, e2]
  decide +kernel

/-- **deref(scalar)**: the C caller receives the pointee of the pointer the C++ function returned -/
theorem deref_scalar_result (h : Heap) (l : Lang) (ps : List Param) (a tail fresh idtor : Nat) :
    runResultD h (resPlanD l (if l = .c then entriesC else entries) .nativePtr ps) true (.ptr (some a)) (some tail) fresh idtor
      = ⟨some (h a), none⟩ := by
  cases l
  · simp [(table_deref_scalar ps).2, runResultD, runDerefScalar]
  · simp [(table_deref_scalar ps).1, runResultD, runDerefScalar]

/-- the generated wrapper dereferences without a check: a null result is undefined behaviour (model of
    the code as it is) -/
theorem deref_scalar_null_undefined (h : Heap) (ps : List Param) (tail fresh idtor : Nat) :
    runResultD h (resPlanD .cxx entries .nativePtr ps) true (.ptr none) (some tail) fresh idtor = ⟨some .undef, none⟩ := by
  simp [(table_deref_scalar ps).1, runResultD, runDerefScalar]

/-! ## enum results behind a pointer / reference -/

def enumResDesc (isRef : Bool) : ArgDesc :=
  { sgroup := p_native, spointer := if isRef then p_ref else p_ptr, intent := p_result, suffix := 0, extra := [],
    isPtr := !isRef, isRef := isRef, valueAttr := false, conv := 1, isResult := false, isEnum := true }

def enumFunc (isRef : Bool) (ps : List Param) : FuncDesc :=
  { funcOf .nativePtr false false false ps with res := enumResDesc isRef }

def enumResPlan (isRef : Bool) (ps : List Param) : ResPlan :=
  assembleResL .cxx (enumFunc isRef ps) (selectEntry entries tree ((enumFunc isRef ps).resKey vocab)) false

/-- table theorem (after 0e96fba): converted as a pointer, returned without prefix -/
theorem table_enum_indirect_result (isRef : Bool) (ps : List Param) :
    enumResPlan isRef ps = ⟨.assign, convEnumPtr, false, false, false, .cvar 0, []⟩ := by
  have e : enumResPlan isRef ps = enumResPlan isRef [] := rfl
  rw [e]
  cases isRef <;> decide +kernel

/-- **enum pointer / reference result**: the C caller receives the address of the very enum object the
    C++ function returned (as `int *`), NULL for a null pointer -/
theorem enum_indirect_result (h : Heap) (ps : List Param) (a : Option Nat) (o tail fresh idtor : Nat) :
    runResultE h (enumResPlan false ps) true (.ptr a) (some tail) fresh idtor = ⟨some (optPtr a), none⟩ ∧
    runResultE h (enumResPlan true ps) false (.ref o) (some tail) fresh idtor = ⟨some (.ptr (.heap o)), none⟩ := by
  rw [table_enum_indirect_result, table_enum_indirect_result]
  cases a <;> simp [runResultE, enumPtrDen, cxxDen, applyPrefix, optPtr, convEnumPtr]

/-- witness about the code before 0e96fba: it applied the by-value conversion `static_cast<int>(p)` to
    the pointer (and returned `&c_var` for a reference); that plan is ill-typed (did not compile) -/
theorem enum_indirect_result_old_code_ill_typed (h : Heap) (a : Option Nat) (o tail fresh idtor : Nat) :
    runResult h (assembleRes (enumFunc false []) Entry.default false) true (.ptr a) (some tail) fresh idtor = ⟨some .undef, none⟩ ∧
    runResult h (assembleRes (enumFunc true []) Entry.default false) false (.ref o) (some tail) fresh idtor = ⟨some .undef, none⟩ := by
  constructor
  · cases a <;> simp [runResult, assembleRes, enumFunc, enumResDesc, funcOf, resConvOf, returnPrefix, Entry.default,
      applyConv, cxxDen, applyPrefix, optPtr, hasOp]
  · simp [runResult, assembleRes, enumFunc, enumResDesc, funcOf, resConvOf, returnPrefix, Entry.default,
      applyConv, cxxDen, applyPrefix, hasOp]

/-! ## `language: c` libraries -/

/-- declarations a C library can contain (no references, no std::string, no classes) -/
def Param.validC (p : Param) : Bool :=
  p.valid && (p.mode = .value || p.mode = .pointer) && !(p.ty = .string) && !(p.ty = .shadow)

def RKind.isC : RKind → Bool
  | .void | .nativeVal | .nativePtr | .boolVal | .enumVal | .cstr | .structVal | .structPtr => true
  | _ => false

def planOfC (p : Param) : ArgPlan :=
  assembleArgL .c (descOf p) (selectEntry entriesC tree ((descOf p).key vocab))

/-- identity plan: the parameter is declared as the library declares it (`char` and `char **`/`void **`
    through the entry's own c_arg_decl line), nothing is declared before the call, the C variable itself
    is passed, nothing is done after the call -/
def docPlanC (p : Param) : ArgPlan :=
  if p.ty = .enum && p.mode = .pointer then ⟨[.arg], [.structCast false], some (.plain .cxx), []⟩ else
  ⟨[if (p.ty = .chr && p.mode = .value) || (p.inner && p.intent = .in_ && p.mode = .pointer)
      then .argDecl 1 else .arg], [], some (.plain .c), []⟩

/-- **table theorem for the c table (regenerated)**: every entry a C declaration reaches is an identity
    plan: no C++ local, no cast, no capsule, no copy back; and it adds no reason for a wrapper -/
theorem c_table_arg_shapes : ∀ p : Param, p.validC = true →
    planOfC p = docPlanC p ∧
    entryNeeds (selectEntry entriesC tree ((descOf p).key vocab)).bufArgs (selectEntry entriesC tree ((descOf p).key vocab)) = false := by
  have h : (allParams.all fun p => !p.validC || (planOfC p == docPlanC p &&
      !entryNeeds (selectEntry entriesC tree ((descOf p).key vocab)).bufArgs (selectEntry entriesC tree ((descOf p).key vocab)))) = true := by
    decide +kernel
  intro p hp
  have := List.all_eq_true.mp h p (mem_allParams p)
  simpa [hp] using this

/-- **identity conversion**: through the wrapper of a C library the callee receives the C value itself,
    for every declaration and every value the caller can form (it cannot name the wrapper's own local);
    nothing is converted - a pointer to an enum is only cast to the library's pointer type (fix d89e330) -/
theorem c_arg_identity (h : Heap) (p : Param) (c : Val) (hv : p.validC = true) (hc : c ≠ .ptr .loc) :
    runArg h p.mode (planOfC p) c = some (directArg h p.mode c) := by
  rw [(c_table_arg_shapes p hv).1]
  by_cases he : (p.ty = .enum && p.mode = .pointer) = true
  · have hm : p.mode = .pointer := by simp at he; exact he.2
    have ht : p.ty = .enum := by simp at he; exact he.1
    have hd : docPlanC p = ⟨[.arg], [.structCast false], some (.plain .cxx), []⟩ := by simp [docPlanC, ht, hm]
    rw [hd, hm]
    cases c <;> try (simp [runArg, directArg, runPre, evalRhs, evalCall, resolve, Env.get])
    rename_i a
    cases a <;> simp_all [runArg, directArg, runPre, evalRhs, evalCall, resolve, Env.get]
  · simp [docPlanC, he, runArg, directArg, runPre]

theorem c_args_identity (h : Heap) : ∀ (ps : List Param) (cs : List Val), (∀ p ∈ ps, p.validC = true) →
    (∀ c ∈ cs, c ≠ .ptr .loc) →
    runArgs h (ps.map (·.mode)) (ps.map planOfC) cs = directArgs h (ps.map (·.mode)) cs := by
  intro ps
  induction ps with
  | nil => intro cs _ _; cases cs <;> rfl
  | cons p ps ih =>
    intro cs hv hcs
    cases cs with
    | nil => rfl
    | cons c cs =>
      have h1 := c_arg_identity h p c (hv p (by simp)) (hcs c (by simp))
      have h2 := ih cs (fun q hq => hv q (by simp [hq])) (fun q hq => hcs q (by simp [hq]))
      simp only [List.map_cons, runArgs, h1, directArgs, h2]

def resPlanC (k : RKind) (ps : List Param) : ResPlan :=
  let f := funcOf k false false false ps
  assembleResL .c f (selectEntry entriesC tree (f.resKey vocab)) false

def docResC (k : RKind) : ResPlan :=
  if k = .void then ⟨.plain, .none, false, false, false, .none, []⟩
  else ⟨.assign, .none, false, false, false, .cvar 0, []⟩

/-- **table theorem, results of a C library**: assigned and returned as they are: no `cxx_to_c`
    conversion (an enum is already an int), no struct cast, no prefix, no extra parameter; and the
    result entry adds no reason for a wrapper -/
theorem c_table_res_shapes (k : RKind) (ps : List Param) (hk : k.isC = true) :
    resPlanC k ps = docResC k ∧
    (let e := selectEntry entriesC tree ((funcOf k false false false ps).resKey vocab)
     entryNeeds e.bufArgs e = false ∧ entryNeeds e.bufExtra e = false ∧ e.pre = [] ∧ e.post = []) := by
  have e : resPlanC k ps = resPlanC k [] := by cases k <;> rfl
  have e2 : (funcOf k false false false ps).resKey vocab = (funcOf k false false false []).resKey vocab := by
    cases k <;> rfl
  rw [e, e2]
  cases k <;> first | (simp [RKind.isC] at hk; done) | decide +kernel

/-- C has no references: the library function returns nothing, a value or a pointer -/
def retTypedC (k : RKind) (r : CxxRet) : Prop :=
  if k = .void then r = .void else (∃ v, r = .val v) ∨ (∃ a, r = .ptr a)

theorem c_result_identity (h : Heap) (k : RKind) (ps : List Param) (r : CxxRet) (tail : Option Nat) (fresh idtor : Nat)
    (hk : k.isC = true) (hr : retTypedC k r) :
    runResult h (resPlanC k ps) k.isPtr r tail fresh idtor = ⟨directRet r, none⟩ := by
  rw [(c_table_res_shapes k ps hk).1]
  unfold retTypedC at hr
  by_cases hv : k = .void
  · subst hv; simp at hr; subst hr; simp [docResC, runResult, directRet]
  · simp only [hv, if_false] at hr
    rcases hr with ⟨v, rfl⟩ | ⟨a, rfl⟩
    · simp [docResC, hv, runResult, directRet, cxxDen, applyConv, applyPrefix]
    · simp [docResC, hv, runResult, directRet, cxxDen, applyConv, applyPrefix]

theorem assembleCL_c (k : RKind) (ps : List Param) :
    assembleCL .c vocab entriesC tree (funcOf k false false false ps) =
      ⟨if k = .dtor then some ⟨false⟩ else none, ps.map planOfC, resPlanC k ps⟩ := by
  have h1 : ((funcOf k false false false ps).args.any (·.isResult)) = false := any_isResult_descOf ps
  simp only [assembleCL, resPlanC, h1]
  cases k <;> simp [thisPlan, funcOf, planOfC, List.map_map, Function.comp_def]

/-- **when a C library function gets a wrapper**: only when the user forces one, names an error
    pattern, or supplies a splicer; otherwise the generated C name is the library function itself -/
theorem c_need_wrapper (o : FuncOpts) (k : RKind) (ps : List Param) (hk : k.isC = true)
    (hv : ∀ p ∈ ps, p.validC = true) :
    needWrapperOf .c o vocab entriesC tree (funcOf k false false false ps) =
      (o.forceWrapper || o.hasPattern || o.hasSplicer) := by
  obtain ⟨_, h1, h2, _, _⟩ := c_table_res_shapes k ps hk
  have h3 : ((funcOf k false false false ps).args.map
      (fun d => (d, selectEntry entriesC tree (d.key vocab)))).any
        (fun de => de.1.isResult || entryNeeds de.2.bufArgs de.2) = false := by
    simp only [funcOf, List.map_map, List.any_map, Function.comp_def]
    rw [List.any_eq_false]
    intro p hp
    have := (c_table_arg_shapes p (hv p hp)).2
    have hr : (descOf p).isResult = false := rfl
    simp [this, hr]
  have hm : (funcOf k false false false ps).isMethod = false := by
    cases k <;> simp [RKind.isC] at hk <;> simp [funcOf]
  have hd : (funcOf k false false false ps).derefScalar = false := rfl
  simp only [needWrapperOf, needWrapper] at *
  simp [h1, h2, h3, hm, hd]

/-- **call equivalence for a C library**: whether or not a wrapper is generated, the C caller of the
    generated name reaches the library function with exactly its own argument values in declaration
    order, and receives exactly what the function returns -/
theorem c_call_equivalence (h : Heap) (need : Bool) (k : RKind) (ps : List Param) (cs : List Val) (r : CxxRet)
    (tail : Option Nat) (fresh idtor : Nat) (hk : k.isC = true) (hv : ∀ p ∈ ps, p.validC = true)
    (hcs : ∀ c ∈ cs, c ≠ .ptr .loc) (hr : retTypedC k r) :
    runEntry h need (assembleCL .c vocab entriesC tree (funcOf k false false false ps)) (ps.map (·.mode)) cs
        k.isPtr r tail fresh idtor =
      (⟨none, directArgs h (ps.map (·.mode)) cs⟩, ⟨directRet r, none⟩) := by
  cases need
  · simp [runEntry]
  · have hd : (k = .dtor) = False := by cases k <;> simp [RKind.isC] at hk <;> simp
    simp only [runEntry, if_true, assembleCL_c, hd, if_false, runWrapper, c_args_identity h ps cs hv hcs,
      c_result_identity h k ps r tail fresh idtor hk hr]

/-- non-vacuity: `int f(Pt p, const Pt *q, Color e, char **names)` of a C library, wrapper forced -/
example :
    runEntry (fun _ => .int 4) true
      (assembleCL .c vocab entriesC tree (funcOf .nativeVal false false false
        [⟨.struct, .value, .in_, false⟩, ⟨.struct, .pointer, .in_, false⟩, ⟨.enum, .value, .in_, false⟩,
         ⟨.cstr, .pointer, .in_, true⟩]))
      [.value, .pointer, .value, .pointer] [.blob 1, .ptr (.heap 2), .int 1, .ptr (.heap 5)]
      false (.val (.int 7)) none 0 0
    = (⟨none, [.val (.blob 1), .obj .pointer 2, .val (.int 1), .obj .pointer 5]⟩, ⟨some (.int 7), none⟩) := by
  decide +kernel

/-- in a C++ library the same declarations are NOT identity plans: the struct goes through a pointer
    cast and the enum through `static_cast` (so the c table is really a different table) -/
theorem c_table_differs_from_cxx :
    planOf ⟨.struct, .pointer, .in_, false⟩ ≠ planOfC ⟨.struct, .pointer, .in_, false⟩ ∧
    planOf ⟨.enum, .value, .in_, false⟩ ≠ planOfC ⟨.enum, .value, .in_, false⟩ := by
  decide +kernel

/-- a C++ library always gets a wrapper (name mangling) unless `C_extern_C` is set; `deref(scalar)`
    forces one in a C library too -/
theorem need_wrapper_cxx_and_deref (o : FuncOpts) (f : FuncDesc) (resE : Entry) (argEs : List (ArgDesc × Entry)) :
    (o.externC = false → needWrapper .cxx o f resE argEs = true) ∧
    (f.derefScalar = true → resE.retType = 0 → ∀ l, needWrapper l o f resE argEs = true) := by
  constructor
  · intro h; simp [needWrapper, h]
  · intro h1 h2 l; simp [needWrapper, h1, h2]

/-! ## template-argument components of a statement key -/

theorem lookupGo_append : ∀ (path : List Nat) (t : Tree) (found : Option Nat) (x : Nat),
    lookupGo t found (path ++ [x]) = lookupGo (reach t path) (lookupGo t found path) [x] := by
  intro path
  induction path with
  | nil => intro t found x; simp [reach, lookupGo]
  | cons p ps ih =>
    intro t found x
    by_cases hp : p = 0
    · simp [lookupGo, reach, hp, ih]
    · cases hc : t.child p with
      | none => simp [lookupGo, reach, hp, hc, ih]
      | some t' => simp [lookupGo, reach, hp, hc, ih]

/-- **a key extended by one more component** (the template argument's sgroup appended by
    `lookup_c_statements`, for ANY tree and path): the lookup stands at the node it reached for the
    shorter key; if that node has a child for the component the child's entry - when it carries one -
    replaces the result, otherwise the result of the shorter key is kept -/
theorem lookup_extra_component (t : Tree) (path : List Nat) (x : Nat) (hx : x ≠ 0) :
    lookupStmts t (path ++ [x]) =
      match (reach t path).child x with
      | some t' => pick t' (lookupStmts t path)
      | none => lookupStmts t path := by
  simp only [lookupStmts, lookupGo_append]
  cases hc : (reach t path).child x <;> simp [lookupGo, hx, hc]

/-- no specialised entry for the template argument: the generic entry is used -/
theorem lookup_template_fallback (t : Tree) (path : List Nat) (x : Nat)
    (hc : (reach t path).child x = none) : lookupStmts t (path ++ [x]) = lookupStmts t path := by
  by_cases hx : x = 0
  · subst hx
    simp only [lookupStmts, lookupGo_append]
    simp [lookupGo]
  · rw [lookup_extra_component t path x hx, hc]

/-- a specialised entry exists: it wins over the generic one -/
theorem lookup_template_specialised (t t' : Tree) (path : List Nat) (x e : Nat) (hx : x ≠ 0)
    (hc : (reach t path).child x = some t') (he : t'.entry = some e) :
    lookupStmts t (path ++ [x]) = some e := by
  rw [lookup_extra_component t path x hx, hc]
  simp [pick, he]

/-- non-vacuity on the regenerated tree: the longest key of the table extended by an unknown part -/
example : lookupStmts tree ([p_c, p_string, p_ref, p_in] ++ [p_native]) = lookupStmts tree [p_c, p_string, p_ref, p_in] := by
  decide +kernel

/-! ## `fstatements` overrides -/

/-- values a dictionary can hold for a clause: one code for the scalar clauses, codes for buf_args -/
def wfVal : Clause → ClauseVal → Prop
  | .cxxLocal, v | .cLocal, v | .argDecl, v | .retType, v | .owner, v => ∃ n, v = sc n
  | .bufArgs, v | .bufExtra, v => ∀ x ∈ v, x.2 = []
  | _, _ => True

theorem map_fst_pair : ∀ (v : ClauseVal), (∀ x ∈ v, x.2 = []) → (v.map (·.1)).map (fun n => (n, ([] : List Nat))) = v := by
  intro v
  induction v with
  | nil => intro _; rfl
  | cons a v ih =>
    intro h
    obtain ⟨n, l⟩ := a
    have h1 : l = [] := h (n, l) (by simp)
    subst h1
    simp [ih (fun x hx => h x (by simp [hx]))]

theorem set_get_same (e : Entry) (c : Clause) (v : ClauseVal) (hw : wfVal c v) : (e.set c v).get c = v := by
  cases c <;> simp only [wfVal] at hw <;>
    first
      | (obtain ⟨n, rfl⟩ := hw; simp [Entry.set, Entry.get, sc, unsc])
      | (simp only [Entry.set, Entry.get]; exact map_fst_pair v hw)
      | simp [Entry.set, Entry.get]

theorem set_get_other (e : Entry) (c c' : Clause) (v : ClauseVal) (hne : c ≠ c') : (e.set c v).get c' = e.get c' := by
  cases c <;> cases c' <;> first | (exact absurd rfl hne) | rfl

/-- **an override keeps every clause it does not name** (all dictionaries, all entries) -/
theorem override_keeps : ∀ (ovr : List (Clause × ClauseVal)) (e : Entry) (c : Clause),
    (∀ cv ∈ ovr, cv.1 ≠ c) → (applyOverride ovr e).get c = e.get c := by
  intro ovr
  induction ovr with
  | nil => intro e c _; rfl
  | cons cv ovr ih =>
    intro e c h
    simp only [applyOverride, List.foldl_cons]
    have := ih (e.set cv.1 cv.2) c (fun x hx => h x (by simp [hx]))
    simp only [applyOverride] at this
    rw [this, set_get_other e cv.1 c cv.2 (h cv (by simp))]

/-- **an override replaces exactly the clause it names** by the dictionary's value (the last item of
    that name), whatever the looked-up entry holds and whatever else the dictionary names -/
theorem override_named (pre post : List (Clause × ClauseVal)) (e : Entry) (c : Clause) (v : ClauseVal)
    (hw : wfVal c v) (hp : ∀ cv ∈ post, cv.1 ≠ c) :
    (applyOverride (pre ++ (c, v) :: post) e).get c = v := by
  have h1 : applyOverride (pre ++ (c, v) :: post) e = applyOverride post ((applyOverride pre e).set c v) := by
    simp [applyOverride, List.foldl_append]
  rw [h1, override_keeps post _ c hp, set_get_same _ c v hw]

/-- only a non-empty dictionary in mode "update" is merged -/
theorem local_stmts_modes (ovr : List (Clause × ClauseVal)) (e : Entry) :
    localStmts false true ovr e = e ∧ localStmts true false ovr e = e ∧
    localStmts true true ovr e = applyOverride ovr e := by
  simp [localStmts]

/-- non-vacuity: `fstatements: {c: {ret: [..], return_type: ..}}` over the class result entry keeps its
    post_call (capsule fields) and replaces the return statement -/
example :
    let e := selectEntry entries tree [p_c, p_shadow, p_ptr, p_result, 0]
    let e' := applyOverride [(.ret, [(99, [])]), (.retType, sc 9)] e
    e'.get .post = e.get .post ∧ e'.get .ret = [(99, [])] ∧ e'.get .retType = sc 9 ∧ e.get .ret ≠ [(99, [])] := by
  decide +kernel

end Shroud.WrapC
