import ShroudVerif.Model.BufSelect
/-!
# C10: which functions get the length-carrying wrapper

Theorems over `Model/BufSelect.lean` (the `ftrim_char_in` decision, the `has_buf_arg` loop of
`arg_to_buffer`, the `cfi_args` test of `arg_to_CFI`), for argument lists of every length and in
every order.
-/
namespace Shroud.BufSelect

theorem hasBufStep_true (cfi : Bool) (a : ArgFact) : hasBufStep cfi true a = true := by
  unfold hasBufStep; cases a.sgroup <;> simp <;> split <;> simp

theorem foldl_true (cfi : Bool) (l : List ArgFact) : l.foldl (hasBufStep cfi) true = true := by
  induction l with
  | nil => rfl
  | cons a l ih => simp [List.foldl, hasBufStep_true, ih]

theorem hasBufStep_false (cfi : Bool) (acc : Bool) (a : ArgFact) :
    hasBufStep cfi acc a = (acc || argNeedsBuf cfi a) := by
  cases acc
  · simp [argNeedsBuf]
  · simp [hasBufStep_true]

/-- the flag loop computes "some argument needs the buffer" -/
theorem hasBufArg_eq_any (cfi : Bool) (args : List ArgFact) :
    hasBufArg cfi args = args.any (argNeedsBuf cfi) := by
  unfold hasBufArg
  induction args with
  | nil => rfl
  | cons a l ih =>
    simp only [List.foldl, List.any_cons]
    cases h : argNeedsBuf cfi a
    · have : hasBufStep cfi false a = false := h
      rw [this, ih]; simp
    · have : hasBufStep cfi false a = true := h
      rw [this, foldl_true]; simp

/-- any argument that needs the buffer, anywhere in the list, forces the clone -/
theorem needsBuffer_of_mem (cfi : Bool) (r : ResFact) (args : List ArgFact) (a : ArgFact) (ha : a ∈ args)
    (hn : argNeedsBuf cfi a = true) : needsBuffer cfi r args = true := by
  have : hasBufArg cfi args = true := by
    rw [hasBufArg_eq_any, List.any_eq_true]; exact ⟨a, ha, hn⟩
  simp [needsBuffer, this]

/-- the decision does not depend on the order of the arguments -/
theorem needsBuffer_perm (cfi : Bool) (r : ResFact) (l₁ l₂ : List ArgFact) (h : l₁.Perm l₂) :
    needsBuffer cfi r l₁ = needsBuffer cfi r l₂ ∧ clone cfi r l₁ = clone cfi r l₂ := by
  have hb : hasBufArg cfi l₁ = hasBufArg cfi l₂ := by
    rw [hasBufArg_eq_any, hasBufArg_eq_any, Bool.eq_iff_iff, List.any_eq_true, List.any_eq_true]
    exact ⟨fun ⟨a, ha, hn⟩ => ⟨a, h.mem_iff.mp ha, hn⟩, fun ⟨a, ha, hn⟩ => ⟨a, h.mem_iff.mpr ha, hn⟩⟩
  have hc : l₁.any cfiArg = l₂.any cfiArg := by
    rw [Bool.eq_iff_iff, List.any_eq_true, List.any_eq_true]
    exact ⟨fun ⟨a, ha, hn⟩ => ⟨a, h.mem_iff.mp ha, hn⟩, fun ⟨a, ha, hn⟩ => ⟨a, h.mem_iff.mpr ha, hn⟩⟩
  have hn : needsBuffer cfi r l₁ = needsBuffer cfi r l₂ := by simp [needsBuffer, hb]
  exact ⟨hn, by simp [clone, needsCfi, hn, hc]⟩

/-- which single arguments need it: every std::string and vector argument; a `char` argument with
    an indirection unless it is the `const char *` / `char * +intent(in)` case handled by
    `trim(arg)//C_NULL_CHAR`; never a by-value `char` -/
theorem argNeedsBuf_char (cfi : Bool) (a : ArgFact) (hs : a.sgroup = .char) :
    argNeedsBuf cfi a = (a.nind != 0 && !ftrimCharIn cfi a) := by
  simp only [argNeedsBuf, hasBufStep, hs]
  cases ftrimCharIn cfi a <;> cases h : (a.nind != 0) <;> simp [h]

theorem argNeedsBuf_string (cfi : Bool) (a : ArgFact) (hs : a.sgroup = .string ∨ a.sgroup = .vector) :
    argNeedsBuf cfi a = true := by
  rcases hs with hs | hs <;> simp [argNeedsBuf, hasBufStep, hs]

/-- `char *` intent(out) / intent(inout) is never the trimmed case, so it always needs the buffer -/
theorem char_out_needs (cfi : Bool) (a : ArgFact) (hs : a.sgroup = .char) (hi : a.nind ≠ 0)
    (ho : a.intent = .out ∨ a.intent = .inout) : argNeedsBuf cfi a = true := by
  rw [argNeedsBuf_char cfi a hs]
  have : ftrimCharIn cfi a = false := by
    rcases ho with ho | ho <;> simp [ftrimCharIn, ho]
  simp [this, hi]

/-- a `char *` out/inout argument forces the clone whatever follows or precedes it -/
theorem char_out_forces_clone (r : ResFact) (pre post : List ArgFact) (a : ArgFact) (hs : a.sgroup = .char)
    (hi : a.nind ≠ 0) (ho : a.intent = .out ∨ a.intent = .inout) :
    clone false r (pre ++ a :: post) = .buf := by
  have := needsBuffer_of_mem false r (pre ++ a :: post) a (by simp) (char_out_needs false a hs hi ho)
  simp [clone, this]

def charOut : ArgFact := ⟨.char, true, 1, .ptr, .out, false⟩
def constCharIn : ArgFact := ⟨.char, true, 1, .ptr, .in_, false⟩
def voidRes : ResFact := ⟨.other, false, 0, .none, false⟩

example : clone false voidRes [charOut, constCharIn] = .buf ∧ clone false voidRes [constCharIn, charOut] = .buf ∧
    clone false voidRes [constCharIn] = .none := by decide

/-- with F_CFI every string argument and every `char *` (not `char **`) goes through a descriptor -/
theorem cfi_of_mem (r : ResFact) (args : List ArgFact) (a : ArgFact) (ha : a ∈ args) (hc : cfiArg a = true) :
    clone true r args = .cfi := by
  have : args.any cfiArg = true := List.any_eq_true.mpr ⟨a, ha, hc⟩
  simp [clone, needsCfi, this]

/-- witness for the order dependence of an assigning loop: with `has_buf_arg = ...` in the char
    branch a later `const char *` resets the flag an earlier `char * +intent(out)` set -/
theorem assign_variant_order_dependent :
    [charOut, constCharIn].foldl (hasBufStepAssign false) false = false ∧
    [constCharIn, charOut].foldl (hasBufStepAssign false) false = true := by decide

end Shroud.BufSelect
