import ShroudVerif.Model.LuaDispatch
import ShroudVerif.Lemmas.LuaDispatch
/-!
# C18  The generated Lua binding is call-equivalent to the wrapped library

`gen k ovs` is the function body `Wrapl.wrap_function` writes for the overloads `ovs` of one Lua
name (model of the code after the `fix:` commits 5605135 and a00c47c), `run selfOk body s` is
what that body does on the Lua stack `s`, `expected selfOk k ovs s` is the property stated on
the declarations: the first call of `luaCalls` (declaration order; one per overload and per
omitted-default prefix) whose parameter tags equal the tags of the arguments, with the stack
values as arguments and that overload's result count; otherwise `luaL_error` and no call.

* `dispatch_correct`: the full statement for every name that has at least two calls
  (overloads and/or defaults) -- free functions, constructors and methods.
* `single_call_matching` / `dispatch_correct_partial`: a name with exactly one call gets no test
  at all in the emitted code, so there the statement holds for stacks of the declared shape only;
  `single_call_unchecked` characterises what happens otherwise and
  `single_call_full_statement_false` is the negation witness (open finding).
* `old_method_dispatch_wrong`: the body written before 5605135 violates the statement for methods.

Not modelled: which C++ overload g++ selects for the emitted call expression (observed by the
emulator oracle; repaired for std::string/bool in d443a4b) and the Lua C API itself.
-/
namespace Shroud.LuaDispatch

/-! ### the emitted body: which of the two shapes -/

theorem gen_single (k : Kind) (ovs : List Overload) (c : Call) (h : luaCalls k ovs = [c]) :
    gen k ovs = .single (emitOf k (Layout.fixed k) 0 c) := by
  simp [gen, genWith, h]

theorem gen_switch (k : Kind) (ovs : List Overload) (h : (luaCalls k ovs).length ≠ 1) :
    gen k ovs = .switch k.selfOffset (casesFor k (Layout.fixed k) (luaCalls k ovs) (maxargs ovs)) := by
  unfold gen genWith
  split
  · rename_i c hc; simp [hc] at h
  · rfl

/-! ### `luaCalls`: one call per overload and per omitted-default prefix -/

/-- `c` is in `all_calls` exactly when it is overload `i` called with its first `n` parameters,
    where `n` is all of them or parameter `n` has a default value.  -/
theorem luaCalls_spec (k : Kind) (ovs : List Overload) (c : Call) :
    c ∈ luaCalls k ovs ↔
      ∃ i o n, ovs[i]? = some o ∧ n ≤ o.params.length ∧
        (n = o.params.length ∨ (o.params[n]?).map (·.hasInit) = some true) ∧
        c = ⟨i, (o.params.take n).map (·.ltype), nresultsOf k o⟩ := by
  simpa [luaCalls, mkCall] using mem_callsFrom k ovs 0 c

/-- every overload is present with all its parameters -/
theorem luaCalls_full (k : Kind) (ovs : List Overload) (i : Nat) (o : Overload) (h : ovs[i]? = some o) :
    ⟨i, o.params.map (·.ltype), nresultsOf k o⟩ ∈ luaCalls k ovs :=
  (luaCalls_spec k ovs _).mpr ⟨i, o, o.params.length, h, Nat.le_refl _, Or.inl rfl, by simp⟩

/-- the result count of a call is that of its own overload (false before a00c47c, where the
    first overload decided for all) -/
theorem luaCalls_nresults (k : Kind) (ovs : List Overload) (c : Call) (h : c ∈ luaCalls k ovs) :
    ∃ o, ovs[c.ov]? = some o ∧ c.nresults = nresultsOf k o := by
  obtain ⟨i, o, n, hget, _, _, rfl⟩ := (luaCalls_spec k ovs c).mp h
  exact ⟨o, hget, rfl⟩

/-! ### the main theorem -/

/-- **C18, names with overloads and/or default arguments.**  For every kind of wrapped function
    (free function, constructor, method, destructor), every overload set whose `all_calls` has not
    exactly one entry and at most one entry without arguments, every object test `selfOk` and
    every Lua stack, the emitted body does exactly what the property demands. -/
theorem dispatch_correct (selfOk : Val → Bool) (k : Kind) (ovs : List Overload) (s : Stack)
    (hm : (luaCalls k ovs).length ≠ 1) (hz : (byCount (luaCalls k ovs) 0).length ≤ 1) :
    run selfOk (gen k ovs) s = expected selfOk k ovs s := by
  rw [gen_switch k ovs hm]
  have hb : ∀ c ∈ luaCalls k ovs, c.nargs ≤ maxargs ovs := fun c hc => nargs_callsFrom k ovs 0 c hc
  by_cases hk : k.selfOffset = 0
  · -- free function / constructor: the whole stack is the argument list
    have hL : Layout.fixed k = ⟨0, 0, 0⟩ := by simp [Layout.fixed, hk]
    have hsw := run_switch selfOk k ⟨0, 0, 0⟩ (luaCalls k ovs) (maxargs ovs) s hb hz (by simp)
    rw [hk, hL, hsw, Nat.sub_zero]
    have hch := runChain_branchesFor selfOk k 0 s.length 0 s (by simp) (luaCalls k ovs) 0
    rw [hch]
    simp only [expected, hk, if_true, expectedArgs, List.drop_zero]
    cases hf : firstMatch (s.map (·.ty)) 0 (luaCalls k ovs) with
    | none => rfl
    | some p =>
      obtain ⟨cj, c⟩ := p
      have hty := firstMatch_some_types _ _ _ _ _ hf
      have hn : c.nargs = s.length := by simp [Call.nargs, hty]
      have := runOne_emitOf_noself selfOk k hk cj c s hn
      rw [hL] at this
      simp only [this]
  · -- method / destructor: the object is at index 1
    have hk1 : k.selfOffset = 1 := by cases k <;> simp [Kind.selfOffset] at hk ⊢
    cases s with
    | nil => simp [run, hk1, expected]
    | cons self args =>
      have hL : Layout.fixed k = ⟨1, 1, 1⟩ := by simp [Layout.fixed, hk1]
      have hsw := run_switch selfOk k ⟨1, 1, 1⟩ (luaCalls k ovs) (maxargs ovs) (self :: args) hb hz (by simp)
      rw [hk1, hL, hsw]
      have hch := runChain_branchesFor selfOk k 1 args.length 1 (self :: args) (by simp; omega)
        (luaCalls k ovs) 0
      simp only [List.length_cons, Nat.add_sub_cancel]
      rw [hch]
      simp only [expected, hk1, expectedArgs, List.drop_succ_cons, List.drop_zero]
      cases hf : firstMatch (args.map (·.ty)) 0 (luaCalls k ovs) with
      | none => by_cases hs : selfOk self <;> simp [hs]
      | some p =>
        obtain ⟨cj, c⟩ := p
        have hty := firstMatch_some_types _ _ _ _ _ hf
        have hn : c.nargs = args.length := by simp [Call.nargs, hty]
        have := runOne_emitOf_self selfOk k hk1 cj c self args hn
        rw [hL] at this
        simp only [this]
        by_cases hs : selfOk self <;> simp [hs]

/-- non-vacuity: `void g(int)`, `void g(const std::string &)`, `int g(double, int = 3)` -/
example :
    let ovs : List Overload := [⟨[⟨.number, false⟩], false⟩, ⟨[⟨.string, false⟩], false⟩,
      ⟨[⟨.number, false⟩, ⟨.number, true⟩], true⟩]
    (luaCalls .free ovs).length ≠ 1 ∧ (byCount (luaCalls .free ovs) 0).length ≤ 1 ∧
      run (fun _ => true) (gen .free ovs) [⟨.string, 0, 7⟩] = .ret [⟨1, 1, none, [⟨.string, 0, 7⟩]⟩] 0 ∧
      run (fun _ => true) (gen .free ovs) [⟨.number, 0, 7⟩, ⟨.number, 0, 8⟩]
        = .ret [⟨3, 2, none, [⟨.number, 0, 7⟩, ⟨.number, 0, 8⟩]⟩] 1 ∧
      run (fun _ => true) (gen .free ovs) [⟨.boolean, 0, 1⟩] = .error [] := by decide

/-- the hypothesis on argument-less calls is needed: `void f()` and `void f(int a = 1)` both
    get an unconditional block in `case 0:` and both are called (C++ itself rejects the call
    `f()` as ambiguous, so the emitted text does not compile) -/
theorem zero_arg_calls_both_run :
    run (fun _ => true) (gen .free [⟨[], false⟩, ⟨[⟨.number, true⟩], false⟩]) []
      = .ret [⟨0, 0, none, []⟩, ⟨1, 1, none, []⟩] 0 := by decide

/-! ### names with exactly one call: no test is written -/

/-- whatever is on the stack, the only call is made, with the values found at the argument
    indices (absent values above the top); a method still checks its object -/
theorem single_call_unchecked (selfOk : Val → Bool) (k : Kind) (ovs : List Overload) (c : Call)
    (h : luaCalls k ovs = [c]) (s : Stack) :
    run selfOk (gen k ovs) s =
      match selfIdxOf k with
      | none => .ret [⟨0, c.ov, none, (idxFrom (1 + k.selfOffset) c.nargs).map s.at⟩] c.nresults
      | some i =>
        if selfOk (s.at i) then
          .ret [⟨0, c.ov, some (s.at i), (idxFrom (1 + k.selfOffset) c.nargs).map s.at⟩] c.nresults
        else .error [] := by
  rw [gen_single k ovs c h]
  simp only [run, runOne, runEmit, emitOf, Layout.fixed]
  cases selfIdxOf k with
  | none => rfl
  | some i => by_cases hs : selfOk (s.at i) <;> simp [hs]

/-- on a stack of the declared shape the single call is the demanded one -/
theorem single_call_matching (selfOk : Val → Bool) (k : Kind) (ovs : List Overload) (c : Call)
    (h : luaCalls k ovs = [c]) (s : Stack)
    (hs : (s.drop k.selfOffset).map (·.ty) = c.types) (hlen : k.selfOffset ≤ s.length) :
    run selfOk (gen k ovs) s = expected selfOk k ovs s := by
  rw [gen_single k ovs c h]
  by_cases hk : k.selfOffset = 0
  · rw [hk, List.drop_zero] at hs
    have hn : c.nargs = s.length := by simp [Call.nargs, ← hs]
    simp only [run, runOne_emitOf_noself selfOk k hk 0 c s hn, expected, hk, if_true, expectedArgs, h,
      firstMatch, hs]
  · have hk1 : k.selfOffset = 1 := by cases k <;> simp [Kind.selfOffset] at hk ⊢
    cases s with
    | nil => simp [hk1] at hlen
    | cons self args =>
      rw [hk1] at hs
      simp only [List.drop_succ_cons, List.drop_zero] at hs
      have hn : c.nargs = args.length := by simp [Call.nargs, ← hs]
      simp only [run, runOne_emitOf_self selfOk k hk1 0 c self args hn, expected, hk1, expectedArgs, h,
        firstMatch, hs]
      simp

example : luaCalls .method [⟨[⟨.number, false⟩], true⟩] = [⟨0, [.number], 1⟩] := by decide

/-- **C18 as far as it holds on the current code** (`_partial`: for a name with a single call the
    stack must have the declared shape; what is missing is the error for every other stack). -/
theorem dispatch_correct_partial (selfOk : Val → Bool) (k : Kind) (ovs : List Overload) (s : Stack)
    (hz : (byCount (luaCalls k ovs) 0).length ≤ 1)
    (h : (luaCalls k ovs).length ≠ 1 ∨
         ∃ c, luaCalls k ovs = [c] ∧ (s.drop k.selfOffset).map (·.ty) = c.types ∧ k.selfOffset ≤ s.length) :
    run selfOk (gen k ovs) s = expected selfOk k ovs s := by
  rcases h with h | ⟨c, hc, hs, hl⟩
  · exact dispatch_correct selfOk k ovs s h hz
  · exact single_call_matching selfOk k ovs c hc s hs hl

/-- the full statement is false for single-call names: `void f(int)` called with a string calls
    `f` with that string (C: `lua_tointeger` answers 0); called with nothing it reads above the top -/
theorem single_call_full_statement_false :
    ∃ (k : Kind) (ovs : List Overload) (s : Stack),
      (byCount (luaCalls k ovs) 0).length ≤ 1 ∧
      run (fun _ => true) (gen k ovs) s ≠ expected (fun _ => true) k ovs s :=
  ⟨.free, [⟨[⟨.number, false⟩], false⟩], [⟨.string, 0, 5⟩], by decide, by decide⟩

theorem single_call_reads_above_top :
    run (fun _ => true) (gen .free [⟨[⟨.number, false⟩], false⟩]) []
      = .ret [⟨0, 0, none, [Val.absent]⟩] 0 := by decide

/-! ### consequences, in the words of the property -/

/-- a library call is only ever made for the first signature (declaration order) that matches
    the arguments exactly; its arguments are the stack values in order; the count returned is
    the result count of that overload -/
theorem never_a_wrong_call (selfOk : Val → Bool) (k : Kind) (ovs : List Overload) (s : Stack)
    (hm : (luaCalls k ovs).length ≠ 1) (hz : (byCount (luaCalls k ovs) 0).length ≤ 1)
    (evs : List CallEv) (n : Nat) (h : run selfOk (gen k ovs) s = .ret evs n) :
    ∃ ci c o, evs = [⟨ci, c.ov, if k.selfOffset = 0 then none else s.head?, s.drop k.selfOffset⟩] ∧
      (luaCalls k ovs)[ci]? = some c ∧
      c.types = (s.drop k.selfOffset).map (·.ty) ∧
      (∀ j c', j < ci → (luaCalls k ovs)[j]? = some c' → c'.types ≠ (s.drop k.selfOffset).map (·.ty)) ∧
      ovs[c.ov]? = some o ∧ n = nresultsOf k o := by
  rw [dispatch_correct selfOk k ovs s hm hz] at h
  have key : ∀ (self : Option Val) (args : List Val),
      expectedArgs (luaCalls k ovs) self args = .ret evs n →
      ∃ ci c o, evs = [⟨ci, c.ov, self, args⟩] ∧ (luaCalls k ovs)[ci]? = some c ∧
        c.types = args.map (·.ty) ∧
        (∀ j c', j < ci → (luaCalls k ovs)[j]? = some c' → c'.types ≠ args.map (·.ty)) ∧
        ovs[c.ov]? = some o ∧ n = nresultsOf k o := by
    intro self args he
    unfold expectedArgs at he
    cases hf : firstMatch (args.map (·.ty)) 0 (luaCalls k ovs) with
    | none => simp [hf] at he
    | some p =>
      obtain ⟨ci, c⟩ := p
      simp only [hf, Outcome.ret.injEq] at he
      obtain ⟨d, hd, hget, hty, hmin⟩ := (firstMatch_spec _ _ _ _ _).mp hf
      have hd' : ci = d := by omega
      subst hd'
      obtain ⟨o, ho, hno⟩ := luaCalls_nresults k ovs c (List.mem_of_getElem? hget)
      exact ⟨ci, c, o, he.1.symm, hget, hty, hmin, ho, by rw [← he.2, hno]⟩
  unfold expected at h
  by_cases hk : k.selfOffset = 0
  · simp only [hk, if_true] at h
    simpa [hk] using key none s h
  · have hk1 : k.selfOffset = 1 := by cases k <;> simp [Kind.selfOffset] at hk ⊢
    simp only [hk, if_false] at h
    cases s with
    | nil => simp at h
    | cons self args =>
      by_cases hs : selfOk self
      · simp only [hs, if_true] at h
        simpa [hk1] using key (some self) args h
      · simp [hs] at h

/-- no signature matches the arguments: `luaL_error`, and the library is not called -/
theorem no_match_is_an_error (selfOk : Val → Bool) (k : Kind) (ovs : List Overload) (s : Stack)
    (hm : (luaCalls k ovs).length ≠ 1) (hz : (byCount (luaCalls k ovs) 0).length ≤ 1)
    (hno : ∀ c ∈ luaCalls k ovs, c.types ≠ (s.drop k.selfOffset).map (·.ty)) :
    run selfOk (gen k ovs) s = .error [] := by
  rw [dispatch_correct selfOk k ovs s hm hz]
  unfold expected
  by_cases hk : k.selfOffset = 0
  · simp only [hk, if_true, expectedArgs]
    rw [hk, List.drop_zero] at hno
    rw [(firstMatch_none _ _ 0).mpr hno]
  · have hk1 : k.selfOffset = 1 := by cases k <;> simp [Kind.selfOffset] at hk ⊢
    simp only [hk, if_false]
    cases s with
    | nil => rfl
    | cons self args =>
      rw [hk1] at hno
      simp only [List.drop_succ_cons, List.drop_zero] at hno
      simp only [expectedArgs, (firstMatch_none _ _ 0).mpr hno]
      by_cases hs : selfOk self <;> simp [hs]

example : ∀ c ∈ luaCalls .free [⟨[⟨.number, false⟩], false⟩, ⟨[⟨.string, false⟩], false⟩],
    c.types ≠ ([⟨.boolean, 0, 0⟩] : Stack).map (·.ty) := by decide

/-- overloads the Lua tags cannot tell apart (`f(int)` / `f(double)`): the earlier one wins,
    the later call is unreachable for every stack -/
theorem indistinguishable_earlier_wins (selfOk : Val → Bool) (k : Kind) (ovs : List Overload) (s : Stack)
    (hm : (luaCalls k ovs).length ≠ 1) (hz : (byCount (luaCalls k ovs) 0).length ≤ 1)
    (i j : Nat) (ci cj : Call) (hij : i < j)
    (hi : (luaCalls k ovs)[i]? = some ci) (hj : (luaCalls k ovs)[j]? = some cj)
    (hsame : ci.types = cj.types)
    (evs : List CallEv) (n : Nat) (h : run selfOk (gen k ovs) s = .ret evs n) :
    ∀ ev ∈ evs, ev.ci ≠ j := by
  obtain ⟨c, cc, o, hev, hget, hty, hmin, _⟩ := never_a_wrong_call selfOk k ovs s hm hz evs n h
  intro ev hmem
  rw [hev] at hmem
  simp at hmem
  subst hmem
  simp only
  intro hcj
  subst hcj
  rw [hj] at hget
  simp at hget
  subst hget
  exact hmin i ci hij hi (by rw [hsame, hty])

example :
    let ovs : List Overload := [⟨[⟨.number, false⟩], false⟩, ⟨[⟨.number, false⟩], false⟩]
    (luaCalls .free ovs)[0]? = some ⟨0, [.number], 0⟩ ∧ (luaCalls .free ovs)[1]? = some ⟨1, [.number], 0⟩ ∧
      run (fun _ => true) (gen .free ovs) [⟨.number, 0, 3⟩] = .ret [⟨0, 0, none, [⟨.number, 0, 3⟩]⟩] 0 := by
  decide

/-- a call whose tag list differs from that of every earlier call is reached by every stack
    carrying exactly its tags (free functions and constructors) -/
theorem distinguishable_is_reached (selfOk : Val → Bool) (k : Kind) (hk : k.selfOffset = 0)
    (ovs : List Overload) (s : Stack)
    (hm : (luaCalls k ovs).length ≠ 1) (hz : (byCount (luaCalls k ovs) 0).length ≤ 1)
    (j : Nat) (cj : Call) (hj : (luaCalls k ovs)[j]? = some cj)
    (hfirst : ∀ i c, i < j → (luaCalls k ovs)[i]? = some c → c.types ≠ cj.types)
    (hs : s.map (·.ty) = cj.types) :
    run selfOk (gen k ovs) s = .ret [⟨j, cj.ov, none, s⟩] cj.nresults := by
  rw [dispatch_correct selfOk k ovs s hm hz]
  simp only [expected, hk, if_true, expectedArgs]
  have : firstMatch (s.map (·.ty)) 0 (luaCalls k ovs) = some (j, cj) := by
    rw [firstMatch_spec]
    exact ⟨j, by omega, hj, hs.symm, by rw [hs]; exact fun d' c' hd hg => hfirst d' c' hd hg⟩
  rw [this]

/-- the same for methods: object at index 1, arguments above it -/
theorem distinguishable_is_reached_method (selfOk : Val → Bool) (k : Kind) (hk : k.selfOffset = 1)
    (ovs : List Overload) (self : Val) (args : List Val) (hself : selfOk self = true)
    (hm : (luaCalls k ovs).length ≠ 1) (hz : (byCount (luaCalls k ovs) 0).length ≤ 1)
    (j : Nat) (cj : Call) (hj : (luaCalls k ovs)[j]? = some cj)
    (hfirst : ∀ i c, i < j → (luaCalls k ovs)[i]? = some c → c.types ≠ cj.types)
    (hs : args.map (·.ty) = cj.types) :
    run selfOk (gen k ovs) (self :: args) = .ret [⟨j, cj.ov, some self, args⟩] cj.nresults := by
  rw [dispatch_correct selfOk k ovs _ hm hz]
  simp only [expected, hk, expectedArgs, hself]
  have : firstMatch (args.map (·.ty)) 0 (luaCalls k ovs) = some (j, cj) := by
    rw [firstMatch_spec]
    exact ⟨j, by omega, hj, hs.symm, by rw [hs]; exact fun d' c' hd hg => hfirst d' c' hd hg⟩
  rw [this]
  simp

example :
    let ovs : List Overload := [⟨[⟨.number, false⟩], false⟩, ⟨[⟨.string, false⟩, ⟨.number, true⟩], true⟩]
    run (fun v => v.cls == 4) (gen .method ovs) [⟨.userdata, 4, 0⟩, ⟨.string, 0, 1⟩, ⟨.number, 0, 2⟩]
      = .ret [⟨2, 1, some ⟨.userdata, 4, 0⟩, [⟨.string, 0, 1⟩, ⟨.number, 0, 2⟩]⟩] 1 := by decide

/-! ### stack indices -/

/-- free functions and constructors read argument `i` (0-based) from stack index `i + 1`,
    methods from `i + 2`; nothing else is read -/
theorem argument_indices (k : Kind) (ci : Nat) (c : Call) :
    (emitOf k (Layout.fixed k) ci c).pops = idxFrom (1 + k.selfOffset) c.nargs ∧
    (branchOf k (Layout.fixed k) ci c).checks = checksFrom (1 + k.selfOffset) c.types ∧
    (emitOf k (Layout.fixed k) ci c).selfIdx = (if k.selfOffset = 0 then none else some 1) := by
  simp [emitOf, branchOf, Layout.fixed, selfIdxOf]

theorem idxFrom_get (i : Nat) : ∀ (n j : Nat), j < n → (idxFrom i n)[j]? = some (i + j) := by
  intro n
  induction n generalizing i with
  | zero => intro j h; omega
  | succ n ih =>
    intro j h
    cases j with
    | zero => simp [idxFrom]
    | succ j =>
      simp only [idxFrom, List.getElem?_cons_succ]
      rw [ih (i + 1) j (by omega)]
      congr 1; omega

/-- argument `i` (0-based) of every call is read from stack index `i + 1`, for a method `i + 2` -/
theorem argument_read_from (k : Kind) (ci : Nat) (c : Call) (i : Nat) (h : i < c.nargs) :
    (emitOf k (Layout.fixed k) ci c).pops[i]? = some (1 + k.selfOffset + i) := by
  rw [(argument_indices k ci c).1]
  exact idxFrom_get _ _ _ h

example : (emitOf .method (Layout.fixed .method) 0 ⟨0, [.number, .string], 1⟩).pops = [2, 3] := by decide

/-! ### the body written before the repair -/

/-- before 5605135 `obj:m(5)` on `void m(int)`/`void m(const std::string&)` ended in
    "error with arguments" (the count included the object, the tag of the object was tested),
    and a single-call method read the object as its first argument -/
theorem old_method_dispatch_wrong :
    let ovs : List Overload := [⟨[⟨.number, false⟩], false⟩, ⟨[⟨.string, false⟩], false⟩]
    let s : Stack := [⟨.userdata, 4, 0⟩, ⟨.number, 0, 5⟩]
    run (fun v => v.cls == 4) (genOld .method ovs) s = .error [] ∧
    expected (fun v => v.cls == 4) .method ovs s = .ret [⟨0, 0, some ⟨.userdata, 4, 0⟩, [⟨.number, 0, 5⟩]⟩] 0 ∧
    run (fun v => v.cls == 4) (gen .method ovs) s = expected (fun v => v.cls == 4) .method ovs s := by
  decide

theorem old_method_single_reads_object :
    run (fun v => v.cls == 4) (genOld .method [⟨[⟨.number, false⟩], true⟩]) [⟨.userdata, 4, 0⟩, ⟨.number, 0, 5⟩]
      = .ret [⟨0, 0, some ⟨.userdata, 4, 0⟩, [⟨.userdata, 4, 0⟩]⟩] 1 := by decide

end Shroud.LuaDispatch
