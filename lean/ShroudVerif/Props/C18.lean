import ShroudVerif.Model.LuaDispatch
import ShroudVerif.Lemmas.LuaDispatch
/-!
# C18  The generated Lua binding is call-equivalent to the wrapped library

`gen k ovs` is the function body `Wrapl.wrap_function` writes for the overloads `ovs` of one Lua
name (model of the code after the `fix:` commits 5605135, a00c47c and d74984b), `run selfOk body s`
is what that body does on the Lua stack `s`, `expected selfOk k ovs s` is the property stated on
the declarations: the first call of `luaCalls` (declaration order; one per overload and per
omitted-default prefix) whose parameter tags equal the tags of the arguments, with the stack
values as arguments and that overload's result count; otherwise `luaL_error` and no call.

* `dispatch_correct`: the full statement for every name -- free functions, constructors, methods,
  destructors; one signature or many.  Only hypothesis: at most one signature takes no argument.
* `single_call_*_before_fix`: the body written before d74984b for a name with one signature tested
  nothing (historical negation witnesses); `old_method_dispatch_wrong`: before 5605135 methods.
* registration: `groups_*`, `lookupReg_*`: every gathered group is entered once and a Lua name
  reaches its own C function exactly when names are distinct; objects: a constructor's value passes
  the object test of its class only; any number of `__gc` runs the destructor once.

Not modelled: which C++ overload g++ selects for the emitted call expression (observed by the
emulator oracle; repaired for std::string/bool in d443a4b) and the Lua C API itself.
-/
namespace Shroud.LuaDispatch

/-! ### the emitted body -/

theorem gen_single_before_fix (k : Kind) (ovs : List Overload) (c : Call) (h : luaCalls k ovs = [c]) :
    genSingleCase k ovs = .single (emitOf k (Layout.fixed k) 0 c) := by
  simp [genSingleCase, genSpecial, h]

theorem gen_eq (k : Kind) (ovs : List Overload) :
    gen k ovs = .switch k.selfOffset (casesFor k (Layout.fixed k) (luaCalls k ovs) (maxargs ovs)) := rfl

/-! ### `luaCalls`: one call per overload and per omitted-default prefix -/

/-- `c` is in `all_calls` exactly when it is overload `i` called with its first `n` parameters,
    where `n` is all of them or parameter `n` has a default value.  -/
theorem luaCalls_spec (k : Kind) (ovs : List Overload) (c : Call) :
    c ∈ luaCalls k ovs ↔
      ∃ i o n, ovs[i]? = some o ∧ n ≤ o.params.length ∧
        (n = o.params.length ∨ (o.params[n]?).map (·.hasInit) = some true) ∧
        c = ⟨i, (o.params.take n).map (·.ltype), nresultsOf k o, (o.params.take n).map (·.cls)⟩ := by
  simpa [luaCalls, mkCall] using mem_callsFrom k ovs 0 c

/-- every overload is present with all its parameters -/
theorem luaCalls_full (k : Kind) (ovs : List Overload) (i : Nat) (o : Overload) (h : ovs[i]? = some o) :
    ⟨i, o.params.map (·.ltype), nresultsOf k o, o.params.map (·.cls)⟩ ∈ luaCalls k ovs :=
  (luaCalls_spec k ovs _).mpr ⟨i, o, o.params.length, h, Nat.le_refl _, Or.inl rfl, by simp⟩

/-- the result count of a call is that of its own overload (false before a00c47c, where the
    first overload decided for all) -/
theorem luaCalls_nresults (k : Kind) (ovs : List Overload) (c : Call) (h : c ∈ luaCalls k ovs) :
    ∃ o, ovs[c.ov]? = some o ∧ c.nresults = nresultsOf k o := by
  obtain ⟨i, o, n, hget, _, _, rfl⟩ := (luaCalls_spec k ovs c).mp h
  exact ⟨o, hget, rfl⟩

/-! ### the main theorem -/

/-- **C18.**  For every kind of wrapped function (free function, constructor, method, destructor),
    every overload set (one signature or many) with at most one signature without arguments, every
    object test `selfOk` and every Lua stack, the emitted body does exactly what the property
    demands. -/
theorem dispatch_correct (selfOk : Val → Bool) (k : Kind) (ovs : List Overload) (s : Stack)
    (hz : (byCount (luaCalls k ovs) 0).length ≤ 1) :
    run selfOk (gen k ovs) s = expected selfOk k ovs s := by
  rw [gen_eq k ovs]
  have hb : ∀ c ∈ luaCalls k ovs, c.nargs ≤ maxargs ovs := fun c hc => nargs_callsFrom k ovs 0 c hc
  by_cases hk : k.selfOffset = 0
  · -- free function / constructor: the whole stack is the argument list
    have hL : Layout.fixed k = ⟨0, 0, 0⟩ := by simp [Layout.fixed, hk]
    have hsw := run_switch selfOk k ⟨0, 0, 0⟩ (luaCalls k ovs) (maxargs ovs) s hb hz (by simp)
    rw [hk, hL, hsw, Nat.sub_zero]
    have hch := runChain_branchesFor selfOk k 0 s.length 0 s (by simp) (luaCalls k ovs) 0
    rw [hch]
    simp only [expected, hk, if_true, expectedArgs, List.drop_zero]
    cases hf : firstMatch (s.map (·.ty)) 0 (luaCalls k ovs) with
    | none => rfl
    | some p =>
      obtain ⟨cj, c⟩ := p
      have hty := firstMatch_some_types _ _ _ _ _ hf
      have hn : c.nargs = s.length := by simp [Call.nargs, hty]
      have := runOne_emitOf_noself selfOk k hk cj c s hn
      rw [hL] at this
      simp only [this]
  · -- method / destructor: the object is at index 1
    have hk1 : k.selfOffset = 1 := by cases k <;> simp [Kind.selfOffset] at hk ⊢
    cases s with
    | nil => simp [run, hk1, expected]
    | cons self args =>
      have hL : Layout.fixed k = ⟨1, 1, 1⟩ := by simp [Layout.fixed, hk1]
      have hsw := run_switch selfOk k ⟨1, 1, 1⟩ (luaCalls k ovs) (maxargs ovs) (self :: args) hb hz (by simp)
      rw [hk1, hL, hsw]
      have hch := runChain_branchesFor selfOk k 1 args.length 1 (self :: args) (by simp; omega)
        (luaCalls k ovs) 0
      simp only [List.length_cons, Nat.add_sub_cancel]
      rw [hch]
      simp only [expected, hk1, expectedArgs, List.drop_succ_cons, List.drop_zero]
      cases hf : firstMatch (args.map (·.ty)) 0 (luaCalls k ovs) with
      | none => by_cases hs : selfOk self <;> simp [hs]
      | some p =>
        obtain ⟨cj, c⟩ := p
        have hty := firstMatch_some_types _ _ _ _ _ hf
        have hn : c.nargs = args.length := by simp [Call.nargs, hty]
        have := runOne_emitOf_self selfOk k hk1 cj c self args hn
        rw [hL] at this
        simp only [this]
        by_cases hs : selfOk self <;> simp [hs]

/-- non-vacuity: `void g(int)`, `void g(const std::string &)`, `int g(double, int = 3)` -/
example :
    let ovs : List Overload := [⟨[⟨.number, false, none⟩], false⟩, ⟨[⟨.string, false, none⟩], false⟩,
      ⟨[⟨.number, false, none⟩, ⟨.number, true, none⟩], true⟩]
    (luaCalls .free ovs).length ≠ 1 ∧ (byCount (luaCalls .free ovs) 0).length ≤ 1 ∧
      run (fun _ => true) (gen .free ovs) [⟨.string, 0, 7⟩] = .ret [⟨1, 1, none, [⟨.string, 0, 7⟩]⟩] 0 ∧
      run (fun _ => true) (gen .free ovs) [⟨.number, 0, 7⟩, ⟨.number, 0, 8⟩]
        = .ret [⟨3, 2, none, [⟨.number, 0, 7⟩, ⟨.number, 0, 8⟩]⟩] 1 ∧
      run (fun _ => true) (gen .free ovs) [⟨.boolean, 0, 1⟩] = .error [] := by decide

/-- the hypothesis on argument-less calls is needed: `void f()` and `void f(int a = 1)` both
    get an unconditional block in `case 0:` and both are called (C++ itself rejects the call
    `f()` as ambiguous, so the emitted text does not compile) -/
theorem zero_arg_calls_both_run :
    run (fun _ => true) (gen .free [⟨[], false⟩, ⟨[⟨.number, true, none⟩], false⟩]) []
      = .ret [⟨0, 0, none, []⟩, ⟨1, 1, none, []⟩] 0 := by decide

/-! ### names with exactly one call, before d74984b: no test was written -/

/-- (historical) whatever was on the stack, the only call was made, with the values found at the
    argument indices (absent values above the top); a method still checked its object -/
theorem single_call_unchecked_before_fix (selfOk : Val → Bool) (k : Kind) (ovs : List Overload) (c : Call)
    (h : luaCalls k ovs = [c]) (s : Stack) (hc : ∀ x ∈ c.argCls, x = none) :
    run selfOk (genSingleCase k ovs) s =
      match selfIdxOf k with
      | none => .ret [⟨0, c.ov, none, (idxFrom (1 + k.selfOffset) c.nargs).map s.at⟩] c.nresults
      | some i =>
        if selfOk (s.at i) then
          .ret [⟨0, c.ov, some (s.at i), (idxFrom (1 + k.selfOffset) c.nargs).map s.at⟩] c.nresults
        else .error [] := by
  have hok : ∀ (vs : List Val) (cs : List (Option Nat)), (∀ x ∈ cs, x = none) → argsOk vs cs = true := by
    intro vs cs
    induction cs generalizing vs with
    | nil => intro _; cases vs <;> simp [argsOk]
    | cons x cs ih =>
      intro hx
      have : x = none := hx x (by simp)
      subst this
      cases vs with
      | nil => simp [argsOk]
      | cons v vs => simp only [argsOk]; exact ih vs (fun y hy => hx y (by simp [hy]))
  rw [gen_single_before_fix k ovs c h]
  simp only [run, runOne, runEmit, emitOf, Layout.fixed, hok _ _ hc, if_true]
  cases selfIdxOf k with
  | none => rfl
  | some i => by_cases hs : selfOk (s.at i) <;> simp [hs]

example : luaCalls .method [⟨[⟨.number, false, none⟩], true⟩] = [⟨0, [.number], 1, [none]⟩] := by decide

/-- (historical) the statement was false for single-call names: `void f(int)` called with a string
    called `f` with that string (C: `lua_tointeger` answers 0); the body written now is correct -/
theorem single_call_statement_false_before_fix :
    ∃ (k : Kind) (ovs : List Overload) (s : Stack),
      (byCount (luaCalls k ovs) 0).length ≤ 1 ∧
      run (fun _ => true) (genSingleCase k ovs) s ≠ expected (fun _ => true) k ovs s ∧
      run (fun _ => true) (gen k ovs) s = expected (fun _ => true) k ovs s :=
  ⟨.free, [⟨[⟨.number, false, none⟩], false⟩], [⟨.string, 0, 5⟩], by decide, by decide, by decide⟩

/-- a name with one signature now raises on every other stack -/
theorem single_call_checked (selfOk : Val → Bool) (k : Kind) (hk : k.selfOffset = 0) (ovs : List Overload)
    (c : Call) (h : luaCalls k ovs = [c]) (s : Stack) (hs : s.map (·.ty) ≠ c.types) :
    run selfOk (gen k ovs) s = .error [] := by
  have hz : (byCount (luaCalls k ovs) 0).length ≤ 1 := by
    rw [h]; simp only [byCount, List.filter_cons, List.filter_nil]; split <;> simp
  rw [dispatch_correct selfOk k ovs s hz]
  simp only [expected, hk, if_true, expectedArgs, h, firstMatch]
  have : ¬ c.types = s.map (·.ty) := fun e => hs e.symm
  simp [this]

example : run (fun _ => true) (gen .free [⟨[⟨.number, false, none⟩], false⟩]) [] = .error [] := by decide

/-! ### consequences, in the words of the property -/

/-- a library call is only ever made for the first signature (declaration order) that matches
    the arguments exactly; its arguments are the stack values in order; the count returned is
    the result count of that overload -/
theorem never_a_wrong_call (selfOk : Val → Bool) (k : Kind) (ovs : List Overload) (s : Stack)
    (hz : (byCount (luaCalls k ovs) 0).length ≤ 1)
    (evs : List CallEv) (n : Nat) (h : run selfOk (gen k ovs) s = .ret evs n) :
    ∃ ci c o, evs = [⟨ci, c.ov, if k.selfOffset = 0 then none else s.head?, s.drop k.selfOffset⟩] ∧
      (luaCalls k ovs)[ci]? = some c ∧
      c.types = (s.drop k.selfOffset).map (·.ty) ∧
      (∀ j c', j < ci → (luaCalls k ovs)[j]? = some c' → c'.types ≠ (s.drop k.selfOffset).map (·.ty)) ∧
      ovs[c.ov]? = some o ∧ n = nresultsOf k o ∧ argsOk (s.drop k.selfOffset) c.argCls = true := by
  rw [dispatch_correct selfOk k ovs s hz] at h
  have key : ∀ (self : Option Val) (args : List Val),
      expectedArgs (luaCalls k ovs) self args = .ret evs n →
      ∃ ci c o, evs = [⟨ci, c.ov, self, args⟩] ∧ (luaCalls k ovs)[ci]? = some c ∧
        c.types = args.map (·.ty) ∧
        (∀ j c', j < ci → (luaCalls k ovs)[j]? = some c' → c'.types ≠ args.map (·.ty)) ∧
        ovs[c.ov]? = some o ∧ n = nresultsOf k o ∧ argsOk args c.argCls = true := by
    intro self args he
    unfold expectedArgs at he
    cases hf : firstMatch (args.map (·.ty)) 0 (luaCalls k ovs) with
    | none => simp [hf] at he
    | some p =>
      obtain ⟨ci, c⟩ := p
      simp only [hf] at he
      by_cases ha : argsOk args c.argCls
      case neg => simp [ha] at he
      simp only [ha, if_true, Outcome.ret.injEq] at he
      obtain ⟨d, hd, hget, hty, hmin⟩ := (firstMatch_spec _ _ _ _ _).mp hf
      have hd' : ci = d := by omega
      subst hd'
      obtain ⟨o, ho, hno⟩ := luaCalls_nresults k ovs c (List.mem_of_getElem? hget)
      exact ⟨ci, c, o, he.1.symm, hget, hty, hmin, ho, by rw [← he.2, hno], ha⟩
  unfold expected at h
  by_cases hk : k.selfOffset = 0
  · simp only [hk, if_true] at h
    simpa [hk] using key none s h
  · have hk1 : k.selfOffset = 1 := by cases k <;> simp [Kind.selfOffset] at hk ⊢
    simp only [hk, if_false] at h
    cases s with
    | nil => simp at h
    | cons self args =>
      by_cases hs : selfOk self
      · simp only [hs, if_true] at h
        simpa [hk1] using key (some self) args h
      · simp [hs] at h

/-- no signature matches the arguments: `luaL_error`, and the library is not called -/
theorem no_match_is_an_error (selfOk : Val → Bool) (k : Kind) (ovs : List Overload) (s : Stack)
    (hz : (byCount (luaCalls k ovs) 0).length ≤ 1)
    (hno : ∀ c ∈ luaCalls k ovs, c.types ≠ (s.drop k.selfOffset).map (·.ty)) :
    run selfOk (gen k ovs) s = .error [] := by
  rw [dispatch_correct selfOk k ovs s hz]
  unfold expected
  by_cases hk : k.selfOffset = 0
  · simp only [hk, if_true, expectedArgs]
    rw [hk, List.drop_zero] at hno
    rw [(firstMatch_none _ _ 0).mpr hno]
  · have hk1 : k.selfOffset = 1 := by cases k <;> simp [Kind.selfOffset] at hk ⊢
    simp only [hk, if_false]
    cases s with
    | nil => rfl
    | cons self args =>
      rw [hk1] at hno
      simp only [List.drop_succ_cons, List.drop_zero] at hno
      simp only [expectedArgs, (firstMatch_none _ _ 0).mpr hno]
      by_cases hs : selfOk self <;> simp [hs]

example : ∀ c ∈ luaCalls .free [⟨[⟨.number, false, none⟩], false⟩, ⟨[⟨.string, false, none⟩], false⟩],
    c.types ≠ ([⟨.boolean, 0, 0⟩] : Stack).map (·.ty) := by decide

/-- overloads the Lua tags cannot tell apart (`f(int)` / `f(double)`): the earlier one wins,
    the later call is unreachable for every stack -/
theorem indistinguishable_earlier_wins (selfOk : Val → Bool) (k : Kind) (ovs : List Overload) (s : Stack)
    (hz : (byCount (luaCalls k ovs) 0).length ≤ 1)
    (i j : Nat) (ci cj : Call) (hij : i < j)
    (hi : (luaCalls k ovs)[i]? = some ci) (hj : (luaCalls k ovs)[j]? = some cj)
    (hsame : ci.types = cj.types)
    (evs : List CallEv) (n : Nat) (h : run selfOk (gen k ovs) s = .ret evs n) :
    ∀ ev ∈ evs, ev.ci ≠ j := by
  obtain ⟨c, cc, o, hev, hget, hty, hmin, _, _, _⟩ := never_a_wrong_call selfOk k ovs s hz evs n h
  intro ev hmem
  rw [hev] at hmem
  simp at hmem
  subst hmem
  simp only
  intro hcj
  subst hcj
  rw [hj] at hget
  simp at hget
  subst hget
  exact hmin i ci hij hi (by rw [hsame, hty])

example :
    let ovs : List Overload := [⟨[⟨.number, false, none⟩], false⟩, ⟨[⟨.number, false, none⟩], false⟩]
    (luaCalls .free ovs)[0]? = some ⟨0, [.number], 0, [none]⟩ ∧ (luaCalls .free ovs)[1]? = some ⟨1, [.number], 0, [none]⟩ ∧
      run (fun _ => true) (gen .free ovs) [⟨.number, 0, 3⟩] = .ret [⟨0, 0, none, [⟨.number, 0, 3⟩]⟩] 0 := by
  decide

/-- a call whose tag list differs from that of every earlier call is reached by every stack
    carrying exactly its tags (free functions and constructors) -/
theorem distinguishable_is_reached (selfOk : Val → Bool) (k : Kind) (hk : k.selfOffset = 0)
    (ovs : List Overload) (s : Stack)
    (hz : (byCount (luaCalls k ovs) 0).length ≤ 1)
    (j : Nat) (cj : Call) (hj : (luaCalls k ovs)[j]? = some cj)
    (hfirst : ∀ i c, i < j → (luaCalls k ovs)[i]? = some c → c.types ≠ cj.types)
    (hs : s.map (·.ty) = cj.types) (ha : argsOk s cj.argCls = true) :
    run selfOk (gen k ovs) s = .ret [⟨j, cj.ov, none, s⟩] cj.nresults := by
  rw [dispatch_correct selfOk k ovs s hz]
  simp only [expected, hk, if_true, expectedArgs]
  have : firstMatch (s.map (·.ty)) 0 (luaCalls k ovs) = some (j, cj) := by
    rw [firstMatch_spec]
    exact ⟨j, by omega, hj, hs.symm, by rw [hs]; exact fun d' c' hd hg => hfirst d' c' hd hg⟩
  rw [this]
  simp [ha]

/-- the same for methods: object at index 1, arguments above it -/
theorem distinguishable_is_reached_method (selfOk : Val → Bool) (k : Kind) (hk : k.selfOffset = 1)
    (ovs : List Overload) (self : Val) (args : List Val) (hself : selfOk self = true)
    (hz : (byCount (luaCalls k ovs) 0).length ≤ 1)
    (j : Nat) (cj : Call) (hj : (luaCalls k ovs)[j]? = some cj)
    (hfirst : ∀ i c, i < j → (luaCalls k ovs)[i]? = some c → c.types ≠ cj.types)
    (hs : args.map (·.ty) = cj.types) (ha : argsOk args cj.argCls = true) :
    run selfOk (gen k ovs) (self :: args) = .ret [⟨j, cj.ov, some self, args⟩] cj.nresults := by
  rw [dispatch_correct selfOk k ovs _ hz]
  simp only [expected, hk, expectedArgs, hself]
  have : firstMatch (args.map (·.ty)) 0 (luaCalls k ovs) = some (j, cj) := by
    rw [firstMatch_spec]
    exact ⟨j, by omega, hj, hs.symm, by rw [hs]; exact fun d' c' hd hg => hfirst d' c' hd hg⟩
  rw [this]
  simp [ha]

example :
    let ovs : List Overload := [⟨[⟨.number, false, none⟩], false⟩, ⟨[⟨.string, false, none⟩, ⟨.number, true, none⟩], true⟩]
    run (fun v => v.cls == 4) (gen .method ovs) [⟨.userdata, 4, 0⟩, ⟨.string, 0, 1⟩, ⟨.number, 0, 2⟩]
      = .ret [⟨2, 1, some ⟨.userdata, 4, 0⟩, [⟨.string, 0, 1⟩, ⟨.number, 0, 2⟩]⟩] 1 := by decide

/-! ### class-pointer arguments (`void take(Other *p +intent(in))`) -/

/-- a signature whose tags match but whose class-pointer argument is a userdata of another class (or
    a userdata without metatable) raises before the library is called -- it is NOT passed on to a
    later overload with the same tags -/
theorem wrong_class_argument_is_an_error (selfOk : Val → Bool) (k : Kind) (hk : k.selfOffset = 0)
    (ovs : List Overload) (s : Stack) (hz : (byCount (luaCalls k ovs) 0).length ≤ 1)
    (j : Nat) (cj : Call) (hj : (luaCalls k ovs)[j]? = some cj)
    (hfirst : ∀ i c, i < j → (luaCalls k ovs)[i]? = some c → c.types ≠ cj.types)
    (hs : s.map (·.ty) = cj.types) (ha : argsOk s cj.argCls = false) :
    run selfOk (gen k ovs) s = .error [] := by
  rw [dispatch_correct selfOk k ovs s hz]
  simp only [expected, hk, if_true, expectedArgs]
  have : firstMatch (s.map (·.ty)) 0 (luaCalls k ovs) = some (j, cj) := by
    rw [firstMatch_spec]
    exact ⟨j, by omega, hj, hs.symm, by rw [hs]; exact fun d' c' hd hg => hfirst d' c' hd hg⟩
  rw [this]
  simp [ha]

/-- `void take(Cls2 *p)` / `void take(Cls3 *p)`: an object of class 3 selects the first signature
    (same tag) and raises; an object of class 2 is handed to the library; read from index 1
    (method: index 2) -/
example :
    let ovs : List Overload := [⟨[⟨.userdata, false, some 2⟩], false⟩, ⟨[⟨.userdata, false, some 3⟩], false⟩]
    run (fun _ => true) (gen .free ovs) [ctorValue 2 7] = .ret [⟨0, 0, none, [ctorValue 2 7]⟩] 0 ∧
    run (fun _ => true) (gen .free ovs) [ctorValue 3 7] = .error [] ∧
    run (selfOkOf 1) (gen .method ovs) [ctorValue 1 5, ctorValue 2 7]
      = .ret [⟨0, 0, some (ctorValue 1 5), [ctorValue 2 7]⟩] 0 ∧
    (emitOf .method (Layout.fixed .method) 0 ⟨0, [.userdata], 0, [some 2]⟩).pops = [2] := by decide

theorem argsOk_ctorValue (c d : Nat) : argsOk [ctorValue c d] [some c] = true := by
  simp [argsOk, ctorValue]

/-! ### stack indices -/

/-- free functions and constructors read argument `i` (0-based) from stack index `i + 1`,
    methods from `i + 2`; nothing else is read -/
theorem argument_indices (k : Kind) (ci : Nat) (c : Call) :
    (emitOf k (Layout.fixed k) ci c).pops = idxFrom (1 + k.selfOffset) c.nargs ∧
    (branchOf k (Layout.fixed k) ci c).checks = checksFrom (1 + k.selfOffset) c.types ∧
    (emitOf k (Layout.fixed k) ci c).selfIdx = (if k.selfOffset = 0 then none else some 1) := by
  simp [emitOf, branchOf, Layout.fixed, selfIdxOf]

theorem idxFrom_get (i : Nat) : ∀ (n j : Nat), j < n → (idxFrom i n)[j]? = some (i + j) := by
  intro n
  induction n generalizing i with
  | zero => intro j h; omega
  | succ n ih =>
    intro j h
    cases j with
    | zero => simp [idxFrom]
    | succ j =>
      simp only [idxFrom, List.getElem?_cons_succ]
      rw [ih (i + 1) j (by omega)]
      congr 1; omega

/-- argument `i` (0-based) of every call is read from stack index `i + 1`, for a method `i + 2` -/
theorem argument_read_from (k : Kind) (ci : Nat) (c : Call) (i : Nat) (h : i < c.nargs) :
    (emitOf k (Layout.fixed k) ci c).pops[i]? = some (1 + k.selfOffset + i) := by
  rw [(argument_indices k ci c).1]
  exact idxFrom_get _ _ _ h

example : (emitOf .method (Layout.fixed .method) 0 ⟨0, [.number, .string], 1, [none, none]⟩).pops = [2, 3] := by decide

/-! ### the body written before the repair -/

/-- before 5605135 `obj:m(5)` on `void m(int)`/`void m(const std::string&)` ended in
    "error with arguments" (the count included the object, the tag of the object was tested),
    and a single-call method read the object as its first argument -/
theorem old_method_dispatch_wrong :
    let ovs : List Overload := [⟨[⟨.number, false, none⟩], false⟩, ⟨[⟨.string, false, none⟩], false⟩]
    let s : Stack := [⟨.userdata, 4, 0⟩, ⟨.number, 0, 5⟩]
    run (fun v => v.cls == 4) (genOld .method ovs) s = .error [] ∧
    expected (fun v => v.cls == 4) .method ovs s = .ret [⟨0, 0, some ⟨.userdata, 4, 0⟩, [⟨.number, 0, 5⟩]⟩] 0 ∧
    run (fun v => v.cls == 4) (gen .method ovs) s = expected (fun v => v.cls == 4) .method ovs s := by
  decide

theorem old_method_single_reads_object :
    run (fun v => v.cls == 4) (genOld .method [⟨[⟨.number, false, none⟩], true⟩]) [⟨.userdata, 4, 0⟩, ⟨.number, 0, 5⟩]
      = .ret [⟨0, 0, some ⟨.userdata, 4, 0⟩, [⟨.userdata, 4, 0⟩]⟩] 1 := by decide

/-! ### registration tables -/

theorem mem_groups_mem (fns : List WFn) : ∀ g ∈ groups fns, g ∈ fns := by
  induction fns with
  | nil => intro g h; simp [groups] at h
  | cons f fs ih =>
    intro g h
    simp only [groups, List.mem_cons, List.mem_filter] at h
    rcases h with h | ⟨h, _⟩
    · simp [h]
    · simp [ih g h]

/-- every wrapped declaration belongs to a gathered group (the group of its `ast.name`) -/
theorem groups_cover (fns : List WFn) : ∀ f ∈ fns, ∃ g ∈ groups fns, g.name = f.name := by
  induction fns with
  | nil => intro f h; simp at h
  | cons f0 fs ih =>
    intro f h
    simp only [List.mem_cons] at h
    rcases h with h | h
    · exact ⟨f0, by simp [groups], by rw [h]⟩
    · obtain ⟨g, hg, hn⟩ := ih f h
      by_cases e : g.name = f0.name
      · exact ⟨f0, by simp [groups], by rw [← hn, e]⟩
      · exact ⟨g, by simp [groups, hg, e], hn⟩

/-- every `ast.name` is gathered into exactly one group: one C function, one table entry -/
theorem groups_names_nodup (fns : List WFn) : ((groups fns).map (·.name)).Nodup := by
  induction fns with
  | nil => simp [groups]
  | cons f fs ih =>
    simp only [groups, List.map_cons, List.nodup_cons]
    constructor
    · intro h
      simp only [List.mem_map, List.mem_filter] at h
      obtain ⟨g, ⟨_, hne⟩, he⟩ := h
      simp at hne
      exact hne he
    · exact (List.Nodup.sublist ((List.filter_sublist).map _) ih)

/-- the group that stands for a name is its first declaration (`overloads[0]`: its `LUA_name`,
    `LUA_name_impl` and options are used) -/
theorem groups_head (f : WFn) (fs : List WFn) : (groups (f :: fs)).head? = some f := by
  simp [groups]

theorem lookupReg_none (regs : List (Nat × Nat)) (x : Nat) :
    lookupReg regs x = none ↔ ∀ p ∈ regs, p.1 ≠ x := by
  induction regs with
  | nil => simp [lookupReg]
  | cons p rest ih =>
    obtain ⟨n, f⟩ := p
    simp only [lookupReg]
    cases h : lookupReg rest x with
    | some g =>
      simp only [reduceCtorEq, false_iff]
      intro hall
      have := (ih.mpr (fun q hq => hall q (by simp [hq])))
      rw [h] at this
      simp at this
    | none =>
      have hr := ih.mp h
      by_cases e : n = x
      · simp [e]
      · simp only [e, if_false, true_iff]
        intro q hq
        simp only [List.mem_cons] at hq
        rcases hq with hq | hq
        · rw [hq]; exact e
        · exact hr q hq

/-- with distinct names in a table, a name reaches exactly the C function entered under it -/
theorem lookupReg_of_nodup (regs : List (Nat × Nat)) (h : (regs.map (·.1)).Nodup) (x f : Nat) :
    lookupReg regs x = some f ↔ (x, f) ∈ regs := by
  induction regs generalizing f with
  | nil => simp [lookupReg]
  | cons p rest ih =>
    obtain ⟨n, g⟩ := p
    simp only [List.map_cons, List.nodup_cons] at h
    obtain ⟨hn, hrest⟩ := h
    simp only [lookupReg]
    cases hl : lookupReg rest x with
    | some g' =>
      have hmem := (ih hrest g').mp hl
      have hx : n ≠ x := by
        intro e; subst e
        exact hn (List.mem_map.mpr ⟨(n, g'), hmem, rfl⟩)
      simp only [Option.some.injEq, List.mem_cons, Prod.mk.injEq]
      constructor
      · rintro rfl; exact Or.inr hmem
      · rintro (⟨e, _⟩ | h2)
        · exact absurd e.symm hx
        · have := (ih hrest f).mpr h2
          rw [hl] at this
          simpa using this
    | none =>
      have hno := (lookupReg_none rest x).mp hl
      by_cases e : n = x
      · subst e
        simp only [if_true, Option.some.injEq, List.mem_cons, Prod.mk.injEq, true_and]
        constructor
        · rintro rfl; exact Or.inl rfl
        · rintro (h2 | h2)
          · exact h2.symm
          · exact absurd rfl (hno _ h2)
      · simp only [e, if_false, reduceCtorEq, List.mem_cons, Prod.mk.injEq, false_iff]
        rintro (⟨e2, _⟩ | h2)
        · exact e e2.symm
        · exact hno _ h2 rfl

/-- the same Lua name entered twice (a global `inner` and `ns::inner`; `LUA_name` defaults to the
    bare function name): the later entry wins, the earlier C function is unreachable -/
theorem lookupReg_later_wins (pre post : List (Nat × Nat)) (n f : Nat) (h : ∀ p ∈ post, p.1 ≠ n) :
    lookupReg (pre ++ (n, f) :: post) n = some f := by
  induction pre with
  | nil => simp [lookupReg, (lookupReg_none post n).mpr h]
  | cons p pre ih => obtain ⟨a, b⟩ := p; simp [lookupReg, ih]

example : lookupReg (moduleRegs [⟨[], [⟨1, 1, 10, .free⟩]⟩, ⟨[], [⟨1, 1, 20, .free⟩]⟩]) 1 = some 20 := by decide

theorem mem_classRegs (c : ClassD) (n f : Nat) :
    (n, f) ∈ classRegs c ↔
      ∃ g ∈ groups c.fns, g.kind ≠ .ctor ∧ n = (if g.kind = .dtor then gcName else g.lua) ∧ f = g.impl := by
  simp only [classRegs, List.mem_filterMap]
  constructor
  · rintro ⟨g, hg, h⟩
    refine ⟨g, hg, ?_⟩
    cases hk : g.kind <;> simp [hk] at h ⊢ <;> simp [h]
  · rintro ⟨g, hg, hk, hn, hf⟩
    refine ⟨g, hg, ?_⟩
    cases hk' : g.kind <;> simp [hk'] at hk hn ⊢ <;> simp [hn, hf]

/-- `obj:name(...)`: with distinct names in the class table every gathered method (and `__gc`)
    reaches the C function of its own group -/
theorem classRegs_reaches (c : ClassD) (h : ((classRegs c).map (·.1)).Nodup) (g : WFn)
    (hg : g ∈ groups c.fns) (hk : g.kind ≠ .ctor) :
    lookupReg (classRegs c) (if g.kind = .dtor then gcName else g.lua) = some g.impl :=
  (lookupReg_of_nodup _ h _ _).mpr ((mem_classRegs c _ _).mpr ⟨g, hg, hk, rfl, rfl⟩)

example :
    let c : ClassD := ⟨5, [⟨1, 1, 10, .ctor⟩, ⟨1, 1, 11, .ctor⟩, ⟨2, 2, 12, .dtor⟩, ⟨3, 3, 13, .method⟩,
      ⟨4, 4, 14, .method⟩, ⟨3, 3, 15, .method⟩], 9⟩
    classRegs c = [(gcName, 12), (3, 13), (4, 14)] ∧ ctorRegs c = [(5, 10)] ∧
      ((classRegs c).map (·.1)).Nodup := by decide

/-! ### objects -/

/-- the value a constructor of class `c` returns passes the object test of `c`'s methods ... -/
theorem ctor_value_accepted (c d : Nat) : selfOkOf c (ctorValue c d) = true := by
  simp [selfOkOf, ctorValue]

/-- ... and of no other class (metatables are per class) -/
theorem ctor_value_rejected (c c' d : Nat) (h : c ≠ c') : selfOkOf c' (ctorValue c d) = false := by
  simp [selfOkOf, ctorValue, h]

/-- a method called on a constructed object of its class dispatches on the arguments above it -/
theorem method_on_constructed (k : Kind) (hk : k.selfOffset = 1) (ovs : List Overload) (c d : Nat)
    (args : List Val) (hz : (byCount (luaCalls k ovs) 0).length ≤ 1) :
    run (selfOkOf c) (gen k ovs) (ctorValue c d :: args)
      = expectedArgs (luaCalls k ovs) (some (ctorValue c d)) args := by
  rw [dispatch_correct (selfOkOf c) k ovs _ hz]
  simp [expected, hk, ctor_value_accepted]

/-- and on an object of another class raises before the library is called -/
theorem method_on_foreign_object (k : Kind) (hk : k.selfOffset = 1) (ovs : List Overload) (c c' d : Nat)
    (h : c ≠ c') (args : List Val) (hz : (byCount (luaCalls k ovs) 0).length ≤ 1) :
    run (selfOkOf c') (gen k ovs) (ctorValue c d :: args) = .error [] := by
  rw [dispatch_correct (selfOkOf c') k ovs _ hz]
  simp [expected, hk, ctor_value_rejected c c' d h]

theorem gcRuns_null (n c : Nat) : gcRuns n ⟨c, none⟩ = 0 := by
  induction n with
  | zero => rfl
  | succ n ih => simp [gcRuns, gcStep, ih]

/-- however often `__gc` is invoked on a userdata (the collector once; a script may call
    `obj:__gc()` as well), the C++ destructor runs exactly once -/
theorem gc_runs_destructor_once (n c p : Nat) : gcRuns (n + 1) ⟨c, some p⟩ = 1 := by
  simp [gcRuns, gcStep, gcRuns_null]

/-- the destructor body itself dispatches like any method without arguments -/
example : run (selfOkOf 4) (gen .dtor [⟨[], false⟩]) [ctorValue 4 1] = .ret [⟨0, 0, some (ctorValue 4 1), []⟩] 0 ∧
    run (selfOkOf 4) (gen .dtor [⟨[], false⟩]) [ctorValue 4 1, ⟨.number, 0, 2⟩] = .error [] := by decide

/-! ### one metatable name per class, at every site -/

theorem mem_registry (classes : List ClassD) (c : ClassD) (h : c ∈ classes) : c.mt ∈ registry classes := by
  simp only [registry, classSites, List.mem_filterMap]
  exact ⟨c, h, rfl⟩

/-- every wrapped class gets its metatable created, also a class whose method table is empty
    (constructors only) -/
theorem registry_complete (classes : List ClassD) : registry classes = classes.map (·.mt) := by
  induction classes with
  | nil => rfl
  | cons c cs ih => simp [registry, classSites] at ih ⊢

/-- an object made by a constructor of a wrapped class passes the object test of that class's methods
    and destructor: created, attached and demanded name are one name -/
theorem constructed_accepted_by_own_methods (classes : List ClassD) (c : ClassD) (h : c ∈ classes)
    (hn : c.mt ≠ noMeta) (d : Nat) :
    demands (classSites c).demanded (attachedValue (registry classes) (classSites c).attached d) = true := by
  simp [demands, attachedValue, classSites, mem_registry classes c h]

/-- ... and is accepted wherever a pointer to its class is an argument -/
theorem constructed_accepted_as_argument (classes : List ClassD) (i : Nat) (c : ClassD)
    (h : classes[i]? = some c) (d : Nat) :
    ∃ m, argDemanded classes i = some m ∧
      demands m (attachedValue (registry classes) (classSites c).attached d) = true := by
  refine ⟨c.mt, by simp [argDemanded, h], ?_⟩
  simp [demands, attachedValue, classSites, mem_registry classes c (List.mem_of_getElem? h)]

/-- classes with different names never accept each other's objects -/
theorem constructed_rejected_by_other_name (reg : List Nat) (name other d : Nat) (h : name ≠ other)
    (ho : other ≠ noMeta) : demands other (attachedValue reg name d) = false := by
  simp only [demands, attachedValue]
  by_cases hr : name ∈ reg
  · simp [hr, h]
  · simp [hr, Ne.symm ho]

/-- a name nobody created: the constructor's userdata has no metatable and passes no test at all
    (what happens when `luaopen` skips a class, or when a site spells the name differently) -/
theorem uncreated_name_accepted_nowhere (reg : List Nat) (name other d : Nat) (h : name ∉ reg)
    (ho : other ≠ noMeta) : demands other (attachedValue reg name d) = false := by
  simp [demands, attachedValue, h, Ne.symm ho]

/-- a method called on an object its own class constructed dispatches on the arguments above it -/
theorem method_on_constructed_named (k : Kind) (hk : k.selfOffset = 1) (ovs : List Overload)
    (classes : List ClassD) (c : ClassD) (h : c ∈ classes) (d : Nat)
    (args : List Val) (hz : (byCount (luaCalls k ovs) 0).length ≤ 1) :
    run (demands (classSites c).demanded) (gen k ovs)
        (attachedValue (registry classes) (classSites c).attached d :: args)
      = expectedArgs (luaCalls k ovs) (some (attachedValue (registry classes) (classSites c).attached d)) args := by
  rw [dispatch_correct _ k ovs _ hz]
  have : demands (classSites c).demanded (attachedValue (registry classes) (classSites c).attached d) = true := by
    simp [demands, attachedValue, classSites, mem_registry classes c h]
  simp [expected, hk, this]

example :
    let classes : List ClassD := [⟨5, [⟨1, 1, 10, .ctor⟩], 7⟩, ⟨6, [⟨1, 1, 20, .ctor⟩, ⟨3, 3, 21, .method⟩], 8⟩]
    registry classes = [7, 8] ∧ classRegs classes[0] = [] ∧ argDemanded classes 0 = some 7 ∧
      demands 7 (attachedValue (registry classes) 7 1) = true ∧
      demands 8 (attachedValue (registry classes) 7 1) = false ∧
      demands 7 (attachedValue [8] 7 1) = false := by decide

/-! ### reachability through the namespace tree -/

/-- which scopes are visited depends on the depths and the `wrap.lua` flags only: whatever a scope
    contains (only classes, only namespaces, nothing at all) changes nothing for the scopes nested in
    it or following it -/
theorem visit_independent_of_content (f : ScopeD → ScopeD) : ∀ (nodes : List NsNode) (sk : Option Nat),
    visit sk (nodes.map (fun n => { n with scope := f n.scope })) = (visit sk nodes).map f := by
  intro nodes
  induction nodes with
  | nil => intro sk; simp [visit]
  | cons n rest ih =>
    intro sk
    have body : ∀ (skip : Bool),
        (if skip = true then visit sk (rest.map (fun n => { n with scope := f n.scope }))
         else if n.wrapLua = true then f n.scope :: visit none (rest.map (fun n => { n with scope := f n.scope }))
         else visit (some n.depth) (rest.map (fun n => { n with scope := f n.scope }))) =
        (if skip = true then visit sk rest
         else if n.wrapLua = true then n.scope :: visit none rest else visit (some n.depth) rest).map f := by
      intro skip
      cases skip
      · by_cases h2 : n.wrapLua = true
        · simp [h2, ih none]
        · simp [h2, ih (some n.depth)]
      · simp [ih sk]
    cases sk with
    | none => simpa [visit] using body false
    | some d => simpa [visit] using body (decide (d < n.depth))

/-- with every namespace switched on, every scope at every depth is visited, in pre-order -/
theorem visit_all (nodes : List NsNode) (h : ∀ n ∈ nodes, n.wrapLua = true) :
    visit none nodes = nodes.map (·.scope) := by
  induction nodes with
  | nil => simp [visit]
  | cons n rest ih =>
    have hn := h n (by simp)
    simp only [visit, hn, if_true, List.map_cons]
    simp
    exact ih (fun m hm => h m (by simp [hm]))

theorem mem_moduleRegs_fn (scopes : List ScopeD) (s : ScopeD) (hs : s ∈ scopes) (g : WFn)
    (hg : g ∈ groups s.fns) : (g.lua, g.impl) ∈ moduleRegs scopes := by
  simp only [moduleRegs, List.mem_flatMap]
  refine ⟨s, hs, ?_⟩
  simp only [scopeRegs, List.mem_append, List.mem_map]
  exact Or.inr ⟨g, hg, rfl⟩

theorem mem_moduleRegs_ctor (scopes : List ScopeD) (s : ScopeD) (hs : s ∈ scopes) (c : ClassD)
    (hc : c ∈ s.classes) (g : WFn) (hg : g ∈ groups c.fns) (hk : g.kind = .ctor) :
    (c.ctorName, g.impl) ∈ moduleRegs scopes := by
  simp only [moduleRegs, List.mem_flatMap]
  refine ⟨s, hs, ?_⟩
  simp only [scopeRegs, List.mem_append, List.mem_flatMap]
  refine Or.inl ⟨c, hc, ?_⟩
  simp only [ctorRegs, List.mem_filterMap]
  exact ⟨g, hg, by simp [hk]⟩

/-- **registration completeness over the tree**: every function group and every constructor group of
    every namespace at any depth (all switched on) is entered in the module table under its Lua name,
    whatever else the enclosing and sibling scopes contain -/
theorem every_function_registered (nodes : List NsNode) (h : ∀ n ∈ nodes, n.wrapLua = true)
    (n : NsNode) (hn : n ∈ nodes) (g : WFn) (hg : g ∈ groups n.scope.fns) :
    (g.lua, g.impl) ∈ moduleRegsTree nodes := by
  unfold moduleRegsTree
  rw [visit_all nodes h]
  exact mem_moduleRegs_fn _ n.scope (List.mem_map.mpr ⟨n, hn, rfl⟩) g hg

theorem every_constructor_registered (nodes : List NsNode) (h : ∀ n ∈ nodes, n.wrapLua = true)
    (n : NsNode) (hn : n ∈ nodes) (c : ClassD) (hc : c ∈ n.scope.classes) (g : WFn)
    (hg : g ∈ groups c.fns) (hk : g.kind = .ctor) :
    (c.ctorName, g.impl) ∈ moduleRegsTree nodes ∧ c.mt ∈ registry (classesTree nodes) := by
  unfold moduleRegsTree classesTree
  rw [visit_all nodes h]
  refine ⟨mem_moduleRegs_ctor _ n.scope (List.mem_map.mpr ⟨n, hn, rfl⟩) c hc g hg hk, ?_⟩
  apply mem_registry
  simp only [List.mem_flatMap, List.mem_map]
  exact ⟨n.scope, ⟨n, hn, rfl⟩, hc⟩

/-- library without functions > namespace with a class only > namespace with nothing > namespace with
    a function; a switched-off namespace hides its whole subtree and nothing else -/
example :
    let f : WFn := ⟨1, 1, 10, .free⟩
    let g : WFn := ⟨2, 2, 20, .free⟩
    let c : ClassD := ⟨5, [⟨3, 3, 30, .ctor⟩], 7⟩
    let tree (on : Bool) : List NsNode :=
      [⟨0, true, ⟨[], []⟩⟩, ⟨1, true, ⟨[c], []⟩⟩, ⟨2, on, ⟨[], []⟩⟩, ⟨3, true, ⟨[], [f]⟩⟩, ⟨1, true, ⟨[], [g]⟩⟩]
    moduleRegsTree (tree true) = [(5, 30), (1, 10), (2, 20)] ∧
    moduleRegsTree (tree false) = [(5, 30), (2, 20)] := by decide

/-! ### which class a class argument means

`find_lua_classes` / `class_arg_pop` (model: `luaClassesFrom`, `classArgPop`): the dict of wrapped classes is
keyed by the fully qualified name, which C++ scoping makes distinct. -/

/-- **a class argument is read as an object of its own class**: for every list of wrapped classes with
    distinct qualified names (any number, any nesting, equal unqualified names allowed) an argument declared
    with the `i`-th class's name is resolved to the `i`-th class: its userdata struct, its metatable name -/
theorem class_arg_own_class (classes : List QName) (i : Nat) (q : QName) (hn : classes.Nodup)
    (h : classes[i]? = some q) : classArgPop classes q = .own i := by
  have := dictGet_luaClassesFrom_nodup id classes 0 i q (by simpa using hn) h
  simp_all [classArgPop, classArgPopBy]

/-- a type that is no wrapped class of this library takes the "wrapped by another library" path -/
theorem class_arg_unknown_is_foreign (classes : List QName) (q : QName) (h : q ∉ classes) :
    classArgPop classes q = .foreign (q.getLast?.getD 0) := by
  have := dictGet_luaClassesFrom_none id classes 0 q (fun q' hq' he => h (by simpa [← he] using hq'))
  simp_all [classArgPop, classArgPopBy]

/-- soundness for ANY keying: the class found has the same key as the argument's type -/
theorem class_arg_found_has_key (keyOf : QName → QName) (classes : List QName) (ty : QName) (k : Nat)
    (h : classArgPopBy keyOf classes ty = .own k) : ∃ q, classes[k]? = some q ∧ keyOf q = keyOf ty := by
  unfold classArgPopBy at h
  cases hr : dictGet (luaClassesFrom keyOf 0 classes) (keyOf ty) with
  | none => rw [hr] at h; simp at h
  | some w =>
    rw [hr] at h
    simp at h; subst h
    obtain ⟨j, q, hk, hq, he⟩ := dictGet_luaClassesFrom_some keyOf classes 0 w (keyOf ty) hr
    exact ⟨q, by simpa [hk] using hq, he⟩

/-- with the full name as key the class found IS the argument's class -/
theorem class_arg_found_is_the_type (classes : List QName) (ty : QName) (k : Nat)
    (h : classArgPop classes ty = .own k) : classes[k]? = some ty := by
  obtain ⟨q, hq, he⟩ := class_arg_found_has_key id classes ty k h
  simpa [← (show q = ty from he)] using hq

/-- keyed by the unqualified name the statement is false: `a::N` is read as an object of `b::N`
    (negation witness for a keying other than the full name) -/
theorem unqualified_key_confuses :
    ∃ (classes : List QName) (i : Nat) (q : QName), classes.Nodup ∧ classes[i]? = some q ∧
      classArgPopBy unqualKey classes q ≠ .own i :=
  ⟨[[1, 5], [2, 5]], 0, [1, 5], by decide, by decide, by decide⟩

/-- an object made by the constructor of the `i`-th class is accepted by every argument declared with that
    class's qualified name: one class, one metatable name, at the constructor and at the argument -/
theorem constructed_accepted_as_named_argument (names : List QName) (classes : List ClassD) (i : Nat)
    (q : QName) (c : ClassD) (hn : names.Nodup) (hq : names[i]? = some q) (hc : classes[i]? = some c)
    (d : Nat) :
    ∃ m, argDemandedByName names classes q = some m ∧
      demands m (attachedValue (registry classes) (classSites c).attached d) = true := by
  obtain ⟨m, hm, hd⟩ := constructed_accepted_as_argument classes i c hc d
  exact ⟨m, by simp [argDemandedByName, class_arg_own_class names i q hn hq, hm], hd⟩

/-- two classes `Node` in namespaces 1 and 2, a third class: every name is resolved to its own class;
    a class of another library is foreign -/
example :
    let names : List QName := [[1, 5], [2, 5], [6]]
    names.Nodup ∧ classArgPop names [1, 5] = .own 0 ∧ classArgPop names [2, 5] = .own 1 ∧
      classArgPop names [6] = .own 2 ∧ classArgPop names [3, 5] = .foreign 5 ∧
      classArgPopBy unqualKey names [1, 5] = .own 1 := by decide

/-! ### registration tables: a name reaches its own dispatcher exactly when names are distinct -/

/-- **module table**: if the Lua names in `luaL_Reg_module` are pairwise distinct, every function group of
    every visited scope is reached under its Lua name and every constructor group under its class's
    `LUA_ctor_name`: each by its own C dispatcher -/
theorem moduleRegs_reaches (scopes : List ScopeD) (h : ((moduleRegs scopes).map (·.1)).Nodup)
    (s : ScopeD) (hs : s ∈ scopes) :
    (∀ g ∈ groups s.fns, lookupReg (moduleRegs scopes) g.lua = some g.impl) ∧
    (∀ c ∈ s.classes, ∀ g ∈ groups c.fns, g.kind = .ctor →
      lookupReg (moduleRegs scopes) c.ctorName = some g.impl) :=
  ⟨fun g hg => (lookupReg_of_nodup _ h _ _).mpr (mem_moduleRegs_fn scopes s hs g hg),
   fun c hc g hg hk => (lookupReg_of_nodup _ h _ _).mpr (mem_moduleRegs_ctor scopes s hs c hc g hg hk)⟩

/-- converse: two entries with one name -- the earlier dispatcher is unreachable whatever surrounds them -/
theorem equal_names_earlier_unreachable (pre mid post : List (Nat × Nat)) (n f g : Nat) (hfg : f ≠ g)
    (h : ∀ p ∈ post, p.1 ≠ n) : lookupReg (pre ++ (n, f) :: mid ++ (n, g) :: post) n ≠ some f := by
  have := lookupReg_later_wins (pre ++ (n, f) :: mid) post n g h
  simp only [List.append_assoc, List.cons_append] at this ⊢
  rw [this]
  simp [Ne.symm hfg]

/-- the default names of two classes coincide exactly when their unqualified names do -/
theorem default_names_eq_iff (a b : Nat) : defaultNamesOf a = defaultNamesOf b ↔ a = b := by
  constructor
  · intro h
    have : 4 * a = 4 * b := congrArg ClassNames.udt h
    omega
  · rintro rfl; rfl

/-- **same-named classes of different namespaces, default names**: whatever else the library wraps, the
    userdata typedef (and the method-table array) is defined twice -- the binding is not a valid C++
    translation unit -- and both classes register one metatable name and one constructor name -/
theorem same_unqualified_name_clashes (pre mid post : List ClassNames) (q1 q2 : QName) (n : Nat)
    (h1 : q1.getLast? = some n) (h2 : q2.getLast? = some n) :
    classNames q1 none = classNames q2 none ∧
      ¬ noRedefinition (pre ++ classNames q1 none :: mid ++ classNames q2 none :: post) := by
  have he : classNames q1 none = classNames q2 none := by simp [classNames, h1, h2]
  refine ⟨he, ?_⟩
  rintro ⟨hu, _⟩
  rw [he] at hu
  simp only [List.append_assoc, List.cons_append, List.map_append, List.map_cons] at hu
  have := (List.nodup_append.mp hu).2.1
  simp at this

theorem nodup_map_of_injective (f : Nat → Nat) (hf : ∀ a b, f a = f b → a = b) :
    ∀ l : List Nat, l.Nodup → (l.map f).Nodup := by
  intro l
  induction l with
  | nil => intro _; simp
  | cons a l ih =>
    intro h
    simp only [List.nodup_cons] at h
    simp only [List.map_cons, List.nodup_cons, List.mem_map]
    refine ⟨?_, ih h.2⟩
    rintro ⟨b, hb, e⟩
    exact h.1 (by rw [← hf b a e]; exact hb)

/-- with distinct unqualified names nothing is defined twice -/
theorem distinct_default_names_no_redefinition (ns : List Nat) (h : ns.Nodup) :
    noRedefinition (ns.map defaultNamesOf) := by
  constructor
  · simp only [List.map_map]
    exact nodup_map_of_injective _ (fun a b hab => by simp [defaultNamesOf] at hab; omega) ns h
  · simp only [List.map_map]
    exact nodup_map_of_injective _ (fun a b hab => by simp [defaultNamesOf] at hab; omega) ns h

/-- one metatable name for two classes: the object of either class passes the other class's test
    (methods and class arguments): the classes are confused -/
theorem shared_metatable_name_confuses (classes : List ClassD) (c1 c2 : ClassD) (h1 : c1 ∈ classes)
    (h : c1.mt = c2.mt) (d : Nat) :
    demands (classSites c2).demanded (attachedValue (registry classes) (classSites c1).attached d) = true := by
  have hm := mem_registry classes c1 h1
  rw [h] at hm
  simp [demands, attachedValue, classSites, hm, h]

example : classNames [1, 5] none = classNames [2, 5] none ∧ classNames [1, 5] none ≠ classNames [6] none ∧
    classNames [1, 5] (some ⟨90, 91, 92, 93⟩) ≠ classNames [2, 5] none := by decide

example : lookupReg [(7, 10), (3, 11), (7, 12)] 7 = some 12 := by decide

end Shroud.LuaDispatch
