import ShroudVerif.Lemmas.DeclNoCrash
import ShroudVerif.Lemmas.DeclRound
import ShroudVerif.Lemmas.AttrsNoCrash
import ShroudVerif.Lemmas.Lexer
import ShroudVerif.Lemmas.YamlNoCrash
import ShroudVerif.Gen.DeclTables
import ShroudVerif.Gen.AttrTables
/-!
# C17  Invalid input is rejected with a diagnostic, never by an internal failure

Theorems over the parser model `Model/Decl.lean` (`declast.check_decl` for a library
namespace), for ALL token lists and all symbol/typemap environments.

(1) Termination: every function of the model is defined by structural recursion
    (no `partial`, no well-founded recursion); the recursion budget is explicit and
    `Res.fuel` is a distinct outcome.  That the budget of `parse` suffices is proved for
    every canonical token list (`C09.roundtrip_partial`) and checked by the tie on all
    generated inputs (the driver reports `fuel` distinctly); it is not proved for
    arbitrary token lists.
(2) `parse_no_crash`: no internal Python exception, for any budget.
(3) `parse_consumes_all_partial`, `initializer_needs_value`: an accepted declaration was
    followed by nothing but an optional `;`, and an `=` is always followed by a value.
    `_partial`: that the unconsumed rest returned by `declaration` is a suffix of the input
    is by construction of the model (each function returns a tail of its argument) but is
    not stated as a theorem; equality of `tokens (gen_decl d)` with the input up to
    normalisation is proved only in the printer-to-parser direction (C09 round trip).
(4) `documented_forms_accepted`.
(5) attribute validation (`Model/Attrs.lean`, a model of generate.VerifyAttrs tied to the real
    code through the driver op `vattrs`): `verifyAttrs_no_crash`, the documented illegal
    combinations (`illegal_*`), the default rules (`default_*`).
(6) YAML structure validation (`Model/YamlShape.lean`, shape layer of ast.py, tied through the
    driver op `yshape`): `yamlShape_no_crash`, `shape_*`.
(1') the tokenizer over characters (`Model/Lexer.lean`): `tokenize_total`, `tokenize_concat`,
    `checkDecl_no_crash` (so (2) covers strings, not only token lists).
-/
namespace Shroud.Decl

/-- **(2) no internal failure.**  For every environment, every recursion budget and every
    token list, the declaration parser ends in `ok`, a diagnostic (`reject`), `fuel` or
    `unmodelled` -- never in an internal Python exception. -/
theorem parse_no_crash (env : Env) (ts : Toks) (e : String) : parse env ts ≠ .crash e := by
  have h := NC_declStatement env (fuelFor ts) ts
  unfold NC at h
  exact h e

theorem declaration_no_crash (env : Env) (n : Nat) (ts : Toks) (e : String) :
    declaration env n ts ≠ .crash e := by
  have h := NC_declaration env n ts
  unfold NC at h
  exact h e

theorem expression_no_crash (n mp : Nat) (ts : Toks) (e : String) : expression n mp ts ≠ .crash e := by
  have h := NC_expression n mp ts
  unfold NC at h
  exact h e

/-- **(3) nothing is left over.**  If a token list is accepted, `declaration` stopped with
    nothing left but an optional `;`. -/
theorem parse_consumes_all_partial (env : Env) (ts : Toks) (d : Decl) (h : parse env ts = .ok d) :
    ∃ rest, declaration env (fuelFor ts) ts = .ok (d, rest) ∧
      (rest = [] ∨ ∃ t, rest = [t] ∧ t.typ = .SEMICOLON) := by
  unfold parse declStatement at h
  split at h <;> try (cases h; done)
  cases hd : declaration env (fuelFor ts) ts with
  | ok a =>
    obtain ⟨d', rest⟩ := a
    rw [hd] at h
    simp only [Res.bind_ok] at h
    cases rest with
    | nil =>
      simp [have?] at h
      exact ⟨[], by rw [h], Or.inl rfl⟩
    | cons t r =>
      by_cases ht : t.typ = .SEMICOLON
      · cases r with
        | nil =>
          simp [have?, ht] at h
          exact ⟨[t], by rw [h], Or.inr ⟨t, rfl, ht⟩⟩
        | cons _ _ => simp [have?, ht] at h
      · simp [have?, ht] at h
  | reject m => rw [hd] at h; cases h
  | crash m => rw [hd] at h; cases h
  | fuel => rw [hd] at h; cases h
  | unmodelled m => rw [hd] at h; cases h

/-- **(3) `=` needs a value** (after the fix: `void f(int x = )` is a parse error). -/
theorem initializer_needs_value (ts : Toks) (v : Init) (rest : Toks) (h : initializer ts = .ok (v, rest)) :
    ∃ t, ts = t :: rest ∧ (t.typ = .REAL ∨ t.typ = .INTEGER ∨ t.typ = .DQUOTE ∨ t.typ = .SQUOTE ∨ t.typ = .ID) := by
  cases ts with
  | nil => simp [initializer] at h
  | cons t ts' =>
    simp only [initializer] at h
    by_cases h1 : t.typ = .REAL
    · simp [h1] at h; exact ⟨t, by rw [h.2], Or.inl h1⟩
    · by_cases h2 : t.typ = .INTEGER
      · simp [h2] at h; exact ⟨t, by rw [h.2], Or.inr (Or.inl h2)⟩
      · by_cases h3 : t.typ = .DQUOTE ∨ t.typ = .SQUOTE ∨ t.typ = .ID
        · simp only [h1, h2, h3, if_false, if_true] at h
          cases h
          exact ⟨t, rfl, Or.inr (Or.inr h3)⟩
        · simp [h1, h2, h3] at h

example : initializer [tk .RPAREN ")"] = .reject "Expected a value after '=', found RPAREN" := by rfl

/-! ### (4) documented declaration forms are accepted

`DocDecl` lists the declaration shapes the user documentation shows
(docs/declarations.rst, pointers.rst, tutorial.rst, reference.rst "Attributes"):
`[const] type [* | & | ** | *& with const/volatile] name [dims] +attr +attr(value)` as a
variable or argument, and functions `type [*&] name(args | void | ) [const] +attrs` whose
arguments are of the first shape. -/

structure DocVar where
  const : Bool
  type : List Str            -- `int`, `unsigned long`, `size_t`, ...
  typemap : Str
  ptrs : List Ptr
  name : Str
  dims : List Expr
  attrs : List (Str × AttrVal)

inductive DocDecl where
  | var (v : DocVar)
  | func (ret : DocVar) (params : List DocVar) (methodConst : Bool)

def DocVar.toDecl (v : DocVar) : Decl :=
  .mk (.mk v.type [] v.const false [] v.typemap) (some (.leaf v.ptrs (some v.name))) none false v.dims v.attrs none

def DocDecl.toDecl : DocDecl → Decl
  | .var v => v.toDecl
  | .func r ps fc =>
    .mk (.mk r.type [] r.const false [] r.typemap) (some (.leaf r.ptrs (some r.name)))
      (some (ps.map DocVar.toDecl)) fc r.dims r.attrs none

/-- the rendering of a documented form: Shroud's own canonical text -/
def DocDecl.render (g : DocDecl) : Toks := g.toDecl.toks

/-- **(4)** every documented form whose names and types are known to the environment
    (`WF`: type resolves, names are identifiers and not type names) is accepted, and
    understood as the declaration it was written as. -/
theorem documented_forms_accepted (env : Env) (hv : EnvVoid env) (g : DocDecl) (wf : WF env g.toDecl) :
    parse env g.render = .ok g.toDecl := by
  unfold DocDecl.render
  obtain ⟨t, ts, e, h⟩ := declToks_head' env g.toDecl wf
  have hr := roundtrip_all env hv g.toDecl wf [] (4 * g.toDecl.toks.length + 15) trivial (by omega)
  simp only [List.append_nil] at hr
  unfold parse declStatement fuelFor
  have hp : peekTyp g.toDecl.toks = some t.typ := by rw [e]; rfl
  rw [hp]
  rcases h with h | h | h | h <;> simp [h, hr, have?]

/-- `int Sum(int len, const int * values +dimension(len)) const` (cf. docs/tutorial.rst) -/
def docSum : DocDecl :=
  .func ⟨false, [sp "int"], sp "int", [], sp "Sum", [], []⟩
    [⟨false, [sp "int"], sp "int", [], sp "len", [], []⟩,
     ⟨true, [sp "int"], sp "int", [⟨.star, false, false⟩], sp "values", [], [(sp "dimension", .text [tk .ID "len"])]⟩] true

open Shroud.Gen.DeclTables in
example : parse defaultEnv docSum.render = .ok docSum.toDecl := by rfl

/-! ### witnesses: the former internal failures are diagnostics now -/

open Shroud.Gen.DeclTables in
/-- `size_t::foo x` (was `TypeError`: `raise NotImplemented`) -/
example : parse defaultEnv [tk .ID "size_t", tk .SCOPE "::", tk .ID "foo", tk .ID "x"]
    = .reject "Symbol 'foo' is not in namespace 'size_t'" := by rfl

open Shroud.Gen.DeclTables in
/-- `std x` (was `AttributeError`: a namespace has no typemap) -/
example : parse defaultEnv [tk .ID "std", tk .ID "x"] = .reject "'std' is not a type" := by rfl

open Shroud.Gen.DeclTables in
/-- `void f(int x = )` (was silently accepted) -/
example : parse defaultEnv [tk .TYPE_SPECIFIER "void", tk .ID "f", tk .LPAREN "(", tk .TYPE_SPECIFIER "int",
    tk .ID "x", tk .EQUALS "=", tk .RPAREN ")"] = .reject "Expected a value after '=', found RPAREN" := by rfl

open Shroud.Gen.DeclTables in
/-- trailing text is rejected -/
example : parse defaultEnv [tk .TYPE_SPECIFIER "int", tk .ID "x", tk .RPAREN ")"] = .reject "Expected EOF, found RPAREN" := by rfl

end Shroud.Decl

/-! ## (1') the tokenizer over characters, and `check_decl` on strings -/
namespace Shroud.Lexer
open Shroud.Decl

/-- the token patterns of the tree under test, and their order, are the ones the model reads
    (regenerated from `declast.token_specification`; a changed regex breaks this theorem) -/
theorem tokenSpec_is_modelled : Shroud.Gen.DeclTables.tokenSpecCode = modelledSpec := by decide

/-- **the tokenizer is total and never fails**: for every string the match loop ends normally,
    within its budget, and never reaches "Unexpected character" -/
theorem tokenize_total (s : List Char) : ∃ ts, tokenize s = .ok ts := by
  obtain ⟨ps, hp, _⟩ := pieces_spec (s.length + 1) s [] (by omega)
  exact ⟨ps.filterMap Piece.toToken, by simp [tokenize, hp]⟩

/-- **nothing is lost or invented**: the matched pieces (tokens and skipped white space), in
    order, spell exactly the input; the token list is those pieces without the white space,
    `ID` matches reclassified as keywords -/
theorem tokenize_concat (s : List Char) :
    ∃ ps, pieces (s.length + 1) s [] = .ok ps ∧ textOf ps = s ∧
      tokenize s = .ok (ps.filterMap Piece.toToken) := by
  obtain ⟨ps, hp, ht⟩ := pieces_spec (s.length + 1) s [] (by omega)
  exact ⟨ps, hp, by simpa [textOf] using ht, by simp [tokenize, hp]⟩

/-- every match consumes at least one character and is a prefix of what remains -/
theorem lexOne_progress (s : List Char) (h : s ≠ []) :
    ∃ k t r, lexOne s = some (k, t, r) ∧ t ++ r = s ∧ t ≠ [] := lexOne_spec s h

/-- **(2) on strings**: `check_decl` (tokenizer composed with the parser) never ends in an
    internal Python exception, for every string -/
theorem checkDecl_no_crash (env : Env) (s : List Char) (e : String) : checkDecl env s ≠ .crash e := by
  obtain ⟨ts, ht⟩ := tokenize_total s
  unfold checkDecl
  rw [ht]
  exact parse_no_crash env ts e

example : tokenize "1.5e+3 1e 1.2.3 .. ... std::x".toList
    = .ok [⟨.REAL, "1.5e+3".toList, []⟩, ⟨.INTEGER, "1".toList, []⟩, ⟨.ID, "e".toList, []⟩, ⟨.REAL, "1.2".toList, []⟩,
           ⟨.REAL, ".3".toList, []⟩, ⟨.OTHER, ".".toList, []⟩, ⟨.OTHER, ".".toList, []⟩, ⟨.VARARG, "...".toList, []⟩,
           ⟨.ID, "std".toList, []⟩, ⟨.SCOPE, "::".toList, []⟩, ⟨.ID, "x".toList, []⟩] := by rfl

open Shroud.Gen.DeclTables in
example : checkDecl defaultEnv "const  char*name +intent(in);".toList
    = parse defaultEnv [tk .TYPE_QUALIFIER "const", tk .TYPE_SPECIFIER "char", tk .STAR "*", tk .ID "name", tk .PLUS "+",
        tk .ID "intent", tk .LPAREN "(", tk .ID "in", tk .RPAREN ")", tk .SEMICOLON ";"] := by rfl

end Shroud.Lexer

/-! ## (5) attribute validation -/
namespace Shroud.Attrs
open Shroud.Decl

/-- **no internal failure in attribute validation**: for every table of allowed names, every
    `patterns` list, every declaration shape and every attribute map (absent / bare / text /
    integer / real / list / false values), `check_fcn_attrs`, `check_arg_attrs` and
    `check_var_attrs` end in `ok` or a diagnostic. -/
theorem verifyAttrs_no_crash (t : Tables) (patterns : List Str) (d : ADecl) (hasNode : Bool) (e : String) :
    checkFcn t patterns d ≠ .crash e ∧ checkArg t patterns hasNode d ≠ .crash e ∧ checkVar t d ≠ .crash e :=
  ⟨NCa_ne (NCa_checkFcn t patterns d) e, NCa_ne (NCa_checkArg t patterns d hasNode) e, NCa_ne (NCa_checkVar t d) e⟩

/-- the recursion budget of the expression parser suffices for every token list
    (used for `+implied(...)` and `+dimension(...)` text; also C17 (1) for `ExprParser`) -/
theorem expression_fuel_suffices (mp : Nat) (ts : Toks) (n : Nat) (hn : n ≥ 4 * ts.length + 2) :
    expression n mp ts ≠ .fuel := expression_not_fuel mp ts n hn

/-! ### documented illegal combinations are rejected, naming the attribute
(docs/input.rst "Attributes": "Nonpointer arguments can only be intent(in)", dimension / rank
"of pointer arguments", charlen "char *arg+intent(out)", deref "pointer", value vs dimension) -/

/-- an attribute name outside the allowed list of its position is rejected by name -/
theorem illegal_name_rejected (t : Tables) (pats : List Str) (hn : Bool) (ptrs : List PtrK) (a c h : Bool)
    (tn tb sg : Str) (fp : Bool) (nt : Nat) (tt : Bool) (attrs : List (Str × AVal)) (k : Str)
    (hk : firstIllegal t.argAttrs attrs = some k) :
    checkArgOne t pats hn ptrs a c h tn tb sg fp nt tt attrs = .reject ("arg:illegal-attribute:" ++ String.ofList k) := by
  simp [checkArgOne, hk]

/-- "Nonpointer arguments can only be intent(in)" -/
theorem illegal_intent_on_nonpointer (t : Tables) (hn c f : Bool) (sg : Str) (attrs : List (Str × AVal))
    (s : Str) (toks : Toks) (i : Option Int) (hi : get "intent" attrs = some (.text s toks i))
    (hv : lower s ∈ t.intentValues) (hne : lower s ≠ "in".toList) :
    checkIntent t hn [] c f sg attrs = .reject "intent:only-pointer-arguments" := by
  have hne' : ¬ lower s = ['i', 'n'] := hne
  simp [checkIntent, hi, hv, hne']

/-- an intent that is not in / out / inout, or that has no value -/
theorem illegal_intent_value (t : Tables) (hn c f : Bool) (ptrs : List PtrK) (sg : Str) (attrs : List (Str × AVal))
    (v : AVal) (hi : get "intent" attrs = some v)
    (hv : ∀ s toks i, v = .text s toks i → lower s ∉ t.intentValues) :
    checkIntent t hn ptrs c f sg attrs = .reject "intent:bad-value" ∨
    checkIntent t hn ptrs c f sg attrs = .reject "intent:must-have-a-value" := by
  cases v with
  | text s toks i => left; simp [checkIntent, hi, hv s toks i rfl]
  | bare => right; simp [checkIntent, hi]
  | int _ => right; simp [checkIntent, hi]
  | real _ _ => right; simp [checkIntent, hi]
  | list _ => right; simp [checkIntent, hi]
  | boolFalse => right; simp [checkIntent, hi]

def dimensionIds : List String :=
  ["dimension:must-have-a-value", "dimension:with-value", "dimension:with-rank", "dimension:only-pointer"]
def rankIds : List String :=
  ["rank:must-have-integer-value", "rank:not-an-integer", "rank:must-be-0-7", "rank:only-pointer"]
def derefIds : List String := ["deref:illegal-value", "deref:on-non-pointer"]

/-- `dimension` together with `value`, with `rank`, or on a non-pointer -/
theorem illegal_dimension_combinations (ptrs : List PtrK) (h : Bool) (tn tb : Str) (r : Option Int)
    (attrs : List (Str × AVal)) (hd : truthyAt "dimension" attrs = true)
    (hbad : truthyAt "value" attrs = true ∨ truthyAt "rank" attrs = true ∨ ptrs = []) :
    ∃ id, checkDimension ptrs h tn tb r attrs = .reject id ∧ id ∈ dimensionIds := by
  unfold checkDimension
  simp only [hd, if_true]
  split
  · exact ⟨_, rfl, by simp [dimensionIds]⟩
  · by_cases h1 : truthyAt "value" attrs = true
    · simp only [h1, if_true]; exact ⟨_, rfl, by simp [dimensionIds]⟩
    · by_cases h2 : truthyAt "rank" attrs = true
      · simp only [h1, h2, if_true, if_false, Bool.false_eq_true]; exact ⟨_, rfl, by simp [dimensionIds]⟩
      · rcases hbad with hb | hb | hb
        · exact absurd hb h1
        · exact absurd hb h2
        · subst hb
          simp only [h1, h2, if_false, Bool.false_eq_true, List.isEmpty_nil, if_true]
          exact ⟨_, rfl, by simp [dimensionIds]⟩

/-- `rank` must be an integer 0-7 on a pointer or reference -/
theorem illegal_rank (ptrs : List PtrK) (attrs : List (Str × AVal)) (v : AVal)
    (hr : get "rank" attrs = some v) (ht : v.truthy = true)
    (hbad : rankInt v = none ∨ (∃ n, rankInt v = some n ∧ n > 7) ∨ ptrs = []) :
    ∃ id, checkRank ptrs attrs = .reject id ∧ id ∈ rankIds := by
  have htr : truthyAt "rank" attrs = true := by simp [truthyAt, hr, ht]
  have key : ∀ n, rankInt v = some n →
      ∃ id, (if n > 7 then (Res.reject "rank:must-be-0-7" : Res (Option Int))
             else if ptrs.isEmpty then .reject "rank:only-pointer" else .ok (some n)) = .reject id ∧ id ∈ rankIds := by
    intro n hn
    by_cases h7 : n > 7
    · simp only [h7, if_true]; exact ⟨_, rfl, by simp [rankIds]⟩
    · rcases hbad with hb | ⟨m, hm, hgt⟩ | hb
      · rw [hn] at hb; cases hb
      · rw [hn] at hm; cases hm; exact absurd hgt h7
      · subst hb; simp only [h7, if_false, List.isEmpty_nil, if_true]; exact ⟨_, rfl, by simp [rankIds]⟩
  unfold checkRank
  simp only [htr, if_true, hr]
  cases v with
  | bare => exact ⟨_, rfl, by simp [rankIds]⟩
  | boolFalse => simp [AVal.truthy] at ht
  | list ne => exact ⟨_, rfl, by simp [rankIds]⟩
  | text s toks i =>
    cases i with
    | none => exact ⟨_, rfl, by simp [rankIds]⟩
    | some n => exact key n rfl
  | int n => exact key n rfl
  | real tr nz => exact key tr rfl

/-- `deref` with a value outside the allowed list, or on a non-pointer -/
theorem illegal_deref (t : Tables) (ptrs : List PtrK) (a : Bool) (tn : Str) (i : Option Str)
    (attrs : List (Str × AVal)) (v : AVal) (hd : get "deref" attrs = some v)
    (hbad : v.isOneOf t.derefValues = false ∨ ptrs = []) :
    ∃ id, checkDeref t ptrs a tn i attrs = .reject id ∧ id ∈ derefIds := by
  unfold checkDeref
  simp only [hd]
  by_cases h1 : v.isOneOf t.derefValues = true
  · rcases hbad with hb | hb
    · rw [hb] at h1; cases h1
    · subst hb; exact ⟨"deref:on-non-pointer", by simp [h1], by simp [derefIds]⟩
  · exact ⟨"deref:illegal-value", by simp [h1], by simp [derefIds]⟩

/-- `assumedtype` together with `value` -/
theorem illegal_assumedtype_with_value (ptrs : List PtrK) (a : Bool) (tn : Str) (attrs : List (Str × AVal)) (v : AVal)
    (ha : get "assumedtype" attrs = some v) (hv : truthyAt "value" attrs = true) :
    checkValue ptrs a tn attrs = .reject "assumedtype:with-value" := by
  simp [checkValue, ha, hv]

/-- `charlen` on anything but `char *` -/
theorem illegal_charlen (ptrs : List PtrK) (tb : Str) (attrs : List (Str × AVal))
    (hc : truthyAt "charlen" attrs = true) (hbad : tb ≠ "string".toList ∨ ptrs.length ≠ 1) :
    checkCharlen ptrs tb attrs = .reject "charlen:only-char-pointer" := by
  unfold checkCharlen
  simp only [hc, if_true]
  split
  · rfl
  · rename_i h1
    split
    · rfl
    · rename_i h2
      rcases hbad with hb | hb
      · exact absurd hb h1
      · exact absurd hb h2

/-- `owner` outside caller / library -/
theorem illegal_owner (t : Tables) (pats : List Str) (attrs : List (Str × AVal)) (v : AVal)
    (ho : get "owner" attrs = some v) (hbad : v.isOneOf t.ownerValues = false) :
    checkOwner t pats attrs = .reject "owner:illegal-value" := by
  simp [checkOwner, ho, hbad]

/-! ### documented defaults (docs/declarations.rst: numeric values default to intent(in) and are
passed by value; `const` pointers default to intent(in); other pointers to intent(inout);
docs/pointers.rst: `int **arg +intent(out)` defaults to deref(pointer)) -/

/-- default intent of an argument without `+intent` -/
theorem default_intent (t : Tables) (ptrs : List PtrK) (c f : Bool) (sg : Str) (attrs : List (Str × AVal))
    (hi : get "intent" attrs = none) :
    checkIntent t true ptrs c f sg attrs = .ok (some (
      if f ∨ ptrs = [] ∨ c ∨ sg = "void".toList then "in".toList else "inout".toList)) := by
  unfold checkIntent
  simp only [hi]
  cases f <;> cases c <;> cases ptrs <;> simp <;> split <;> simp_all

/-- parameters of a function-pointer argument get no default intent -/
theorem default_intent_fptr_param (t : Tables) (ptrs : List PtrK) (c f : Bool) (sg : Str) (attrs : List (Str × AVal))
    (hi : get "intent" attrs = none) : checkIntent t false ptrs c f sg attrs = .ok none := by
  simp [checkIntent, hi]

/-- default pass-by-value: non-pointer non-array arguments and `void *` -/
theorem default_value (ptrs : List PtrK) (a : Bool) (tn : Str) (attrs : List (Str × AVal))
    (h1 : get "assumedtype" attrs = none) (h2 : get "value" attrs = none) :
    checkValue ptrs a tn attrs = .ok (
      if ptrs = [] then !a else decide (tn = "void".toList ∧ ptrs.length = 1)) := by
  unfold checkValue
  simp only [h1, h2]
  cases ptrs <;> cases a <;> simp

/-- default deref: `**` and `*&` intent(out) arguments of a non-void type become Fortran pointers -/
theorem default_deref (t : Tables) (ptrs : List PtrK) (a : Bool) (tn : Str) (i : Option Str) (attrs : List (Str × AVal))
    (hd : get "deref" attrs = none) :
    checkDeref t ptrs a tn i attrs = .ok (
      if tn ≠ "void".toList ∧ t.derefOutShapes.contains (indirectStmt ptrs a) = true ∧ i = some "out".toList
      then some "pointer".toList else none) := by
  unfold checkDeref
  simp only [hd]
  split
  · rename_i h1; simp [h1]
  · rename_i h1
    split
    · rename_i h2
      have : (tn ≠ "void".toList ∧ t.derefOutShapes.contains (indirectStmt ptrs a) = true ∧ i = some "out".toList) :=
        ⟨h1, h2.1, h2.2⟩
      rw [if_pos this]
    · rename_i h2
      have : ¬ (tn ≠ "void".toList ∧ t.derefOutShapes.contains (indirectStmt ptrs a) = true ∧ i = some "out".toList) :=
        fun h => h2 ⟨h.2.1, h.2.2⟩
      simp only [this, if_false]

/-- default rank: `std::vector` and `char **` are rank 1 when no dimension is given -/
theorem default_rank (ptrs : List PtrK) (tn tb : Str) (r : Option Int) (attrs : List (Str × AVal))
    (hd : truthyAt "dimension" attrs = false) (hv : tb = "vector".toList ∨ (tn = "char".toList ∧ ptrs.length = 2)) :
    checkDimension ptrs true tn tb r attrs = .ok (some 1) := by
  unfold checkDimension
  simp only [hd, Bool.false_eq_true, if_false, if_true]
  by_cases h1 : tb = "vector".toList
  · simp [h1]
  · rcases hv with hv | hv
    · exact absurd hv h1
    · simp [h1, hv]

/-! ### `fortran_generic`: every entry of the list is validated, whatever its position; an attribute
name outside the allowed list is found wherever an argument can be written (docs/input.rst `fortran_generic`:
"A list of argument lists"; docs/input.rst "Attributes") -/

/-- **no internal failure** for functions with `fortran_generic` entries (any number of entries, any arguments) -/
theorem verifyAttrsGeneric_no_crash (t : Tables) (patterns : List Str) (gens : List (List ADecl)) (d : ADecl) (e : String) :
    checkFcnG t patterns gens d ≠ .crash e := NCa_ne (NCa_checkFcnG t patterns gens d) e

theorem checkArgOne_ok_names (t : Tables) (pats : List Str) (hn : Bool) (ptrs : List PtrK) (a c h : Bool)
    (tn tb sg : Str) (fp : Bool) (nt : Nat) (tt : Bool) (attrs : List (Str × AVal)) (r : Norm)
    (hok : checkArgOne t pats hn ptrs a c h tn tb sg fp nt tt attrs = .ok r) : firstIllegal t.argAttrs attrs = none := by
  cases hf : firstIllegal t.argAttrs attrs with
  | none => rfl
  | some k => simp [checkArgOne, hf] at hok

/-- an accepted argument has no attribute name outside the allowed list, on itself or on any parameter
    (at any depth) of a function-pointer argument -/
theorem accepted_has_no_illegal_name (t : Tables) (pats : List Str) :
    ∀ d hn r, checkArg t pats hn d = .ok r → illegalAt t d = false := by
  intro d
  refine ADecl.rec (motive_1 := fun d => ∀ hn r, checkArg t pats hn d = .ok r → illegalAt t d = false)
    (motive_2 := fun o => ∀ ps, o = some ps → ∀ hn r, checkArgs t pats hn ps = .ok r → illegalAny t ps = false)
    (motive_3 := fun l => ∀ hn r, checkArgs t pats hn l = .ok r → illegalAny t l = false) ?_ ?_ ?_ ?_ ?_ d
  · intro ptrs arr c htm tn tb sg fp ini nt ttm nm attrs params ih hn r h
    unfold checkArg at h
    unfold illegalAt
    split at h
    · cases h
    · cases h
    · rename_i me hme
      have h0 := checkArgOne_ok_names t pats hn ptrs arr c htm tn tb sg fp nt ttm attrs me hme
      simp only [h0, Option.isSome_none, Bool.false_or]
      cases fp with
      | false => simp
      | true =>
        simp only [if_true, Bool.true_and] at h ⊢
        cases params with
        | none => rfl
        | some ps =>
          simp only at h ⊢
          split at h
          · rename_i rest hrest; exact ih ps rfl false rest hrest
          · cases h
          · cases h
  · intro ps h; cases h
  · intro l ih ps h hn r hr; cases h; exact ih hn r hr
  · intro hn r _; simp [illegalAny]
  · intro a l iha ihl hn r h
    unfold checkArgs at h
    unfold illegalAny
    split at h
    · cases h
    · split at h
      · cases h
      · cases h
      · rename_i ra hra
        split at h
        · rename_i rb hrb
          simp [iha hn ra hra, ihl hn rb hrb]
        · cases h
        · cases h

theorem checkGeneric_ok (t : Tables) (pats : List Str) (g : List ADecl) (a : List Norm)
    (h : checkGeneric t pats g = .ok a) :
    checkGenericArgs t pats g = .ok a ∧ checkImpliedAll (g.map (·.name)) g = .ok () := by
  unfold checkGeneric at h
  split at h
  · cases h
  · cases h
  · rename_i a' ha
    split at h
    · rename_i u hu; cases h; exact ⟨ha, by cases u; exact hu⟩
    · cases h
    · cases h

/-- **every entry, at every position**: if the loop over the `fortran_generic` list succeeds, then each entry's
    arguments passed `check_arg_attrs` and each entry's implied expressions passed `check_implied_attrs`
    against that entry's own argument names -/
theorem generic_every_entry_checked (t : Tables) (pats : List Str) :
    ∀ gs r, checkGenerics t pats gs = .ok r →
      ∀ g ∈ gs, (∃ a, checkGenericArgs t pats g = .ok a) ∧ checkImpliedAll (g.map (·.name)) g = .ok () := by
  intro gs
  induction gs with
  | nil => intro r _ g hg; cases hg
  | cons g0 gs ih =>
    intro r h g hg
    unfold checkGenerics at h
    split at h
    · cases h
    · cases h
    · rename_i a ha
      split at h
      · rename_i b hb
        cases hg with
        | head => exact ⟨⟨a, (checkGeneric_ok t pats g0 a ha).1⟩, (checkGeneric_ok t pats g0 a ha).2⟩
        | tail _ hm => exact ih b hb g hm
      · cases h
      · cases h

/-- every argument of an accepted entry passed `check_arg_attrs` -/
theorem generic_entry_every_arg_checked (t : Tables) (pats : List Str) :
    ∀ g a, checkGenericArgs t pats g = .ok a → ∀ d ∈ g, ∃ n, checkArg t pats true d = .ok n := by
  intro g
  induction g with
  | nil => intro a _ d hd; cases hd
  | cons d0 ds ih =>
    intro a h d hd
    unfold checkGenericArgs at h
    split at h
    · cases h
    · cases h
    · rename_i n hn
      split at h
      · rename_i b hb
        cases hd with
        | head => exact ⟨n, hn⟩
        | tail _ hm => exact ih b hb d hm
      · cases h
      · cases h

/-- an entry (first, middle, last) with an undocumented attribute name on one of its arguments - or on a
    parameter of a function-pointer argument of the entry - makes the whole list a reject -/
theorem generic_illegal_name_rejected (t : Tables) (pats : List Str) (gs : List (List ADecl)) (g : List ADecl)
    (d : ADecl) (hg : g ∈ gs) (hd : d ∈ g) (hbad : illegalAt t d = true) :
    ∃ id, checkGenerics t pats gs = .reject id := by
  cases h : checkGenerics t pats gs with
  | reject i => exact ⟨i, rfl⟩
  | crash e => exact absurd h (NCa_ne (NCa_checkGenerics t pats gs) e)
  | ok r =>
    obtain ⟨⟨a, ha⟩, _⟩ := generic_every_entry_checked t pats gs r h g hg
    obtain ⟨n, hn⟩ := generic_entry_every_arg_checked t pats g a ha d hd
    have := accepted_has_no_illegal_name t pats d true n hn
    rw [this] at hbad; cases hbad

/-- an entry (at any position) whose implied expressions do not pass against the entry's own argument names
    makes the whole list a reject -/
theorem generic_bad_implied_rejected (t : Tables) (pats : List Str) (gs : List (List ADecl)) (g : List ADecl)
    (hg : g ∈ gs) (i : String) (hbad : checkImpliedAll (g.map (·.name)) g = .reject i) :
    ∃ id, checkGenerics t pats gs = .reject id := by
  cases h : checkGenerics t pats gs with
  | reject i => exact ⟨i, rfl⟩
  | crash e => exact absurd h (NCa_ne (NCa_checkGenerics t pats gs) e)
  | ok r =>
    have := (generic_every_entry_checked t pats gs r h g hg).2
    rw [this] at hbad; cases hbad

theorem checkFcnG_ok_generics (t : Tables) (pats : List Str) (gens : List (List ADecl)) (d : ADecl) (r : List Norm)
    (h : checkFcnG t pats gens d = .ok r) (hne : gens ≠ []) : ∃ r', checkGenerics t pats gens = .ok r' := by
  obtain ⟨ptrs, arr, c, htm, tn, tb, sg, fp, ini, nt, ttm, nm, attrs, params⟩ := d
  have he : gens.isEmpty = false := by cases gens <;> simp_all
  cases hf : firstIllegal t.fcnAttrs attrs with
  | some k => simp [checkFcnG, hf] at h
  | none =>
    simp only [checkFcnG, hf] at h
    revert h
    generalize checkCommon t pats ptrs arr htm tn tb _ attrs = cc
    generalize checkArgs t pats true _ = ca
    intro h
    cases cc with
    | reject i => simp at h
    | crash e => simp at h
    | ok dr =>
      cases ca with
      | reject i => simp at h
      | crash e => simp at h
      | ok args =>
        cases hg : checkGenerics t pats gens with
        | ok r' => exact ⟨r', rfl⟩
        | reject i => simp [he, hg] at h
        | crash e => simp [he, hg] at h

/-- **`check_fcn_attrs` validates every `fortran_generic` entry**: a function whose list has, at any position, an
    entry with an undocumented attribute name (on an argument or, at any depth, on a parameter of a function-pointer
    argument) or with an implied expression that fails against the entry's own arguments ends in a diagnostic -/
theorem fcn_generic_entry_rejected (t : Tables) (pats : List Str) (gens : List (List ADecl)) (d : ADecl) (g : List ADecl)
    (hg : g ∈ gens)
    (hbad : (∃ a ∈ g, illegalAt t a = true) ∨ ∃ i, checkImpliedAll (g.map (·.name)) g = .reject i) :
    ∃ id, checkFcnG t pats gens d = .reject id := by
  have hne : gens ≠ [] := by intro h; subst h; cases hg
  cases h : checkFcnG t pats gens d with
  | reject i => exact ⟨i, rfl⟩
  | crash e => exact absurd h (verifyAttrsGeneric_no_crash t pats gens d e)
  | ok r =>
    obtain ⟨r', hr'⟩ := checkFcnG_ok_generics t pats gens d r h hne
    rcases hbad with ⟨a, ha, hil⟩ | ⟨i, hi⟩
    · obtain ⟨id, hid⟩ := generic_illegal_name_rejected t pats gens g a hg ha hil
      rw [hr'] at hid; cases hid
    · obtain ⟨id, hid⟩ := generic_bad_implied_rejected t pats gens g hg i hi
      rw [hr'] at hid; cases hid

/-! ### instances over the tables extracted from generate.py -/

def codeTables : Tables :=
  { fcnAttrs := Shroud.Gen.AttrTables.fcnAttrs, argAttrs := Shroud.Gen.AttrTables.argAttrs,
    varAttrs := Shroud.Gen.AttrTables.varAttrs, intentValues := Shroud.Gen.AttrTables.intentValues,
    derefValues := Shroud.Gen.AttrTables.derefValues, ownerValues := Shroud.Gen.AttrTables.ownerValues,
    derefOutShapes := Shroud.Gen.AttrTables.derefOutShapes }

/-- `void f(int x +intent(out))` -/
example : checkFcn codeTables [] (.mk [] false false true (sp "void") (sp "void") (sp "void") false false 0 false (some (sp "f")) []
    (some [.mk [] false false true (sp "int") (sp "") (sp "native") false false 0 false (some (sp "x"))
      [(sp "intent", .text (sp "out") [tk .ID "out"] none)] none]))
    = .reject "intent:only-pointer-arguments" := by rfl

/-- `void f(int **a +intent(out))`: intent out, not by value, deref pointer -/
example : checkFcn codeTables [] (.mk [] false false true (sp "void") (sp "void") (sp "void") false false 0 false (some (sp "f")) []
    (some [.mk [.star, .star] false false true (sp "int") (sp "") (sp "native") false false 0 false (some (sp "a"))
      [(sp "intent", .text (sp "out") [tk .ID "out"] none)] none]))
    = .ok [⟨none, false, none, none⟩, ⟨some (sp "out"), false, some (sp "pointer"), none⟩] := by rfl

/-- `void f(double *a +rank(1), int n +implied(size(b)))`: unknown argument in implied -/
example : checkFcn codeTables [] (.mk [] false false true (sp "void") (sp "void") (sp "void") false false 0 false (some (sp "f")) []
    (some [.mk [.star] false false true (sp "double") (sp "") (sp "native") false false 0 false (some (sp "a"))
        [(sp "rank", .text (sp "1") [tk .INTEGER "1"] (some 1))] none,
      .mk [] false false true (sp "int") (sp "") (sp "native") false false 0 false (some (sp "n"))
        [(sp "implied", .text (sp "size(b)") [tk .ID "size", tk .LPAREN "(", tk .ID "b", tk .RPAREN ")"] none)] none]))
    = .reject "implied:unknown-argument" := by rfl

/-- `void f(double *arg)` with `fortran_generic: [ (float *arg +bogus), (double *arg) ]`: the bad entry is the FIRST one
    (non-vacuity of `fcn_generic_entry_rejected`, first alternative) -/
example : checkFcnG codeTables []
    [[.mk [.star] false false true (sp "float") (sp "") (sp "native") false false 0 false (some (sp "arg")) [(sp "bogus", .bare)] none],
     [.mk [.star] false false true (sp "double") (sp "") (sp "native") false false 0 false (some (sp "arg")) [] none]]
    (.mk [] false false true (sp "void") (sp "void") (sp "void") false false 0 false (some (sp "f")) []
      (some [.mk [.star] false false true (sp "double") (sp "") (sp "native") false false 0 false (some (sp "arg")) [] none]))
    = .reject "arg:illegal-attribute:bogus" := by rfl

example : illegalAt codeTables
    (.mk [.star] false false true (sp "float") (sp "") (sp "native") false false 0 false (some (sp "arg")) [(sp "bogus", .bare)] none) = true := by rfl

/-- `void f(int n, int (*cb)(int *x +bogus))`: the name sits on a parameter of a function-pointer argument -/
example : illegalAt codeTables
    (.mk [.star] false false true (sp "int") (sp "") (sp "native") true false 0 false (some (sp "cb")) []
      (some [.mk [.star] false false true (sp "int") (sp "") (sp "native") false false 0 false (some (sp "x")) [(sp "bogus", .bare)] none])) = true := by rfl

/-- entries `(float *arg +rank(1), int n +implied(size(args)))`, `(double *arg +rank(1))`: the unknown argument `args`
    of the FIRST entry is diagnosed although the last entry is fine (second alternative) -/
example : checkFcnG codeTables []
    [[.mk [.star] false false true (sp "float") (sp "") (sp "native") false false 0 false (some (sp "arg"))
        [(sp "rank", .text (sp "1") [tk .INTEGER "1"] (some 1))] none,
      .mk [] false false true (sp "int") (sp "") (sp "native") false false 0 false (some (sp "n"))
        [(sp "implied", .text (sp "size(args)") [tk .ID "size", tk .LPAREN "(", tk .ID "args", tk .RPAREN ")"] none)] none],
     [.mk [.star] false false true (sp "double") (sp "") (sp "native") false false 0 false (some (sp "arg"))
        [(sp "rank", .text (sp "1") [tk .INTEGER "1"] (some 1))] none]]
    (.mk [] false false true (sp "void") (sp "void") (sp "void") false false 0 false (some (sp "f")) []
      (some [.mk [.star] false false true (sp "double") (sp "") (sp "native") false false 0 false (some (sp "arg"))
        [(sp "rank", .text (sp "1") [tk .INTEGER "1"] (some 1))] none]))
    = .reject "implied:unknown-argument" := by rfl

/-- `void f(double arg +intent(IN))`: an explicit, redundant intent(in) on a by-value argument is accepted -/
example : checkFcn codeTables [] (.mk [] false false true (sp "void") (sp "void") (sp "void") false false 0 false (some (sp "f")) []
    (some [.mk [] false false true (sp "double") (sp "") (sp "native") false false 0 false (some (sp "arg"))
      [(sp "intent", .text (sp "IN") [tk .ID "IN"] none)] none]))
    = .ok [⟨none, false, none, none⟩, ⟨some (sp "in"), true, none, none⟩] := by rfl

end Shroud.Attrs

/-! ## (6) YAML structure validation (shape layer of ast.py) -/
namespace Shroud.Yaml
open Shroud.Decl (Str)

/-- **no internal failure in the YAML shape checks**: for every mapping (any keys, any value
    tree) `create_library_from_dictionary`'s shape layer ends in `ok` or a diagnostic -/
theorem yamlShape_no_crash (keys : List Str) (vals : List YVal) (e : String) :
    createLibrary (.map keys vals) ≠ .crash e := NCy_createLibrary keys vals e

theorem shapeEntry_no_crash (v : YVal) (e : String) : shapeEntry v ≠ .crash e := (NCy_shape v).2 e

/-- a field that must be a mapping (`options`, `format`, `fields`, `attrs`, `fattrs`, `fstatements`,
    `splicer`) and is something else is rejected, and the diagnostic names such a field -/
theorem shape_field_must_be_dictionary (keys : List Str) (vals : List YVal) (names : List String) (k : String) (v : YVal)
    (hk : k ∈ names) (hv : lookup k keys vals = some v) (hnd : v.isDict = false)
    (hnb : ¬ (v.isNull = true ∧ (k = "options" ∨ k = "format" ∨ k = "fields"))) :
    ∃ k', k' ∈ names ∧ checkDictFields keys vals names = .reject ("must-be-dictionary:" ++ k') := by
  induction names with
  | nil => cases hk
  | cons a t ih =>
    unfold checkDictFields
    by_cases ha : a = k
    · subst ha
      refine ⟨a, by simp, ?_⟩
      simp only [hv, hnd, Bool.false_eq_true, if_false]
      have : ¬ (v.isNull = true ∧ (a = "options" ∨ a = "format" ∨ a = "fields")) := hnb
      simp only [this, if_false]
    · have hk' : k ∈ t := by
        cases hk with
        | head => exact absurd rfl ha
        | tail _ h => exact h
      obtain ⟨k', hm, hr⟩ := ih hk'
      split
      · split
        · exact ⟨k', by simp [hm], hr⟩
        · split
          · exact ⟨k', by simp [hm], hr⟩
          · exact ⟨a, by simp, rfl⟩
      · exact ⟨k', by simp [hm], hr⟩

/-- a field that must be a string and is not is rejected by name -/
theorem shape_field_must_be_string (keys : List Str) (vals : List YVal) (blank : List String) (k : String) (v : YVal)
    (hv : lookup k keys vals = some v) (hns : v.isStr = false) (hnb : ¬ (v.isNull = true ∧ blank.contains k = true)) :
    checkStringFields keys vals blank [k] = .reject ("must-be-string:" ++ k) := by
  simp only [checkStringFields, hv, hns, Bool.false_eq_true, false_or]
  simp only [hnb, if_false]

/-- `declarations` that is neither blank nor a list -/
theorem shape_declarations_must_be_list (v : YVal) (ht : v.truthy = true) (hl : v.isList = false) :
    shapeDecls v = .reject "must-be-list:declarations" := by
  cases v <;> simp_all [shapeDecls, YVal.isList]

/-- an entry of `declarations` that is not a mapping -/
theorem shape_entry_must_be_dictionary (v : YVal) (h : v.isDict = false) :
    shapeEntry v = .reject "declarations:entry-not-dictionary" := by
  cases v <;> simp_all [shapeEntry, YVal.isDict]

/-- an entry of `declarations` without `decl` or `block` -/
theorem shape_entry_needs_decl_or_block (keys : List Str) (vals : List YVal)
    (h1 : keys.contains "block".toList = false) (h2 : keys.contains "decl".toList = false) :
    shapeEntry (.map keys vals) = .reject "declarations:no-decl-or-block" := by
  unfold shapeEntry
  simp only [h1, h2, Bool.false_eq_true, if_false]

/-- `language` other than c / c++ (any letter case) -/
theorem shape_language (keys : List Str) (vals : List YVal) (s : Str) (h : lookup "language" keys vals = some (.str s))
    (hb : lower s ≠ "c".toList ∧ lower s ≠ "c++".toList) :
    checkLanguage keys vals = .reject "language:must-be-c-or-c++" := by
  have h1 : ¬ (lower s = "c".toList ∨ lower s = "c++".toList) := fun hh => hh.elim hb.1 hb.2
  simp only [checkLanguage, h, h1, if_false]

/-- `copyright` that is not a list -/
theorem shape_copyright (keys : List Str) (vals : List YVal) (v : YVal) (h : lookup "copyright" keys vals = some v)
    (hl : v.isList = false) : createLibrary (.map keys vals) = .reject "must-be-list:copyright" := by
  simp [createLibrary, checkCopyright, h, hl]

/-- `library: t, declarations: [ {decl: "void f()"}, "oops" ]` -/
example : createLibrary (.map ["library".toList, "declarations".toList]
    [.str "t".toList, .list [.map ["decl".toList] [.str "void f()".toList], .str "oops".toList]])
    = .reject "declarations:entry-not-dictionary" := by rfl

end Shroud.Yaml
