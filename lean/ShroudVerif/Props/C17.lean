import ShroudVerif.Lemmas.DeclNoCrash
import ShroudVerif.Lemmas.DeclRound
import ShroudVerif.Gen.DeclTables
/-!
# C17  Invalid input is rejected with a diagnostic, never by an internal failure

Theorems over the parser model `Model/Decl.lean` (`declast.check_decl` for a library
namespace), for ALL token lists and all symbol/typemap environments.

(1) Termination: every function of the model is defined by structural recursion
    (no `partial`, no well-founded recursion); the recursion budget is explicit and
    `Res.fuel` is a distinct outcome.  That the budget of `parse` suffices is proved for
    every canonical token list (`C09.roundtrip_partial`) and checked by the tie on all
    generated inputs (the driver reports `fuel` distinctly); it is not proved for
    arbitrary token lists.
(2) `parse_no_crash`: no internal Python exception, for any budget.
(3) `parse_consumes_all_partial`, `initializer_needs_value`: an accepted declaration was
    followed by nothing but an optional `;`, and an `=` is always followed by a value.
    `_partial`: that the unconsumed rest returned by `declaration` is a suffix of the input
    is by construction of the model (each function returns a tail of its argument) but is
    not stated as a theorem; equality of `tokens (gen_decl d)` with the input up to
    normalisation is proved only in the printer-to-parser direction (C09 round trip).
(4) `documented_forms_accepted`.
VerifyAttrs and the YAML shape checks are not modelled (implementation oracle only).
-/
namespace Shroud.Decl

/-- **(2) no internal failure.**  For every environment, every recursion budget and every
    token list, the declaration parser ends in `ok`, a diagnostic (`reject`), `fuel` or
    `unmodelled` -- never in an internal Python exception. -/
theorem parse_no_crash (env : Env) (ts : Toks) (e : String) : parse env ts ≠ .crash e := by
  have h := NC_declStatement env (fuelFor ts) ts
  unfold NC at h
  exact h e

theorem declaration_no_crash (env : Env) (n : Nat) (ts : Toks) (e : String) :
    declaration env n ts ≠ .crash e := by
  have h := NC_declaration env n ts
  unfold NC at h
  exact h e

theorem expression_no_crash (n mp : Nat) (ts : Toks) (e : String) : expression n mp ts ≠ .crash e := by
  have h := NC_expression n mp ts
  unfold NC at h
  exact h e

/-- **(3) nothing is left over.**  If a token list is accepted, `declaration` stopped with
    nothing left but an optional `;`. -/
theorem parse_consumes_all_partial (env : Env) (ts : Toks) (d : Decl) (h : parse env ts = .ok d) :
    ∃ rest, declaration env (fuelFor ts) ts = .ok (d, rest) ∧
      (rest = [] ∨ ∃ t, rest = [t] ∧ t.typ = .SEMICOLON) := by
  unfold parse declStatement at h
  split at h <;> try (cases h; done)
  cases hd : declaration env (fuelFor ts) ts with
  | ok a =>
    obtain ⟨d', rest⟩ := a
    rw [hd] at h
    simp only [Res.bind_ok] at h
    cases rest with
    | nil =>
      simp [have?] at h
      exact ⟨[], by rw [h], Or.inl rfl⟩
    | cons t r =>
      by_cases ht : t.typ = .SEMICOLON
      · cases r with
        | nil =>
          simp [have?, ht] at h
          exact ⟨[t], by rw [h], Or.inr ⟨t, rfl, ht⟩⟩
        | cons _ _ => simp [have?, ht] at h
      · simp [have?, ht] at h
  | reject m => rw [hd] at h; cases h
  | crash m => rw [hd] at h; cases h
  | fuel => rw [hd] at h; cases h
  | unmodelled m => rw [hd] at h; cases h

/-- **(3) `=` needs a value** (after the fix: `void f(int x = )` is a parse error). -/
theorem initializer_needs_value (ts : Toks) (v : Init) (rest : Toks) (h : initializer ts = .ok (v, rest)) :
    ∃ t, ts = t :: rest ∧ (t.typ = .REAL ∨ t.typ = .INTEGER ∨ t.typ = .DQUOTE ∨ t.typ = .SQUOTE ∨ t.typ = .ID) := by
  cases ts with
  | nil => simp [initializer] at h
  | cons t ts' =>
    simp only [initializer] at h
    by_cases h1 : t.typ = .REAL
    · simp [h1] at h; exact ⟨t, by rw [h.2], Or.inl h1⟩
    · by_cases h2 : t.typ = .INTEGER
      · simp [h2] at h; exact ⟨t, by rw [h.2], Or.inr (Or.inl h2)⟩
      · by_cases h3 : t.typ = .DQUOTE ∨ t.typ = .SQUOTE ∨ t.typ = .ID
        · simp only [h1, h2, h3, if_false, if_true] at h
          cases h
          exact ⟨t, rfl, Or.inr (Or.inr h3)⟩
        · simp [h1, h2, h3] at h

example : initializer [tk .RPAREN ")"] = .reject "Expected a value after '=', found RPAREN" := by rfl

/-! ### (4) documented declaration forms are accepted

`DocDecl` lists the declaration shapes the user documentation shows
(docs/declarations.rst, pointers.rst, tutorial.rst, reference.rst "Attributes"):
`[const] type [* | & | ** | *& with const/volatile] name [dims] +attr +attr(value)` as a
variable or argument, and functions `type [*&] name(args | void | ) [const] +attrs` whose
arguments are of the first shape. -/

structure DocVar where
  const : Bool
  type : List Str            -- `int`, `unsigned long`, `size_t`, ...
  typemap : Str
  ptrs : List Ptr
  name : Str
  dims : List Expr
  attrs : List (Str × AttrVal)

inductive DocDecl where
  | var (v : DocVar)
  | func (ret : DocVar) (params : List DocVar) (methodConst : Bool)

def DocVar.toDecl (v : DocVar) : Decl :=
  .mk (.mk v.type [] v.const false [] v.typemap) (some (.leaf v.ptrs (some v.name))) none false v.dims v.attrs none

def DocDecl.toDecl : DocDecl → Decl
  | .var v => v.toDecl
  | .func r ps fc =>
    .mk (.mk r.type [] r.const false [] r.typemap) (some (.leaf r.ptrs (some r.name)))
      (some (ps.map DocVar.toDecl)) fc r.dims r.attrs none

/-- the rendering of a documented form: Shroud's own canonical text -/
def DocDecl.render (g : DocDecl) : Toks := g.toDecl.toks

/-- **(4)** every documented form whose names and types are known to the environment
    (`WF`: type resolves, names are identifiers and not type names) is accepted, and
    understood as the declaration it was written as. -/
theorem documented_forms_accepted (env : Env) (hv : EnvVoid env) (g : DocDecl) (wf : WF env g.toDecl) :
    parse env g.render = .ok g.toDecl := by
  unfold DocDecl.render
  obtain ⟨t, ts, e, h⟩ := declToks_head' env g.toDecl wf
  have hr := roundtrip_all env hv g.toDecl wf [] (4 * g.toDecl.toks.length + 15) trivial (by omega)
  simp only [List.append_nil] at hr
  unfold parse declStatement fuelFor
  have hp : peekTyp g.toDecl.toks = some t.typ := by rw [e]; rfl
  rw [hp]
  rcases h with h | h | h | h <;> simp [h, hr, have?]

/-- `int Sum(int len, const int * values +dimension(len)) const` (cf. docs/tutorial.rst) -/
def docSum : DocDecl :=
  .func ⟨false, [sp "int"], sp "int", [], sp "Sum", [], []⟩
    [⟨false, [sp "int"], sp "int", [], sp "len", [], []⟩,
     ⟨true, [sp "int"], sp "int", [⟨.star, false, false⟩], sp "values", [], [(sp "dimension", .text [tk .ID "len"])]⟩] true

open Shroud.Gen.DeclTables in
example : parse defaultEnv docSum.render = .ok docSum.toDecl := by rfl

/-! ### witnesses: the former internal failures are diagnostics now -/

open Shroud.Gen.DeclTables in
/-- `size_t::foo x` (was `TypeError`: `raise NotImplemented`) -/
example : parse defaultEnv [tk .ID "size_t", tk .SCOPE "::", tk .ID "foo", tk .ID "x"]
    = .reject "Symbol 'foo' is not in namespace 'size_t'" := by rfl

open Shroud.Gen.DeclTables in
/-- `std x` (was `AttributeError`: a namespace has no typemap) -/
example : parse defaultEnv [tk .ID "std", tk .ID "x"] = .reject "'std' is not a type" := by rfl

open Shroud.Gen.DeclTables in
/-- `void f(int x = )` (was silently accepted) -/
example : parse defaultEnv [tk .TYPE_SPECIFIER "void", tk .ID "f", tk .LPAREN "(", tk .TYPE_SPECIFIER "int",
    tk .ID "x", tk .EQUALS "=", tk .RPAREN ")"] = .reject "Expected a value after '=', found RPAREN" := by rfl

open Shroud.Gen.DeclTables in
/-- trailing text is rejected -/
example : parse defaultEnv [tk .TYPE_SPECIFIER "int", tk .ID "x", tk .RPAREN ")"] = .reject "Expected EOF, found RPAREN" := by rfl

end Shroud.Decl
