import ShroudVerif.Model.Registry
import ShroudVerif.Model.Lines
import ShroudVerif.Gen.Registry
/-!
# C07  Output is a pure, repeatable function of the inputs and command line

Theorems about the registry model.  The tables in `Gen/Registry.lean` are
regenerated from the `/repo` working tree on every run (tools/extract_registry.py),
so the table theorems below are re-checked against what the code says now.
-/
namespace Shroud.Registry
open Shroud.Gen.Registry

/-! ### `update_for_language` is history independent -/

/-- what an arbitrary history of language passes can do to a fresh slot -/
def Reach (s0 s : Slot) : Prop :=
  s.c = s0.c ∧ s.cxx = s0.cxx ∧
  (s.clause = s0.clause ∨ (s.clause.isSome ∧ (s.clause = s0.c ∨ s.clause = s0.cxx)))

theorem updateSlot_reach (l : Lang) (s0 s : Slot) (hf : s0.Fresh) (h : Reach s0 s) :
    Reach s0 (updateSlot l s) := by
  obtain ⟨s0cl, s0c, s0x⟩ := s0
  obtain ⟨cl, c, x⟩ := s
  simp only [Reach, Slot.Fresh] at *
  obtain ⟨rfl, rfl, h⟩ := h
  cases l <;> cases c <;> cases x <;> cases cl <;> cases s0cl <;>
    simp_all [updateSlot, Slot.spec, dropStale] <;> (try split) <;> simp_all

/-- After any reachable state, a language pass gives exactly what it gives on the
    freshly imported table: the derived clause depends on the current language
    only, never on languages processed earlier in the same process. -/
theorem updateSlot_history_independent (s0 s : Slot) (hf : s0.Fresh) (h : Reach s0 s) (l : Lang) :
    updateSlot l s = updateSlot l s0 := by
  obtain ⟨s0cl, s0c, s0x⟩ := s0
  obtain ⟨cl, c, x⟩ := s
  simp only [Reach, Slot.Fresh] at *
  obtain ⟨rfl, rfl, h⟩ := h
  cases l <;> cases c <;> cases x <;> cases cl <;> cases s0cl <;>
    simp_all [updateSlot, Slot.spec, dropStale] <;> (try split) <;> simp_all

theorem reach_refl (s : Slot) : Reach s s := ⟨rfl, rfl, Or.inl rfl⟩

theorem foldl_reach (s0 : Slot) (hf : s0.Fresh) (h : List Lang) :
    Reach s0 (h.foldl (fun s l => updateSlot l s) s0) := by
  suffices ∀ s, Reach s0 s → Reach s0 (h.foldl (fun s l => updateSlot l s) s) from this s0 (reach_refl s0)
  induction h with
  | nil => intro s hs; simpa using hs
  | cons l ls ih => intro s hs; exact ih _ (updateSlot_reach l s0 s hf hs)

/-- **history independence, slot level**: for every history of earlier
    libraries (languages) and every current language. -/
theorem update_for_language_pure (s0 : Slot) (hf : s0.Fresh) (h : List Lang) (l : Lang) :
    updateSlot l (h.foldl (fun s l => updateSlot l s) s0) = updateSlot l s0 :=
  updateSlot_history_independent s0 _ hf (foldl_reach s0 hf h) l

/-- **history independence, table level** -/
theorem update_table_pure (t : List Slot) (hf : ∀ s ∈ t, s.Fresh) (h : List Lang) (l : Lang) :
    updateAll l (h.foldl (fun t l => updateAll l t) t) = updateAll l t := by
  have hfold : ∀ (h : List Lang) (t : List Slot),
      h.foldl (fun t l => updateAll l t) t = t.map (fun s => h.foldl (fun s l => updateSlot l s) s) := by
    intro h
    induction h with
    | nil => intro t; simp
    | cons l ls ih =>
      intro t
      rw [List.foldl_cons, ih (updateAll l t)]
      simp [updateAll, List.map_map, Function.comp_def]
  rw [hfold]
  simp only [updateAll, List.map_map]
  apply List.map_congr_left
  intro s hs
  exact update_for_language_pure s (hf s hs) h l

/-- The statement is false for the code before the `fix:` commit: a C library
    processed after a C++ library keeps the C++ clause (defect 5). -/
theorem update_old_not_pure :
    ∃ (s0 : Slot) (_ : s0.Fresh) (h : List Lang) (l : Lang),
      updateSlotOld l (h.foldl (fun s l => updateSlotOld l s) s0) ≠ updateSlotOld l s0 :=
  ⟨⟨none, none, some 1⟩, by decide, [.cxx], .c, by decide⟩

/-- non-vacuity: a fresh slot with a C++-only variant, history C++ then C -/
example : updateSlot .c ([Lang.cxx].foldl (fun s l => updateSlot l s) ⟨none, none, some 1⟩)
    = ⟨none, none, some 1⟩ := by decide

/-! ### regenerated table: the real statement tables are fresh -/

def rowFresh (r : Bool × Bool × Bool) : Bool := !(r.1 && (r.2.1 || r.2.2))

/-- slot of a table row; value identities are distinct per row and variant -/
def slotOfRow (i : Nat) (r : Bool × Bool × Bool) : Slot :=
  ⟨if r.1 then some (3 * i) else none, if r.2.1 then some (3 * i + 1) else none,
   if r.2.2 then some (3 * i + 2) else none⟩

theorem slotOfRow_fresh (i : Nat) (r : Bool × Bool × Bool) (h : rowFresh r = true) :
    (slotOfRow i r).Fresh := by
  obtain ⟨g, c, x⟩ := r
  cases g <;> cases c <;> cases x <;> simp_all [rowFresh, slotOfRow, Slot.Fresh]

/-- **table theorem** (re-evaluated on the regenerated data): in
    `fc_statements`, `py_statements` and `lua_statements` no item has both a
    generic clause and a `c_`/`cxx_` variant of it. -/
theorem lang_tables_fresh : langRows.all rowFresh = true := by decide +kernel

/-! ### frame lemma for overwritten-before-read registries -/

variable {K V X O : Type} [DecidableEq K]

/-- If a run writes every key it reads, its output does not depend on the
    incoming world at all. -/
theorem out_independent_of_world (r : RunSpec K V X O) (x : X)
    (hrw : ∀ k ∈ r.reads x, k ∈ r.writes x) (w1 w2 : K → V) :
    r.out w1 x = r.out w2 x := by
  unfold RunSpec.out
  apply r.obs_local
  intro k hk
  simp [RunSpec.step, hrw k hk]

/-- **per-key freshness**: if every key a run reads is either written by that
    run first or is *stable* (written by no run), then for every history of
    earlier runs the output equals the output in the initial world. -/
theorem out_independent_of_history (r : RunSpec K V X O) (stable : K → Prop)
    (hstable : ∀ y k, stable k → k ∉ r.writes y)
    (x : X) (hrw : ∀ k ∈ r.reads x, k ∈ r.writes x ∨ stable k)
    (w0 : K → V) (hist : List X) :
    r.out (hist.foldl r.step w0) x = r.out w0 x := by
  have hinv : ∀ (hist : List X) (w : K → V), (∀ k, stable k → w k = w0 k) →
      ∀ k, stable k → (hist.foldl r.step w) k = w0 k := by
    intro hist
    induction hist with
    | nil => intro w hw k hk; simpa using hw k hk
    | cons y ys ih =>
      intro w hw k hk
      apply ih (r.step w y) _ k hk
      intro k' hk'
      simp [RunSpec.step, hstable y k' hk', hw k' hk']
  unfold RunSpec.out
  apply r.obs_local
  intro k hk
  rcases hrw k hk with h | h
  · simp [RunSpec.step, h]
  · have h' := hstable x k h
    simp [RunSpec.step, h', hinv hist w0 (fun _ _ => rfl) k h]

/-- non-vacuity: a two-key registry, the run for input `n` writes key 0 with `n`
    and reads keys 0 and 1; key 1 is stable. -/
example : ∃ r : RunSpec Nat Nat Nat (Nat × Nat),
    (∀ y k, k = 1 → k ∉ r.writes y) ∧ (∀ x k, k ∈ r.reads x → k ∈ r.writes x ∨ k = 1) :=
  ⟨{ writes := fun _ => [0], gen := fun x _ => x, reads := fun _ => [0, 1],
     obs := fun _ w => (w 0, w 1),
     obs_local := by intro x w1 w2 h; simp [h 0 (by simp), h 1 (by simp)] },
   by intro y k hk; simp [hk], by intro x k hk; simp at hk; rcases hk with rfl | rfl <;> simp⟩

/-! ### regenerated tables: every registry is classified, no ambient state is consulted -/

/-- **table theorem**: every module-level or class-level mutable container of
    `shroud.*` found by introspection on this run is immutable, run-determined
    or per-key fresh (probe: sequences `[A, B]` versus `[B]`). -/
theorem registries_classified :
    registryClasses.all (fun p => decide (RClass.ofCode p.2 ≠ RClass.leak)) = true := by decide +kernel

/-- **table theorem**: the AST scan of `shroud/*.py` finds no call that consults
    time, host, environment, cwd, randomness, object identity or directory
    order, and no iteration over a set-typed name. -/
theorem no_ambient_state : ambientUses = [] := by decide +kernel

end Shroud.Registry

namespace Shroud.Registry
open Shroud.Lines

/-! ### files: what `write_output_file` leaves behind depends on its inputs only

The output directory is a map from file names to contents (`none` = no such file).  `write_output_file`
opens the file for writing and writes header and body: afterwards the file holds exactly
`Shroud.Lines.writeOutputFile` of the inputs - whatever the directory held before. -/

abbrev Dir := List Char → Option (List (List Char))

def Dir.write (d : Dir) (name : List Char) (lines : List (List Char)) : Dir :=
  fun n => if n = name then some lines else d n

/-- `WrapperMixin.write_output_file(fname, directory, output)` on a directory -/
def wofDir (d : Dir) (comment fname version : List Char) (copyright : List (List Char))
    (linelen : Nat) (spaces cont : List Char) (output : List Item) : Res Dir :=
  match writeOutputFile comment fname version copyright linelen spaces cont output with
  | .ok ls => .ok (d.write fname ls)
  | .crash e => .crash e

/-- **pre-existing files do not matter**: for any two directories - empty, holding an older shorter or longer
    version of the same file, or anything else - the file written is the same, and every other file is left as it was -/
theorem written_file_independent_of_directory (d d' : Dir) (comment fname version : List Char)
    (copyright : List (List Char)) (linelen : Nat) (spaces cont : List Char) (output : List Item) :
    (∀ r, wofDir d comment fname version copyright linelen spaces cont output = .ok r →
      ∃ r', wofDir d' comment fname version copyright linelen spaces cont output = .ok r' ∧ r fname = r' fname ∧
        (∀ n, n ≠ fname → r n = d n ∧ r' n = d' n)) := by
  intro r hr
  unfold wofDir at hr ⊢
  cases hw : writeOutputFile comment fname version copyright linelen spaces cont output with
  | crash e => rw [hw] at hr; cases hr
  | ok ls =>
    rw [hw] at hr
    injection hr with hr
    subst hr
    refine ⟨d'.write fname ls, rfl, by simp [Dir.write], ?_⟩
    intro n hn
    simp [Dir.write, hn]

end Shroud.Registry


namespace Shroud.Registry

/-! ### order-carrying containers: emitted order is insertion order of the input -/

theorem dget_dput (k k' v : Nat) (c : Cont) :
    dget k' (dput k v c) = if k' = k then some v else dget k' c := by
  induction c with
  | nil =>
    by_cases h : k = k' <;> simp [dput, dget, h]
    · intro h'; exact absurd h'.symm h
  | cons p t ih =>
    by_cases hp : p.1 = k
    · by_cases h : k = k'
      · subst h; simp [dput, dget, hp]
      · have : ¬ k' = k := fun e => h e.symm
        simp [dput, dget, hp, h, this]
    · by_cases h : p.1 = k'
      · have : ¬ k' = k := fun e => hp (h.trans e)
        simp [dput, dget, h, this]
      · simp [dput, dget, hp, h, ih]

theorem keys_dput (k v : Nat) (c : Cont) :
    (dput k v c).keys = if k ∈ c.keys then c.keys else c.keys ++ [k] := by
  induction c with
  | nil => simp [dput, Cont.keys]
  | cons p t ih =>
    by_cases hp : p.1 = k
    · simp [dput, Cont.keys, hp]
    · have hne : ¬ k = p.1 := fun e => hp e.symm
      simp only [Cont.keys] at ih
      simp only [dput, hp, if_false, Cont.keys, List.map_cons, List.mem_cons, hne, false_or, ih]
      split <;> simp [*]

theorem keys_insertAll (kvs : List (Nat × Nat)) (c : Cont) :
    (insertAll kvs c).keys
      = (kvs.map (·.1)).foldl (fun acc k => if k ∈ acc then acc else acc ++ [k]) c.keys := by
  induction kvs generalizing c with
  | nil => simp [insertAll]
  | cons p t ih =>
    simp only [insertAll, List.foldl_cons, List.map_cons] at ih ⊢
    rw [ih (dput p.1 p.2 c), keys_dput]

/-- **emitted order is insertion order**: iterating a container filled from any sequence of insertions yields
    the keys in order of first insertion - for every input sequence (later re-assignments do not move a key). -/
theorem emitted_order_is_insertion_order (kvs : List (Nat × Nat)) :
    (insertAll kvs []).keys = firstOcc (kvs.map (·.1)) := by
  simpa [firstOcc, Cont.keys] using keys_insertAll kvs []

/-- and the value emitted for a key is the last one assigned -/
theorem dget_insertAll (kvs : List (Nat × Nat)) (c : Cont) (k : Nat) :
    dget k (insertAll kvs c) = match (kvs.reverse.find? (fun p => p.1 = k)) with
      | some p => some p.2
      | none => dget k c := by
  induction kvs generalizing c with
  | nil => simp [insertAll]
  | cons p t ih =>
    simp only [insertAll, List.foldl_cons] at ih ⊢
    rw [ih (dput p.1 p.2 c), List.reverse_cons, List.find?_append]
    cases hf : t.reverse.find? (fun p => p.1 = k) with
    | some q => simp
    | none =>
      by_cases h : p.1 = k
      · simp [dget_dput, h]
      · have : ¬ k = p.1 := fun e => h e.symm
        simp [dget_dput, h, this]

example : (insertAll [(3, 0), (1, 0), (3, 7), (2, 0), (1, 5)] []).keys = [3, 1, 2] := by decide

/-! ### one run against two process states -/

/-- two process states agree where a run may look: on the registries in `s`, and on the keys in `sk` -/
def AgreeOn (s : List Nat) (sk : List (Nat × Nat)) (w1 w2 : World) : Prop :=
  (∀ r ∈ s, w1 r = w2 r) ∧ (∀ p ∈ sk, dget p.2 (w1 p.1) = dget p.2 (w2 p.1))

theorem execFrom_agree (ops : List Op) : ∀ (s : List Nat) (sk : List (Nat × Nat)) (w1 w2 : World) (o : List Cont),
    disciplined s sk ops = true → AgreeOn s sk w1 w2 →
    (execFrom ops w1 o).out = (execFrom ops w2 o).out ∧ (execFrom ops w1 o).failed = (execFrom ops w2 o).failed ∧
    (∀ r ∈ s, (execFrom ops w1 o).w r = (execFrom ops w2 o).w r) := by
  induction ops with
  | nil => intro s sk w1 w2 o _ h; exact ⟨rfl, rfl, h.1⟩
  | cons op t ih =>
    intro s sk w1 w2 o hd h
    cases op with
    | fail => exact ⟨rfl, rfl, h.1⟩
    | reset r i =>
      simp only [disciplined] at hd
      have hA : AgreeOn (r :: s) sk (w1.set r i) (w2.set r i) := by
        refine ⟨?_, ?_⟩
        · intro q hq
          by_cases e : q = r
          · simp [World.set, e]
          · simp only [List.mem_cons, e, false_or] at hq
            simp [World.set, e, h.1 q hq]
        · intro p hp
          by_cases e : p.1 = r
          · simp [World.set, e]
          · simp [World.set, e, h.2 p hp]
      have := ih (r :: s) sk _ _ o hd hA
      exact ⟨this.1, this.2.1, fun q hq => this.2.2 q (List.mem_cons_of_mem _ hq)⟩
    | put r k v =>
      simp only [disciplined] at hd
      have hA : AgreeOn s ((r, k) :: sk) (w1.set r (dput k v (w1 r))) (w2.set r (dput k v (w2 r))) := by
        refine ⟨?_, ?_⟩
        · intro q hq
          by_cases e : q = r
          · subst e; simp [World.set, h.1 q hq]
          · simp [World.set, e, h.1 q hq]
        · intro p hp
          by_cases e : p.1 = r
          · simp only [World.set, e, if_true, dget_dput]
            by_cases e2 : p.2 = k
            · simp [e2]
            · simp only [e2, if_false]
              simp only [List.mem_cons] at hp
              rcases hp with hp | hp
              · exact absurd (by rw [hp]) e2
              · have := h.2 p hp; rw [e] at this; exact this
          · simp only [List.mem_cons] at hp
            rcases hp with hp | hp
            · exact absurd (by rw [hp]) e
            · simp [World.set, e, h.2 p hp]
      exact ih s _ _ _ o hd hA
    | putNew r k v =>
      simp only [disciplined, Bool.and_eq_true, Bool.or_eq_true] at hd
      obtain ⟨hread, hd⟩ := hd
      have hg : dget k (w1 r) = dget k (w2 r) := by
        rcases hread with hr | hr
        · rw [h.1 r (by simpa using hr)]
        · exact h.2 (r, k) (by simpa using hr)
      have hA : AgreeOn s ((r, k) :: sk)
          (match dget k (w1 r) with | some _ => w1 | none => w1.set r (dput k v (w1 r)))
          (match dget k (w2 r) with | some _ => w2 | none => w2.set r (dput k v (w2 r))) := by
        rw [← hg]
        cases hc : dget k (w1 r) with
        | some x =>
          refine ⟨h.1, ?_⟩
          intro p hp
          simp only [List.mem_cons] at hp
          rcases hp with hp | hp
          · subst hp; exact hg
          · exact h.2 p hp
        | none =>
          refine ⟨?_, ?_⟩
          · intro q hq
            by_cases e : q = r
            · subst e; simp [World.set, h.1 q hq]
            · simp [World.set, e, h.1 q hq]
          · intro p hp
            by_cases e : p.1 = r
            · simp only [World.set, e, if_true, dget_dput]
              by_cases e2 : p.2 = k
              · simp [e2]
              · simp only [e2, if_false]
                simp only [List.mem_cons] at hp
                rcases hp with hp | hp
                · exact absurd (by rw [hp]) e2
                · have := h.2 p hp; rw [e] at this; exact this
            · simp only [List.mem_cons] at hp
              rcases hp with hp | hp
              · exact absurd (by rw [hp]) e
              · simp [World.set, e, h.2 p hp]
      exact ih s _ _ _ o hd hA
    | emit r =>
      simp only [disciplined, Bool.and_eq_true] at hd
      have e : w1 r = w2 r := h.1 r (by simpa using hd.1)
      simp only [execFrom, e]
      exact ih s sk w1 w2 _ hd.2 h
    | emitKey r k =>
      simp only [disciplined, Bool.and_eq_true, Bool.or_eq_true] at hd
      obtain ⟨hread, hd⟩ := hd
      have hg : dget k (w1 r) = dget k (w2 r) := by
        rcases hread with hr | hr
        · rw [h.1 r (by simpa using hr)]
        · exact h.2 (r, k) (by simpa using hr)
      simp only [execFrom, hg]
      exact ih s sk w1 w2 _ hd h

end Shroud.Registry

namespace Shroud.Registry

/-! ### history independence over any list of earlier runs, complete or ended by an error at any stage -/

/-- a run that writes no registry of `s0` leaves them as they were - whether it finishes or raises part-way -/
theorem execFrom_frame (s0 : List Nat) (ops : List Op) : ∀ (w : World) (o : List Cont),
    noWrite s0 ops = true → ∀ r ∈ s0, (execFrom ops w o).w r = w r := by
  induction ops with
  | nil => intro w o _ r _; rfl
  | cons op t ih =>
    intro w o hn r hr
    simp only [noWrite, List.all_cons, Bool.and_eq_true] at hn
    have ht : noWrite s0 t = true := by simpa [noWrite] using hn.2
    have hne : ∀ q, op.target = some q → r ≠ q := by
      intro q hq e
      have h1 := hn.1
      rw [hq] at h1
      subst e
      simp [hr] at h1
    cases op with
    | fail => rfl
    | reset q i =>
      simp only [execFrom]; rw [ih _ o ht r hr]; simp [World.set, hne q rfl]
    | put q k v =>
      simp only [execFrom]; rw [ih _ o ht r hr]; simp [World.set, hne q rfl]
    | putNew q k v =>
      simp only [execFrom]; rw [ih _ o ht r hr]
      cases dget k (w q) <;> simp [World.set, hne q rfl]
    | emit q => simp only [execFrom]; exact ih _ _ ht r hr
    | emitKey q k => simp only [execFrom]; exact ih _ _ ht r hr

theorem noWrite_take (s0 : List Nat) (ops : List Op) (n : Nat) (h : noWrite s0 ops = true) :
    noWrite s0 (ops.take n) = true := by
  simp only [noWrite, List.all_eq_true] at h ⊢
  intro op hop
  exact h op (List.mem_of_mem_take hop)

/-- the process state after a history of earlier runs: run `y` of the history executed its first `n` stages
    (`n ≥` its length: a complete run; smaller `n`: it ended in an error after stage `n`) -/
def afterHistory {X : Type} (prog : X → List Op) (w0 : World) (hist : List (X × Nat)) : World :=
  hist.foldl (fun w yn => (exec ((prog yn.1).take yn.2) w).w) w0

theorem afterHistory_frame {X : Type} (prog : X → List Op) (s0 : List Nat)
    (hframe : ∀ y, noWrite s0 (prog y) = true) (hist : List (X × Nat)) :
    ∀ (w w0 : World), (∀ r ∈ s0, w r = w0 r) → ∀ r ∈ s0, afterHistory prog w hist r = w0 r := by
  induction hist with
  | nil => intro w w0 h r hr; exact h r hr
  | cons yn t ih =>
    intro w w0 h r hr
    simp only [afterHistory, List.foldl_cons]
    apply ih _ w0 _ r hr
    intro q hq
    rw [exec, execFrom_frame s0 _ w [] (noWrite_take s0 _ _ (hframe yn.1)) q hq]
    exact h q hq

/-- **history independence, process state.**  `s0`: the registries no run writes.  If the run for `x` keeps the
    discipline (every stage reads only registries in `s0`, registries it reset earlier, or keys it wrote earlier),
    then after ANY list of earlier runs - of any inputs, each complete or ended by an error after any number of
    stages - its output, and whether it raises, are those of a run in a freshly started process. -/
theorem next_run_independent_of_history {X : Type} (prog : X → List Op) (s0 : List Nat)
    (hframe : ∀ y, noWrite s0 (prog y) = true)
    (x : X) (hd : disciplined s0 [] (prog x) = true) (w0 : World) (hist : List (X × Nat)) :
    (exec (prog x) (afterHistory prog w0 hist)).out = (exec (prog x) w0).out ∧
    (exec (prog x) (afterHistory prog w0 hist)).failed = (exec (prog x) w0).failed := by
  have hA : AgreeOn s0 [] (afterHistory prog w0 hist) w0 :=
    ⟨afterHistory_frame prog s0 hframe hist w0 w0 (fun _ _ => rfl), by intro p hp; cases hp⟩
  have := execFrom_agree (prog x) s0 [] _ _ [] hd hA
  exact ⟨this.1, this.2.1⟩

/-- the same for a run that itself ends in an error part-way: what it emitted up to there does not depend on the history -/
theorem disciplined_take (ops : List Op) : ∀ (s : List Nat) (sk : List (Nat × Nat)) (n : Nat),
    disciplined s sk ops = true → disciplined s sk (ops.take n) = true := by
  induction ops with
  | nil => intro s sk n h; simp [disciplined]
  | cons op t ih =>
    intro s sk n h
    cases n with
    | zero => simp [disciplined]
    | succ n =>
      cases op <;> simp_all [disciplined, List.take]

theorem truncated_run_independent_of_history {X : Type} (prog : X → List Op) (s0 : List Nat)
    (hframe : ∀ y, noWrite s0 (prog y) = true)
    (x : X) (n : Nat) (hd : disciplined s0 [] (prog x) = true) (w0 : World) (hist : List (X × Nat)) :
    (exec ((prog x).take n) (afterHistory prog w0 hist)).out = (exec ((prog x).take n) w0).out := by
  have hA : AgreeOn s0 [] (afterHistory prog w0 hist) w0 :=
    ⟨afterHistory_frame prog s0 hframe hist w0 w0 (fun _ _ => rfl), by intro p hp; cases hp⟩
  exact (execFrom_agree _ s0 [] _ _ [] (disciplined_take _ s0 [] n hd) hA).1

/-- the discipline is needed: a run that emits a registry it did not reset shows what an earlier run left there -/
theorem undisciplined_run_leaks :
    ∃ (prog : Bool → List Op) (w0 : World) (hist : List (Bool × Nat)),
      (∀ y, noWrite [] (prog y) = true) ∧
      (exec (prog false) (afterHistory prog w0 hist)).out ≠ (exec (prog false) w0).out :=
  ⟨fun b => if b then [.put 0 1 1] else [.emit 0], fun _ => [], [(true, 1)],
   by intro y; cases y <;> decide, by decide⟩

/-- non-vacuity: registry 0 immutable, 1 reset by the run, 2 used per key; the history contains a run cut after one stage -/
example : let prog : Nat → List Op := fun x =>
      [.reset 1 [(x, x)], .put 1 7 x, .put 2 x 1, .putNew 2 x 5, .emit 0, .emit 1, .emitKey 2 x]
    (∀ y, noWrite [0] (prog y) = true) ∧ disciplined [0] [] (prog 3) = true ∧
    (exec (prog 3) (afterHistory prog (fun _ => []) [(9, 2), (4, 100)])).out = [[], [(3, 3), (7, 3)], [(3, 1)]] := by
  refine ⟨?_, by decide, by decide⟩
  intro y; simp [noWrite, Op.target]

/-! ### the output directory: contents of written files and the reported lists do not depend on what was there -/

theorem writeAll_always_eq (plan : List (Nat × List Nat)) : ∀ (d : FS) (n : Nat),
    writeAll .always plan d n = match planned n plan with | some c => some c | none => d n := by
  induction plan with
  | nil => intro d n; rfl
  | cons p t ih =>
    intro d n
    obtain ⟨m, c⟩ := p
    simp only [writeAll, planned, FS.writeP]
    rw [ih]
    cases planned n t with
    | some c' => rfl
    | none =>
      by_cases e : m = n
      · subst e; simp [FS.write]
      · have : ¬ n = m := fun h => e h.symm
        simp [FS.write, e, this]

/-- keeping an identical old file instead of rewriting it gives the same directory, file for file -/
theorem writeP_ifChanged_eq (d : FS) (n : Nat) (c : List Nat) (i : Nat) :
    d.writeP .ifChanged n c i = d.writeP .always n c i := by
  simp only [FS.writeP]
  split
  · rename_i h
    by_cases e : i = n
    · subst e; simp [FS.write, h]
    · simp [FS.write, e]
  · rfl

theorem writeAll_congr (p : WritePolicy) (plan : List (Nat × List Nat)) : ∀ (d d' : FS),
    (∀ i, d i = d' i) → ∀ i, writeAll p plan d i = writeAll p plan d' i := by
  induction plan with
  | nil => intro d d' h i; exact h i
  | cons q t ih =>
    intro d d' h i
    obtain ⟨m, c⟩ := q
    simp only [writeAll]
    apply ih
    intro j
    cases p with
    | always => simp [FS.writeP, FS.write, h j]
    | ifChanged =>
      rw [writeP_ifChanged_eq, writeP_ifChanged_eq]
      simp [FS.writeP, FS.write, h j]

theorem writeAll_policy_irrelevant (plan : List (Nat × List Nat)) : ∀ (d : FS) (i : Nat),
    writeAll .ifChanged plan d i = writeAll .always plan d i := by
  induction plan with
  | nil => intro d i; rfl
  | cons q t ih =>
    intro d i
    obtain ⟨m, c⟩ := q
    simp only [writeAll]
    rw [ih]
    exact writeAll_congr .always t _ _ (writeP_ifChanged_eq d m c) i

theorem planned_isSome_iff (n : Nat) (plan : List (Nat × List Nat)) :
    (planned n plan).isSome = true ↔ n ∈ reported plan := by
  induction plan with
  | nil => simp [planned, reported]
  | cons p t ih =>
    obtain ⟨m, c⟩ := p
    simp only [planned, reported, List.map_cons, List.mem_cons] at ih ⊢
    cases hp : planned n t with
    | some c' =>
      have : n ∈ List.map (fun x => x.fst) t := ih.mp (by simp [hp])
      simp [this]
    | none =>
      have hnot : ¬ n ∈ List.map (fun x => x.fst) t := by
        intro hm; have := ih.mpr hm; simp [hp] at this
      by_cases e : m = n
      · simp [e]
      · have : ¬ n = m := fun h => e h.symm
        simp [e, this, hnot]

/-- **pre-existing files do not matter, run level.**  For every plan of writes (any number of files, a name may be
    written more than once), either write policy, and any two directories the run may start from: every file the run
    reports has the same final contents (the last text planned for it), the reported list is the same, and a file
    the run does not write is left exactly as it was. -/
theorem directory_independent_of_prior (p p' : WritePolicy) (plan : List (Nat × List Nat)) (d d' : FS) :
    (∀ n ∈ reported plan, writeAll p plan d n = writeAll p' plan d' n ∧ writeAll p plan d n = planned n plan) ∧
    (∀ n, n ∉ reported plan → writeAll p plan d n = d n) := by
  have key : ∀ (q : WritePolicy) (e : FS) (n : Nat),
      writeAll q plan e n = match planned n plan with | some c => some c | none => e n := by
    intro q e n
    cases q with
    | always => exact writeAll_always_eq plan e n
    | ifChanged => rw [writeAll_policy_irrelevant]; exact writeAll_always_eq plan e n
  refine ⟨?_, ?_⟩
  · intro n hn
    have hs := (planned_isSome_iff n plan).mpr hn
    rw [key p d n, key p' d' n]
    cases hp : planned n plan with
    | some c => simp
    | none => simp [hp] at hs
  · intro n hn
    have hs : (planned n plan).isSome ≠ true := fun h => hn ((planned_isSome_iff n plan).mp h)
    rw [key p d n]
    cases hp : planned n plan with
    | some c => simp [hp] at hs
    | none => rfl

example : writeAll .ifChanged [(1, [5]), (2, [6]), (1, [7])] (fun n => if n = 1 then some [7] else if n = 3 then some [0] else none) 1
    = some [7] := by decide

/-! ### end to end: process history and directory together -/

/-- one complete run of the driver: the stages produce the emitted pieces, `render` (any function of the input and
    of what the stages emitted) turns them into the plan of files, which is written into the directory;
    a run that raised writes nothing further (the plan of a failed run is what `render` makes of the pieces so far) -/
def fullRun {X : Type} (prog : X → List Op) (render : X → List Cont → Bool → List (Nat × List Nat))
    (pol : WritePolicy) (x : X) (w : World) (d : FS) : FS × List Nat :=
  let r := exec (prog x) w
  let plan := render x r.out r.failed
  (writeAll pol plan d, reported plan)

/-- **C07 on the model**: for every input, every history of earlier runs in the process (complete or ended by an
    error at any stage), every pair of starting directories and either write policy, the reported file list is the
    same as for a fresh process and an empty directory, and so is every reported file, byte for byte. -/
theorem full_run_pure {X : Type} (prog : X → List Op) (render : X → List Cont → Bool → List (Nat × List Nat))
    (s0 : List Nat) (hframe : ∀ y, noWrite s0 (prog y) = true)
    (x : X) (hd : disciplined s0 [] (prog x) = true) (w0 : World) (hist : List (X × Nat))
    (pol pol' : WritePolicy) (d d' : FS) :
    (fullRun prog render pol x (afterHistory prog w0 hist) d).2 = (fullRun prog render pol' x w0 d').2 ∧
    ∀ n ∈ (fullRun prog render pol' x w0 d').2,
      (fullRun prog render pol x (afterHistory prog w0 hist) d).1 n = (fullRun prog render pol' x w0 d').1 n := by
  obtain ⟨ho, hf⟩ := next_run_independent_of_history prog s0 hframe x hd w0 hist
  simp only [fullRun, ho, hf, true_and]
  intro n hn
  exact ((directory_independent_of_prior pol pol' _ d d').1 n hn).1

end Shroud.Registry

namespace Shroud.Registry
open Shroud.Gen.Registry

/-! ### regenerated stage traces of real runs keep the discipline -/

/-- a trace row of `Gen/Registry.lean` as a modelled stage (values are abstracted: the discipline does not look at them) -/
def opOfRow (r : Nat × Nat × Nat) : Op :=
  match r.1 with
  | 0 => .reset r.2.1 []
  | 1 => .put r.2.1 r.2.2 0
  | 3 => .emit r.2.1
  | 4 => .emitKey r.2.1 r.2.2
  | _ => .emit r.2.1          -- an unknown event kind counts as a read of the whole registry

/-- the registries the probe classified immutable (contents identical at import and after every probed run) -/
def immutableRegs : List Nat := (registryClasses.filter (fun p => p.2 == 0)).map (·.1)

/-- **table theorem** (regenerated): in every traced real run - first runs of a process and runs after another
    library - every stage reads only immutable registries, registries the same run reset earlier
    (`typemap.initialize`, `update_for_language`, `update_stmt_tree`, `set_library`, a `global` rebinding, `clear()`),
    or keys the same run wrote earlier.  This is hypothesis `hd` of `next_run_independent_of_history` / `full_run_pure`. -/
theorem real_runs_disciplined :
    traceProgs.all (fun t => disciplined immutableRegs [] (t.map opOfRow)) = true := by decide +kernel

/-- **table theorem** (regenerated): no traced stage writes a registry classified immutable (hypothesis `hframe`) -/
theorem real_runs_frame :
    traceProgs.all (fun t => noWrite immutableRegs (t.map opOfRow)) = true := by decide +kernel

/-- **table theorem** (regenerated): every registry whose contents change at run time is an insertion-ordered
    container (dict, OrderedDict, list) or a rebound object - never a `set`, whose iteration order would depend on
    the hash seed; with `emitted_order_is_insertion_order` and `no_ambient_state` (no iteration over set-typed
    expressions anywhere) emitted order is insertion order of the input. -/
theorem mutable_registries_keep_order :
    registryKinds.all (fun p => p.2 != 3 || immutableRegs.contains p.1) = true := by decide +kernel

/-- the traces are not empty: the theorems above say something -/
theorem traces_nonvacuous : traceProgs.length ≥ 2 ∧ traceProgs.all (fun t => t.length ≥ 10) = true := by decide +kernel

end Shroud.Registry
