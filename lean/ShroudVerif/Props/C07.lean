import ShroudVerif.Model.Registry
import ShroudVerif.Model.Lines
import ShroudVerif.Gen.Registry
/-!
# C07  Output is a pure, repeatable function of the inputs and command line

Theorems about the registry model.  The tables in `Gen/Registry.lean` are
regenerated from the `/repo` working tree on every run (tools/extract_registry.py),
so the table theorems below are re-checked against what the code says now.
-/
namespace Shroud.Registry
open Shroud.Gen.Registry

/-! ### `update_for_language` is history independent -/

/-- what an arbitrary history of language passes can do to a fresh slot -/
def Reach (s0 s : Slot) : Prop :=
  s.c = s0.c ∧ s.cxx = s0.cxx ∧
  (s.clause = s0.clause ∨ (s.clause.isSome ∧ (s.clause = s0.c ∨ s.clause = s0.cxx)))

theorem updateSlot_reach (l : Lang) (s0 s : Slot) (hf : s0.Fresh) (h : Reach s0 s) :
    Reach s0 (updateSlot l s) := by
  obtain ⟨s0cl, s0c, s0x⟩ := s0
  obtain ⟨cl, c, x⟩ := s
  simp only [Reach, Slot.Fresh] at *
  obtain ⟨rfl, rfl, h⟩ := h
  cases l <;> cases c <;> cases x <;> cases cl <;> cases s0cl <;>
    simp_all [updateSlot, Slot.spec, dropStale] <;> (try split) <;> simp_all

/-- After any reachable state, a language pass gives exactly what it gives on the
    freshly imported table: the derived clause depends on the current language
    only, never on languages processed earlier in the same process. -/
theorem updateSlot_history_independent (s0 s : Slot) (hf : s0.Fresh) (h : Reach s0 s) (l : Lang) :
    updateSlot l s = updateSlot l s0 := by
  obtain ⟨s0cl, s0c, s0x⟩ := s0
  obtain ⟨cl, c, x⟩ := s
  simp only [Reach, Slot.Fresh] at *
  obtain ⟨rfl, rfl, h⟩ := h
  cases l <;> cases c <;> cases x <;> cases cl <;> cases s0cl <;>
    simp_all [updateSlot, Slot.spec, dropStale] <;> (try split) <;> simp_all

theorem reach_refl (s : Slot) : Reach s s := ⟨rfl, rfl, Or.inl rfl⟩

theorem foldl_reach (s0 : Slot) (hf : s0.Fresh) (h : List Lang) :
    Reach s0 (h.foldl (fun s l => updateSlot l s) s0) := by
  suffices ∀ s, Reach s0 s → Reach s0 (h.foldl (fun s l => updateSlot l s) s) from this s0 (reach_refl s0)
  induction h with
  | nil => intro s hs; simpa using hs
  | cons l ls ih => intro s hs; exact ih _ (updateSlot_reach l s0 s hf hs)

/-- **history independence, slot level**: for every history of earlier
    libraries (languages) and every current language. -/
theorem update_for_language_pure (s0 : Slot) (hf : s0.Fresh) (h : List Lang) (l : Lang) :
    updateSlot l (h.foldl (fun s l => updateSlot l s) s0) = updateSlot l s0 :=
  updateSlot_history_independent s0 _ hf (foldl_reach s0 hf h) l

/-- **history independence, table level** -/
theorem update_table_pure (t : List Slot) (hf : ∀ s ∈ t, s.Fresh) (h : List Lang) (l : Lang) :
    updateAll l (h.foldl (fun t l => updateAll l t) t) = updateAll l t := by
  have hfold : ∀ (h : List Lang) (t : List Slot),
      h.foldl (fun t l => updateAll l t) t = t.map (fun s => h.foldl (fun s l => updateSlot l s) s) := by
    intro h
    induction h with
    | nil => intro t; simp
    | cons l ls ih =>
      intro t
      rw [List.foldl_cons, ih (updateAll l t)]
      simp [updateAll, List.map_map, Function.comp_def]
  rw [hfold]
  simp only [updateAll, List.map_map]
  apply List.map_congr_left
  intro s hs
  exact update_for_language_pure s (hf s hs) h l

/-- The statement is false for the code before the `fix:` commit: a C library
    processed after a C++ library keeps the C++ clause (defect 5). -/
theorem update_old_not_pure :
    ∃ (s0 : Slot) (_ : s0.Fresh) (h : List Lang) (l : Lang),
      updateSlotOld l (h.foldl (fun s l => updateSlotOld l s) s0) ≠ updateSlotOld l s0 :=
  ⟨⟨none, none, some 1⟩, by decide, [.cxx], .c, by decide⟩

/-- non-vacuity: a fresh slot with a C++-only variant, history C++ then C -/
example : updateSlot .c ([Lang.cxx].foldl (fun s l => updateSlot l s) ⟨none, none, some 1⟩)
    = ⟨none, none, some 1⟩ := by decide

/-! ### regenerated table: the real statement tables are fresh -/

def rowFresh (r : Bool × Bool × Bool) : Bool := !(r.1 && (r.2.1 || r.2.2))

/-- slot of a table row; value identities are distinct per row and variant -/
def slotOfRow (i : Nat) (r : Bool × Bool × Bool) : Slot :=
  ⟨if r.1 then some (3 * i) else none, if r.2.1 then some (3 * i + 1) else none,
   if r.2.2 then some (3 * i + 2) else none⟩

theorem slotOfRow_fresh (i : Nat) (r : Bool × Bool × Bool) (h : rowFresh r = true) :
    (slotOfRow i r).Fresh := by
  obtain ⟨g, c, x⟩ := r
  cases g <;> cases c <;> cases x <;> simp_all [rowFresh, slotOfRow, Slot.Fresh]

/-- **table theorem** (re-evaluated on the regenerated data): in
    `fc_statements`, `py_statements` and `lua_statements` no item has both a
    generic clause and a `c_`/`cxx_` variant of it. -/
theorem lang_tables_fresh : langRows.all rowFresh = true := by decide +kernel

/-! ### frame lemma for overwritten-before-read registries -/

variable {K V X O : Type} [DecidableEq K]

/-- If a run writes every key it reads, its output does not depend on the
    incoming world at all. -/
theorem out_independent_of_world (r : RunSpec K V X O) (x : X)
    (hrw : ∀ k ∈ r.reads x, k ∈ r.writes x) (w1 w2 : K → V) :
    r.out w1 x = r.out w2 x := by
  unfold RunSpec.out
  apply r.obs_local
  intro k hk
  simp [RunSpec.step, hrw k hk]

/-- **per-key freshness**: if every key a run reads is either written by that
    run first or is *stable* (written by no run), then for every history of
    earlier runs the output equals the output in the initial world. -/
theorem out_independent_of_history (r : RunSpec K V X O) (stable : K → Prop)
    (hstable : ∀ y k, stable k → k ∉ r.writes y)
    (x : X) (hrw : ∀ k ∈ r.reads x, k ∈ r.writes x ∨ stable k)
    (w0 : K → V) (hist : List X) :
    r.out (hist.foldl r.step w0) x = r.out w0 x := by
  have hinv : ∀ (hist : List X) (w : K → V), (∀ k, stable k → w k = w0 k) →
      ∀ k, stable k → (hist.foldl r.step w) k = w0 k := by
    intro hist
    induction hist with
    | nil => intro w hw k hk; simpa using hw k hk
    | cons y ys ih =>
      intro w hw k hk
      apply ih (r.step w y) _ k hk
      intro k' hk'
      simp [RunSpec.step, hstable y k' hk', hw k' hk']
  unfold RunSpec.out
  apply r.obs_local
  intro k hk
  rcases hrw k hk with h | h
  · simp [RunSpec.step, h]
  · have h' := hstable x k h
    simp [RunSpec.step, h', hinv hist w0 (fun _ _ => rfl) k h]

/-- non-vacuity: a two-key registry, the run for input `n` writes key 0 with `n`
    and reads keys 0 and 1; key 1 is stable. -/
example : ∃ r : RunSpec Nat Nat Nat (Nat × Nat),
    (∀ y k, k = 1 → k ∉ r.writes y) ∧ (∀ x k, k ∈ r.reads x → k ∈ r.writes x ∨ k = 1) :=
  ⟨{ writes := fun _ => [0], gen := fun x _ => x, reads := fun _ => [0, 1],
     obs := fun _ w => (w 0, w 1),
     obs_local := by intro x w1 w2 h; simp [h 0 (by simp), h 1 (by simp)] },
   by intro y k hk; simp [hk], by intro x k hk; simp at hk; rcases hk with rfl | rfl <;> simp⟩

/-! ### regenerated tables: every registry is classified, no ambient state is consulted -/

/-- **table theorem**: every module-level or class-level mutable container of
    `shroud.*` found by introspection on this run is immutable, run-determined
    or per-key fresh (probe: sequences `[A, B]` versus `[B]`). -/
theorem registries_classified :
    registryClasses.all (fun p => decide (RClass.ofCode p.2 ≠ RClass.leak)) = true := by decide +kernel

/-- **table theorem**: the AST scan of `shroud/*.py` finds no call that consults
    time, host, environment, cwd, randomness, object identity or directory
    order, and no iteration over a set-typed name. -/
theorem no_ambient_state : ambientUses = [] := by decide +kernel

end Shroud.Registry

namespace Shroud.Registry
open Shroud.Lines

/-! ### files: what `write_output_file` leaves behind depends on its inputs only

The output directory is a map from file names to contents (`none` = no such file).  `write_output_file`
opens the file for writing and writes header and body: afterwards the file holds exactly
`Shroud.Lines.writeOutputFile` of the inputs - whatever the directory held before. -/

abbrev Dir := List Char → Option (List (List Char))

def Dir.write (d : Dir) (name : List Char) (lines : List (List Char)) : Dir :=
  fun n => if n = name then some lines else d n

/-- `WrapperMixin.write_output_file(fname, directory, output)` on a directory -/
def wofDir (d : Dir) (comment fname version : List Char) (copyright : List (List Char))
    (linelen : Nat) (spaces cont : List Char) (output : List Item) : Res Dir :=
  match writeOutputFile comment fname version copyright linelen spaces cont output with
  | .ok ls => .ok (d.write fname ls)
  | .crash e => .crash e

/-- **pre-existing files do not matter**: for any two directories - empty, holding an older shorter or longer
    version of the same file, or anything else - the file written is the same, and every other file is left as it was -/
theorem written_file_independent_of_directory (d d' : Dir) (comment fname version : List Char)
    (copyright : List (List Char)) (linelen : Nat) (spaces cont : List Char) (output : List Item) :
    (∀ r, wofDir d comment fname version copyright linelen spaces cont output = .ok r →
      ∃ r', wofDir d' comment fname version copyright linelen spaces cont output = .ok r' ∧ r fname = r' fname ∧
        (∀ n, n ≠ fname → r n = d n ∧ r' n = d' n)) := by
  intro r hr
  unfold wofDir at hr ⊢
  cases hw : writeOutputFile comment fname version copyright linelen spaces cont output with
  | crash e => rw [hw] at hr; cases hr
  | ok ls =>
    rw [hw] at hr
    injection hr with hr
    subst hr
    refine ⟨d'.write fname ls, rfl, by simp [Dir.write], ?_⟩
    intro n hn
    simp [Dir.write, hn]

end Shroud.Registry

