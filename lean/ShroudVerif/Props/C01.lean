import ShroudVerif.Model.WrapF
import ShroudVerif.Props.C10
/-!
# C01  Fortran wrapper calls are equivalent to calling the library directly
-/
namespace Shroud.WrapF
open Shroud.Str

/-! ## 0. the documented shapes -/

/-- argument / result kinds with a fully modelled op sequence -/
inductive Kind where
  | boolIn | boolOut | boolInout
  | charIn | charOut | charInout
  | stringIn | stringOut | stringInout
  | charResult | stringResult | charScalarResult
  | native
  | nativeOutAlloc                       -- `T *a +intent(out)+deref(allocatable)+dimension(..)`
  | vectorIn | vectorOut | vectorOutAlloc | vectorInout | vectorInoutAlloc | vectorResult | vectorResultAlloc
  | ptrPtrOut                            -- `T **a +intent(out)+dimension(..)` (Fortran pointer)
  | resultPointer | resultAlloc          -- `T *f() +dimension(..)` with deref(pointer) / deref(allocatable)
  | charArrayIn                          -- `char **names +intent(in)`
  | charResultAlloc                      -- `const char *f()` as `character(len=:), allocatable`
  | stringResultAlloc                    -- `const std::string &f()` / `*f()`, allocatable
  | stringValResultAlloc                 -- `std::string f()` (by value: a heap copy owned by the capsule), allocatable
  | vecStrIn | vecStrOut | vecStrInout   -- `std::vector<std::string> &` from / into `character(len=L) :: a(n)`
  | structArg                            -- a struct by value, pointer or reference (language c++: cast to the C++ struct)
  | voidPtr                              -- `void *p` in every const / explicit-intent(in) spelling: `type(C_PTR), value`
  deriving Repr, DecidableEq

/-- the eight statements that describe a heap `std::vector` in the context struct -/
def ctxOfVector : List Op :=
  [.ctxCxxVar 5 6, .ctxIdtor 5, .ctxBaseVec 5 6 6, .ctxType 5, .ctxElemLen 5, .ctxSizeVec 5 6, .ctxRank1 5, .ctxShape0 5 5]

/-- the seven statements that describe memory returned by the library in the context struct -/
def ctxOfPointer : List Op :=
  [.ctxCxxPtr 5, .ctxIdtor 5, .ctxBasePtr 5 6, .ctxType 5, .ctxElemLen 5, .ctxRankShape 5, .ctxSizeExpr 5]

/-- documented Fortran-side block -/
def Kind.fspec : Kind → FSpec
  | .boolIn => ⟨true, [.coerceIn 1 0], []⟩
  | .boolOut => ⟨true, [], [.coerceOut 0 1]⟩
  | .boolInout => ⟨true, [.coerceIn 1 0], [.coerceOut 0 1]⟩
  | .nativeOutAlloc => ⟨false, [.allocShape 0], []⟩
  | .vectorOut | .vectorInout | .vectorResult => ⟨false, [], [.copyArrayF 5 0 0]⟩
  | .vectorOutAlloc | .vectorResultAlloc => ⟨false, [], [.allocCtxSize 0 5, .copyArrayF 5 0 0]⟩
  | .vectorInoutAlloc => ⟨false, [], [.deallocIf 0 0, .allocCtxSize 0 5, .copyArrayF 5 0 0]⟩
  | .ptrPtrOut => ⟨false, [], [.cfPointerCtx 5 0]⟩
  | .resultPointer => ⟨false, [], [.cfPointerRes 7 8]⟩
  | .resultAlloc => ⟨false, [], [.allocShape 0, .copyArrayF 5 0 0]⟩
  | .charResultAlloc | .stringResultAlloc | .stringValResultAlloc => ⟨false, [], [.allocCharCtx 5 0, .copyStringF 5 0 5]⟩
  | _ => ⟨false, [], []⟩

/-- documented C-side block for the bufferify (`cfi = false`) and the CFI (`cfi = true`) function -/
def Kind.cspec : Kind → Bool → CSpec
  | .charIn, false => ⟨[1, 4], 2, false, [.strAlloc 6 1 3 3], [.strFree 6]⟩
  | .charIn, true => ⟨[2], 2, true, [.cfiBase 1 10, .strAlloc 6 1 9 99], [.strFree 6]⟩
  | .charOut, false => ⟨[1, 3], 0, false, [], [.blankFill 1 2]⟩
  | .charOut, true => ⟨[2], 2, true, [.cfiBase 6 10], [.blankFill 6 9]⟩
  | .charInout, false => ⟨[1, 4, 3], 2, false, [.strAlloc 6 1 2 3], [.strCopyC 1 2 6, .strFree 6]⟩
  | .charInout, true => ⟨[2], 2, true, [.cfiBase 1 10, .strAlloc 6 1 9 99], [.strCopyC 1 9 6, .strFree 6]⟩
  | .stringIn, false => ⟨[1, 4], 1, false, [.mkStringLen 6 1 3], []⟩
  | .stringIn, true => ⟨[2], 1, true, [.cfiBase 1 10, .lenTrimTo 3 1 9, .mkStringLen 6 1 3], []⟩
  | .stringOut, false => ⟨[1, 3], 1, false, [.mkStringEmpty 6], [.strCopyStd 1 2 6 6]⟩
  | .stringOut, true => ⟨[2], 1, true, [.mkStringEmpty 6, .cfiBase 1 10], [.strCopyStd 1 9 6 6]⟩
  | .stringInout, false => ⟨[1, 4, 3], 1, false, [.mkStringLen 6 1 3], [.strCopyStd 1 2 6 6]⟩
  | .stringInout, true => ⟨[2], 1, true, [.cfiBase 1 10, .lenTrimTo 3 1 9, .mkStringLen 6 1 3], [.strCopyStd 1 9 6 6]⟩
  | .charResult, false => ⟨[1, 3], 0, false, [], [.strCopyC 1 2 6]⟩
  | .charResult, true => ⟨[2], 0, true, [], [.cfiBase 1 10, .strCopyC 1 9 6]⟩
  | .stringResult, false => ⟨[1, 3], 0, false, [],
      [.ifEmpty 6, .strCopyNull 1 2, .else_, .strCopyStd 1 2 6 6, .endIf]⟩
  | .stringResult, true => ⟨[2], 0, true, [],
      [.cfiBase 1 10, .ifEmpty 6, .strCopyNull 1 9, .else_, .strCopyStd 1 9 6 6, .endIf]⟩
  | .charScalarResult, false => ⟨[1, 3], 0, false, [], [.memsetBlank 1 2, .setFirst 1 6]⟩
  | .charScalarResult, true => ⟨[2], 0, true, [], [.cfiBase 1 10, .memsetBlank 1 9, .setFirst 1 6]⟩
  | .vectorIn, false => ⟨[1, 5], 1, false, [.mkVector 6 1 1 4], []⟩
  | .vectorOut, false | .vectorOutAlloc, false | .vectorResult, false | .vectorResultAlloc, false =>
      ⟨[6], 2, false, [.newVector 6], ctxOfVector⟩
  | .vectorInout, false | .vectorInoutAlloc, false => ⟨[1, 5, 6], 2, false, [.newVectorFrom 6 1 1 4], ctxOfVector⟩
  | .ptrPtrOut, false => ⟨[6], 3, false, [.declPtr 6], ctxOfPointer⟩
  | .resultPointer, false | .resultAlloc, false => ⟨[6], 0, false, [], ctxOfPointer⟩
  | .charArrayIn, false => ⟨[2, 5, 3], 2, false, [.strArrayAlloc 6 1 4 2], [.strArrayFree 6 4]⟩
  | .charResultAlloc, false => ⟨[6], 0, false, [],
      [.ctxCxxPtr 5, .ctxIdtor 5, .ctxCcharp 5 6, .ctxType 5, .ctxElemLenStr 5 6 6, .ctxSize1 5, .ctxRank0 5]⟩
  | .stringResultAlloc, false => ⟨[6], 0, false, [], [.strToArray 5 6]⟩
  | .stringValResultAlloc, false => ⟨[6], 2, false, [.newString 6], [.strToArray 5 6]⟩
  | .vecStrIn, false => ⟨[1, 5, 3], 1, false, [.vecStrIn 6 1 4 2], []⟩
  | .vecStrOut, false => ⟨[1, 5, 3], 1, false, [.vecStrDecl 6], [.vecStrOut 1 4 2 6]⟩
  | .vecStrInout, false => ⟨[1, 5, 3], 1, false, [.vecStrIn 6 1 4 2], [.vecStrOut 1 4 2 6]⟩
  | _, _ => ⟨[], 0, false, [], []⟩


/-! ## 1. table theorems over the regenerated `Gen/FStmts.lean` -/

/-- the C-side block the emitter finds for a requested path, in the table of language `cxx` -/
def cAt (cxx : Bool) (path : List Nat) : CSpec := (lookup (rowsOf cxx) path).cspec (path.contains 51)
/-- the Fortran-side block -/
def fAt (cxx : Bool) (path : List Nat) : FSpec := (lookup (rowsOf cxx) path).fspec

/-- requested C paths `[c, sgroup, spointer, intent, suffix]` per kind: every indirection the
    declaration grammar admits for it (`*`, `&`; `scalar` too for std::string results) -/
def Kind.cpaths : Kind → Bool → List (List Nat)
  | .charIn, cfi => [[1, 12, 31, 40, if cfi then 51 else 50]]
  | .charOut, cfi => [[1, 12, 31, 41, if cfi then 51 else 50]]
  | .charInout, cfi => [[1, 12, 31, 42, if cfi then 51 else 50]]
  | .stringIn, cfi => [[1, 13, 31, 40, if cfi then 51 else 50], [1, 13, 32, 40, if cfi then 51 else 50]]
  | .stringOut, cfi => [[1, 13, 31, 41, if cfi then 51 else 50], [1, 13, 32, 41, if cfi then 51 else 50]]
  | .stringInout, cfi => [[1, 13, 31, 42, if cfi then 51 else 50], [1, 13, 32, 42, if cfi then 51 else 50]]
  | .charResult, cfi => [[1, 12, 31, 43, if cfi then 51 else 50, 73]]
  | .stringResult, cfi => [[1, 13, 30, 43, if cfi then 51 else 50, 73], [1, 13, 31, 43, if cfi then 51 else 50, 73],
                            [1, 13, 32, 43, if cfi then 51 else 50, 73]]
  | .charScalarResult, cfi => [[1, 12, 30, 43, if cfi then 51 else 50]]
  -- bool and native arguments keep the default block whatever the suffix
  | .boolIn, _ => [[1, 11, 30, 40], [1, 11, 30, 40, 50]]
  | .boolOut, _ => [[1, 11, 31, 41], [1, 11, 31, 41, 50], [1, 11, 32, 41], [1, 11, 32, 41, 50]]
  | .boolInout, _ => [[1, 11, 31, 42], [1, 11, 31, 42, 50], [1, 11, 32, 42], [1, 11, 32, 42, 50]]
  -- kinds that exist only through the bufferify function: there is no `_cfi` entry for them
  | .nativeOutAlloc, false => [[1, 10, 31, 41], [1, 10, 31, 41, 50]]
  | .vectorIn, false => [[1, 14, 32, 40, 50, 10], [1, 14, 30, 40, 50, 10]]
  | .vectorOut, false | .vectorOutAlloc, false => [[1, 14, 32, 41, 50, 10]]
  | .vectorInout, false | .vectorInoutAlloc, false => [[1, 14, 32, 42, 50, 10]]
  | .vectorResult, false | .vectorResultAlloc, false => [[1, 14, 30, 43, 50, 60]]
  | .ptrPtrOut, false => [[1, 10, 33, 41, 50], [1, 10, 34, 41, 50]]
  | .resultPointer, false => [[1, 10, 31, 43, 50]]
  | .resultAlloc, false => [[1, 10, 31, 43, 50]]
  | .charArrayIn, false => [[1, 12, 33, 40, 50]]
  | .charResultAlloc, false => [[1, 12, 31, 43, 50, 60]]
  | .stringResultAlloc, false => [[1, 13, 31, 43, 50, 60], [1, 13, 32, 43, 50, 60]]
  | .stringValResultAlloc, false => [[1, 13, 30, 43, 50, 60]]
  | .vecStrIn, false => [[1, 14, 32, 40, 50, 13]]
  | .vecStrOut, false => [[1, 14, 32, 41, 50, 13]]
  | .vecStrInout, false => [[1, 14, 32, 42, 50, 13]]
  | .charResultAlloc, true | .stringResultAlloc, true | .stringValResultAlloc, true
  | .vecStrIn, true | .vecStrOut, true | .vecStrInout, true => []
  | .structArg, _ => []   -- language dependent block: theorem struct_entry
  | .voidPtr, _ => [[1, 17, 31, 40], [1, 17, 31, 40, 50]]
  | .nativeOutAlloc, true | .vectorIn, true | .vectorOut, true | .vectorOutAlloc, true | .vectorInout, true
  | .vectorInoutAlloc, true | .vectorResult, true | .vectorResultAlloc, true | .ptrPtrOut, true
  | .resultPointer, true | .resultAlloc, true | .charArrayIn, true => []
  | .native, _ => [[1, 10, 30, 40], [1, 10, 30, 40, 50], [1, 10, 31, 40], [1, 10, 31, 41], [1, 10, 31, 42],
                   [1, 10, 31, 40, 50], [1, 10, 31, 41, 50], [1, 10, 31, 42, 50],
                   [1, 10, 32, 40], [1, 10, 32, 41], [1, 10, 32, 42], [1, 10, 32, 40, 50], [1, 10, 32, 41, 50], [1, 10, 32, 42, 50]]

/-- requested Fortran paths `[f, sgroup, spointer, intent, suffix, deref]` per kind -/
def Kind.fpaths : Kind → List (List Nat)
  | .boolIn => [[2, 11, 30, 40], [2, 11, 30, 40, 50]]
  | .boolOut => [[2, 11, 31, 41], [2, 11, 32, 41], [2, 11, 31, 41, 50], [2, 11, 32, 41, 50]]
  | .boolInout => [[2, 11, 31, 42], [2, 11, 32, 42], [2, 11, 31, 42, 50], [2, 11, 32, 42, 50]]
  | .charIn => [[2, 12, 31, 40, 50], [2, 12, 31, 40, 51]]
  | .charOut => [[2, 12, 31, 41, 50], [2, 12, 31, 41, 51]]
  | .charInout => [[2, 12, 31, 42, 50], [2, 12, 31, 42, 51]]
  | .stringIn => [[2, 13, 31, 40, 50], [2, 13, 32, 40, 50], [2, 13, 31, 40, 51], [2, 13, 32, 40, 51]]
  | .stringOut => [[2, 13, 31, 41, 50], [2, 13, 32, 41, 50], [2, 13, 31, 41, 51], [2, 13, 32, 41, 51]]
  | .stringInout => [[2, 13, 31, 42, 50], [2, 13, 32, 42, 50], [2, 13, 31, 42, 51], [2, 13, 32, 42, 51]]
  | .charResult => [[2, 12, 31, 43, 50, 73], [2, 12, 31, 43, 51, 73]]
  | .stringResult => [[2, 13, 30, 43, 50, 73], [2, 13, 31, 43, 50, 73], [2, 13, 32, 43, 50, 73],
                      [2, 13, 30, 43, 51, 73], [2, 13, 31, 43, 51, 73], [2, 13, 32, 43, 51, 73]]
  | .charScalarResult => [[2, 12, 30, 43, 50], [2, 12, 30, 43, 51]]
  | .nativeOutAlloc => [[2, 10, 31, 41, 60], [2, 10, 31, 41, 50, 60]]
  | .vectorIn => [[2, 14, 32, 40, 50, 10], [2, 14, 30, 40, 50, 10]]
  | .vectorOut => [[2, 14, 32, 41, 50, 10]]
  | .vectorOutAlloc => [[2, 14, 32, 41, 50, 60, 10]]
  | .vectorInout => [[2, 14, 32, 42, 50, 10]]
  | .vectorInoutAlloc => [[2, 14, 32, 42, 50, 60, 10]]
  | .vectorResult => [[2, 14, 30, 43, 50]]
  | .vectorResultAlloc => [[2, 14, 30, 43, 50, 60]]
  | .ptrPtrOut => [[2, 10, 33, 41, 50], [2, 10, 34, 41, 50]]
  | .resultPointer => [[2, 10, 31, 43, 50, 61]]
  | .resultAlloc => [[2, 10, 31, 43, 50, 60]]
  | .charArrayIn => [[2, 12, 33, 40, 50]]
  | .charResultAlloc => [[2, 12, 31, 43, 50, 60]]
  | .stringResultAlloc => [[2, 13, 31, 43, 50, 60], [2, 13, 32, 43, 50, 60]]
  | .stringValResultAlloc => [[2, 13, 30, 43, 50, 60]]
  | .vecStrIn => [[2, 14, 32, 40, 50, 13]]
  | .vecStrOut | .vecStrInout => []
  | .structArg => [[2, 16, 30, 40], [2, 16, 31, 40], [2, 16, 32, 40], [2, 16, 31, 42], [2, 16, 32, 42]]
  | .voidPtr => [[2, 17, 31, 40], [2, 17, 31, 40, 50]]
  | .native => [[2, 10, 30, 40], [2, 10, 31, 40], [2, 10, 31, 41], [2, 10, 31, 42], [2, 10, 32, 40], [2, 10, 32, 41],
                [2, 10, 32, 42], [2, 10, 30, 40, 50], [2, 10, 31, 40, 50], [2, 10, 31, 41, 50], [2, 10, 31, 42, 50]]

def allKinds : List Kind :=
  [.boolIn, .boolOut, .boolInout, .charIn, .charOut, .charInout, .stringIn, .stringOut, .stringInout,
   .charResult, .stringResult, .charScalarResult, .native,
   .nativeOutAlloc, .vectorIn, .vectorOut, .vectorOutAlloc, .vectorInout, .vectorInoutAlloc, .vectorResult,
   .vectorResultAlloc, .ptrPtrOut, .resultPointer, .resultAlloc, .charArrayIn,
   .charResultAlloc, .stringResultAlloc, .stringValResultAlloc, .vecStrIn, .vecStrOut, .vecStrInout, .structArg, .voidPtr]

/-- one kind is an instance of its documented shape in the table of language `cxx` -/
def kindOK (cxx : Bool) (k : Kind) : Bool :=
  (k.fpaths.all fun p => fAt cxx p == k.fspec) &&
  ([false, true].all fun cfi => (k.cpaths cfi).all fun p => cAt cxx p == k.cspec cfi)

/-- **(4) table theorem.**  In the table regenerated from the working tree, for language c++ and for
    language c, every entry that the emitter reaches for a key of a modelled kind (both the
    bufferify and the CFI suffix, every admitted indirection) is exactly the documented shape:
    same ops in the same order with the same variables in every parameter position
    (`c_var_trim` vs `c_var_len`, `cxx_var` vs `c_var`), same buf_args in the same order, same
    local-variable discipline. -/
theorem table_entries_are_documented_shapes :
    allKinds.all (kindOK true) = true ∧ allKinds.all (kindOK false) = true := by
  constructor <;> decide +kernel

/-! ## 2. shape lemmas: one argument (or result) through both wrappers, for ALL values

`runArg F C byRef actual call` evaluates the composition F pre_call ; bind(C) actuals ;
C pre_call ; library ; C post_call ; storage association ; F post_call. -/

@[simp] theorem natOfInt_cast (n : Nat) : natOfInt (n : Int) = some n := by
  simp [natOfInt]

theorem lenTrim_full (t : Buf) : lenTrim t t.length = .ok (rtrim t).length := by
  have hl := lenTrim_eq_rtrim t t.length (Nat.le_refl _)
  rwa [List.take_length] at hl

/-- definitional forms of the bind laws (used by `dsimp` passes inside `simp`, which also reduce the
    structure projections of the interpreter state) -/
theorem ok_bind_rfl {α β : Type} (a : α) (f : α → Res β) : (Res.ok a).bind f = f a := rfl
theorem oob_bind_rfl {α β : Type} (f : α → Res β) : (Res.oob : Res α).bind f = .oob := rfl

/-- unfolding set for the interpreter on concrete op lists -/
macro "run_simp" "[" ls:Lean.Parser.Tactic.simpLemma,* "]" : tactic =>
  `(tactic| simp [runArg, runArgWith, Kind.fspec, Kind.cspec, run, step, execOp, fInit, boundary, bindAll, bindArg, St.get,
      St.set, St.resolve, assocGet, assocSet, CSpec.storage, CSpec.callVar, Res.bind, St.buf, St.nat, St.int,
      liftBuf, lenTrim_full, ok_bind_rfl, oob_bind_rfl, $ls,*])

/-! ### logical <-> bool -/

/-- `bool` by value: the library receives exactly the caller's truth value; nothing comes back -/
theorem bool_in (b : Bool) (lib : Val → Val) :
    runArg Kind.boolIn.fspec (Kind.boolIn.cspec false) false (.bool b) (.arg lib)
      = .ok ⟨some (.bool b), .bool b, 0⟩ := by
  run_simp []

/-- `bool *` intent(out): whatever truth value the library stores is what the caller's logical holds -/
theorem bool_out (b0 b' : Bool) :
    runArg Kind.boolOut.fspec (Kind.boolOut.cspec false) true (.bool b0) (.arg fun _ => .bool b')
      = .ok ⟨some .null, .bool b', 0⟩ := by
  run_simp []

/-- `bool *` intent(inout): the library receives the caller's value and the caller receives the library's -/
theorem bool_inout (b : Bool) (f : Bool → Bool) :
    runArg Kind.boolInout.fspec (Kind.boolInout.cspec false) true (.bool b)
        (.arg fun v => match v with | .bool x => .bool (f x) | v => v)
      = .ok ⟨some (.bool b), .bool (f b), 0⟩ := by
  run_simp []

/-! ### native scalars, pointers and arrays (default blocks: pure pass-through) -/

/-- by value: delivered unchanged (integers; reals as opaque values), caller's variable untouched -/
theorem scalar_by_value (v : Val) (lib : Val → Val) :
    runArg Kind.native.fspec (Kind.native.cspec false) false v (.arg lib) = .ok ⟨some v, v, 0⟩ := by
  run_simp []

/-- pointer / reference / array: the library works on the caller's storage itself; intent in
    (`lib = id`), out and inout alike; for an array the extent is the length of the same list -/
theorem pointer_pass_through (v : Val) (lib : Val → Val) :
    runArg Kind.native.fspec (Kind.native.cspec false) true v (.arg lib) = .ok ⟨some v, lib v, 0⟩ := by
  run_simp []

example : runArg Kind.native.fspec (Kind.native.cspec false) true (.arr [1, 2, 3]) (.arg fun _ => .arr [4, 5, 6])
    = .ok ⟨some (.arr [1, 2, 3]), .arr [4, 5, 6], 0⟩ := by decide +kernel

/-- implied arguments: `size(a)`, `len(s)`, `len_trim(s)` of another argument, as the library gets them -/
theorem implied_values (a : List Int) (t : Buf) :
    inquiry 1 (.arr a) = some (a.length : Int) ∧ inquiry 2 (.buf t) = some (t.length : Int) ∧
    inquiry 3 (.buf t) = some ((rtrim t).length : Int) := ⟨rfl, rfl, rfl⟩

/-! ### character input -/

/-- `const char *` (no bufferify needed): `trim(x)//C_NULL_CHAR` -/
theorem char_in_ftrim (t : Buf) :
    runFtrim (.buf t) = .ok ⟨some (.buf (rtrim t ++ [NUL])), .buf t, 0⟩ := rfl

/-- `c_char_*_in_buf`: the library receives a fresh block holding exactly the text without its
    trailing blanks, NUL terminated; the caller's variable is unchanged; the block is released -/
theorem char_in_buf (t : Buf) :
    runArg Kind.charIn.fspec (Kind.charIn.cspec false) true (.buf t) (.arg id)
      = .ok ⟨some (.buf (rtrim t ++ [NUL])), .buf t, 0⟩ := by
  run_simp [strAlloc_in_buf]

/-- `c_char_*_in_cfi`: same text and terminator (the block is `len + 1` bytes long) -/
theorem char_in_cfi (t : Buf) :
    runArg Kind.charIn.fspec (Kind.charIn.cspec true) true (.buf t) (.arg id)
      = .ok ⟨some (.buf (rtrim t ++ NUL :: List.replicate (t.length - (rtrim t).length) UNINIT)), .buf t, 0⟩ := by
  run_simp [(strAlloc_inout t).2, (strAlloc_inout t).1]

/-- `std::string` input (`c_string_*_in_buf`, `&` alike): the string is the text without trailing blanks -/
theorem string_in_buf (t : Buf) :
    runArg Kind.stringIn.fspec (Kind.stringIn.cspec false) true (.buf t) (.arg id)
      = .ok ⟨some (.str (rtrim t)), .buf t, 0⟩ := by
  run_simp [rtrim_length_le, ← rtrim_prefix]

theorem string_in_cfi (t : Buf) :
    runArg Kind.stringIn.fspec (Kind.stringIn.cspec true) true (.buf t) (.arg id)
      = .ok ⟨some (.str (rtrim t)), .buf t, 0⟩ := by
  run_simp [rtrim_length_le, ← rtrim_prefix]

/-! ### character output -/

/-- `std::string &` intent(out) into `character(len=L)`: the caller holds `take L (s ++ blanks)` -/
theorem string_out_buf (v : Buf) (s : List Nat) (hs : s.length < 2147483648) :
    runArg Kind.stringOut.fspec (Kind.stringOut.cspec false) true (.buf v) (.arg fun _ => .str s)
      = .ok ⟨some (.str []), .buf (fassign v.length s), 0⟩ := by
  have h := strCopy_counted v [] (s ++ [NUL]) s.length (by simp)
  simp only [List.append_nil, List.take_left'] at h
  run_simp [h, hs]

theorem string_out_cfi (v : Buf) (s : List Nat) (hs : s.length < 2147483648) :
    runArg Kind.stringOut.fspec (Kind.stringOut.cspec true) true (.buf v) (.arg fun _ => .str s)
      = .ok ⟨some (.str []), .buf (fassign v.length s), 0⟩ := by
  have h := strCopy_counted v [] (s ++ [NUL]) s.length (by simp)
  simp only [List.append_nil, List.take_left'] at h
  run_simp [h, hs]

/-- `std::string &` intent(inout): trimmed text in, `take L (s ++ blanks)` out -/
theorem string_inout_buf (t : Buf) (f : List Nat → List Nat) (hs : (f (rtrim t)).length < 2147483648) :
    runArg Kind.stringInout.fspec (Kind.stringInout.cspec false) true (.buf t)
        (.arg fun v => match v with | .str x => .str (f x) | v => v)
      = .ok ⟨some (.str (rtrim t)), .buf (fassign t.length (f (rtrim t))), 0⟩ := by
  have h := strCopy_counted t [] (f (rtrim t) ++ [NUL]) (f (rtrim t)).length (by simp)
  simp only [List.append_nil, List.take_left'] at h
  run_simp [rtrim_length_le, ← rtrim_prefix, h, hs]

theorem string_inout_cfi (t : Buf) (f : List Nat → List Nat) (hs : (f (rtrim t)).length < 2147483648) :
    runArg Kind.stringInout.fspec (Kind.stringInout.cspec true) true (.buf t)
        (.arg fun v => match v with | .str x => .str (f x) | v => v)
      = .ok ⟨some (.str (rtrim t)), .buf (fassign t.length (f (rtrim t))), 0⟩ := by
  have h := strCopy_counted t [] (f (rtrim t) ++ [NUL]) (f (rtrim t)).length (by simp)
  simp only [List.append_nil, List.take_left'] at h
  run_simp [rtrim_length_le, ← rtrim_prefix, h, hs]

/-- `char *` intent(out) (`c_char_*_out_buf`): the library writes a C string `str` into the
    caller's own `L` bytes; afterwards the variable holds `str` blank padded.  The documented
    precondition (C10) is that the string and its NUL fit: `str.length < L`. -/
theorem char_out_buf (str post : Buf) (h0 : ∀ c ∈ str, c ≠ NUL) (v : Buf)
    (hv : v.length = (str ++ NUL :: post).length) (hfit : str.length < 2147483648) :
    runArg Kind.charOut.fspec (Kind.charOut.cspec false) true (.buf v) (.arg fun _ => .buf (str ++ NUL :: post))
      = .ok ⟨some (.buf v), .buf (fassign v.length str), 0⟩ := by
  have h := strBlankFill_spec str post v.length h0 (by simp at hv; omega) (by omega) hfit
  have hd : (str ++ NUL :: post).drop v.length = [] := List.drop_eq_nil_of_le (by omega)
  rw [hd, List.append_nil] at h
  run_simp [h]

theorem char_out_cfi (str post : Buf) (h0 : ∀ c ∈ str, c ≠ NUL) (v : Buf)
    (hv : v.length = (str ++ NUL :: post).length) (hfit : str.length < 2147483648) :
    runArg Kind.charOut.fspec (Kind.charOut.cspec true) true (.buf v) (.arg fun _ => .buf (str ++ NUL :: post))
      = .ok ⟨some (.buf v), .buf (fassign v.length str), 0⟩ := by
  have h := strBlankFill_spec str post v.length h0 (by simp at hv; omega) (by omega) hfit
  have hd : (str ++ NUL :: post).drop v.length = [] := List.drop_eq_nil_of_le (by omega)
  rw [hd, List.append_nil] at h
  run_simp [h]

/-- `char *` intent(inout): the library receives the trimmed, terminated text in a block of `L+1`
    bytes, leaves a C string there, and the caller holds it truncated / blank padded to `L`;
    the block is released -/
theorem char_inout_buf (t str post : Buf) (h0 : ∀ c ∈ str, c ≠ NUL) (hfit : str.length < 2147483648) :
    runArg Kind.charInout.fspec (Kind.charInout.cspec false) true (.buf t) (.arg fun _ => .buf (str ++ NUL :: post))
      = .ok ⟨some (.buf (rtrim t ++ NUL :: List.replicate (t.length - (rtrim t).length) UNINIT)),
             .buf (fassign t.length str), 0⟩ := by
  have h := strCopy_cstring t [] str post h0 hfit
  simp only [List.append_nil] at h
  run_simp [(strAlloc_inout t).1, h]

theorem char_inout_cfi (t str post : Buf) (h0 : ∀ c ∈ str, c ≠ NUL) (hfit : str.length < 2147483648) :
    runArg Kind.charInout.fspec (Kind.charInout.cspec true) true (.buf t) (.arg fun _ => .buf (str ++ NUL :: post))
      = .ok ⟨some (.buf (rtrim t ++ NUL :: List.replicate (t.length - (rtrim t).length) UNINIT)),
             .buf (fassign t.length str), 0⟩ := by
  have h := strCopy_cstring t [] str post h0 hfit
  simp only [List.append_nil] at h
  run_simp [(strAlloc_inout t).2, (strAlloc_inout t).1, h]

/-! ### results copied into a `character(len=L)` result variable -/

/-- `char *` result (`+len(L)` or F_string_result_as_arg): the C string, truncated / blank padded -/
theorem char_result_buf (v str post : Buf) (h0 : ∀ c ∈ str, c ≠ NUL) (hfit : str.length < 2147483648) (cfi : Bool) :
    runArg Kind.charResult.fspec (Kind.charResult.cspec cfi) true (.buf v) (.result (.buf (str ++ NUL :: post)))
      = .ok ⟨none, .buf (fassign v.length str), 0⟩ := by
  have h := strCopy_cstring v [] str post h0 hfit
  simp only [List.append_nil] at h
  cases cfi <;> run_simp [h]

/-- a NULL `char *` result gives an all-blank variable -/
theorem char_result_null (v : Buf) (cfi : Bool) :
    runArg Kind.charResult.fspec (Kind.charResult.cspec cfi) true (.buf v) (.result .null)
      = .ok ⟨none, .buf (List.replicate v.length BLANK), 0⟩ := by
  have h := strCopy_null v [] (-1)
  simp only [List.append_nil] at h
  cases cfi <;> run_simp [h]

/-- `std::string` result (by value, `*` or `&`): `take L (s ++ blanks)`, also when `s` is empty -/
theorem string_result_buf (v : Buf) (s : List Nat) (hs : s.length < 2147483648) (cfi : Bool) :
    runArg Kind.stringResult.fspec (Kind.stringResult.cspec cfi) true (.buf v) (.result (.str s))
      = .ok ⟨none, .buf (fassign v.length s), 0⟩ := by
  have h := strCopy_counted v [] (s ++ [NUL]) s.length (by simp)
  simp only [List.append_nil, List.take_left'] at h
  have hn := strCopy_null v [] 0
  simp only [List.append_nil] at hn
  cases s with
  | nil => cases cfi <;> run_simp [hn, fassign]
  | cons a s =>
    simp at h hs
    cases cfi <;> run_simp [h, hs]

/-- `char` result: the character, then blanks (`L ≥ 1`) -/
theorem char_scalar_result_buf (v : Buf) (c : Nat) (hL : 0 < v.length) (cfi : Bool) :
    runArg Kind.charScalarResult.fspec (Kind.charScalarResult.cspec cfi) true (.buf v) (.result (.int c))
      = .ok ⟨none, .buf (c :: List.replicate (v.length - 1) BLANK), 0⟩ := by
  have hm := memset_app [] v [] BLANK
  simp only [List.nil_append, List.append_nil, List.length_nil] at hm
  obtain ⟨n, hn⟩ : ∃ n, v.length = n + 1 := ⟨v.length - 1, by omega⟩
  have hw : wr (List.replicate v.length BLANK) 0 c = .ok (c :: List.replicate (v.length - 1) BLANK) := by
    rw [hn]; simp [List.replicate_succ, wr]
  have hc : ¬ ((c : Int) < 0) := by omega
  cases cfi <;> run_simp [hm, hw, hc]

/-! ## 2b. arrays, std::vector, context results, `char **` (for all sizes) -/

/-- native array, `intent(in)` / `intent(out)` / `intent(inout)` with `rank` / `dimension`, any
    extent including zero: the library works on the caller's elements (it receives exactly them,
    extent = length) and the caller holds the elements the library left -/
theorem native_array_pass_through (a : List Int) (f : List Int → List Int) :
    runArg Kind.native.fspec (Kind.native.cspec false) true (.arr a)
        (.arg fun v => match v with | .arr x => .arr (f x) | v => v)
      = .ok ⟨some (.arr a), .arr (f a), 0⟩ := by
  run_simp []

example : runArg Kind.native.fspec (Kind.native.cspec false) true (.arr [])
    (.arg fun v => match v with | .arr x => .arr (x.map (· * 2)) | v => v) = .ok ⟨some (.arr []), .arr [], 0⟩ := by decide +kernel

@[simp] theorem toNat_map_cast (sh : List Nat) : sh.map (Int.toNat ∘ Int.ofNat) = sh := by
  induction sh with
  | nil => rfl
  | cons x xs ih => simp [ih]

/-- `T *a +intent(out)+deref(allocatable)+dimension(sh)`: the wrapper allocates `prod sh` elements,
    the library fills that storage, the caller holds what the library wrote -/
theorem native_out_allocatable (sh : List Nat) (a0 l : List Int) :
    runArgWith [(14, .arr (sh.map Int.ofNat))] Kind.nativeOutAlloc.fspec (Kind.nativeOutAlloc.cspec false) true
        (.arr a0) (.arg fun _ => .arr l)
      = .ok ⟨some (.arr (List.replicate (prod sh) 0)), .arr l, 0⟩ := by
  run_simp [St.shape, List.foldl]

/-- ShroudCopyArray on a context that describes the vector `l` -/
theorem copyElems_vector (x : Ctx) (l d : List Int) :
    copyElems { x with base := if l.isEmpty then none else some l, size := l.length } d
      = .ok (l.take (min d.length l.length) ++ d.drop (min d.length l.length)) := by
  unfold copyElems
  by_cases hlt : d.length < l.length
  · have hm : min d.length l.length = d.length := Nat.min_eq_left (Nat.le_of_lt hlt)
    simp only [hlt, if_true, hm]
    by_cases hd : d.length = 0
    · simp [hd, List.length_eq_zero_iff.mp hd]
    · have hl : l.isEmpty = false := by
        cases l with
        | nil => simp at hlt
        | cons _ _ => rfl
      simp [hd, hl, Nat.le_of_lt hlt]
  · have hm : min d.length l.length = l.length := Nat.min_eq_right (Nat.le_of_not_lt hlt)
    simp only [hlt, if_false, hm]
    cases l with
    | nil => simp
    | cons y ys => simp

/-- `const std::vector<T> &` input: the vector holds exactly the caller's elements -/
theorem vector_in_buf (a : List Int) :
    runArg Kind.vectorIn.fspec (Kind.vectorIn.cspec false) true (.arr a) (.arg id)
      = .ok ⟨some (.vec a), .arr a, 0⟩ := by
  run_simp []

/-- the context struct after the C wrapper described the vector `l` -/
def ctxVec (l : List Int) : Ctx :=
  { owner := some l, ownerPtr := false, idtor := true, base := if l.isEmpty then none else some l, addr := 0,
    typ := true, elemLen := true, size := l.length, rank := 1, shape := [l.length], ccharp := none, elemLenV := 0,
    ownerStr := false }

/-- `std::vector<T> &` intent(out) into a caller array of any extent (shorter, equal, longer, zero):
    the first `min(size(a), l.size())` elements are the vector's, the rest of the caller's array is
    unchanged, and the heap vector is deleted -/
theorem vector_out_buf (d l : List Int) :
    runArg Kind.vectorOut.fspec (Kind.vectorOut.cspec false) false (.arr d) (.arg fun _ => .vec l)
      = .ok ⟨some (.vec []), .arr (l.take (min d.length l.length) ++ d.drop (min d.length l.length)), 0⟩ := by
  have h := copyElems_vector (ctxVec l) l d
  simp only [ctxVec, List.isEmpty_iff] at h
  run_simp [ctxOfVector, St.ctx, St.vec, Ctx.empty, h]

/-- `+deref(allocatable)`: the caller's array is allocated with exactly the vector's size and holds its elements -/
theorem vector_out_allocatable (d l : List Int) :
    runArg Kind.vectorOutAlloc.fspec (Kind.vectorOutAlloc.cspec false) false (.arr d) (.arg fun _ => .vec l)
      = .ok ⟨some (.vec []), .arr l, 0⟩ := by
  have h := copyElems_vector (ctxVec l) l (List.replicate l.length 0)
  have hd : (List.replicate l.length (0 : Int)).drop l.length = [] := List.drop_eq_nil_of_le (by simp)
  simp only [ctxVec, List.length_replicate, Nat.min_self, List.take_length, hd, List.append_nil, List.isEmpty_iff] at h
  run_simp [ctxOfVector, St.ctx, St.vec, Ctx.empty, h]

/-- `std::vector<T> &` intent(inout): the library receives the caller's elements as a vector and the
    caller's array gets the first `min` elements of what the library left -/
theorem vector_inout_buf (a : List Int) (f : List Int → List Int) :
    runArg Kind.vectorInout.fspec (Kind.vectorInout.cspec false) true (.arr a)
        (.arg fun v => match v with | .vec x => .vec (f x) | v => v)
      = .ok ⟨some (.vec a), .arr ((f a).take (min a.length (f a).length) ++ a.drop (min a.length (f a).length)), 0⟩ := by
  have h := copyElems_vector (ctxVec (f a)) (f a) a
  simp only [ctxVec, List.isEmpty_iff] at h
  run_simp [ctxOfVector, St.ctx, St.vec, Ctx.empty, h]

/-- `+deref(allocatable)` inout: reallocated to exactly the vector's size -/
theorem vector_inout_allocatable (a : List Int) (f : List Int → List Int) :
    runArg Kind.vectorInoutAlloc.fspec (Kind.vectorInoutAlloc.cspec false) true (.arr a)
        (.arg fun v => match v with | .vec x => .vec (f x) | v => v)
      = .ok ⟨some (.vec a), .arr (f a), 0⟩ := by
  have h := copyElems_vector (ctxVec (f a)) (f a) (List.replicate (f a).length 0)
  have hd : (List.replicate (f a).length (0 : Int)).drop (f a).length = [] := List.drop_eq_nil_of_le (by simp)
  simp only [ctxVec, List.length_replicate, Nat.min_self, List.take_length, hd, List.append_nil, List.isEmpty_iff] at h
  run_simp [ctxOfVector, St.ctx, St.vec, Ctx.empty, h]

/-- `std::vector<T>` function result into a result array of given extent -/
theorem vector_result_buf (d l : List Int) :
    runArg Kind.vectorResult.fspec (Kind.vectorResult.cspec false) false (.arr d) (.result (.vec l))
      = .ok ⟨none, .arr (l.take (min d.length l.length) ++ d.drop (min d.length l.length)), 0⟩ := by
  have h := copyElems_vector (ctxVec l) l d
  simp only [ctxVec, List.isEmpty_iff] at h
  run_simp [ctxOfVector, St.ctx, St.vec, Ctx.empty, h]

/-- allocatable `std::vector<T>` result: exactly the vector's size and elements -/
theorem vector_result_allocatable (d l : List Int) :
    runArg Kind.vectorResultAlloc.fspec (Kind.vectorResultAlloc.cspec false) false (.arr d) (.result (.vec l))
      = .ok ⟨none, .arr l, 0⟩ := by
  have h := copyElems_vector (ctxVec l) l (List.replicate l.length 0)
  have hd : (List.replicate l.length (0 : Int)).drop l.length = [] := List.drop_eq_nil_of_le (by simp)
  simp only [ctxVec, List.length_replicate, Nat.min_self, List.take_length, hd, List.append_nil, List.isEmpty_iff] at h
  run_simp [ctxOfVector, St.ctx, St.vec, Ctx.empty, h]

/-- **context size is the product of the extents** (table theorem over the regenerated probe of
    wrapc.set_fmt_fields): at ranks 1, 2 and 3, for a result and for a `**` out argument alike,
    `shape[i]` is assigned the i-th declared dimension and `size` multiplies every `shape[i]` once -/
theorem ctx_probe_canonical :
    Gen.FStmts.ctxProbe.all (fun r => r.2.2.1 == (List.range r.2.1).map (fun i => (i, i)) &&
      r.2.2.2 == List.range r.2.1) = true ∧
    ([1, 2, 3].all fun k => (probeRow k).isSome) = true := by decide +kernel

/-- hence, for all extents: `ctx->shape` holds the declared dimensions and `ctx->size` their product -/
theorem ctx_size_is_product (sh : List Nat) (h : 1 ≤ sh.length ∧ sh.length ≤ 3) :
    ctxShapeOf sh = some sh ∧ ctxSizeOf sh = some (prod sh) := by
  match sh, h with
  | [a], _ => exact ⟨by simp [ctxShapeOf, probeRow, Gen.FStmts.ctxProbe, List.find?, List.range, List.range.loop],
                by simp [ctxSizeOf, ctxShapeOf, probeRow, Gen.FStmts.ctxProbe, List.find?, List.range, List.range.loop, prod]⟩
  | [a, b], _ => exact ⟨by simp [ctxShapeOf, probeRow, Gen.FStmts.ctxProbe, List.find?, List.range, List.range.loop],
                by simp [ctxSizeOf, ctxShapeOf, probeRow, Gen.FStmts.ctxProbe, List.find?, List.range, List.range.loop, prod]⟩
  | [a, b, c], _ => exact ⟨by simp [ctxShapeOf, probeRow, Gen.FStmts.ctxProbe, List.find?, List.range, List.range.loop],
                by simp [ctxSizeOf, ctxShapeOf, probeRow, Gen.FStmts.ctxProbe, List.find?, List.range, List.range.loop, prod]⟩
  | [], h => exact absurd h.1 (by simp)
  | _ :: _ :: _ :: _ :: _, h => exact absurd h.2 (by simp)

/-- `T **a +intent(out)+dimension(sh)`: the Fortran pointer designates the library's address with the
    declared extents (the library memory must hold at least `prod sh` elements) -/
theorem ptrptr_out (sh : List Nat) (hr : 1 ≤ sh.length ∧ sh.length ≤ 3) (addr : Nat) (elems : List Int)
    (h : prod sh ≤ elems.length) (a0 : Val) :
    runArgWith [(14, .arr (sh.map Int.ofNat))] Kind.ptrPtrOut.fspec (Kind.ptrPtrOut.cspec false) false a0
        (.arg fun _ => .ref addr elems)
      = .ok ⟨some .null, .ref addr (elems.take (prod sh)), 0⟩ := by
  obtain ⟨h1, h2⟩ := ctx_size_is_product sh hr
  run_simp [ctxOfPointer, St.ctx, St.shape, Ctx.empty, List.foldl, h, h1, h2]

/-- `T *f() +deref(pointer)+dimension(sh)`: the Fortran pointer result designates the returned address
    with the declared extents -/
theorem result_pointer (sh : List Nat) (hr : 1 ≤ sh.length ∧ sh.length ≤ 3) (addr : Nat) (elems : List Int)
    (h : prod sh ≤ elems.length) (r0 : Val) :
    runArgWith [(14, .arr (sh.map Int.ofNat))] Kind.resultPointer.fspec (Kind.resultPointer.cspec false) false r0
        (.result (.ref addr elems))
      = .ok ⟨none, .ref addr (elems.take (prod sh)), 0⟩ := by
  obtain ⟨h1, h2⟩ := ctx_size_is_product sh hr
  run_simp [ctxOfPointer, St.ctx, St.shape, Ctx.empty, List.foldl, h, h1, h2]

/-- `T *f() +deref(allocatable)+dimension(sh)`: a fresh array of the declared extents holding the
    first `prod sh` elements found at the returned address -/
theorem result_allocatable (sh : List Nat) (hr : 1 ≤ sh.length ∧ sh.length ≤ 3) (addr : Nat) (elems : List Int)
    (h : prod sh ≤ elems.length) (r0 : Val) :
    runArgWith [(14, .arr (sh.map Int.ofNat))] Kind.resultAlloc.fspec (Kind.resultAlloc.cspec false) false r0
        (.result (.ref addr elems))
      = .ok ⟨none, .arr (elems.take (prod sh)), 0⟩ := by
  have hd : (List.replicate (prod sh) (0 : Int)).drop (prod sh) = [] := List.drop_eq_nil_of_le (by simp)
  obtain ⟨h1, h2⟩ := ctx_size_is_product sh hr
  by_cases h0 : prod sh = 0
  · run_simp [ctxOfPointer, St.ctx, St.shape, Ctx.empty, List.foldl, copyElems, h0, h1, h2]
  · run_simp [ctxOfPointer, St.ctx, St.shape, Ctx.empty, List.foldl, copyElems, h0, h, hd, h1, h2]

/-- `char **names +intent(in)` from `character(len=L) :: names(n)`: element `i` is the text of slice
    `i` without trailing blanks, NUL terminated, in its own block; all `n + 1` blocks are released -/
theorem char_array_in (slices : List Buf) (len : Nat) (hl : ∀ s ∈ slices, s.length = len) :
    runArg Kind.charArrayIn.fspec (Kind.charArrayIn.cspec false) false (.carr slices.length len slices.flatten) (.arg id)
      = .ok ⟨some (.ptrs (slices.map fun s => rtrim s ++ [NUL])), .carr slices.length len slices.flatten, 0⟩ := by
  have ha := strArrayAlloc_spec slices len [] hl
  rw [List.append_nil] at ha
  have hf := strArrayFree_after_alloc _ _ _ _ ha
  run_simp [ha, hf]

example : ∀ s ∈ [[97, 32], [32, 98]], s.length = 2 := by decide
example : prod [2, 3] ≤ [1, 2, 3, 4, 5, 6, 7].length := by decide

/-! ## 2c. allocatable character results and std::vector<std::string> (composed with C10) -/

/-- `const char *f()` as `character(len=:), allocatable`: the value is the C string, its length is
    `strlen` (C10 `allocatable_char_result`); nothing is leaked -/
theorem char_result_allocatable (str post : Buf) (h0 : ∀ c ∈ str, c ≠ NUL) (r0 : Val) :
    runArg Kind.charResultAlloc.fspec (Kind.charResultAlloc.cspec false) false r0 (.result (.buf (str ++ NUL :: post)))
      = .ok ⟨none, .buf str, 0⟩ := by
  have h := allocatable_char_result str post h0
  simp only [charResultCtx, strlen_app str post h0, Res.map_ok, Res.ok_bind, allocatableResult] at h
  run_simp [St.ctx, Ctx.empty, charResultCtx, strlen_app str post h0, h]

/-- a NULL result gives a zero-length value -/
theorem char_result_allocatable_null (r0 : Val) :
    runArg Kind.charResultAlloc.fspec (Kind.charResultAlloc.cspec false) false r0 (.result .null)
      = .ok ⟨none, .buf [], 0⟩ := by
  run_simp [St.ctx, Ctx.empty, copyString]

/-- `const std::string &f()` / `*f()`, allocatable: the value is the string (`_partial`: strings
    without an embedded NUL, as C10 `allocatable_string_result_partial`; with one the copy stops there) -/
theorem string_result_allocatable_partial (s : List Nat) (h0 : ∀ c ∈ s, c ≠ NUL) (r0 : Val) :
    runArg Kind.stringResultAlloc.fspec (Kind.stringResultAlloc.cspec false) false r0 (.result (.str s))
      = .ok ⟨none, .buf s, 0⟩ := by
  have h := allocatable_string_result_partial s h0
  simp only [allocatableResult] at h
  run_simp [St.ctx, Ctx.empty, h]

/-- `std::string f()` by value: the wrapper keeps a heap copy in the capsule, ShroudCopyStringAndFree
    copies it out and releases it -/
theorem string_val_result_allocatable_partial (s : List Nat) (h0 : ∀ c ∈ s, c ≠ NUL) (r0 : Val) :
    runArg Kind.stringValResultAlloc.fspec (Kind.stringValResultAlloc.cspec false) false r0 (.result (.str s))
      = .ok ⟨none, .buf s, 0⟩ := by
  have h := allocatable_string_result_partial s h0
  simp only [allocatableResult] at h
  run_simp [St.ctx, Ctx.empty, h]

/-- `const std::vector<std::string> &` from `character(len=L) :: a(n)`: element `i` of the vector is
    the text of element `i` without trailing blanks (C10 `vecStringIn_spec`) -/
theorem vector_string_in (slices : List Buf) (len : Nat) (hl : ∀ s ∈ slices, s.length = len) :
    runArg Kind.vecStrIn.fspec (Kind.vecStrIn.cspec false) true (.carr slices.length len slices.flatten) (.arg id)
      = .ok ⟨some (.vstr (slices.map rtrim)), .carr slices.length len slices.flatten, 0⟩ := by
  have h := vecStringIn_spec slices len [] hl
  rw [List.append_nil] at h
  run_simp [h]

/-- the C wrapper of `std::vector<std::string> & +intent(out)` alone: the first `min` elements of the
    caller's array become the texts truncated / blank padded to `len` (C10 `vecStringOut_spec`) -/
theorem vector_string_out_c_wrapper (slices : List Buf) (len : Nat) (vs : List (List Nat))
    (hl : ∀ s ∈ slices, s.length = len) (h32 : ∀ v ∈ vs, v.length < 2147483648) :
    runArg ⟨false, [], []⟩ (Kind.vecStrOut.cspec false) true (.carr slices.length len slices.flatten) (.arg fun _ => .vstr vs)
      = .ok ⟨some (.vstr []), .carr slices.length len (mergeOut len slices vs).flatten, 0⟩ := by
  have h := vecStringOut_spec slices len [] vs hl h32
  simp only [List.append_nil] at h
  run_simp [h]

/-- ... but the Fortran block the emitter finds for it is `f_vector_out` (there is no string
    specialisation on the Fortran side), whose `copy_array` reads a context struct that the C wrapper
    never receives: for every input the composed call is undefined.  (Upstream disables the two
    `std::vector<std::string>` out / inout functions of its own test library.) -/
theorem vector_string_out_fortran_undefined (slices : List Buf) (len : Nat) (vs : List (List Nat))
    (hl : ∀ s ∈ slices, s.length = len) (h32 : ∀ v ∈ vs, v.length < 2147483648) :
    (∀ cxx, fAt cxx [2, 14, 32, 41, 13] = ⟨false, [], [.copyArrayF 5 0 0]⟩ ∧
            fAt cxx [2, 14, 32, 42, 13] = ⟨false, [], [.copyArrayF 5 0 0]⟩) ∧
    runArg ⟨false, [], [.copyArrayF 5 0 0]⟩ (Kind.vecStrOut.cspec false) true
        (.carr slices.length len slices.flatten) (.arg fun _ => .vstr vs) = .oob := by
  constructor
  · intro cxx; cases cxx <;> decide +kernel
  · have h := vecStringOut_spec slices len [] vs hl h32
    simp only [List.append_nil] at h
    run_simp [h, St.ctx]

/-! ## 3. configuration independence (`_partial`: the kinds above; debug is C16) -/

/-- what a `char *` parameter shows the library: the bytes before the first NUL -/
def Outcome.view (o : Outcome) : Outcome :=
  { o with received := o.received.map fun v => match v with | .buf b => .buf (cstr b) | v => v }

/-- language: for every modelled kind the blocks found in the table prepared for a C++ library and
    in the table prepared for a C library coincide with the documented shape, hence with each other;
    so the composed semantics of every argument is the same function of the Fortran actual -/
theorem language_independent (k : Kind) (hk : k ∈ allKinds) (cfi : Bool) (cxx : Bool) :
    (∀ p ∈ k.fpaths, fAt cxx p = k.fspec) ∧ (∀ p ∈ k.cpaths cfi, cAt cxx p = k.cspec cfi) := by
  have ht := table_entries_are_documented_shapes
  have h : allKinds.all (kindOK cxx) = true := by cases cxx; exact ht.2; exact ht.1
  rw [List.all_eq_true] at h
  have hk' := h k hk
  simp only [kindOK, Bool.and_eq_true, List.all_eq_true, beq_iff_eq] at hk'
  refine ⟨hk'.1, ?_⟩
  have := hk'.2 cfi (by cases cfi <;> simp)
  exact this

/-- the same, as a statement about calls: whichever language table and whichever admitted path
    of the kind the emitter used, the trip of the argument is `runArg` of the documented shape -/
theorem call_through_table (k : Kind) (hk : k ∈ allKinds) (cfi cxx : Bool) (fp cp : List Nat)
    (hf : fp ∈ k.fpaths) (hc : cp ∈ k.cpaths cfi) (byRef : Bool) (a : Val) (call : Call) :
    runArg (fAt cxx fp) (cAt cxx cp) byRef a call = runArg k.fspec (k.cspec cfi) byRef a call := by
  obtain ⟨h1, h2⟩ := language_independent k hk cfi cxx
  rw [h1 fp hf, h2 cp hc]

/-- F_CFI off / on, character input: the library sees the same C string (text without trailing
    blanks) and the caller's variable is untouched, provided the text holds no NUL -/
theorem cfi_independent_char_in (t : Buf) (h0 : ∀ c ∈ t, c ≠ NUL) :
    (runArg Kind.charIn.fspec (Kind.charIn.cspec false) true (.buf t) (.arg id)).map Outcome.view
      = (runArg Kind.charIn.fspec (Kind.charIn.cspec true) true (.buf t) (.arg id)).map Outcome.view := by
  rw [char_in_buf, char_in_cfi]
  have h := in_cstr_no_nul t (List.replicate (t.length - (rtrim t).length) UNINIT) h0
  have h2 := in_cstr_no_nul t [] h0
  simp [Res.map, Outcome.view, h.1, h2.1]

/-- F_CFI off / on for the remaining character kinds: identical outcomes -/
theorem cfi_independent_partial (t v str post : Buf) (s : List Nat) (f : List Nat → List Nat)
    (h0 : ∀ c ∈ str, c ≠ NUL) (hv : v.length = (str ++ NUL :: post).length) (c : Nat) (hL : 0 < v.length)
    (hfit : str.length < 2147483648) (hs : s.length < 2147483648) (hf : (f (rtrim t)).length < 2147483648) :
    runArg Kind.stringIn.fspec (Kind.stringIn.cspec false) true (.buf t) (.arg id)
      = runArg Kind.stringIn.fspec (Kind.stringIn.cspec true) true (.buf t) (.arg id) ∧
    runArg Kind.stringOut.fspec (Kind.stringOut.cspec false) true (.buf v) (.arg fun _ => .str s)
      = runArg Kind.stringOut.fspec (Kind.stringOut.cspec true) true (.buf v) (.arg fun _ => .str s) ∧
    runArg Kind.stringInout.fspec (Kind.stringInout.cspec false) true (.buf t)
        (.arg fun v => match v with | .str x => .str (f x) | v => v)
      = runArg Kind.stringInout.fspec (Kind.stringInout.cspec true) true (.buf t)
        (.arg fun v => match v with | .str x => .str (f x) | v => v) ∧
    runArg Kind.charOut.fspec (Kind.charOut.cspec false) true (.buf v) (.arg fun _ => .buf (str ++ NUL :: post))
      = runArg Kind.charOut.fspec (Kind.charOut.cspec true) true (.buf v) (.arg fun _ => .buf (str ++ NUL :: post)) ∧
    runArg Kind.charInout.fspec (Kind.charInout.cspec false) true (.buf t) (.arg fun _ => .buf (str ++ NUL :: post))
      = runArg Kind.charInout.fspec (Kind.charInout.cspec true) true (.buf t) (.arg fun _ => .buf (str ++ NUL :: post)) ∧
    runArg Kind.charResult.fspec (Kind.charResult.cspec false) true (.buf v) (.result (.buf (str ++ NUL :: post)))
      = runArg Kind.charResult.fspec (Kind.charResult.cspec true) true (.buf v) (.result (.buf (str ++ NUL :: post))) ∧
    runArg Kind.stringResult.fspec (Kind.stringResult.cspec false) true (.buf v) (.result (.str s))
      = runArg Kind.stringResult.fspec (Kind.stringResult.cspec true) true (.buf v) (.result (.str s)) ∧
    runArg Kind.charScalarResult.fspec (Kind.charScalarResult.cspec false) true (.buf v) (.result (.int c))
      = runArg Kind.charScalarResult.fspec (Kind.charScalarResult.cspec true) true (.buf v) (.result (.int c)) := by
  refine ⟨?_, ?_, ?_, ?_, ?_, ?_, ?_, ?_⟩
  · rw [string_in_buf, string_in_cfi]
  · rw [string_out_buf v s hs, string_out_cfi v s hs]
  · rw [string_inout_buf t f hf, string_inout_cfi t f hf]
  · rw [char_out_buf str post h0 v hv hfit, char_out_cfi str post h0 v hv hfit]
  · rw [char_inout_buf t str post h0 hfit, char_inout_cfi t str post h0 hfit]
  · rw [char_result_buf v str post h0 hfit false, char_result_buf v str post h0 hfit true]
  · rw [string_result_buf v s hs false, string_result_buf v s hs true]
  · rw [char_scalar_result_buf v c hL false, char_scalar_result_buf v c hL true]

example : ∀ c ∈ [97, 32, 98, 32], c ≠ NUL := by decide

/-- kinds that reach the library only through the bufferify function -/
def contextKinds : List Kind :=
  [.vectorIn, .vectorOut, .vectorOutAlloc, .vectorInout, .vectorInoutAlloc, .vectorResult, .vectorResultAlloc,
   .ptrPtrOut, .resultPointer, .resultAlloc, .charArrayIn]

/-- **no CFI counterpart**: for std::vector, `T **` out, context results and `char **` the table has
    no `_cfi` entry - with the suffix `cfi` (or no suffix, which is what arguments of these kinds get
    in a function cloned by arg_to_CFI) the lookup ends in a block that is not a `_cfi` block and
    declares no context / size argument (the default block; for `char **` the plain `type(C_PTR)` form).  Configuration independence cannot be stated for them; this is the
    territory of the open finding `c01:F_CFI-generation-fails:context-or-vector-argument`. -/
theorem context_kinds_have_no_cfi_entry :
    ([true, false].all fun cxx => contextKinds.all fun k => (k.cpaths false).all fun p =>
      ([p.map fun x => if x = 50 then 51 else x, p.filter (· ≠ 50)].all fun q =>
        !(lookup (rowsOf cxx) q).path.contains 51 &&
        (lookup (rowsOf cxx) q).bufArgs.all (fun b => b ≠ 6 && b ≠ 5))) = true := by
  decide +kernel

/-- pointer and allocatable results take the C function's return value as `F_pointer`
    (`call` clause `{F_pointer} = {F_C_call}({F_arg_c_call})`), in both language tables -/
theorem result_call_clause :
    ([true, false].all fun cxx =>
      (lookup (rowsOf cxx) [2, 10, 31, 43, 50, 61]).clause 3 == [(48, [7])] &&
      (lookup (rowsOf cxx) [2, 10, 31, 43, 50, 60]).clause 3 == [(48, [7])]) = true := by
  decide +kernel

/-! ## 4. assembly: `wrap_function_impl` for all parameter lists -/

/-- lookup ignores absent (0) parts: the emitter's `compute_name` / `lookup_stmts_tree` skip empty components -/
theorem lookupAux_skip_zero (keys : List (List Nat)) (ps : List Nat) :
    ∀ cur found, lookupAux keys (ps.filter (· ≠ 0)) cur found = lookupAux keys ps cur found := by
  induction ps with
  | nil => intro cur found; rfl
  | cons p ps ih =>
    intro cur found
    by_cases hp : p = 0
    · subst hp
      have := ih cur found
      simpa [lookupAux] using this
    · have hb : (p == 0) = false := by simp [hp]
      simp only [List.filter_cons, ne_eq, hp, not_false_eq_true, decide_true, if_true, lookupAux, hb,
        Bool.false_eq_true, if_false, ih]

/-- names one parameter adds to the Fortran argument list -/
def apiOf (rows : List Row) (fn : Fn) (p : Param) : List Nat :=
  if p.isFArg fn ∧ p.ftrim then [p.name]
  else if p.isFArg fn ∧ (p.assumedType ∨ p.funPtr) then [p.name]
  else if p.isFArg fn ∧ p.implied = 1 then []
  else if p.isFArg fn ∧ p.implied = 2 then []
  else if p.isFArg fn ∧ ¬ p.hidden then apiNames rows fn p else []

/-- **the parameter loop is order preserving and local**: every parameter contributes its own
    names, actuals and statement blocks, appended in declaration order, independent of the others -/
theorem paramLoop_spec (rows : List Row) (fn : Fn) : ∀ (ps : List Param) (names : List Nat) (acts : List Actual)
    (ms : List (List Nat × List Nat)),
    paramLoop rows fn ps (names, acts, ms) =
      (names ++ ps.flatMap (apiOf rows fn), acts ++ ps.flatMap (paramActuals rows fn),
       ms ++ ps.flatMap (paramMatched rows fn)) := by
  intro ps
  induction ps with
  | nil => intro names acts ms; simp [paramLoop]
  | cons p ps ih =>
    intro names acts ms
    by_cases hf : p.isFArg fn = true
    · by_cases h1 : p.ftrim = true
      · simp [paramLoop, hf, h1, ih, apiOf, paramActuals, paramMatched, List.append_assoc]
      · by_cases h2 : p.assumedType = true ∨ p.funPtr = true
        · rcases h2 with h2 | h2 <;>
            simp [paramLoop, hf, h1, h2, ih, apiOf, paramActuals, paramMatched, List.append_assoc]
        · by_cases h3 : p.implied = 1
          · simp [paramLoop, hf, h1, h2, h3, ih, apiOf, paramActuals, paramMatched, List.append_assoc]
          · by_cases h4 : p.implied = 2
            · simp [paramLoop, hf, h1, h2, h4, ih, apiOf, paramActuals, paramMatched, List.append_assoc]
            · have h2' : ¬ p.assumedType = true ∧ ¬ p.funPtr = true := by
                constructor <;> intro h <;> exact h2 (by simp [h])
              simp only [paramLoop, hf, h1, h2, h3, h4, and_false, true_and, if_false, ih, apiOf,
                List.flatMap_cons, List.append_assoc]
              by_cases h5 : p.hidden = true <;> simp [h5, List.append_assoc]
    · simp only [paramLoop, hf, false_and, if_false, ih, apiOf, List.flatMap_cons, List.append_assoc]
      simp [List.append_assoc]

/-- the whole wrapper: `this` first, then the result's leading buf_args, the parameters in
    declaration order, the result's trailing buf_extra / added names last -/
theorem assembleF_spec (rows : List Row) (fn : Fn) :
    (assembleF rows fn).fargs =
      (if fn.kind = 1 ∨ fn.kind = 4 then [0] else []) ++ fn.params.flatMap (apiOf rows fn) ++
      (if fn.fFunction ∧ (lookup rows (fPathRes fn)).argDecl then
        ((lookup rows (fPathRes fn)).clause 9).map (fun _ => resultArgName) else []) ∧
    (assembleF rows fn).actuals =
      (if fn.kind = 1 ∨ fn.kind = 4 then [.this] else []) ++
      (if fn.cFunction then (lookup rows (cPathRes fn)).bufArgs.map resultActual else []) ++
      fn.params.flatMap (paramActuals rows fn) ++
      (if fn.fFunction then (lookup rows (cPathRes fn)).bufExtra.map resultActual else []) := by
  simp only [assembleF, paramLoop_spec]
  constructor
  · split <;> simp
  · simp [List.append_assoc]

/-- **`this` first** for non-static methods (and the destructor), on both sides of the call -/
theorem this_first (rows : List Row) (fn : Fn) (h : fn.kind = 1 ∨ fn.kind = 4) :
    (assembleF rows fn).fargs.head? = some 0 ∧ (assembleF rows fn).actuals.head? = some .this := by
  obtain ⟨h1, h2⟩ := assembleF_spec rows fn
  rw [h1, h2]
  simp [h]

/-- **hidden and implied arguments are dropped from the Fortran API and supplied to C** -/
theorem hidden_implied_dropped_and_supplied (rows : List Row) (fn : Fn) (p : Param)
    (hf : p.isFArg fn = true) (hs : p.ftrim = false ∧ p.assumedType = false ∧ p.funPtr = false)
    (h : p.hidden = true ∨ p.implied = 1 ∨ p.implied = 2) :
    apiOf rows fn p = [] ∧ paramActuals rows fn p ≠ [] := by
  obtain ⟨s1, s2, s3⟩ := hs
  constructor
  · rcases h with h | h | h
    · by_cases h3 : p.implied = 1 <;> by_cases h4 : p.implied = 2 <;> simp [apiOf, hf, s1, s2, s3, h, h3, h4]
    · simp [apiOf, hf, s1, s2, s3, h]
    · simp [apiOf, hf, s1, s2, s3, h]
  · by_cases h3 : p.implied = 1
    · simp [paramActuals, hf, s1, s2, s3, h3]
    · by_cases h4 : p.implied = 2
      · simp [paramActuals, hf, s1, s2, s3, h4]
      · simp only [paramActuals, hf, s1, s2, s3, h3, h4, and_false, false_and, or_self, if_false, Bool.false_eq_true,
          and_self, true_and]
        split
        · intro hc
          rename_i hne
          have := congrArg List.length hc
          simp at this
          exact hne (by simpa using this)
        · intro hc
          have := congrArg List.length hc
          simp only [List.length_map, List.length_nil] at this
          split at this <;> simp_all

/-- **declaration order**: when the result block adds no name (every block but the capsule
    result), the Fortran argument list is exactly the visible parameters in declaration order -/
theorem api_is_visible_params_in_order (rows : List Row) (fn : Fn)
    (hq : (lookup rows (fPathRes fn)).clause 9 = []) :
    fn.params.flatMap (apiOf rows fn) = (fn.params.filter (Param.visible fn)).map (·.name) := by
  induction fn.params with
  | nil => rfl
  | cons p ps ih =>
    rw [List.flatMap_cons, ih]
    have hn : apiNames rows fn p = [p.name] := by simp [apiNames, hq]
    by_cases hf : p.isFArg fn = true
    · by_cases h1 : p.ftrim = true
      · simp [apiOf, Param.visible, hf, h1]
      · by_cases h2 : p.assumedType = true
        · simp [apiOf, Param.visible, hf, h1, h2]
        · by_cases h3 : p.funPtr = true
          · simp [apiOf, Param.visible, hf, h1, h2, h3]
          · by_cases h4 : p.implied = 1
            · simp [apiOf, Param.visible, hf, h1, h2, h3, h4]
            · by_cases h5 : p.implied = 2
              · simp [apiOf, Param.visible, hf, h1, h2, h3, h5]
              · by_cases h6 : p.hidden = true
                · simp [apiOf, Param.visible, hf, h1, h2, h3, h4, h5, h6]
                · simp [apiOf, Param.visible, hf, h1, h2, h3, h4, h5, h6, hn]
    · simp [apiOf, Param.visible, hf]

/-! ## 5. clones reach the intended entry point; generic interfaces -/

/-- a function without `_PTR_F_C_index` is called through its own C wrapper -/
theorem routeC_self (tab : List Node) (fuel i : Nat) (h : (tab[i]?).bind (·.ptrFC) = none) :
    routeC tab fuel i = i := by
  cases fuel <;> simp [routeC, h]

/-- a function with `_PTR_F_C_index = j` is routed where `j` is routed -/
theorem routeC_step (tab : List Node) (fuel i j : Nat) (h : (tab[i]?).bind (·.ptrFC) = some j) :
    routeC tab (fuel + 1) i = routeC tab fuel j := by
  simp [routeC, h]

/-- what `arg_to_buffer` / `arg_to_CFI` do to the index: append the clone (`_PTR_C_CXX_index = i`)
    and point the original at it (`_PTR_F_C_index = clone`) -/
def addBufferify (tab : List Node) (i : Nat) (n : Node) : List Node :=
  tab.set i { n with ptrFC := some tab.length } ++ [{ n with ptrFC := none, ptrCCxx := some i, wrapF := false }]

/-- **bufferify / CFI routing**: the Fortran wrapper of function `i` calls the C wrapper of the
    clone, and that C wrapper calls the library function `i` itself -/
theorem bufferify_routes (tab : List Node) (i : Nat) (n : Node) (hi : i < tab.length) (hn : n.ptrCCxx = none) :
    routeC (addBufferify tab i n) 2 i = tab.length ∧
    routeCxx (addBufferify tab i n) 2 tab.length = i := by
  have h1 : (addBufferify tab i n)[i]? = some { n with ptrFC := some tab.length } := by
    simp [addBufferify, List.getElem?_append_left, hi]
  have h2 : (addBufferify tab i n)[tab.length]? = some { n with ptrFC := none, ptrCCxx := some i, wrapF := false } := by
    simp [addBufferify]
  constructor
  · simp [routeC, h1, h2]
  · simp [routeCxx, h1, h2, hn]

example : routeC (addBufferify [⟨none, none, true, 1, 1, false, 2⟩] 0 ⟨none, none, true, 1, 1, false, 2⟩) 2 0 = 1 := by
  decide

/-- **default-argument clones** (for every parameter list): every clone is a prefix of the
    parameter list (`del new.ast.params[i:]`), so the clone's wrapper passes the caller's first
    arguments unchanged and C++ supplies the rest -/
theorem defaultClones_prefix {α : Type} (params : List α) : ∀ (inits : List Bool) (i : Nat),
    ∀ c ∈ defaultClonesAux params inits i, ∃ k, c = params.take k := by
  intro inits
  induction inits with
  | nil => intro i c hc; simp [defaultClonesAux] at hc
  | cons b r ih =>
    intro i c hc
    cases b
    · exact ih (i + 1) c (by simpa [defaultClonesAux] using hc)
    · simp only [defaultClonesAux, List.mem_cons] at hc
      rcases hc with rfl | hc
      · exact ⟨i, rfl⟩
      · exact ih (i + 1) c hc

theorem defaultClonesAux_true {α : Type} (params : List α) : ∀ (d i : Nat),
    defaultClonesAux params (List.replicate d true) i = (List.range d).map (fun k => params.take (i + k)) := by
  intro d
  induction d with
  | zero => intro i; simp [defaultClonesAux]
  | succ d ih =>
    intro i
    rw [List.replicate_succ, defaultClonesAux, ih, List.range_succ_eq_map]
    simp only [List.map_cons, Nat.add_zero, List.map_map, List.cons.injEq, true_and]
    apply List.map_congr_left
    intro k _
    simp [Nat.add_assoc, Nat.add_comm 1 k]

theorem defaultClonesAux_false {α : Type} (params : List α) (rest : List Bool) : ∀ (m i : Nat),
    defaultClonesAux params (List.replicate m false ++ rest) i = defaultClonesAux params rest (i + m) := by
  intro m
  induction m with
  | zero => intro i; simp
  | succ m ih =>
    intro i
    rw [List.replicate_succ, List.cons_append, defaultClonesAux, ih]
    congr 1
    omega

/-- with trailing defaults (the C++ rule) - `m` required parameters then `d` defaulted ones - the
    clones have exactly the arities `m, m+1, .., m+d-1`, each taking the first parameters; together
    with the original (`m+d` parameters) every call arity is wrapped exactly once -/
theorem default_arity_clones {α : Type} (params : List α) (m d : Nat) (h : params.length = m + d) :
    defaultClones params (List.replicate m false ++ List.replicate d true)
      = (List.range d).map (fun k => params.take (m + k)) ∧
    ∀ k, k < d → ((defaultClones params (List.replicate m false ++ List.replicate d true)).getD k []).length = m + k := by
  have hs : defaultClones params (List.replicate m false ++ List.replicate d true)
      = (List.range d).map (fun k => params.take (m + k)) := by
    rw [defaultClones, defaultClonesAux_false, defaultClonesAux_true, Nat.zero_add]
  refine ⟨hs, ?_⟩
  intro k hk
  rw [hs]
  simp [List.getD_eq_getElem?_getD, hk, List.length_take]
  omega

example : defaultClones [10, 20, 30] [false, true, true] = [[10], [10, 20]] := by decide

/-! ### generic interfaces -/

def membersOf (gs : List (Nat × Bool × List Nat)) (name : Nat) : List Nat :=
  match gs.find? (fun g => g.1 == name) with
  | some g => g.2.2
  | none => []

theorem membersOf_addGeneric (gs : List (Nat × Bool × List Nat)) (name : Nat) (force : Bool) (i : Nat) (q : Nat) :
    membersOf (addGeneric gs name force i) q = if name = q then membersOf gs q ++ [i] else membersOf gs q := by
  induction gs with
  | nil =>
    by_cases h : name = q <;> simp [addGeneric, membersOf, List.find?, h]
  | cons g r ih =>
    obtain ⟨n, f, l⟩ := g
    by_cases hn : n = name
    · subst hn
      by_cases h : n = q
      · simp [addGeneric, membersOf, List.find?, h]
      · have hb : (n == q) = false := by simp [h]
        simp [addGeneric, membersOf, List.find?, h, hb]
    · have hb : (n == name) = false := by simp [hn]
      by_cases hq : n = q
      · subst hq
        have hne : ¬ name = n := fun e => hn e.symm
        simp [addGeneric, hb, membersOf, List.find?, hne]
      · have hb2 : (n == q) = false := by simp [hq]
        simp only [addGeneric, hb, Bool.false_eq_true, if_false, membersOf, List.find?, hb2]
        simpa [membersOf] using ih

/-- **generic membership**: after the pass over the Fortran-wrapped functions, the group of a
    generic name holds exactly the wrapped functions carrying that name, in emission order -
    every overload, default-arity clone, template instantiation, fortran_generic and assumed-rank
    variant that is wrapped for Fortran with that `F_name_generic`, and nothing else -/
theorem generic_members (l : List (Nat × Node)) (q : Nat) : ∀ gs,
    membersOf (collectGenerics l gs) q =
      membersOf gs q ++ (l.filter (fun x => x.2.wrapF && x.2.genericKind != 0 && x.2.generic == q)).map (·.1) := by
  induction l with
  | nil => intro gs; simp [collectGenerics]
  | cons x r ih =>
    intro gs
    obtain ⟨i, n⟩ := x
    by_cases hw : n.wrapF = true ∧ n.genericKind ≠ 0
    · have hc : collectGenerics ((i, n) :: r) gs
          = collectGenerics r (addGeneric gs n.generic (n.force || n.genericKind == 3) i) := by
        simp [collectGenerics, hw]
      rw [hc, ih, membersOf_addGeneric]
      by_cases hq : n.generic = q
      · simp [hq, hw.1, hw.2, List.filter_cons, List.append_assoc]
      · simp [hq, hw.1, hw.2, List.filter_cons]
    · have hc : collectGenerics ((i, n) :: r) gs = collectGenerics r gs := by
        simp [collectGenerics, hw]
      rw [hc, ih]
      have : (n.wrapF && n.genericKind != 0 && n.generic == q) = false := by
        by_cases h1 : n.wrapF = true
        · have h0 : n.genericKind = 0 := by
            by_cases h : n.genericKind = 0
            · exact h
            · exact absurd ⟨h1, h⟩ hw
          simp [h0]
        · simp [h1]
      simp [List.filter_cons, this]

/-- an interface is written exactly for the forced groups (fortran_generic, constructors) and the
    groups with at least two specifics; its specifics are the whole group, in order -/
theorem emitted_generic_iff (gs : List (Nat × Bool × List Nat)) (name : Nat) (mem : List Nat) :
    (name, mem) ∈ emittedGenerics gs ↔ ∃ f, (name, f, mem) ∈ gs ∧ (f = true ∨ mem.length > 1) := by
  simp only [emittedGenerics, List.mem_map, List.mem_filter, Bool.or_eq_true, decide_eq_true_eq]
  constructor
  · rintro ⟨⟨n, f, l⟩, ⟨hm, hc⟩, he⟩
    simp only [Prod.mk.injEq] at he
    obtain ⟨rfl, rfl⟩ := he
    exact ⟨f, hm, hc⟩
  · rintro ⟨f, hm, hc⟩
    exact ⟨(name, f, mem), ⟨hm, hc⟩, rfl⟩

example : emittedGenerics (collectGenerics
    [(0, ⟨none, none, true, 7, 1, false, 1⟩), (1, ⟨none, none, true, 7, 1, false, 2⟩), (2, ⟨none, none, true, 8, 1, false, 0⟩)] [])
    = [(7, [0, 1])] := by decide

/-! ### fortran_generic routing is local to the function -/

theorem genericLoop_targets (orders : List (List Nat)) : ∀ (tab : List (List Nat × Nat)) (next : Nat),
    ∀ t ∈ genericLoop orders tab next, (∃ e ∈ tab, e.2 = t) ∨ (next < t ∧ t < next + 2 * orders.length) := by
  induction orders with
  | nil => intro tab next t ht; simp [genericLoop] at ht
  | cons o os ih =>
    intro tab next t ht
    have hget : ∀ (tb : List (List Nat × Nat)) v, genericLoop.assocGetL tb o = some v → ∃ e ∈ tb, e.2 = v := by
      intro tb
      induction tb with
      | nil => intro v h; simp [genericLoop.assocGetL] at h
      | cons e r ihr =>
        intro v h
        obtain ⟨k, w⟩ := e
        by_cases hk : (k == o) = true
        · simp [genericLoop.assocGetL, hk] at h; exact ⟨(k, w), by simp, h⟩
        · simp only [genericLoop.assocGetL, hk, Bool.false_eq_true, if_false] at h
          obtain ⟨e', he', hv⟩ := ihr v h
          exact ⟨e', List.mem_cons_of_mem _ he', hv⟩
    simp only [genericLoop] at ht
    cases hl : genericLoop.assocGetL tab o with
    | some v =>
      simp only [hl, List.mem_cons] at ht
      rcases ht with rfl | ht
      · exact Or.inl (hget tab _ hl)
      · rcases ih tab (next + 1) t ht with h | h
        · exact Or.inl h
        · refine Or.inr ⟨by omega, ?_⟩
          simp only [List.length_cons]; omega
    | none =>
      simp only [hl, List.mem_cons] at ht
      rcases ht with rfl | ht
      · refine Or.inr ⟨by omega, ?_⟩
        simp only [List.length_cons]; omega
      · rcases ih ((o, next + 1) :: tab) (next + 2) t ht with ⟨e, he, hv⟩ | h
        · rcases List.mem_cons.mp he with rfl | he
          · refine Or.inr ⟨by simp at hv; omega, ?_⟩
            simp only [List.length_cons]; simp at hv; omega
          · exact Or.inl ⟨e, he, hv⟩
        · refine Or.inr ⟨by omega, ?_⟩
          simp only [List.length_cons]; omega

/-- **every fortran_generic / assumed-rank clone is routed to its own function or to a C clone
    created for that same function** (an index allocated while that function is processed), whatever
    other functions the scope holds: `genericTargets` takes nothing of them as input, and its
    results lie in `{self} ∪ (next, next + 2 * #generics)` -/
theorem generic_routing_local (self next : Nat) (cparams : List (Bool × Nat)) (generics : List (List (Bool × Nat))) :
    ∀ t ∈ genericTargets self next cparams generics, t = self ∨ (next < t ∧ t < next + 2 * generics.length) := by
  intro t ht
  rcases genericLoop_targets _ _ _ t ht with ⟨e, he, hv⟩ | h
  · simp at he; subst he; exact Or.inl hv.symm
  · simpa using Or.inr h

/-- two functions `f(const int *values, int n)` with a scalar and a rank(1) variant each: the second
    function's array variant gets its OWN C clone (index 8), not the first function's (index 4) -/
example : genericTargets 0 2 [(true, 0), (true, 0)] [[(true, 0), (true, 0)], [(true, 1), (true, 0)]] = [0, 4] ∧
    genericTargets 1 6 [(true, 0), (true, 0)] [[(true, 0), (true, 0)], [(true, 1), (true, 0)]] = [1, 8] := by decide

/-! ### implied arguments, for every wrapper including fortran_generic clones -/

/-- `+implied(type(a))`: the library receives the type code of `a` as declared in the function being
    wrapped - for a fortran_generic clone the clone's own declaration - whatever the caller passes -/
theorem implied_type_is_own_declaration (actual actual' : Nat → Option Val) (sh : Nat → Nat) (a : Nat) :
    (IExpr.typ a).eval actual sh = some (.int (sh a)) ∧
    (IExpr.typ a).eval actual sh = (IExpr.typ a).eval actual' sh ∧
    (IExpr.typ a).render sh = [.shType (sh a)] := ⟨rfl, rfl, rfl⟩

/-- `size(a)`, `len(s)`, `len_trim(s)`, `true`, `false` and arithmetic over them evaluate to the
    Fortran inquiry values of the caller's own actuals -/
theorem implied_eval (actual : Nat → Option Val) (sh : Nat → Nat) (a s : Nat) (arr : List Int) (t : Buf)
    (ha : actual a = some (.arr arr)) (hs : actual s = some (.buf t)) :
    (IExpr.size a).eval actual sh = some (.int arr.length) ∧
    (IExpr.len s).eval actual sh = some (.int t.length) ∧
    (IExpr.lenTrim s).eval actual sh = some (.int (rtrim t).length) ∧
    IExpr.tru.eval actual sh = some (.bool true) ∧ IExpr.fls.eval actual sh = some (.bool false) ∧
    (IExpr.bin 1 (.bin 3 (.size a) (.const 2)) (.const 1)).eval actual sh = some (.int (arr.length * 2 + 1)) := by
  simp [IExpr.eval, ha, hs, inquiry]

example : (IExpr.bin 2 (.const 1) (.neg (.const 1))).render (fun _ => 0) = [.num 1, .op 2, .lp, .op 2, .num 1, .rp] := by
  decide

/-! ### every variant is reachable under the generic name, under its own condition only -/

theorem ifaceBlockGuard_all (cs : List Nat) (h : ifaceBlockGuard cs ≠ 0) : ∀ c ∈ cs, c = ifaceBlockGuard cs := by
  cases cs with
  | nil => simp [ifaceBlockGuard] at h
  | cons c r =>
    by_cases hc : c ≠ 0 ∧ (c :: r).all (fun x => x == c)
    · have hb : ifaceBlockGuard (c :: r) = c := by
        show (if c ≠ 0 ∧ ((c :: r).all fun x => x == c) = true then c else 0) = c
        rw [if_pos hc]
      intro x hx
      rw [hb]
      have := List.all_eq_true.mp hc.2 x hx
      simpa using this
    · have h0 : ifaceBlockGuard (c :: r) = 0 := by
        show (if c ≠ 0 ∧ ((c :: r).all fun x => x == c) = true then c else 0) = 0
        rw [if_neg hc]
      exact absurd h0 h

/-- **generic interfaces and preprocessor guards** (for every list of members): member `i` of the
    emitted `interface <generic>` block is guarded by exactly its own `cpp_if` - nothing when it has
    none - whether or not the guard was promoted to the block.  In particular an unconditional
    overload is never placed under another overload's condition. -/
theorem generic_member_own_condition (cs : List Nat) (i : Nat) (c : Nat) (hi : cs[i]? = some c) :
    memberConditions (emitInterfaceGuards cs) i = if c ≠ 0 then [c] else [] := by
  by_cases hb : ifaceBlockGuard cs = 0
  · simp [memberConditions, emitInterfaceGuards, hb, hi]
  · have hall := ifaceBlockGuard_all cs hb
    have hmem : c ∈ cs := List.mem_of_getElem? hi
    have hc : c = ifaceBlockGuard cs := hall c hmem
    have hc0 : c ≠ 0 := by rw [hc]; exact hb
    have hm : (cs.map (fun _ => (0 : Nat)))[i]? = some 0 := by simp [hi]
    simp [memberConditions, emitInterfaceGuards, hb, hm, hc0, ← hc]

example : emitInterfaceGuards [7, 0, 0] = (0, [7, 0, 0]) ∧ emitInterfaceGuards [7, 7] = (7, [0, 0]) := by decide

/-- **assumed-rank variants**: the generic gets one specific for every rank from
    `F_assumed_rank_min` to `F_assumed_rank_max` inclusive, and no other -/
theorem assumed_rank_variants (lo hi r : Nat) : r ∈ assumedRanks lo hi ↔ lo ≤ r ∧ r ≤ hi := by
  simp only [assumedRanks, List.mem_map, List.mem_range]
  constructor
  · rintro ⟨k, hk, rfl⟩; omega
  · intro h; exact ⟨r - lo, by omega, by omega⟩

example : assumedRanks 0 2 = [0, 1, 2] := by decide

/-! ### interface attributes that license optimisations; struct arguments -/

/-- **PURE only when licensed**: the bind(C) interface gets the PURE prefix only for a function that is
    declared `+pure`, or is a const member function all of whose arguments are intent(in) - never for a
    non-const function without `+pure` (a Fortran compiler may merge or drop calls to a PURE function) -/
theorem pure_only_when_licensed (d : IfaceD) (h : interfacePure d = true) :
    d.isFunction = true ∧ d.resultShadow = false ∧ d.resultCtx = false ∧
    (d.pureAttr = true ∨ (d.funcConst = true ∧ ∀ i ∈ d.intents, i = 40)) := by
  simp only [interfacePure, Bool.and_eq_true, Bool.not_eq_true', Bool.or_eq_true, List.all_eq_true, beq_iff_eq] at h
  obtain ⟨⟨⟨h1, h2⟩, h3⟩, h4⟩ := h
  exact ⟨h3, h1, h2, h4⟩

theorem not_pure_without_licence (d : IfaceD) (h1 : d.pureAttr = false) (h2 : d.funcConst = false) :
    interfacePure d = false := by
  simp [interfacePure, h1, h2]

example : interfacePure ⟨true, false, false, false, false, [40, 40]⟩ = false ∧
    interfacePure ⟨true, false, true, false, false, [40, 40]⟩ = true ∧
    interfacePure ⟨true, false, true, false, false, [40, 41]⟩ = false := by decide

/-- **C-side dereference fields**: the address-of operator is applied to the wrapper's parameter
    exactly when that parameter is the object itself (a by-value declaration without a pointer local);
    a pointer AND a reference both arrive as a pointer and are used as they are -/
theorem c_addr_iff_by_value (localVar : Nat) (ind : Bool) :
    (computeCDeref localVar ind).2.2 = true ↔ (localVar = 1 ∨ (localVar ≠ 2 ∧ ind = false)) := by
  unfold computeCDeref
  by_cases h1 : localVar = 1
  · simp [h1]
  · by_cases h2 : localVar = 2
    · simp [h2]
    · cases ind <;> simp [h1, h2]

/-- struct arguments (language c++): block `c_struct` for every indirection and intent, with a pointer local -/
theorem struct_entry :
    ([[1, 16, 30, 40], [1, 16, 31, 40], [1, 16, 32, 40], [1, 16, 31, 42], [1, 16, 32, 42], [1, 16, 31, 41], [1, 16, 32, 41, 50]].all fun p =>
      cAt true p == ⟨[], 2, false, [.structCast 6 1], []⟩ && cAt false p == ⟨[], 0, false, [], []⟩) = true := by
  decide +kernel

/-- **struct by value, by pointer and by reference** (C++ library): with `c_addr` as `compute_c_deref`
    gives it for the declaration, the library receives the caller's struct and - through a pointer or a
    reference - the caller holds what the library left in it -/
theorem struct_pass_through (fields : List Int) (lib : Val → Val) (ind : Bool) :
    runArgWith [(15, .int (if (computeCDeref 0 ind).2.2 then 1 else 0)), (16, .int (if ind then 1 else 0))]
        ⟨false, [], []⟩ ⟨[], 2, false, [.structCast 6 1], []⟩ ind (.stru fields) (.arg lib)
      = .ok ⟨some (.stru fields), if ind then lib (.stru fields) else .stru fields, 0⟩ := by
  cases ind <;> run_simp [computeCDeref, List.foldl]

/-- the seeded class of defect as a model fact: `&` applied to a pointer parameter hands the library
    the pointer's own bytes - undefined in the model, for every struct -/
theorem struct_addr_of_pointer_undefined (fields : List Int) (lib : Val → Val) :
    runArgWith [(15, .int 1), (16, .int 1)] ⟨false, [], []⟩ ⟨[], 2, false, [.structCast 6 1], []⟩ true (.stru fields) (.arg lib)
      = .oob := by
  run_simp [List.foldl]

/-! ### `void *` arguments: `type(C_PTR), value` in every const / intent spelling -/

/-- **the VALUE rule** of `check_arg_attrs`, full characterisation for declarations without `+assumedtype`
    and without an explicit `+value`: the dummy gets VALUE exactly for a non-array by-value declaration and
    for a single-pointer `void *` - whatever its const-ness and its explicit intent -/
theorem value_attr_rule (d : ValueD) (h1 : d.assumedtype = false) (h2 : d.given = none) :
    valueAttr d = .ok (some true) ↔
      ((d.isIndirect = false ∧ d.isArray = false) ∨ (d.isIndirect = true ∧ d.isVoid = true ∧ d.nptr = 1)) := by
  unfold valueAttr
  cases hi : d.isIndirect <;> cases ha : d.isArray <;> cases hv : d.isVoid <;> simp [h1, h2]

/-- an explicit `+value` / `+value(false)` is kept as written -/
theorem value_attr_given (d : ValueD) (g : Bool) (h1 : d.assumedtype = false) (h2 : d.given = some g) :
    valueAttr d = .ok (some g) := by
  simp [valueAttr, h1, h2]

/-- **every spelling of `void *`** (`void *p`, `const void *p`, `void *p +intent(in)`, `const void *p
    +intent(in)`, any other intent code): VALUE -/
theorem void_pointer_by_value (isConst : Bool) (intent : Nat) (arr : Bool) :
    valueAttr ⟨false, none, true, true, 1, arr, isConst, intent⟩ = .ok (some true) := by
  simp [valueAttr]

/-- the void entries are the default blocks, so a `void *` argument with the attribute the rule gives it
    travels like a by-value scalar: the library receives the very address (and the memory behind it) that the
    Fortran caller put into its `type(C_PTR)`; nothing is copied back -/
theorem void_pointer_pass_through (isConst : Bool) (intent : Nat) (var a : Nat) (els : List Int) (lib : Val → Val) :
    runArg Kind.voidPtr.fspec (Kind.voidPtr.cspec false) false
        (cptrAtBoundary (valueAttr ⟨false, none, true, true, 1, false, isConst, intent⟩ == .ok (some true)) var (.ref a els))
        (.arg lib)
      = .ok ⟨some (.ref a els), .ref a els, 0⟩ := by
  rw [void_pointer_by_value]
  run_simp [cptrAtBoundary]

/-- the seeded class of defect as a model fact: a `type(C_PTR)` dummy WITHOUT VALUE delivers the address of
    the caller's variable - a different address whenever the variable is not stored at the address it holds -/
theorem void_pointer_without_value_wrong (var a : Nat) (els : List Int) (lib : Val → Val) (h : var ≠ a) :
    ∃ got, runArg Kind.voidPtr.fspec (Kind.voidPtr.cspec false) false (cptrAtBoundary false var (.ref a els)) (.arg lib)
        = .ok ⟨some got, got, 0⟩ ∧ got ≠ .ref a els := by
  refine ⟨.ref var [(a : Int)], ?_, ?_⟩
  · run_simp [cptrAtBoundary]
  · intro hc
    injection hc with h1 _
    exact h h1

example : (7 : Nat) ≠ 4242 := by decide
example : valueAttr ⟨false, none, true, false, 1, false, true, 40⟩ = .ok none ∧       -- `const int *p +intent(in)`
    valueAttr ⟨false, none, true, true, 2, false, false, 0⟩ = .ok none ∧              -- `void **p`
    valueAttr ⟨false, none, false, false, 0, true, false, 0⟩ = .ok none ∧             -- `int x[10]`
    valueAttr ⟨false, none, false, false, 0, false, false, 0⟩ = .ok (some true) ∧     -- `int x`
    valueAttr ⟨true, some true, true, true, 1, false, false, 0⟩ = .oob := by decide  -- `+assumedtype+value` raises

/-! ## non-vacuity: concrete instances of the hypotheses used above -/

example : runArg Kind.charOut.fspec (Kind.charOut.cspec false) true (.buf [113, 113, 113, 113])
    (.arg fun _ => .buf ([97, 98] ++ NUL :: [7])) = .ok ⟨some (.buf [113, 113, 113, 113]), .buf [97, 98, 32, 32], 0⟩ := by
  decide +kernel
example : runArg Kind.charInout.fspec (Kind.charInout.cspec true) true (.buf [97, 32, 32])
    (.arg fun _ => .buf ([65] ++ NUL :: [0, 0])) = .ok ⟨some (.buf [97, 0, 256, 256]), .buf [65, 32, 32], 0⟩ := by
  decide +kernel
example : runArg Kind.charResult.fspec (Kind.charResult.cspec true) true (.buf [256, 256, 256])
    (.result (.buf ([104, 105] ++ NUL :: []))) = .ok ⟨none, .buf [104, 105, 32], 0⟩ := by decide +kernel
example : runArg Kind.stringResult.fspec (Kind.stringResult.cspec false) true (.buf [256, 256])
    (.result (.str [120, 121, 122])) = .ok ⟨none, .buf [120, 121], 0⟩ := by decide +kernel
example : runArg Kind.charScalarResult.fspec (Kind.charScalarResult.cspec false) true (.buf [256, 256])
    (.result (.int 65)) = .ok ⟨none, .buf [65, 32], 0⟩ := by decide +kernel
example : Kind.charIn ∈ allKinds ∧ [1, 12, 31, 40, 51] ∈ Kind.charIn.cpaths true ∧ [2, 12, 31, 40, 51] ∈ Kind.charIn.fpaths := by
  decide
/-- a method `int meth(int a, int n +implied(..), int *h +hidden+intent(out))`: API `(obj, a)`, C gets all four -/
example :
    let p (n : Nat) (ptr intent : Nat) (hid : Bool) (imp : Nat) : Param :=
      ⟨n, ⟨10, ptr, intent, 0, 0, false, 0, 1⟩, ⟨10, ptr, intent, 0, 0, false, 0, 1⟩, false, hid, false, false, false, imp, false⟩
    let fn : Fn := ⟨1, true, true, 0, 0, false, 10, 30, 0, 0, [p 1 30 40 false 0, p 2 30 40 false 1, p 3 31 41 true 0]⟩
    (assembleF (rowsOf true) fn).fargs = [0, 1] ∧
    (assembleF (rowsOf true) fn).actuals = [.this, .var 1, .implied 2, .var 3] := by
  decide +kernel
example : (lookup (rowsOf true) (fPathRes ⟨0, true, true, 0, 0, false, 10, 30, 0, 0, []⟩)).clause 9 = [] := by decide +kernel
example : ([1, 2, 3] : List Nat).length = 1 + 2 := rfl

end Shroud.WrapF
