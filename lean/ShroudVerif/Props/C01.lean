import ShroudVerif.Model.WrapF
import ShroudVerif.Props.C10
/-!
# C01  Fortran wrapper calls are equivalent to calling the library directly
-/
namespace Shroud.WrapF
open Shroud.Str

/-! ## 0. the documented shapes -/

/-- argument / result kinds with a fully modelled op sequence -/
inductive Kind where
  | boolIn | boolOut | boolInout
  | charIn | charOut | charInout
  | stringIn | stringOut | stringInout
  | charResult | stringResult | charScalarResult
  | native
  deriving Repr, DecidableEq

/-- documented Fortran-side block -/
def Kind.fspec : Kind → FSpec
  | .boolIn => ⟨true, [.coerceIn 1 0], []⟩
  | .boolOut => ⟨true, [], [.coerceOut 0 1]⟩
  | .boolInout => ⟨true, [.coerceIn 1 0], [.coerceOut 0 1]⟩
  | _ => ⟨false, [], []⟩

/-- documented C-side block for the bufferify (`cfi = false`) and the CFI (`cfi = true`) function -/
def Kind.cspec : Kind → Bool → CSpec
  | .charIn, false => ⟨[1, 4], 2, false, [.strAlloc 6 1 3 3], [.strFree 6]⟩
  | .charIn, true => ⟨[2], 2, true, [.cfiBase 1 10, .strAlloc 6 1 9 99], [.strFree 6]⟩
  | .charOut, false => ⟨[1, 3], 0, false, [], [.blankFill 1 2]⟩
  | .charOut, true => ⟨[2], 2, true, [.cfiBase 6 10], [.blankFill 6 9]⟩
  | .charInout, false => ⟨[1, 4, 3], 2, false, [.strAlloc 6 1 2 3], [.strCopyC 1 2 6, .strFree 6]⟩
  | .charInout, true => ⟨[2], 2, true, [.cfiBase 1 10, .strAlloc 6 1 9 99], [.strCopyC 1 9 6, .strFree 6]⟩
  | .stringIn, false => ⟨[1, 4], 1, false, [.mkStringLen 6 1 3], []⟩
  | .stringIn, true => ⟨[2], 1, true, [.cfiBase 1 10, .lenTrimTo 3 1 9, .mkStringLen 6 1 3], []⟩
  | .stringOut, false => ⟨[1, 3], 1, false, [.mkStringEmpty 6], [.strCopyStd 1 2 6 6]⟩
  | .stringOut, true => ⟨[2], 1, true, [.mkStringEmpty 6, .cfiBase 1 10], [.strCopyStd 1 9 6 6]⟩
  | .stringInout, false => ⟨[1, 4, 3], 1, false, [.mkStringLen 6 1 3], [.strCopyStd 1 2 6 6]⟩
  | .stringInout, true => ⟨[2], 1, true, [.cfiBase 1 10, .lenTrimTo 3 1 9, .mkStringLen 6 1 3], [.strCopyStd 1 9 6 6]⟩
  | .charResult, false => ⟨[1, 3], 0, false, [], [.strCopyC 1 2 6]⟩
  | .charResult, true => ⟨[2], 0, true, [], [.cfiBase 1 10, .strCopyC 1 9 6]⟩
  | .stringResult, false => ⟨[1, 3], 0, false, [],
      [.ifEmpty 6, .strCopyNull 1 2, .else_, .strCopyStd 1 2 6 6, .endIf]⟩
  | .stringResult, true => ⟨[2], 0, true, [],
      [.cfiBase 1 10, .ifEmpty 6, .strCopyNull 1 9, .else_, .strCopyStd 1 9 6 6, .endIf]⟩
  | .charScalarResult, false => ⟨[1, 3], 0, false, [], [.memsetBlank 1 2, .setFirst 1 6]⟩
  | .charScalarResult, true => ⟨[2], 0, true, [], [.cfiBase 1 10, .memsetBlank 1 9, .setFirst 1 6]⟩
  | _, _ => ⟨[], 0, false, [], []⟩


/-! ## 1. table theorems over the regenerated `Gen/FStmts.lean` -/

/-- the C-side block the emitter finds for a requested path, in the table of language `cxx` -/
def cAt (cxx : Bool) (path : List Nat) : CSpec := (lookup (rowsOf cxx) path).cspec (path.contains 51)
/-- the Fortran-side block -/
def fAt (cxx : Bool) (path : List Nat) : FSpec := (lookup (rowsOf cxx) path).fspec

/-- requested C paths `[c, sgroup, spointer, intent, suffix]` per kind: every indirection the
    declaration grammar admits for it (`*`, `&`; `scalar` too for std::string results) -/
def Kind.cpaths : Kind → Bool → List (List Nat)
  | .charIn, cfi => [[1, 12, 31, 40, if cfi then 51 else 50]]
  | .charOut, cfi => [[1, 12, 31, 41, if cfi then 51 else 50]]
  | .charInout, cfi => [[1, 12, 31, 42, if cfi then 51 else 50]]
  | .stringIn, cfi => [[1, 13, 31, 40, if cfi then 51 else 50], [1, 13, 32, 40, if cfi then 51 else 50]]
  | .stringOut, cfi => [[1, 13, 31, 41, if cfi then 51 else 50], [1, 13, 32, 41, if cfi then 51 else 50]]
  | .stringInout, cfi => [[1, 13, 31, 42, if cfi then 51 else 50], [1, 13, 32, 42, if cfi then 51 else 50]]
  | .charResult, cfi => [[1, 12, 31, 43, if cfi then 51 else 50, 73]]
  | .stringResult, cfi => [[1, 13, 30, 43, if cfi then 51 else 50, 73], [1, 13, 31, 43, if cfi then 51 else 50, 73],
                            [1, 13, 32, 43, if cfi then 51 else 50, 73]]
  | .charScalarResult, cfi => [[1, 12, 30, 43, if cfi then 51 else 50]]
  -- bool and native arguments keep the default block whatever the suffix
  | .boolIn, _ => [[1, 11, 30, 40], [1, 11, 30, 40, 50]]
  | .boolOut, _ => [[1, 11, 31, 41], [1, 11, 31, 41, 50], [1, 11, 32, 41], [1, 11, 32, 41, 50]]
  | .boolInout, _ => [[1, 11, 31, 42], [1, 11, 31, 42, 50], [1, 11, 32, 42], [1, 11, 32, 42, 50]]
  | .native, _ => [[1, 10, 30, 40], [1, 10, 30, 40, 50], [1, 10, 31, 40], [1, 10, 31, 41], [1, 10, 31, 42],
                   [1, 10, 31, 40, 50], [1, 10, 31, 41, 50], [1, 10, 31, 42, 50],
                   [1, 10, 32, 40], [1, 10, 32, 41], [1, 10, 32, 42], [1, 10, 32, 40, 50], [1, 10, 32, 41, 50], [1, 10, 32, 42, 50]]

/-- requested Fortran paths `[f, sgroup, spointer, intent, suffix, deref]` per kind -/
def Kind.fpaths : Kind → List (List Nat)
  | .boolIn => [[2, 11, 30, 40], [2, 11, 30, 40, 50]]
  | .boolOut => [[2, 11, 31, 41], [2, 11, 32, 41], [2, 11, 31, 41, 50], [2, 11, 32, 41, 50]]
  | .boolInout => [[2, 11, 31, 42], [2, 11, 32, 42], [2, 11, 31, 42, 50], [2, 11, 32, 42, 50]]
  | .charIn => [[2, 12, 31, 40, 50], [2, 12, 31, 40, 51]]
  | .charOut => [[2, 12, 31, 41, 50], [2, 12, 31, 41, 51]]
  | .charInout => [[2, 12, 31, 42, 50], [2, 12, 31, 42, 51]]
  | .stringIn => [[2, 13, 31, 40, 50], [2, 13, 32, 40, 50], [2, 13, 31, 40, 51], [2, 13, 32, 40, 51]]
  | .stringOut => [[2, 13, 31, 41, 50], [2, 13, 32, 41, 50], [2, 13, 31, 41, 51], [2, 13, 32, 41, 51]]
  | .stringInout => [[2, 13, 31, 42, 50], [2, 13, 32, 42, 50], [2, 13, 31, 42, 51], [2, 13, 32, 42, 51]]
  | .charResult => [[2, 12, 31, 43, 50, 73], [2, 12, 31, 43, 51, 73]]
  | .stringResult => [[2, 13, 30, 43, 50, 73], [2, 13, 31, 43, 50, 73], [2, 13, 32, 43, 50, 73],
                      [2, 13, 30, 43, 51, 73], [2, 13, 31, 43, 51, 73], [2, 13, 32, 43, 51, 73]]
  | .charScalarResult => [[2, 12, 30, 43, 50], [2, 12, 30, 43, 51]]
  | .native => [[2, 10, 30, 40], [2, 10, 31, 40], [2, 10, 31, 41], [2, 10, 31, 42], [2, 10, 32, 40], [2, 10, 32, 41],
                [2, 10, 32, 42], [2, 10, 30, 40, 50], [2, 10, 31, 40, 50], [2, 10, 31, 41, 50], [2, 10, 31, 42, 50]]

def allKinds : List Kind :=
  [.boolIn, .boolOut, .boolInout, .charIn, .charOut, .charInout, .stringIn, .stringOut, .stringInout,
   .charResult, .stringResult, .charScalarResult, .native]

/-- one kind is an instance of its documented shape in the table of language `cxx` -/
def kindOK (cxx : Bool) (k : Kind) : Bool :=
  (k.fpaths.all fun p => fAt cxx p == k.fspec) &&
  ([false, true].all fun cfi => (k.cpaths cfi).all fun p => cAt cxx p == k.cspec cfi)

/-- **(4) table theorem.**  In the table regenerated from the working tree, for language c++ and for
    language c, every entry that the emitter reaches for a key of a modelled kind (both the
    bufferify and the CFI suffix, every admitted indirection) is exactly the documented shape:
    same ops in the same order with the same variables in every parameter position
    (`c_var_trim` vs `c_var_len`, `cxx_var` vs `c_var`), same buf_args in the same order, same
    local-variable discipline. -/
theorem table_entries_are_documented_shapes :
    allKinds.all (kindOK true) = true ∧ allKinds.all (kindOK false) = true := by
  constructor <;> decide +kernel

end Shroud.WrapF
