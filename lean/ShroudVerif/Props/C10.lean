import ShroudVerif.Lemmas.StrHelpers
/-!
# C10  Character data crosses the language boundary by the documented rules

Property theorems over `Model/StrHelpers.lean` (loop specifications live in
`Lemmas/StrHelpers.lean`).  All statements quantify over every length and every
buffer content.  "No access outside the given lengths" is part of each
statement: buffers are handed over with exactly the stated capacity (plus an
arbitrary `extra` tail that must come back unchanged) and the result is
`Res.ok`, which the model only returns when every load and store was inside
the capacity of its buffer.
-/
namespace Shroud.Str

/-! ## 1. ShroudLenTrim = length without trailing blanks -/

/-- For every buffer and every `nsrc` within its capacity the result `k` is the unique index with
    only blanks in `[k, nsrc)` and a non-blank at `k-1` (or `k = 0`). -/
theorem lenTrim_spec (src : Buf) (nsrc : Nat) (h : nsrc ≤ src.length) :
    ∃ k, lenTrim src nsrc = .ok k ∧ k ≤ nsrc ∧
      (∀ j, k ≤ j → j < nsrc → src[j]? = some BLANK) ∧
      (0 < k → src[k - 1]? ≠ some BLANK) := by
  unfold lenTrim
  induction nsrc with
  | zero => exact ⟨0, by simp [lenTrimAt], Nat.le_refl _, by intro j _ hj; omega, by omega⟩
  | succ n ih =>
    have hn : n < src.length := by omega
    simp only [lenTrimAt, Nat.zero_add, rd_lt hn]
    by_cases hc : src[n] = BLANK
    · obtain ⟨k, hk, hle, hall, hlast⟩ := ih (by omega)
      refine ⟨k, by simp [hc, hk], by omega, ?_, hlast⟩
      intro j hkj hj
      by_cases hjn : j = n
      · rw [hjn, List.getElem?_eq_getElem hn, hc]
      · exact hall j hkj (by omega)
    · refine ⟨n + 1, by simp [hc], Nat.le_refl _, by intro j h1 h2; omega, ?_⟩
      intro _
      simp [hn, hc]

example : lenTrim [97, 32, 98, 32, 32] 5 = .ok 3 := by decide

/-- the same, against the reference definition `rtrim` -/
theorem lenTrim_eq_rtrim (src : Buf) (nsrc : Nat) (h : nsrc ≤ src.length) :
    lenTrim src nsrc = .ok (rtrim (src.take nsrc)).length := by
  have := lenTrimAt_ok src 0 nsrc (by omega)
  simpa [lenTrim] using this

/-- it reads outside the buffer exactly when told a length beyond the capacity -/
theorem lenTrim_oob_iff (src : Buf) (nsrc : Nat) : lenTrim src nsrc = .oob ↔ src.length < nsrc := by
  constructor
  · intro h
    by_cases hle : nsrc ≤ src.length
    · rw [lenTrim_eq_rtrim src nsrc hle] at h; cases h
    · omega
  · intro h
    exact lenTrimAt_oob src 0 nsrc (by omega) (by omega)

/-! ## 2. in-direction: C sees `rtrim t` followed by NUL -/

/-- general form of ShroudStrAlloc: `k ≤ nsrc` bytes copied, NUL stored, capacity `nsrc + 1` -/
theorem strAlloc_gen (t : Buf) (nsrc k : Nat) (hk : k ≤ nsrc) (ht : k ≤ t.length) :
    strAlloc t nsrc (k : Int) = .ok (t.take k ++ NUL :: List.replicate (nsrc - k) UNINIT) := by
  have h1 : ¬ ((k : Int) = -1) := by omega
  have h2 : ¬ ((k : Int) < 0) := by omega
  simp only [strAlloc, h1, if_false, Res.ok_bind, h2, Int.toNat_natCast]
  have hrep : List.replicate (nsrc + 1 - k) UNINIT = UNINIT :: List.replicate (nsrc - k) UNINIT := by
    rw [show nsrc + 1 - k = (nsrc - k) + 1 by omega, List.replicate_succ]
  by_cases hk0 : k = 0
  · subst hk0
    simp only [Int.natCast_zero, Int.lt_irrefl, if_false, Res.ok_bind, List.take_zero, List.nil_append, Nat.sub_zero]
    have := wr_app [] UNINIT (List.replicate nsrc UNINIT) NUL
    simpa [List.replicate_succ] using this
  · have h3 : (k : Int) > 0 := by omega
    simp only [h3, if_true]
    rw [memcpy_ok _ 0 t 0 k (by simp; omega) (by omega)]
    simp only [Res.ok_bind, List.take_zero, List.nil_append, List.drop_zero, Nat.zero_add,
      List.drop_replicate, hrep]
    have := wr_app (t.take k) UNINIT (List.replicate (nsrc - k) UNINIT) NUL
    rw [List.length_take, Nat.min_eq_left ht] at this
    exact this

/-- `c_char_*_in_buf`: Fortran passes the variable `t` and `len_trim(t)` twice.  The helper reads
    only `t[0, len_trim)`, allocates exactly `len_trim + 1` bytes and C receives `rtrim t ++ [NUL]`. -/
theorem strAlloc_in_buf (t : Buf) :
    strAlloc t (rtrim t).length ((rtrim t).length : Int) = .ok (rtrim t ++ [NUL]) := by
  rw [strAlloc_gen t _ _ (Nat.le_refl _) (rtrim_length_le t), ← rtrim_prefix]
  simp

example : strAlloc [97, 32, 98, 32, 32] 3 3 = .ok [97, 32, 98, 0] := by decide

/-- `c_char_*_inout_buf` (`nsrc = len`, `ntrim = len_trim`) and the CFI form (`ntrim = -1`): the
    block has `len + 1` bytes and starts with `rtrim t ++ [NUL]`; nothing outside `t[0,len)` is read. -/
theorem strAlloc_inout (t : Buf) :
    strAlloc t t.length ((rtrim t).length : Int)
        = .ok (rtrim t ++ NUL :: List.replicate (t.length - (rtrim t).length) UNINIT) ∧
    strAlloc t t.length (-1) = strAlloc t t.length ((rtrim t).length : Int) := by
  constructor
  · rw [strAlloc_gen t _ _ (rtrim_length_le t) (rtrim_length_le t), ← rtrim_prefix]
  · have hl := lenTrim_eq_rtrim t t.length (Nat.le_refl _)
    rw [List.take_length] at hl
    have h1 : ¬ (((rtrim t).length : Int) = -1) := by omega
    simp only [strAlloc, hl, if_true, Res.map_ok, Res.ok_bind, h1, if_false]
    rfl

example : strAlloc [97, 32, 32] 3 (-1) = .ok [97, 0, 256, 256] := by decide

/-- the callers' obligation `ntrim ≤ nsrc` matters: a larger `ntrim` overruns the block -/
theorem strAlloc_overrun : strAlloc [97, 97] 1 2 = .oob := by decide

/-- what C reads through the pointer is `rtrim t` when the Fortran text holds no NUL
    (ShroudStrAlloc result, and `trim(t)//C_NULL_CHAR` built in the Fortran wrapper) -/
theorem in_cstr_no_nul (t rest : Buf) (h0 : ∀ c ∈ t, c ≠ NUL) :
    cstr (rtrim t ++ NUL :: rest) = rtrim t ∧ cstr (ftrimCharIn t) = rtrim t := by
  have hp : ∀ a ∈ rtrim t, (decide (a ≠ NUL)) = true := fun a ha => by simpa using h0 a (mem_rtrim ha)
  constructor
  · exact takeWhile_app_stop _ _ _ hp (by simp)
  · exact takeWhile_app_stop _ [] _ hp (by simp)

example : cstr (ftrimCharIn [97, 32, 98, 32]) = [97, 32, 98] := by decide

/-! ## 3. out-direction and results: truncate or blank-pad, nothing outside `[0,L)` -/

/-- the copy/fill part of ShroudStrCopy for a non-negative count `k` within the source -/
theorem strCopyTail_nat (dest extra s : Buf) (k : Nat) (hk : k ≤ s.length) :
    strCopyTail (dest ++ extra) dest.length s (k : Int)
      = .ok (fassign dest.length (s.take k) ++ extra) := by
  unfold strCopyTail
  by_cases hlt : k < dest.length
  · have h1 : ((k : Int) < (dest.length : Int)) := by omega
    have h2 : ¬ ((k : Int) < 0) := by omega
    have h3 : ((dest.length : Int) > (k : Int)) := by omega
    simp only [h1, if_true, h2, if_false, Int.toNat_natCast, h3]
    rw [memcpy_ok _ 0 s 0 k (by simp; omega) (by omega)]
    simp only [Res.ok_bind, List.take_zero, List.nil_append, List.drop_zero, Nat.zero_add]
    have hd : List.drop k (dest ++ extra) = dest.drop k ++ extra := by
      rw [List.drop_append_of_le_length (by omega)]
    have hl : (s.take k).length = k := by simp; omega
    have := memset_app (s.take k) (dest.drop k) extra BLANK
    rw [hl, List.length_drop] at this
    rw [hd, this, fassign_short _ _ (by omega), hl]
    simp
  · have hge : dest.length ≤ k := by omega
    have h1 : ¬ ((k : Int) < (dest.length : Int)) := by omega
    have h2 : ¬ ((dest.length : Int) < 0) := by omega
    have h3 : ¬ ((dest.length : Int) > (dest.length : Int)) := by omega
    simp only [h1, if_false, h2, Int.toNat_natCast, h3]
    rw [memcpy_ok _ 0 s 0 dest.length (by simp) (by omega)]
    simp only [Res.ok_bind, List.take_zero, List.nil_append, List.drop_zero, Nat.zero_add]
    rw [fassign_long _ _ (by simp; omega)]
    simp [List.take_take, Nat.min_eq_left hge]

/-- `ShroudStrCopy(dest, L, src, -1)` with a C string `str` (result of `char *` functions,
    `c_char_*_result_buf`, `c_char_*_inout_buf`): the variable becomes `str` truncated or
    blank-padded to `L`; bytes after `dest[0,L)` are untouched; only `str` and its NUL are read. -/
theorem strCopy_cstring (dest extra str post : Buf) (h0 : ∀ c ∈ str, c ≠ NUL)
    (hfit : str.length < 2147483648) :
    strCopy (dest ++ extra) dest.length (some (str ++ NUL :: post)) (-1)
      = .ok (fassign dest.length str ++ extra) := by
  have hneg : ((-1 : Int) < 0) := by decide
  simp only [strCopy, hneg, if_true, strlen_app str post h0, Res.map_ok, Res.ok_bind,
    narrow32_of_lt _ hfit]
  have := strCopyTail_nat dest extra (str ++ NUL :: post) str.length (by simp)
  simpa using this

example : strCopy [120, 120, 120] 3 (some [97, 0]) (-1) = .ok [97, 32, 32] := by decide
example : strCopy [120, 120, 7] 2 (some [97, 98, 99, 0]) (-1) = .ok [97, 98, 7] := by decide

/-- `ShroudStrCopy(dest, L, data, size)` (std::string results and arguments): same rule for the
    first `size` bytes; reads only `data[0,size)`. -/
theorem strCopy_counted (dest extra s : Buf) (n : Nat) (hn : n ≤ s.length) :
    strCopy (dest ++ extra) dest.length (some s) (n : Int)
      = .ok (fassign dest.length (s.take n) ++ extra) := by
  have hneg : ¬ ((n : Int) < 0) := by omega
  simp only [strCopy, hneg, if_false, Res.ok_bind]
  exact strCopyTail_nat dest extra s n hn

example : strCopy [120, 120, 120] 3 (some [97, 0, 98, 99]) 3 = .ok [97, 0, 98] := by decide

/-- a NULL pointer gives an all-blank variable -/
theorem strCopy_null (dest extra : Buf) (nsrc : Int) :
    strCopy (dest ++ extra) dest.length none nsrc = .ok (List.replicate dest.length BLANK ++ extra) := by
  have := memset_app [] dest extra BLANK
  simpa [strCopy] using this

/-- an empty C string gives an all-blank variable -/
theorem strCopy_empty (dest extra post : Buf) :
    strCopy (dest ++ extra) dest.length (some (NUL :: post)) (-1)
      = .ok (List.replicate dest.length BLANK ++ extra) := by
  have := strCopy_cstring dest extra [] post (by simp) (by simp)
  simpa [fassign] using this

/-- no NUL reaches the Fortran variable when the text has none -/
theorem strCopy_no_nul (L : Nat) (str : Buf) (h0 : ∀ c ∈ str, c ≠ NUL) :
    ∀ c ∈ fassign L str, c ≠ NUL := by
  intro c hc
  have := List.mem_of_mem_take hc
  rcases List.mem_append.mp this with h | h
  · exact h0 c h
  · rw [List.mem_replicate] at h; rw [h.2]; decide

example : ∀ c ∈ fassign 4 [97, 98], c ≠ NUL := strCopy_no_nul 4 [97, 98] (by decide)

/-- precondition of the `nsrc = -1` form: a source without NUL is read beyond its end -/
theorem strCopy_unterminated_oob (dest s : Buf) (ndest : Nat) (h0 : ∀ c ∈ s, c ≠ NUL) :
    strCopy dest ndest (some s) (-1) = .oob := by
  simp [strCopy, strlen_oob s h0]

example : strCopy [120] 1 (some [97, 98]) (-1) = .oob := by decide

/-! ## 4. ShroudStrBlankFill under its documented precondition -/

/-- `char *arg +intent(out)`: the callee stored `str` and a NUL inside the first `ndest` bytes.
    The variable becomes `str` blank-padded to `ndest`; bytes after it are untouched. -/
theorem strBlankFill_spec (str post : Buf) (ndest : Nat) (h0 : ∀ c ∈ str, c ≠ NUL)
    (hlt : str.length < ndest) (hcap : ndest ≤ (str ++ NUL :: post).length)
    (hfit : str.length < 2147483648) :
    strBlankFill (str ++ NUL :: post) ndest
      = .ok (fassign ndest str ++ (str ++ NUL :: post).drop ndest) := by
  have h1 : ((ndest : Int) > (str.length : Int)) := by omega
  have h2 : ¬ ((str.length : Int) < 0) := by omega
  simp only [strBlankFill, strlen_app str post h0, Res.map_ok, Res.ok_bind, narrow32_of_lt _ hfit,
    strBlankFillTail, h1, if_true, h2, if_false, Int.toNat_natCast]
  rw [memset_ok _ _ _ _ (by omega), fassign_short _ _ (by omega)]
  have : str.length + (ndest - str.length) = ndest := by omega
  simp [this]

example : strBlankFill [97, 0, 7, 7] 4 = .ok [97, 32, 32, 32] := by decide

/-- without a NUL in the buffer the helper reads beyond it, whatever `ndest` is -/
theorem strBlankFill_no_nul_oob (dest : Buf) (ndest : Nat) (h0 : ∀ c ∈ dest, c ≠ NUL) :
    strBlankFill dest ndest = .oob := by
  simp [strBlankFill, strlen_oob dest h0]

/-- so the unconditional statement "stays inside `dest[0,ndest)`" is false: the callee may have
    filled the variable completely (`ndest` characters, NUL outside). -/
theorem strBlankFill_unconditional_false :
    ¬ ∀ (dest : Buf) (ndest : Nat), dest.length = ndest → ∃ r, strBlankFill dest ndest = .ok r := by
  intro h
  obtain ⟨r, hr⟩ := h [97] 1 rfl
  have hb : strBlankFill [97] 1 = .oob := by decide
  rw [hb] at hr; cases hr

/-! ## 5. char scalar result (`c_char_scalar_result_buf`) -/

theorem charScalarResult_spec (dest extra : Buf) (c : Nat) (h : 0 < dest.length) :
    charScalarResult (dest ++ extra) dest.length c
      = .ok (c :: List.replicate (dest.length - 1) BLANK ++ extra) := by
  have hm := memset_app [] dest extra BLANK
  simp only [List.nil_append, List.length_nil] at hm
  simp only [charScalarResult, hm, Res.ok_bind]
  obtain ⟨n, hn⟩ : ∃ n, dest.length = n + 1 := ⟨dest.length - 1, by omega⟩
  rw [hn, List.replicate_succ]
  have := wr_app [] BLANK (List.replicate n BLANK ++ extra) c
  simpa using this

example : charScalarResult [120, 120, 120] 3 97 = .ok [97, 32, 32] := by decide

/-- a zero-length variable is written out of bounds (`c_var[0] = rv` is unconditional) -/
theorem charScalarResult_len0_oob (c : Nat) : charScalarResult [] 0 c = .oob := by
  simp [charScalarResult, memset, wr]

/-! ## 6. `char **`: element `i` is the trimmed slice `i` plus NUL -/

private theorem strArrayAllocAux_spec (pre post : Buf) (len : Nat) (slices : List Buf)
    (h : ∀ s ∈ slices, s.length = len) :
    strArrayAllocAux (pre ++ (slices.flatten ++ post)) len pre.length slices.length
      = .ok (slices.map (fun s => rtrim s ++ [NUL])) := by
  induction slices generalizing pre with
  | nil => simp [strArrayAllocAux]
  | cons s ss ih =>
    have hs : s.length = len := h s (by simp)
    have hlt := lenTrimAt_app pre s (ss.flatten ++ post)
    rw [hs] at hlt
    simp only [List.flatten_cons, List.append_assoc] at hlt ⊢
    simp only [strArrayAllocAux, List.length_cons, hlt, Res.ok_bind]
    -- copy the trimmed prefix of the slice
    have hsplit : s = rtrim s ++ s.drop (rtrim s).length := by
      conv => lhs; rw [← List.take_append_drop (rtrim s).length s, ← rtrim_prefix]
    have hcp := memcpy_app [] (List.replicate (rtrim s).length UNINIT) [UNINIT] pre (rtrim s)
      (s.drop (rtrim s).length ++ (ss.flatten ++ post)) (by simp)
    simp only [List.nil_append, List.length_nil] at hcp
    rw [← List.append_assoc (rtrim s), ← hsplit] at hcp
    have hrep : List.replicate ((rtrim s).length + 1) UNINIT
        = List.replicate (rtrim s).length UNINIT ++ [UNINIT] := by
      rw [List.replicate_succ']
    rw [hrep, hcp]
    simp only [Res.ok_bind, wr_app]
    have := ih (pre ++ s) (fun x hx => h x (by simp [hx]))
    simp only [List.append_assoc, List.length_append, hs] at this
    rw [this]
    simp

/-- `CHARACTER(len) src(nsrc)` laid out contiguously: element `i` handed to C is `rtrim` of
    slice `i` followed by NUL, in a block of exactly that size; only `src[0, nsrc*len)` is read. -/
theorem strArrayAlloc_spec (slices : List Buf) (len : Nat) (post : Buf)
    (h : ∀ s ∈ slices, s.length = len) :
    strArrayAlloc (slices.flatten ++ post) slices.length len
      = .ok (slices.map (fun s => rtrim s ++ [NUL])) := by
  have := strArrayAllocAux_spec [] post len slices h
  simpa [strArrayAlloc] using this

example : strArrayAlloc [97, 32, 32, 98] 2 2 = .ok [[97, 0], [32, 98, 0]] := by decide

private theorem strArrayAllocAux_length (src : Buf) (len off n : Nat) (arr : List Buf)
    (h : strArrayAllocAux src len off n = .ok arr) : arr.length = n := by
  induction n generalizing off arr with
  | zero => simp [strArrayAllocAux] at h; simp [← h]
  | succ k ih =>
    simp only [strArrayAllocAux] at h
    cases h1 : lenTrimAt src off len with
    | oob => simp [h1] at h
    | ok nt =>
      simp only [h1, Res.ok_bind] at h
      cases h2 : memcpy (List.replicate (nt + 1) UNINIT) 0 src off nt with
      | oob => simp [h2] at h
      | ok tgt =>
        simp only [h2, Res.ok_bind] at h
        cases h3 : wr tgt nt NUL with
        | oob => simp [h3] at h
        | ok tgt' =>
          simp only [h3, Res.ok_bind] at h
          cases h4 : strArrayAllocAux src len (off + len) k with
          | oob => simp [h4] at h
          | ok rest =>
            simp only [h4, Res.ok_bind, Res.ok.injEq] at h
            rw [← h]; simp [ih _ _ h4]

/-- ShroudStrArrayFree with the same count releases every block ShroudStrArrayAlloc made -/
theorem strArrayFree_after_alloc (src : Buf) (nsrc len : Nat) (arr : List Buf)
    (h : strArrayAlloc src nsrc len = .ok arr) : strArrayFree arr nsrc = .ok [] := by
  have hl := strArrayAllocAux_length src len 0 nsrc arr h
  simp [strArrayFree, hl]

example : ∃ arr, strArrayAlloc [97, 32] 1 2 = .ok arr ∧ strArrayFree arr 1 = .ok [] :=
  ⟨[[97, 0]], by decide, by decide⟩

/-! ## 7. allocatable results have exactly the C string's length -/

/-- `char *` function result, `character(len=:), allocatable`: the value is the C string, its
    length is `strlen`. -/
theorem allocatable_char_result (str post : Buf) (h0 : ∀ c ∈ str, c ≠ NUL) :
    (charResultCtx (some (str ++ NUL :: post))).bind allocatableResult = .ok str := by
  simp only [charResultCtx, strlen_app str post h0, Res.map_ok, Res.ok_bind, allocatableResult,
    copyString, Nat.lt_irrefl, if_false]
  cases str with
  | nil => simp
  | cons x xs =>
    have := strncpy_app [] (List.replicate (x :: xs).length UNINIT) [] [] (x :: xs) (NUL :: post) (by simp) rfl h0
    simpa using this

example : (charResultCtx (some [97, 98, 0, 99])).bind allocatableResult = .ok [97, 98] := by decide

/-- a NULL result gives a zero-length value -/
theorem allocatable_char_null : (charResultCtx none).bind allocatableResult = .ok [] := by decide

/-- `std::string` result without embedded NUL: the allocatable value is the string.
    (`_partial`: restricted to strings without NUL; see `allocatable_string_embedded_nul_false`.) -/
theorem allocatable_string_result_partial (s : List Nat) (h0 : ∀ c ∈ s, c ≠ NUL) :
    allocatableResult (strToArray s) = .ok s := by
  cases s with
  | nil => decide
  | cons x xs =>
    simp only [allocatableResult, strToArray, List.isEmpty_cons, Bool.false_eq_true, if_false,
      copyString, Nat.lt_irrefl]
    have := strncpy_app [] (List.replicate (x :: xs).length UNINIT) [] [] (x :: xs) [NUL] (by simp) rfl h0
    simpa using this

example : allocatableResult (strToArray [97, 32, 98]) = .ok [97, 32, 98] := by decide

/-- for every `std::string`, with or without NUL, the allocatable value has the string's length
    and nothing outside the string or the new variable is accessed -/
theorem allocatable_string_length (s : List Nat) :
    ∃ r, allocatableResult (strToArray s) = .ok r ∧ r.length = s.length := by
  cases s with
  | nil => exact ⟨[], by decide, rfl⟩
  | cons x xs =>
    simp only [allocatableResult, strToArray, List.isEmpty_cons, Bool.false_eq_true, if_false,
      copyString, Nat.lt_irrefl]
    obtain ⟨r, hr, hl⟩ := strncpy_confined [] (List.replicate (x :: xs).length UNINIT) []
      ((x :: xs) ++ [NUL]) (by simp)
    exact ⟨r, by simpa using hr, by simpa using hl⟩

/-- the full-strength statement (value = string, for every string) is false on the current code:
    `strncpy` stops at the first NUL of a `std::string` and zero-fills the rest -/
theorem allocatable_string_embedded_nul_false :
    ¬ ∀ s : List Nat, allocatableResult (strToArray s) = .ok s := by
  intro h
  have := h [97, 0, 98]
  revert this; decide

example : allocatableResult (strToArray [97, 0, 98]) = .ok [97, 0, 0] := by decide

/-- ShroudCopyStringAndFree writes exactly the first `min elem_len c_var_len` bytes of `c_var`
    and needs no more than that many bytes of the source -/
theorem copyString_confined (cxx dm dq : Buf) (elemLen cvarLen : Nat)
    (hn : dm.length = (if elemLen < cvarLen then elemLen else cvarLen)) (hs : dm.length ≤ cxx.length) :
    ∃ r, copyString (some cxx) elemLen (dm ++ dq) cvarLen = .ok (r ++ dq) ∧ r.length = dm.length := by
  obtain ⟨r, hr, hl⟩ := strncpy_confined [] dm dq cxx (by simpa using hs)
  refine ⟨r, ?_, hl⟩
  simp only [copyString, ← hn]
  cases dm with
  | nil =>
    have : r = [] := List.eq_nil_of_length_eq_zero (by simpa using hl)
    simp [this]
  | cons y ys => simpa using hr

example : copyString (some [97, 98, 0]) 2 [120, 120, 120] 3 = .ok [97, 98, 120] := by decide

/-- it does not blank-fill: with `c_var_len > elem_len` the tail keeps its old bytes (the
    generated Fortran always passes `c_var_len = elem_len`) -/
theorem copyString_no_blank_fill : copyString (some [97, 0]) 1 [120, 120] 2 = .ok [97, 120] := by decide

/-! ## 8. `size_t` -> `int`: where the narrowing matters

The theorems above assume texts shorter than 2^31 bytes (`hfit`).  At 2^31 bytes the `int` that
receives `strlen(..)` is negative and both helpers leave their buffers. -/

/-- `int nm = strlen(dest)` wraps to -2^31: the fill starts 2 GiB before the variable -/
theorem strBlankFill_narrowing_oob (str post : Buf) (ndest : Nat) (h0 : ∀ c ∈ str, c ≠ NUL)
    (hlen : str.length = 2147483648) :
    strBlankFill (str ++ NUL :: post) ndest = .oob := by
  have hn : narrow32 str.length = -2147483648 := by rw [hlen, narrow32_two31]
  have h1 : ((ndest : Int) > -2147483648) := by omega
  simp [strBlankFill, strlen_app str post h0, hn, strBlankFillTail, h1]

/-- `nsrc = strlen(src)` wraps to -2^31: `memcpy` is asked for a negative (huge) count -/
theorem strCopy_narrowing_oob (dest : Buf) (ndest : Nat) (str post : Buf) (h0 : ∀ c ∈ str, c ≠ NUL)
    (hlen : str.length = 2147483648) :
    strCopy dest ndest (some (str ++ NUL :: post)) (-1) = .oob := by
  have hn : narrow32 str.length = -2147483648 := by rw [hlen, narrow32_two31]
  have h1 : ((-2147483648 : Int) < (ndest : Int)) := by omega
  simp [strCopy, strlen_app str post h0, hn, strCopyTail, h1]

/-- texts of every length without NUL exist (in particular of length 2^31) -/
example (n : Nat) : ∃ s : Buf, (∀ c ∈ s, c ≠ NUL) ∧ s.length = n :=
  ⟨List.replicate n 97, by intro c hc; rw [(List.mem_replicate.mp hc).2]; decide, by simp⟩

/-! ## 9. `std::vector<std::string>` arguments: `CHARACTER(len) a(size)` -/

private theorem vecStringIn_aux (pre post : Buf) (len : Nat) (slices : List Buf)
    (h : ∀ s ∈ slices, s.length = len) :
    vecStringIn (pre ++ (slices.flatten ++ post)) len pre.length slices.length = .ok (slices.map rtrim) := by
  induction slices generalizing pre with
  | nil => simp [vecStringIn]
  | cons s ss ih =>
    have hs : s.length = len := h s (by simp)
    have hlt := lenTrimAt_app pre s (ss.flatten ++ post)
    rw [hs] at hlt
    simp only [List.flatten_cons, List.append_assoc] at hlt ⊢
    simp only [vecStringIn, List.length_cons, hlt, Res.ok_bind]
    have hsplit : s = rtrim s ++ s.drop (rtrim s).length := by
      conv => lhs; rw [← List.take_append_drop (rtrim s).length s, ← rtrim_prefix]
    have hcp := memcpy_app [] (List.replicate (rtrim s).length UNINIT) [] pre (rtrim s)
      (s.drop (rtrim s).length ++ (ss.flatten ++ post)) (by simp)
    simp only [List.nil_append, List.length_nil, List.append_nil] at hcp
    rw [← List.append_assoc (rtrim s), ← hsplit] at hcp
    rw [hcp]
    have := ih (pre ++ s) (fun x hx => h x (by simp [hx]))
    simp only [List.append_assoc, List.length_append, hs] at this
    simp [this]

/-- intent(in): element `i` of the vector is `rtrim` of element `i` of the Fortran array; only
    `a(1:size)` is read -/
theorem vecStringIn_spec (slices : List Buf) (len : Nat) (post : Buf) (h : ∀ s ∈ slices, s.length = len) :
    vecStringIn (slices.flatten ++ post) len 0 slices.length = .ok (slices.map rtrim) := by
  simpa using vecStringIn_aux [] post len slices h

example : vecStringIn [97, 32, 32, 32, 98, 98] 2 0 3 = .ok [[97], [], [98, 98]] := by decide

private theorem vecStringOut_aux (pre extra : Buf) (len : Nat) (slices : List Buf) (vs : List (List Nat))
    (h : ∀ s ∈ slices, s.length = len) (h32 : ∀ v ∈ vs, v.length < 2147483648) :
    vecStringOut (pre ++ (slices.flatten ++ extra)) len pre.length slices.length vs
      = .ok (pre ++ ((mergeOut len slices vs).flatten ++ extra)) := by
  induction slices generalizing pre vs with
  | nil => cases vs <;> simp [vecStringOut, mergeOut]
  | cons s ss ih =>
    cases vs with
    | nil => simp [vecStringOut, mergeOut]
    | cons v vs =>
      have hs : s.length = len := h s (by simp)
      have hv : v.length < 2147483648 := h32 v (by simp)
      have hc := strCopy_counted s (ss.flatten ++ extra) (v ++ [NUL]) v.length (by simp)
      rw [hs] at hc
      have htk : List.take v.length (v ++ [NUL]) = v := by simp
      rw [htk] at hc
      simp only [vecStringOut, List.length_cons, List.flatten_cons, List.append_assoc, strCopyAt,
        narrow32_of_lt _ hv]
      have hle : pre.length ≤ (pre ++ (s ++ (ss.flatten ++ extra))).length := by simp
      simp only [hle, if_true, List.drop_left, List.take_left, hc, Res.map_ok, Res.ok_bind]
      have := ih (pre ++ fassign len v) vs (fun x hx => h x (by simp [hx])) (fun x hx => h32 x (by simp [hx]))
      simp only [List.append_assoc, List.length_append, fassign_length] at this
      rw [this]
      simp [mergeOut, fassign]

/-- intent(out): the first `min(size, v.size())` elements of the Fortran array become the texts
    truncated or blank-padded to `len`; nothing else is written -/
theorem vecStringOut_spec (slices : List Buf) (len : Nat) (extra : Buf) (vs : List (List Nat))
    (h : ∀ s ∈ slices, s.length = len) (h32 : ∀ v ∈ vs, v.length < 2147483648) :
    vecStringOut (slices.flatten ++ extra) len 0 slices.length vs
      = .ok ((mergeOut len slices vs).flatten ++ extra) := by
  simpa using vecStringOut_aux [] extra len slices vs h h32

example : vecStringOut [120, 120, 120, 120, 120, 120] 2 0 3 [[97], [98, 98, 98]]
    = .ok [97, 32, 98, 98, 120, 120] := by decide

end Shroud.Str
