import ShroudVerif.Lemmas.DeclRound
import ShroudVerif.Lemmas.DeclMeaning
import ShroudVerif.Lemmas.ArgMeaning
import ShroudVerif.Lemmas.RewriteRound
import ShroudVerif.Lemmas.NameLookup
import ShroudVerif.Gen.DeclTables
/-!
# C09  Declarations are understood as a C++ compiler understands them

Property theorems over the model `Model/Decl.lean` (helpers in `Lemmas/DeclRound.lean`).

Proved here, for declarations of unbounded depth: the **round trip**
`parse (tokens (gen_decl d)) = ok d` (clause 3 of the design).  It is named
`_partial` because its domain `WF` leaves out: template arguments and qualified
names (`std::string`), array dimensions other than a constant or an identifier,
`+attr=value` attributes, default values (excluded by the property itself), the
empty declarator `()`, functions with an abstract declarator and the parameter
list consisting of the single `void`.  Attribute text is kept as its token list
(the code keeps the concatenated text, so inter-token spacing is a normalisation).

Clauses (1)/(2), reference semantics (`Model/CxxMeaning.lean`: `cxxMeaning`, written from the
C++ declarator grammar, independent of the parser model; `denote`): proved here for Shroud's own
`gen_decl` rendering on the domain `WF ∧ RP` (`denote_toks`, `parse_agrees_with_cxx_partial`),
under the hypothesis `BaseAgrees env` (the typemap selected for a built-in specifier multiset has
the C++ type the standard gives that multiset; checked exhaustively for the extracted environment
by the harness through the driver op `fund`, not in Lean).  `cxxMeaning` itself is validated
against g++ on generated declarations (driver op `meaning`, `is_same` oracle).
Clause (2) for the `gen_arg_as_cxx` / `gen_arg_as_c` renderings: `denote_argToks_cxx_object_partial`
and `denote_argToks_c_object_partial`, for OBJECT declarations (no parameter list: pointer /
reference / array chains with cv at every level, nested parenthesised declarators); `_partial`
because function declarators are left to the g++/gcc oracle, and because the typemap's C++ / C
type tokens are assumed to be read by the reference semantics as the stated base type
(hypothesis `hmean`; discharged by `rfl` for concrete types of the extracted environment below).
-/
namespace Shroud.Decl

/-- **(3) round trip, partial domain.**  Re-parsing the token list of Shroud's own
    rendering (`gen_decl`) of a well-formed declaration without default values gives
    the same declaration, attributes included; in particular the recursion budget of
    `parse` suffices and nothing is left over. -/
theorem roundtrip_partial (env : Env) (hv : EnvVoid env) (d : Decl) (wf : WF env d) :
    parse env d.toks = .ok d := by
  obtain ⟨t, ts, e, h⟩ := declToks_head' env d wf
  have hr := roundtrip_all env hv d wf [] (4 * d.toks.length + 15) trivial (by omega)
  simp only [List.append_nil] at hr
  unfold parse declStatement fuelFor
  have hp : peekTyp d.toks = some t.typ := by rw [e]; rfl
  rw [hp]
  rcases h with h | h | h | h <;> simp [h, hr, have?]

/-- the same with the declaration embedded as a function parameter or followed by more
    text: exactly the rendered tokens are consumed -/
theorem roundtrip_prefix_partial (env : Env) (hv : EnvVoid env) (d : Decl) (wf : WF env d)
    (rest : Toks) (hrest : DeclFollow rest) (m : Nat) (hm : m ≥ d.toks.length + 8) :
    declaration env (m + 1) (d.toks ++ rest) = .ok (d, rest) :=
  roundtrip_all env hv d wf rest m hrest hm

/-! ### (1)/(2) agreement with the reference C++ semantics -/

open Shroud.Cxx in
/-- **Shroud's rendering of `d` means `d`'s type.**  Read by the reference C++ semantics, the
    token list of `gen_decl d` declares the name of `d` with the type `d` denotes (typemap's
    C++ type, cv at every level, pointer/reference chain, array bounds, parameter types). -/
theorem denote_toks (env : Env) (hb : BaseAgrees env) (d : Decl) (wf : WF env d) (rp : RP d) :
    ∃ T, denote env d = some T ∧ cxxMeaning env d.toks = some (declName d, T) := by
  obtain ⟨s, dr, params, fc, arr, attrs, init⟩ := d
  have hinit : init = none := by simp only [WF] at wf; exact wf.2.2.2.2.2.1
  subst hinit
  have ih : ∀ ps, params = some ps → ∀ p ∈ ps, WF env p → RP p → MT env p :=
    fun _ _ p _ hw hr => meaning_all env hb p hw hr
  obtain ⟨acc, b, ops, h1, h2, h3, h4, h5⟩ := declFacts env hb s dr params fc arr attrs []
    (4 * (Decl.mk s dr params fc arr attrs none).toks.length + 16) wf rp ih trivial (by omega)
  refine ⟨_, h3, ?_⟩
  simp only [List.append_nil] at h1 h4 h5
  unfold cxxMeaning
  simp only [h1, h2, h4, h5]
  simp [declName]

open Shroud.Cxx in
/-- the parameter form: followed by `,` or `)` the rendering is read as a parameter of that type -/
theorem denote_toks_param (env : Env) (hb : BaseAgrees env) (d : Decl) (wf : WF env d) (rp : RP d)
    (rest : Toks) (hrest : DeclFollow rest) (n : Nat) (hn : n ≥ 4 * d.toks.length + 12) :
    ∃ T, denote env d = some T ∧ cxxParam env n (d.toks ++ rest) = some (T, rest) :=
  meaning_all env hb d wf rp rest n hrest hn

open Shroud.Cxx in
/-- **(1) the parser agrees with C++** on canonical token lists (`_partial`: the lists are the
    `gen_decl` renderings of `WF ∧ RP` declarations, which cover every modelled declaration shape
    up to spelling; arbitrary accepted lists are covered by the tie and the g++ oracle). -/
theorem parse_agrees_with_cxx_partial (env : Env) (hv : EnvVoid env) (hb : BaseAgrees env) (d : Decl)
    (wf : WF env d) (rp : RP d) :
    (match parse env d.toks with
      | .ok d' => (denote env d').map (fun T => (declName d', T))
      | _ => none) = cxxMeaning env d.toks := by
  rw [roundtrip_partial env hv d wf]
  obtain ⟨T, h1, h2⟩ := denote_toks env hb d wf rp
  simp [h1, h2]

/-! ### (2) the prototype renderings `gen_arg_as_cxx` / `gen_arg_as_c` -/

open Shroud.Cxx in
theorem argToks_object (env : Env) (asC : Bool) (s : Spec) (dr : Option Declarator) (fc : Bool) (arr : List Expr)
    (attrs : List (Str × AttrVal)) (init : Option Init) (ti : TypeInfo) (ht : s.targs = [])
    (hti : env.typeInfo s.typemap = some ti) (hty : (if asC then ti.cType else ti.cxxType).isSome) :
    (Decl.mk s dr none fc arr attrs init).argToks env asC
      = some (cvToks s.const s.volatile ++ (if asC then ti.cToks else ti.cxxToks)
          ++ dtoksC asC dr ++ arraysToks arr) := by
  obtain ⟨x, hx⟩ := Option.isSome_iff_exists.mp hty
  simp [Decl.argToks, argHead, argParamsToks, ht, hti, hx]

open Shroud.Cxx in
/-- **(2) C++ prototype rendering, object declarations.**  The token list of `gen_arg_as_cxx`
    is read by the reference semantics as the name of `d` with the type `d` denotes. -/
theorem denote_argToks_cxx_object_partial (env : Env) (d : Decl) (wf : WF env d) (rp : RP d)
    (hobj : d.params = none) (ti : TypeInfo) (hti : env.typeInfo d.spec.typemap = some ti)
    (hty : ti.cxxType.isSome) (b : CxxType) (hb : denoteBase env d.spec = some b)
    (hmean : ∀ rest, SpecStop env rest → ∃ acc,
      cxxSpec env (cvToks d.spec.const d.spec.volatile ++ ti.cxxToks ++ rest) {} = (acc, rest) ∧ acc.base = some b) :
    ∃ toks T, d.argToks env false = some toks ∧ denote env d = some T ∧
      cxxMeaning env toks = some (declName d, T) := by
  obtain ⟨s, dr, params, fc, arr, attrs, init⟩ := d
  simp only [Decl.params] at hobj
  subst hobj
  simp only [Decl.spec] at hti hb hmean
  simp only [WF] at wf
  obtain ⟨hs, hd, harr, _, _, _, _⟩ := wf
  simp only [RP] at rp
  have ht : s.targs = [] := hs.1
  refine ⟨_, _, argToks_object env false s dr fc arr attrs init ti ht hti (by simpa using hty),
    denote_mk env s dr none fc arr attrs init b [] hb rfl, ?_⟩
  have := objectMeaning env (cvToks s.const s.volatile ++ ti.cxxToks) b dr arr
    (fun rest h => by simpa [List.append_assoc] using hmean rest h)
    (fun d' h => ⟨hd d' h, rp.1 d' h⟩) harr
  cases dr <;> simpa [tailToks, dtoks, dtoksC, ptoks, declName, List.append_assoc] using this

open Shroud.Cxx in
/-- **(2) C prototype rendering, object declarations.**  The token list of `gen_arg_as_c` is read
    as a C declaration of the same name whose type is the derivation of `d` with every reference
    turned into a pointer (`toC`), over the typemap's C type `cb`. -/
theorem denote_argToks_c_object_partial (env : Env) (d : Decl) (wf : WF env d) (rp : RP d)
    (hobj : d.params = none) (ti : TypeInfo) (hti : env.typeInfo d.spec.typemap = some ti)
    (hty : ti.cType.isSome) (b cb : CxxType) (hb : denoteBase env d.spec = some b) (hcb : cb.hasRef = false)
    (hmean : ∀ rest, SpecStop env rest → ∃ acc,
      cxxSpec env (cvToks d.spec.const d.spec.volatile ++ ti.cToks ++ rest) {} = (acc, rest) ∧ acc.base = some cb) :
    ∃ toks ops, d.argToks env true = some toks ∧ denote env d = some (applyOps b ops) ∧
      toC (applyOps b ops) = applyOps (toC b) (ops.map toCOp) ∧
      cMeaning env toks = some (declName d, applyOps cb (ops.map toCOp)) := by
  obtain ⟨s, dr, params, fc, arr, attrs, init⟩ := d
  simp only [Decl.params] at hobj
  subst hobj
  simp only [Decl.spec] at hti hb hmean
  simp only [WF] at wf
  obtain ⟨hs, hd, harr, _, _, _, _⟩ := wf
  simp only [RP] at rp
  have ht : s.targs = [] := hs.1
  refine ⟨_, denOps dr (arrOps arr), argToks_object env true s dr fc arr attrs init ti ht hti (by simpa using hty),
    denote_mk env s dr none fc arr attrs init b [] hb rfl, toC_applyOps _ _, ?_⟩
  have hm := objectMeaning env (cvToks s.const s.volatile ++ ti.cToks) cb (dr.map toStarD) arr
    (fun rest h => by simpa [List.append_assoc] using hmean rest h)
    (fun d' h => by
      cases dr with
      | none => cases h
      | some d0 =>
        simp only [Option.map] at h
        cases h
        exact ⟨WFD_toStar env d0 (hd d0 rfl), refsPlainD_toStar d0⟩) harr
  have hops := denOps_toStar dr arr (fun d' h => rp.1 d' h)
  have hname : (dr.map toStarD).bind declaratorName = dr.bind declaratorName := by
    cases dr with
    | none => rfl
    | some d0 => simp [name_toStar]
  have htoks : tailToks (dr.map toStarD) none false arr = dtoksC true dr ++ arraysToks arr := by
    cases dr with
    | none => simp [tailToks, dtoks, dtoksC, ptoks]
    | some d0 => simp [tailToks, dtoks, dtoksC, ptoks, toks_true]
  rw [htoks, hname] at hm
  unfold cMeaning
  simp only [arrOps] at hops
  simp only [List.append_assoc, if_true] at hm ⊢
  rw [hm]
  have hr := hasRef_applyOps _ (denOps_star_kinds dr arr) cb
  simp only [arrOps] at hr
  rw [hops]
  simp [hr, hcb, declName, arrOps]

open Shroud.Cxx in
/-- the hypothesis `hmean` holds when the typemap's type text is a list of built-in specifier
    keywords whose standard meaning is `n` -/
theorem specMeans_builtin (env : Env) (c v : Bool) (l : List Str) (n : Str)
    (hl : ∀ x ∈ l, classify x = .TYPE_SPECIFIER) (hf : fundName l = some n) :
    ∀ rest, SpecStop env rest → ∃ acc,
      cxxSpec env (cvToks c v ++ l.map nameTok ++ rest) {} = (acc, rest) ∧ acc.base = some (.base c v (.fund n)) := by
  intro rest hstop
  rw [List.append_assoc, cxxSpec_cv, cxxSpec_specifiers env _ l _ hl rfl, cxxSpec_stop env _ rest hstop]
  exact ⟨_, rfl, by simp [SpecAcc.base, hf]⟩

/-! ### the rendering entry points with keyword arguments (`genArgK`, tied through the driver op `kw`) -/

/-- without keyword arguments the `const` of the base type is printed as recorded -/
theorem argConst_default (c i : Bool) : argConst {} c i = c := by
  cases c <;> cases i <;> rfl

/-- `asgn_value=True` never touches the `const` behind a pointer or a reference
    (`const T &x`, `const T *x` keep denoting the declared type) -/
theorem asgn_value_keeps_const_behind_indirection (o : GenOpts) (c : Bool) :
    argConst { o with asgnValue := true } c true = argConst { o with asgnValue := false } c true := by
  cases c <;> simp [argConst]

/-- `asgn_value=True` makes a by-value declaration assignable -/
theorem asgn_value_drops_const_of_values (o : GenOpts) (c : Bool) :
    argConst { o with asgnValue := true } c false = false := by
  cases c <;> cases h : o.removeConst <;> simp [argConst, h]

/-- at the rendering level: for a declaration with indirection, `gen_arg_as_cxx(asgn_value=True)`
    and `gen_arg_as_c(asgn_value=True)` are the plain renderings -/
theorem genArgK_asgn_value_indirect (env : Env) (asC : Bool) (s : Spec) (d0 : Declarator) (params : Option (List Decl))
    (fc : Bool) (arr : List Expr) (attrs : List (Str × AttrVal)) (init : Option Init) (h : d0.pointers.isEmpty = false) :
    genArgK env asC { asgnValue := true } (.mk s (some d0) params fc arr attrs init)
      = genArgK env asC {} (.mk s (some d0) params fc arr attrs init) := by
  have e : ∀ c, argConst { asgnValue := true } c true = argConst {} c true := by intro c; cases c <;> rfl
  have hp : Ptr.genK asC { asgnValue := true } = Ptr.genK asC {} := by funext p; simp [Ptr.genK]
  have hg : ∀ d : Declarator, d.genK asC { asgnValue := true } = d.genK asC {} := by
    intro d
    induction d with
    | leaf ps n => simp [Declarator.genK, hp]
    | wrap ps i ih => simp [Declarator.genK, hp, ih]
  have hi : argIndirect (some d0) = true := by simp [argIndirect, h]
  simp [genArgK, argTypeK, argDeclaratorK, hi, e, hg]

open Shroud.Gen.DeclTables in
/-- left associativity of equal-precedence operators: `n - m - k` is `(n - m) - k`, `a / b * c` is `(a / b) * c` -/
example : expression 20 0 [tk .ID "n", tk .MINUS "-", tk .ID "m", tk .MINUS "-", tk .ID "k"]
    = .ok (.binary (.binary (.ident (sp "n")) (sp "-") (.ident (sp "m"))) (sp "-") (.ident (sp "k")), []) := by rfl

example : expression 20 0 [tk .ID "a", tk .SLASH "/", tk .ID "b", tk .STAR "*", tk .ID "c"]
    = .ok (.binary (.binary (.ident (sp "a")) (sp "/") (.ident (sp "b"))) (sp "*") (.ident (sp "c")), []) := by rfl

/-! ### non-vacuity: concrete well-formed declarations in the environment extracted from Shroud -/

open Shroud.Gen.DeclTables in
theorem defaultEnv_void : EnvVoid defaultEnv := ⟨sp "void", by rfl⟩

/-- `const unsigned long * const * volatile & x[3][n] +dimension(size(n))+intent(in)` -/
def exVar : Decl :=
  .mk (.mk [sp "unsigned", sp "long"] [] true false [] (sp "unsigned_long"))
    (some (.leaf [⟨.star, true, false⟩, ⟨.star, false, true⟩, ⟨.ref, false, false⟩] (some (sp "x"))))
    none false [.const (sp "3"), .ident (sp "n")]
    [(sp "dimension", .text [tk .ID "size", tk .LPAREN "(", tk .ID "n", tk .RPAREN ")"]), (sp "intent", .text [tk .ID "in"])]
    none

/-- `static size_t (*f)(const char * name +intent(in), int n) const` -/
def exFun : Decl :=
  .mk (.mk [sp "size_t"] [sp "static"] false false [] (sp "size_t"))
    (some (.wrap [] (.leaf [⟨.star, false, false⟩] (some (sp "f")))))
    (some [
      .mk (.mk [sp "char"] [] true false [] (sp "char")) (some (.leaf [⟨.star, false, false⟩] (some (sp "name"))))
        none false [] [(sp "intent", .text [tk .ID "in"])] none,
      .mk (.mk [sp "int"] [] false false [] (sp "int")) (some (.leaf [] (some (sp "n")))) none false [] [] none])
    true [] [] none

open Shroud.Gen.DeclTables in
example : WF defaultEnv exVar := by
  refine ⟨⟨rfl, by simp [Spec.storage], Or.inl ⟨by simp [Spec.specifier], ?_, by rfl⟩⟩, ?_, ?_, ?_, ?_, rfl, rfl⟩
  · intro v hv; simp [Spec.specifier] at hv; rcases hv with rfl | rfl <;> decide
  · intro d h; cases h; exact ⟨by decide, by rfl, trivial, rfl⟩
  · intro e he; simp at he; rcases he with rfl | rfl
    · trivial
    · show classify (sp "n") = .ID; decide
  · intro a ha; simp at ha; rcases ha with rfl | rfl
    · exact ⟨by decide, by decide, by decide, by simp [Bal, tk]⟩
    · exact ⟨by decide, by decide, by decide, by simp [Bal, tk]⟩
  · simp [AttrsOrdered]; decide

open Shroud.Gen.DeclTables in
example : parse defaultEnv exVar.toks = .ok exVar := by rfl

open Shroud.Gen.DeclTables in
example : parse defaultEnv exFun.toks = .ok exFun := by rfl

open Shroud.Gen.DeclTables Shroud.Cxx in
/-- `const unsigned long * const * volatile & x[3][n]`: array 3 of array n of reference to
    volatile pointer to const pointer to const unsigned long -/
example : cxxMeaning defaultEnv exVar.toks
    = some (some (sp "x"), .arr (sp "3") (.arr (sp "n") (.ref (.ptr false true (.ptr true false
        (.base true false (.fund (sp "unsigned long")))))))) := by rfl

open Shroud.Gen.DeclTables Shroud.Cxx in
example : denote defaultEnv exVar = (cxxMeaning defaultEnv exVar.toks).map (·.2) := by rfl

open Shroud.Gen.DeclTables Shroud.Cxx in
/-- `static size_t (*f)(const char * name, int n) const`: pointer to function -/
example : cxxMeaning defaultEnv exFun.toks
    = some (some (sp "f"), .ptr false false (.func (.base false false (.named (sp "size_t")))
        [.ptr false false (.base true false (.fund (sp "char"))), .base false false (.fund (sp "int"))] true)) := by rfl

open Shroud.Gen.DeclTables Shroud.Cxx in
/-- `gen_arg_as_cxx` / `gen_arg_as_c` of `exVar` (`const unsigned long * const * volatile & x[3][n]`):
    the hypotheses of the two rendering theorems hold in the extracted environment -/
example : ∃ ti, defaultEnv.typeInfo exVar.spec.typemap = some ti ∧ ti.cxxType.isSome ∧ ti.cType.isSome ∧
    ti.cxxToks = [sp "unsigned", sp "long"].map nameTok ∧ ti.cToks = [sp "unsigned", sp "long"].map nameTok ∧
    fundName [sp "unsigned", sp "long"] = some (sp "unsigned long") ∧
    denoteBase defaultEnv exVar.spec = some (.base true false (.fund (sp "unsigned long"))) := by
  refine ⟨_, rfl, rfl, rfl, rfl, rfl, by decide, rfl⟩

open Shroud.Gen.DeclTables Shroud.Cxx in
/-- the C rendering `const unsigned long * const * volatile * x[3][n]` read as C: the reference became a pointer -/
example : (exVar.argToks defaultEnv true).bind (cMeaning defaultEnv)
    = some (some (sp "x"), .arr (sp "3") (.arr (sp "n") (.ptr false false (.ptr false true (.ptr true false
        (.base true false (.fund (sp "unsigned long")))))))) := by rfl

/-! ### witnesses of the open findings (outside `WF`): Shroud's reading differs from C++ -/

open Shroud.Gen.DeclTables Shroud.Cxx in
/-- `unsigned long size_t` (former finding `meaning:name-is-a-type`, fixed by 4cf149c): a variable
    named size_t of type unsigned long for C++ and, now, for Shroud too (outside `WF`: the name is
    also a type name) -/
example :
    cxxMeaning defaultEnv [tk .TYPE_SPECIFIER "unsigned", tk .TYPE_SPECIFIER "long", tk .ID "size_t"]
      = some (some (sp "size_t"), .base false false (.fund (sp "unsigned long")))
    ∧ (match parse defaultEnv [tk .TYPE_SPECIFIER "unsigned", tk .TYPE_SPECIFIER "long", tk .ID "size_t"] with
       | .ok d => (denote defaultEnv d, declName d)
            = (some (.base false false (.fund (sp "unsigned long"))), some (sp "size_t"))
       | _ => False) := by
  constructor <;> rfl

open Shroud.Gen.DeclTables in
/-- `size_t int x` (former finding `typename-plus-specifier`, fixed by c944844) is a parse error -/
example : parse defaultEnv [tk .ID "size_t", tk .TYPE_SPECIFIER "int", tk .ID "x"]
    = .reject "type specifier 'int' cannot be combined with the type name 'size_t'" := by rfl

open Shroud.Gen.DeclTables Shroud.Cxx in
/-- `int ( )` and `int * ( int )` (former findings `meaning:abstract-function-parens`,
    `roundtrip:empty-declarator`, `roundtrip:abstract-function`, fixed by 02af1f3): function types for
    C++ and, now, for Shroud -/
example :
    cxxMeaning defaultEnv [tk .TYPE_SPECIFIER "int", tk .LPAREN "(", tk .RPAREN ")"]
      = some (none, .func (.base false false (.fund (sp "int"))) [] false)
    ∧ (match parse defaultEnv [tk .TYPE_SPECIFIER "int", tk .LPAREN "(", tk .RPAREN ")"] with
       | .ok d => denote defaultEnv d = some (.func (.base false false (.fund (sp "int"))) [] false)
       | _ => False)
    ∧ (match parse defaultEnv [tk .TYPE_SPECIFIER "int", tk .STAR "*", tk .LPAREN "(", tk .TYPE_SPECIFIER "int", tk .RPAREN ")"] with
       | .ok d => denote defaultEnv d
            = (cxxMeaning defaultEnv [tk .TYPE_SPECIFIER "int", tk .STAR "*", tk .LPAREN "(", tk .TYPE_SPECIFIER "int", tk .RPAREN ")"]).map (·.2)
       | _ => False) := by
  refine ⟨rfl, ?_, ?_⟩ <;> rfl

open Shroud.Cxx in
example : RP exVar := by
  refine ⟨?_, trivial⟩
  intro d h; cases h
  intro p hp hk
  simp at hp
  rcases hp with rfl | rfl | rfl <;> simp at hk ⊢

example : genDecl exVar = "const unsigned long * const * volatile & x[3][n] +dimension(size(n))+intent(in)".toList := by decide
example : genDecl exFun = "static size_t ( * f)(const char * name +intent(in), int n) const".toList := by decide

/-- the volatile qualifier survives the renderings (it was dropped before the fix) -/
example : genDecl (.mk (.mk [sp "int"] [] false true [] (sp "int")) (some (.leaf [] (some (sp "x")))) none false [] [] none)
    = "volatile int x".toList := by decide

/-! ### AST-rewriting operations (`Model/Rewrite.lean`)

The generate phase rewrites parsed declarations (`set_return_to_void`, `_as_arg`,
`result_as_arg`, `set_type` / `instantiate`).  After each rewrite the declaration must still be
one that its own rendering denotes: the rendering parses back to the rewritten declaration. -/

open Shroud.Gen.DeclTables in
theorem defaultEnv_voidT : EnvVoidT defaultEnv := by rfl

/-- **`set_return_to_void` leaves nothing of the old result type**, for every declaration:
    specifier and typemap `void`, no cv, no template arguments, no pointers on the declarator. -/
theorem setReturnToVoid_resets_type (d d' : Decl) (h : d.setReturnToVoid = .ok d') :
    d'.spec.specifier = [sp "void"] ∧ d'.spec.typemap = sp "void" ∧ d'.spec.targs = [] ∧
    d'.spec.const = false ∧ d'.spec.volatile = false ∧ d'.spec.storage = d.spec.storage ∧
    d'.params = d.params ∧ (∃ dr, d.declarator = some dr ∧ d'.declarator = some dr.clearPointer) := by
  obtain ⟨s, dr, params, fc, arr, attrs, init⟩ := d
  cases dr with
  | none => simp [Decl.setReturnToVoid] at h
  | some dd =>
    simp only [Decl.setReturnToVoid, Res.ok.injEq] at h
    subst h
    exact ⟨rfl, rfl, rfl, rfl, rfl, rfl, rfl, dd, rfl, rfl⟩

/-- **Round trip after `set_return_to_void`**, whatever the result type was (templated
    `std::vector<T>`, qualified names, cv, pointers: no condition on the old specifier part): the
    rendering of the rewritten declaration parses back to the rewritten declaration. -/
theorem setReturnToVoid_roundtrip (env : Env) (hv : EnvVoidT env) (d : Decl) (h : WFrest env d) :
    ∃ d', d.setReturnToVoid = .ok d' ∧ parse env d'.toks = .ok d' := by
  obtain ⟨d', h1, wf, _⟩ := setReturnToVoid_WF env hv d h
  exact ⟨d', h1, roundtrip_partial env hv.envVoid d' wf⟩

/-- **Round trip after `result_as_arg(name)`** for a well-formed function declaration and a
    fresh argument name (`_partial`: the token-level domain `WF` has no template arguments; the
    templated results are covered by `setReturnToVoid_roundtrip`, the tie `rewrite` and the
    real-parser oracle). -/
theorem resultAsArg_roundtrip_partial (env : Env) (hv : EnvVoidT env) (s : Spec) (ptrs : List Ptr) (fname : Str)
    (ps : List Decl) (fc : Bool) (arr : List Expr) (attrs : List (Str × AttrVal)) (init : Option Init) (name : Str)
    (wf : WF env (.mk s (some (.leaf ptrs (some fname))) (some ps) fc arr attrs init))
    (hid : classify name = .ID) (hunq : env.unq name = none) (hfresh : ∀ p ∈ ps, p.shallowName ≠ some name) :
    ∃ d', Decl.resultAsArg name (.mk s (some (.leaf ptrs (some fname))) (some ps) fc arr attrs init) = .ok d' ∧
      parse env d'.toks = .ok d' := by
  obtain ⟨d', h1, wf'⟩ := resultAsArg_WF env hv s ptrs fname ps fc arr attrs init name wf hid hunq hfresh
  exact ⟨d', h1, roundtrip_partial env hv.envVoid d' wf'⟩

/-- the argument made by `_as_arg` has the type of the result (template arguments included),
    the given name, at least one level of indirection and no parameter list -/
theorem asArg_keeps_type (name : Str) (d a : Decl) (h : d.asArg name = .ok a) :
    a.spec = d.spec ∧ a.params = none ∧ a.shallowName = some name ∧ a.attrs = d.attrs ∧
    (∃ ps, a.declarator = some (.leaf ps (some name)) ∧ ps ≠ []) := by
  obtain ⟨s, dr, params, fc, arr, attrs, init⟩ := d
  cases dr with
  | none => simp [Decl.asArg] at h
  | some dd =>
    cases dd with
    | wrap ps i => simp [Decl.asArg] at h
    | leaf ps n =>
      simp only [Decl.asArg, Res.ok.injEq] at h
      subst h
      refine ⟨rfl, rfl, rfl, rfl, _, rfl, ?_⟩
      cases ps <;> simp

/-- `set_type` / `instantiate` change the specifier words and the typemap only -/
theorem setType_keeps_rest (env : Env) (tm : Str) (d d' : Decl) (h : d.setType env tm = .ok d') :
    d'.declarator = d.declarator ∧ d'.params = d.params ∧ d'.spec.targs = d.spec.targs ∧
    d'.spec.const = d.spec.const ∧ d'.spec.volatile = d.spec.volatile ∧ d'.spec.storage = d.spec.storage ∧
    d'.array = d.array ∧ d'.attrs = d.attrs ∧
    (∃ ti t, env.typeInfo tm = some ti ∧ ti.cxxType = some t ∧ d'.spec.typemap = ti.name ∧ d'.spec.specifier = splitWs [] t) := by
  obtain ⟨s, dr, params, fc, arr, attrs, init⟩ := d
  simp only [Decl.setType] at h
  split at h
  · cases h
  · rename_i ti hti
    split at h
    · cases h
    · rename_i t ht
      simp only [Res.ok.injEq] at h
      subst h
      exact ⟨rfl, rfl, rfl, rfl, rfl, rfl, rfl, rfl, ti, t, hti, ht, rfl, rfl⟩

/-- `std::vector<int> getValues(int n)` after `result_as_arg("out")` is
    `void getValues(int n, std::vector<int> * out)` -/
example :
    let vecInt : Spec := .mk [sp "std::vector"] [] false false [.mk [sp "int"] [] false false [] (sp "int")] (sp "std::vector")
    let n : Decl := .mk (.mk [sp "int"] [] false false [] (sp "int")) (some (.leaf [] (some (sp "n")))) none false [] [] none
    Decl.resultAsArg (sp "out") (.mk vecInt (some (.leaf [] (some (sp "getValues")))) (some [n]) false [] [] none)
      = .ok (.mk (.mk [sp "void"] [] false false [] (sp "void")) (some (.leaf [] (some (sp "getValues"))))
          (some [n, .mk vecInt (some (.leaf [⟨.star, false, false⟩] (some (sp "out")))) none false [] [] none])
          false [] [] none) := by rfl


/-! ### Name lookup through nested scopes (`Model/NameLookup.lean`)

The declaration model takes its symbol environment as given; these theorems are about how
that environment is built from the scope the declaration is parsed in (`unqualified_lookup`
of library / namespace / class / block nodes), innermost scope first. -/

/-- **A name declared in an inner scope hides the same name further out**: whatever the
    enclosing scopes and the using-directives contain, a scope that has its own symbol table
    (library, namespace, class, template parameter list) resolves a name it declares to its
    own declaration. -/
theorem inner_hides_outer (kind : ScopeKind) (hk : kind ≠ .delegate) (syms : List (Str × Sym)) (usings : List Chain)
    (outer : Chain) (name : Str) (s : Sym) (h : assoc name syms = some s) :
    (Chain.cons kind syms usings outer).lookup name = some s := by
  cases kind with
  | delegate => exact absurd rfl hk
  | cls => simp [Chain.lookup, h]
  | nspace => simp [Chain.lookup, h]
  | library => simp [Chain.lookup, h]

/-- a class passes a name it does not declare to the enclosing scope (member types hide
    namespace members hide global names, and nothing else intervenes) -/
theorem class_falls_through (syms : List (Str × Sym)) (usings : List Chain) (outer : Chain) (name : Str)
    (h : assoc name syms = none) :
    (Chain.cons .cls syms usings outer).lookup name = outer.lookup name := by
  simp [Chain.lookup, h]

/-- a block / function scope adds nothing -/
theorem delegate_is_transparent (syms : List (Str × Sym)) (usings : List Chain) (outer : Chain) (name : Str) :
    (Chain.cons .delegate syms usings outer).lookup name = outer.lookup name := by
  simp [Chain.lookup]

/-- a namespace asks the namespaces of its using-directives (in order) before the enclosing
    scope, and only for names it does not declare itself -/
theorem namespace_using_before_outer (syms : List (Str × Sym)) (usings : List Chain) (outer : Chain) (name : Str)
    (h : assoc name syms = none) :
    (Chain.cons .nspace syms usings outer).lookup name
      = (match lookupUsing name usings with | some s => some s | none => outer.lookup name) := by
  simp only [Chain.lookup, h]
  cases lookupUsing name usings <;> rfl

/-- **The environment handed to the declaration parser is the scope chain**: `Env.unq` of the
    flattened chain is the chain lookup, for every name. -/
theorem toEnv_unq (c : Chain) (types : List TypeInfo) (canon : List (Str × Str)) (name : Str) :
    (c.toEnv types canon).unq name = c.lookup name := by
  simp only [Env.unq, Chain.toEnv, lookup_eq_visible]
  cases assoc name c.visible <;> simp

/-- hiding, as the declaration parser sees it: inside a class that declares `name`, the
    environment resolves `name` to the member whatever the enclosing scopes declare -/
theorem member_type_hides_in_env (syms : List (Str × Sym)) (usings : List Chain) (outer : Chain)
    (types : List TypeInfo) (canon : List (Str × Str)) (name : Str) (s : Sym) (h : assoc name syms = some s) :
    ((Chain.cons .cls syms usings outer).toEnv types canon).unq name = some s := by
  rw [toEnv_unq]
  exact inner_hides_outer .cls (by decide) syms usings outer name s h

/-- global `enum Color`, `namespace a { class Color; class Pen { enum Color; } }`: inside `Pen`,
    `Color` is `a::Pen::Color`; inside `a` it is `a::Color`; at library level `Color` -/
example :
    let lib := Chain.cons .library [(sp "Color", .type (sp "Color")), (sp "a", .ns [])] [] .nil
    let a := Chain.cons .nspace [(sp "Color", .type (sp "a::Color")), (sp "Pen", .type (sp "a::Pen"))] [] lib
    let pen := Chain.cons .cls [(sp "Color", .type (sp "a::Pen::Color"))] [] a
    (match pen.lookup (sp "Color") with | some (.type t) => some t | _ => none) = some (sp "a::Pen::Color") ∧
    (match a.lookup (sp "Color") with | some (.type t) => some t | _ => none) = some (sp "a::Color") ∧
    (match pen.lookup (sp "Pen") with | some (.type t) => some t | _ => none) = some (sp "a::Pen") := by
  refine ⟨by rfl, by rfl, by rfl⟩

end Shroud.Decl
