import ShroudVerif.Lemmas.DeclRound
import ShroudVerif.Gen.DeclTables
/-!
# C09  Declarations are understood as a C++ compiler understands them

Property theorems over the model `Model/Decl.lean` (helpers in `Lemmas/DeclRound.lean`).

Proved here, for declarations of unbounded depth: the **round trip**
`parse (tokens (gen_decl d)) = ok d` (clause 3 of the design).  It is named
`_partial` because its domain `WF` leaves out: template arguments and qualified
names (`std::string`), array dimensions other than a constant or an identifier,
`+attr=value` attributes, default values (excluded by the property itself), the
empty declarator `()`, functions with an abstract declarator and the parameter
list consisting of the single `void`.  Attribute text is kept as its token list
(the code keeps the concatenated text, so inter-token spacing is a normalisation).

NOT proved (no Lean statement; covered by the implementation oracle only): agreement
with an independent C++ reference semantics (`cxxMeaning`, clauses 1 and 2).  The
g++ `is_same` oracle in `tools/props/c09.py` checks those clauses on generated inputs.
-/
namespace Shroud.Decl

/-- **(3) round trip, partial domain.**  Re-parsing the token list of Shroud's own
    rendering (`gen_decl`) of a well-formed declaration without default values gives
    the same declaration, attributes included; in particular the recursion budget of
    `parse` suffices and nothing is left over. -/
theorem roundtrip_partial (env : Env) (hv : EnvVoid env) (d : Decl) (wf : WF env d) :
    parse env d.toks = .ok d := by
  obtain ⟨t, ts, e, h⟩ := declToks_head' env d wf
  have hr := roundtrip_all env hv d wf [] (4 * d.toks.length + 15) trivial (by omega)
  simp only [List.append_nil] at hr
  unfold parse declStatement fuelFor
  have hp : peekTyp d.toks = some t.typ := by rw [e]; rfl
  rw [hp]
  rcases h with h | h | h | h <;> simp [h, hr, have?]

/-- the same with the declaration embedded as a function parameter or followed by more
    text: exactly the rendered tokens are consumed -/
theorem roundtrip_prefix_partial (env : Env) (hv : EnvVoid env) (d : Decl) (wf : WF env d)
    (rest : Toks) (hrest : DeclFollow rest) (m : Nat) (hm : m ≥ d.toks.length + 8) :
    declaration env (m + 1) (d.toks ++ rest) = .ok (d, rest) :=
  roundtrip_all env hv d wf rest m hrest hm

/-! ### non-vacuity: concrete well-formed declarations in the environment extracted from Shroud -/

open Shroud.Gen.DeclTables in
theorem defaultEnv_void : EnvVoid defaultEnv := ⟨sp "void", by rfl⟩

/-- `const unsigned long * const * volatile & x[3][n] +dimension(size(n))+intent(in)` -/
def exVar : Decl :=
  .mk (.mk [sp "unsigned", sp "long"] [] true false [] (sp "unsigned_long"))
    (some (.leaf [⟨.star, true, false⟩, ⟨.star, false, true⟩, ⟨.ref, false, false⟩] (some (sp "x"))))
    none false [.const (sp "3"), .ident (sp "n")]
    [(sp "dimension", .text [tk .ID "size", tk .LPAREN "(", tk .ID "n", tk .RPAREN ")"]), (sp "intent", .text [tk .ID "in"])]
    none

/-- `static size_t (*f)(const char * name +intent(in), int n) const` -/
def exFun : Decl :=
  .mk (.mk [sp "size_t"] [sp "static"] false false [] (sp "size_t"))
    (some (.wrap [] (.leaf [⟨.star, false, false⟩] (some (sp "f")))))
    (some [
      .mk (.mk [sp "char"] [] true false [] (sp "char")) (some (.leaf [⟨.star, false, false⟩] (some (sp "name"))))
        none false [] [(sp "intent", .text [tk .ID "in"])] none,
      .mk (.mk [sp "int"] [] false false [] (sp "int")) (some (.leaf [] (some (sp "n")))) none false [] [] none])
    true [] [] none

open Shroud.Gen.DeclTables in
example : WF defaultEnv exVar := by
  refine ⟨⟨rfl, by simp [Spec.storage], Or.inl ⟨by simp [Spec.specifier], ?_, by rfl⟩⟩, ?_, ?_, ?_, ?_, rfl, rfl⟩
  · intro v hv; simp [Spec.specifier] at hv; rcases hv with rfl | rfl <;> decide
  · intro d h; cases h; exact ⟨by decide, by rfl, trivial, rfl⟩
  · intro e he; simp at he; rcases he with rfl | rfl
    · trivial
    · show classify (sp "n") = .ID; decide
  · intro a ha; simp at ha; rcases ha with rfl | rfl
    · exact ⟨by decide, by decide, by decide, by simp [Bal, tk]⟩
    · exact ⟨by decide, by decide, by decide, by simp [Bal, tk]⟩
  · simp [AttrsOrdered]; decide

open Shroud.Gen.DeclTables in
example : parse defaultEnv exVar.toks = .ok exVar := by rfl

open Shroud.Gen.DeclTables in
example : parse defaultEnv exFun.toks = .ok exFun := by rfl

example : genDecl exVar = "const unsigned long * const * volatile & x[3][n] +dimension(size(n))+intent(in)".toList := by decide
example : genDecl exFun = "static size_t ( * f)(const char * name +intent(in), int n) const".toList := by decide

/-- the volatile qualifier survives the renderings (it was dropped before the fix) -/
example : genDecl (.mk (.mk [sp "int"] [] false true [] (sp "int")) (some (.leaf [] (some (sp "x")))) none false [] [] none)
    = "volatile int x".toList := by decide

end Shroud.Decl
