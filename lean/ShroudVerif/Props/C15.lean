import ShroudVerif.Model.Flags
import ShroudVerif.Gen.Flags
/-!
# C15  Wrapper selection is honoured and the file lists match what was written

Theorems over the flags/gating model; table theorems over `Gen/Flags.lean`,
which tools/extract_flags.py regenerates from the `/repo` working tree on every run.
-/
namespace Shroud.Flags
open Shroud.Gen.Flags

@[simp] theorem flags_leaf (w : WF) : (Node.leaf w).flags = w := rfl
@[simp] theorem flags_cont (w : WF) (ks : List Node) : (Node.cont w ks).flags = w := rfl

theorem get_accumulate (w v : WF) (l : Lang) : (w.accumulate v).get l = (w.get l || v.get l) := by
  cases l <;> rfl

theorem get_accAll (l : Lang) (ks : List Node) : ∀ w : WF,
    (accAll w ks).get l = (w.get l || ks.any (fun k => k.flags.get l)) := by
  induction ks with
  | nil => intro w; simp [accAll]
  | cons k ks ih =>
    intro w
    have := ih (w.accumulate k.flags)
    simp only [accAll, List.foldl_cons] at this ⊢
    rw [this, get_accumulate]
    simp [Bool.or_assoc]

mutual
/-- **(1) promotion = OR over the subtree**, for every tree and language -/
theorem promote_is_or_of_subtree (l : Lang) : ∀ n : Node, (promote n).flags.get l = anyFlag l n
  | .leaf w => by simp [promote, anyFlag]
  | .cont w ks => by
    simp only [promote, flags_cont, anyFlag, get_accAll]
    rw [promoteList_any l ks]
theorem promoteList_any (l : Lang) : ∀ ks : List Node,
    (promoteList ks).any (fun k => k.flags.get l) = anyList l ks
  | [] => by simp [promoteList, anyList]
  | k :: ks => by
    simp only [promoteList, List.any_cons, anyList]
    rw [promote_is_or_of_subtree l k, promoteList_any l ks]
end

mutual
theorem anyFlag_promote (l : Lang) : ∀ n : Node, anyFlag l (promote n) = anyFlag l n
  | .leaf w => by simp [promote]
  | .cont w ks => by
    simp only [promote, anyFlag, get_accAll]
    rw [promoteList_any l ks, anyList_promote l ks]
    cases w.get l <;> cases anyList l ks <;> rfl
theorem anyList_promote (l : Lang) : ∀ ks : List Node, anyList l (promoteList ks) = anyList l ks
  | [] => by simp [promoteList]
  | k :: ks => by
    simp only [promoteList, anyList]
    rw [anyFlag_promote l k, anyList_promote l ks]
end

/-- promoting twice changes no flag (`promote_wrap` may be re-run safely) -/
theorem promote_idempotent (l : Lang) (n : Node) :
    (promote (promote n)).flags.get l = (promote n).flags.get l := by
  rw [promote_is_or_of_subtree, promote_is_or_of_subtree, anyFlag_promote]

/-- **(2a)** a language that is off on a node and on everything below it is
    still off after promotion -/
theorem off_everywhere_stays_off (l : Lang) (n : Node) (h : anyFlag l n = false) :
    (promote n).flags.get l = false := by
  rw [promote_is_or_of_subtree]; exact h

/-- the language whose flag gates an emitter (`util` is not gated) -/
def Emitter.lang : Emitter → Option Lang
  | .wrapc => some .c
  | .wrapf => some .fortran
  | .wrapp => some .python
  | .wrapl => some .lua
  | .util => none

/-- **(2b)** an emitter whose language is off for the whole (promoted) library is not run -/
theorem emit_none_when_off (lib : WF) (e : Emitter) (l : Lang) (he : e.lang = some l)
    (h : lib.get l = false) : e ∉ driverRun lib := by
  cases e <;> simp [Emitter.lang] at he <;> subst he <;>
    simp [WF.get] at h <;> simp [driverRun, h]

/-- (2a)+(2b): off at library level and on no declaration => that emitter never runs -/
theorem off_library_writes_nothing (n : Node) (e : Emitter) (l : Lang) (he : e.lang = some l)
    (h : anyFlag l n = false) : e ∉ driverRun (promote n).flags :=
  emit_none_when_off _ e l he (off_everywhere_stays_off l n h)

/-- **(3)** the C/Fortran part of the emitter sequence is a prefix of the run,
    and depends only on the C and Fortran flags: switching Python or Lua
    changes neither which C/Fortran emitters run nor what runs before them. -/
theorem cf_independent_of_py_lua (a b : WF) (hc : a.c = b.c) (hf : a.fortran = b.fortran) :
    (driverRun a).filter Emitter.isCF = (driverRun b).filter Emitter.isCF ∧
    ∃ rest, driverRun a = (driverRun a).filter Emitter.isCF ++ rest ∧ ∀ e ∈ rest, e.isCF = false := by
  obtain ⟨af, acf, ac, al, ap⟩ := a
  obtain ⟨bf, bcf, bc, bl, bp⟩ := b
  simp only at hc hf
  subst hc hf
  refine ⟨?_, ?_⟩
  · cases af <;> cases ac <;> cases al <;> cases ap <;> cases bl <;> cases bp <;> rfl
  · refine ⟨(if ap then [.wrapp] else []) ++ (if al then [.wrapl] else []), ?_, ?_⟩
    · cases af <;> cases ac <;> cases al <;> cases ap <;> rfl
    · intro e he
      cases al <;> cases ap <;> simp at he <;> (try rcases he with rfl | rfl) <;> (try subst he) <;> rfl

/-- **default-argument clones** carry the function's own C and Fortran flags and
    are never wrapped for Python or Lua, for every number of defaults -/
theorem default_clone_inherits (node : WF) (n : Nat) :
    ∀ w ∈ defaultClones node n, w.c = node.c ∧ w.fortran = node.fortran ∧ w.lua = false ∧ w.python = false := by
  intro w hw
  simp only [defaultClones, List.mem_replicate] at hw
  obtain ⟨_, rfl⟩ := hw
  simp [defaultClone, WF.assign]

/-- so a function that is off for C and Fortran contributes no C/Fortran clone -/
theorem default_clone_off (node : WF) (n : Nat) (hc : node.c = false) (hf : node.fortran = false) :
    ∀ w ∈ defaultClones node n, w = ⟨false, false, false, false, false⟩ := by
  intro w hw
  simp only [defaultClones, List.mem_replicate] at hw
  obtain ⟨_, rfl⟩ := hw
  simp [defaultClone, WF.assign, hc, hf]

/-! ### regenerated tables -/

/-- one write site is well formed: the C emitter writes into the C/Fortran
    directory and registers the same path in `cfiles` just before; the Fortran
    emitter likewise with `ffiles`; the Python emitter writes into the Python
    directory (or `setup.py` into the top-level output directory) and never
    registers a C/Fortran file; the Lua emitter writes into the Lua directory. -/
def siteOK (r : Nat × Nat × Nat × Nat × Nat) : Bool :=
  match r with
  | (0, d, l, ad, same) => d == 0 && l == 0 && ad == 0 && same == 1
  | (1, d, l, ad, same) => d == 0 && l == 1 && ad == 0 && same == 1
  | (2, d, l, _, _) => (d == 1 || d == 3) && (l == 2 || l == 9)
  | (3, d, l, _, _) => d == 2 && l == 9
  | _ => false

/-- **(4) table theorem**: every `write_output_file` site of the four emitters
    is well formed (re-evaluated on the regenerated AST scan). -/
theorem write_sites_registered : writeSites.all siteOK = true := by decide +kernel

def sitesOf (em : Nat) : Nat := (writeSites.filter (fun r => r.1 == em)).length

/-- **table theorem**: the number of cfiles/ffiles append statements equals the
    number of write sites of the C and Fortran emitters (no file is listed
    without being written), and the Python/Lua emitters append to neither list. -/
theorem emitters_use_own_directory :
    appendCounts = [(0, sitesOf 0), (1, sitesOf 1), (2, 0), (3, 0)] := by decide +kernel

/-- **table theorem**: `main_with_args` invokes the emitters in the order and
    under the guards the model assumes (C, Fortran, C utility file, Python, Lua),
    and `has_default_args` assigns the clone flags the model assumes. -/
theorem emitter_order :
    driverSteps = modelDriverSteps ∧ defaultCloneAssign = (2, 2, 0, 0, 0) := by decide +kernel

/-! ### non-vacuity -/

example : anyFlag .lua (.cont ⟨true, false, true, false, false⟩
    [.leaf ⟨true, false, true, false, false⟩, .cont ⟨true, false, true, false, false⟩ [.leaf ⟨false, false, false, true, false⟩]]) = true := by
  decide

example : Emitter.wrapl ∉ driverRun (promote (.cont ⟨true, false, true, false, true⟩ [.leaf ⟨true, false, true, false, true⟩])).flags := by
  decide

end Shroud.Flags
