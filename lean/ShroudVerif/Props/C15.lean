import ShroudVerif.Model.Flags
import ShroudVerif.Gen.Flags
/-!
# C15  Wrapper selection is honoured and the file lists match what was written

Theorems over the flags/gating model; table theorems over `Gen/Flags.lean`,
which tools/extract_flags.py regenerates from the `/repo` working tree on every run.
-/
namespace Shroud.Flags
open Shroud.Gen.Flags

@[simp] theorem flags_leaf (w : WF) : (Node.leaf w).flags = w := rfl
@[simp] theorem flags_cont (w : WF) (ks : List Node) : (Node.cont w ks).flags = w := rfl

theorem get_accumulate (w v : WF) (l : Lang) : (w.accumulate v).get l = (w.get l || v.get l) := by
  cases l <;> rfl

theorem get_accAll (l : Lang) (ks : List Node) : ∀ w : WF,
    (accAll w ks).get l = (w.get l || ks.any (fun k => k.flags.get l)) := by
  induction ks with
  | nil => intro w; simp [accAll]
  | cons k ks ih =>
    intro w
    have := ih (w.accumulate k.flags)
    simp only [accAll, List.foldl_cons] at this ⊢
    rw [this, get_accumulate]
    simp [Bool.or_assoc]

mutual
/-- **(1) promotion = OR over the subtree**, for every tree and language -/
theorem promote_is_or_of_subtree (l : Lang) : ∀ n : Node, (promote n).flags.get l = anyFlag l n
  | .leaf w => by simp [promote, anyFlag]
  | .cont w ks => by
    simp only [promote, flags_cont, anyFlag, get_accAll]
    rw [promoteList_any l ks]
theorem promoteList_any (l : Lang) : ∀ ks : List Node,
    (promoteList ks).any (fun k => k.flags.get l) = anyList l ks
  | [] => by simp [promoteList, anyList]
  | k :: ks => by
    simp only [promoteList, List.any_cons, anyList]
    rw [promote_is_or_of_subtree l k, promoteList_any l ks]
end

mutual
theorem anyFlag_promote (l : Lang) : ∀ n : Node, anyFlag l (promote n) = anyFlag l n
  | .leaf w => by simp [promote]
  | .cont w ks => by
    simp only [promote, anyFlag, get_accAll]
    rw [promoteList_any l ks, anyList_promote l ks]
    cases w.get l <;> cases anyList l ks <;> rfl
theorem anyList_promote (l : Lang) : ∀ ks : List Node, anyList l (promoteList ks) = anyList l ks
  | [] => by simp [promoteList]
  | k :: ks => by
    simp only [promoteList, anyList]
    rw [anyFlag_promote l k, anyList_promote l ks]
end

/-- promoting twice changes no flag (`promote_wrap` may be re-run safely) -/
theorem promote_idempotent (l : Lang) (n : Node) :
    (promote (promote n)).flags.get l = (promote n).flags.get l := by
  rw [promote_is_or_of_subtree, promote_is_or_of_subtree, anyFlag_promote]

/-- **(2a)** a language that is off on a node and on everything below it is
    still off after promotion -/
theorem off_everywhere_stays_off (l : Lang) (n : Node) (h : anyFlag l n = false) :
    (promote n).flags.get l = false := by
  rw [promote_is_or_of_subtree]; exact h

/-- the language whose flag gates an emitter (`util` is not gated) -/
def Emitter.lang : Emitter → Option Lang
  | .wrapc => some .c
  | .wrapf => some .fortran
  | .wrapp => some .python
  | .wrapl => some .lua
  | .util => none

/-- **(2b)** an emitter whose language is off for the whole (promoted) library is not run -/
theorem emit_none_when_off (lib : WF) (e : Emitter) (l : Lang) (he : e.lang = some l)
    (h : lib.get l = false) : e ∉ driverRun lib := by
  cases e <;> simp [Emitter.lang] at he <;> subst he <;>
    simp [WF.get] at h <;> simp [driverRun, h]

/-- (2a)+(2b): off at library level and on no declaration => that emitter never runs -/
theorem off_library_writes_nothing (n : Node) (e : Emitter) (l : Lang) (he : e.lang = some l)
    (h : anyFlag l n = false) : e ∉ driverRun (promote n).flags :=
  emit_none_when_off _ e l he (off_everywhere_stays_off l n h)

/-- **(3)** the C/Fortran part of the emitter sequence is a prefix of the run,
    and depends only on the C and Fortran flags: switching Python or Lua
    changes neither which C/Fortran emitters run nor what runs before them. -/
theorem cf_independent_of_py_lua (a b : WF) (hc : a.c = b.c) (hf : a.fortran = b.fortran) :
    (driverRun a).filter Emitter.isCF = (driverRun b).filter Emitter.isCF ∧
    ∃ rest, driverRun a = (driverRun a).filter Emitter.isCF ++ rest ∧ ∀ e ∈ rest, e.isCF = false := by
  obtain ⟨af, acf, ac, al, ap⟩ := a
  obtain ⟨bf, bcf, bc, bl, bp⟩ := b
  simp only at hc hf
  subst hc hf
  refine ⟨?_, ?_⟩
  · cases af <;> cases ac <;> cases al <;> cases ap <;> cases bl <;> cases bp <;> rfl
  · refine ⟨(if ap then [.wrapp] else []) ++ (if al then [.wrapl] else []), ?_, ?_⟩
    · cases af <;> cases ac <;> cases al <;> cases ap <;> rfl
    · intro e he
      cases al <;> cases ap <;> simp at he <;> (try rcases he with rfl | rfl) <;> (try subst he) <;> rfl

/-- **default-argument clones** carry the function's own C and Fortran flags and
    are never wrapped for Python or Lua, for every number of defaults -/
theorem default_clone_inherits (node : WF) (n : Nat) :
    ∀ w ∈ defaultClones node n, w.c = node.c ∧ w.fortran = node.fortran ∧ w.lua = false ∧ w.python = false := by
  intro w hw
  simp only [defaultClones, List.mem_replicate] at hw
  obtain ⟨_, rfl⟩ := hw
  simp [defaultClone, WF.assign]

/-- so a function that is off for C and Fortran contributes no C/Fortran clone -/
theorem default_clone_off (node : WF) (n : Nat) (hc : node.c = false) (hf : node.fortran = false) :
    ∀ w ∈ defaultClones node n, w = ⟨false, false, false, false, false⟩ := by
  intro w hw
  simp only [defaultClones, List.mem_replicate] at hw
  obtain ⟨_, rfl⟩ := hw
  simp [defaultClone, WF.assign, hc, hf]

/-! ### initial flags come from the node's own options over the enclosing scopes -/

/-- what a block says about the option behind language `l` (`c_f` has no option) -/
def WrapOpts.get (o : WrapOpts) : Lang → Option Bool
  | .fortran => o.fortran
  | .c => o.c
  | .lua => o.lua
  | .python => o.python
  | .c_f => none

/-- **the node's own `options:` block wins** over every enclosing scope, whatever they say -/
theorem init_own_block_wins (l : Lang) (o : WrapOpts) (os : List WrapOpts) (b : Bool)
    (h : o.get l = some b) : (initFlags (o :: os)).get l = b := by
  cases l <;> simp [WrapOpts.get] at h <;> simp [initFlags, WF.init, WF.get, lookupOpt, h]

/-- an option the node's own block does not mention is **inherited** from the enclosing scope -/
theorem init_inherits (l : Lang) (o : WrapOpts) (os : List WrapOpts)
    (h : o.get l = none) : (initFlags (o :: os)).get l = (initFlags os).get l := by
  cases l <;> simp [WrapOpts.get] at h <;> simp [initFlags, WF.init, WF.get, lookupOpt, h]

/-- no block mentions it: the library default (regenerated from `ast.default_options`) -/
theorem init_default (l : Lang) (os : List WrapOpts) (h : ∀ o ∈ os, o.get l = none) :
    (initFlags os).get l = wrapDefaults.get l := by
  induction os with
  | nil => cases l <;> simp [initFlags, WF.init, WF.get, lookupOpt, wrapDefaults]
  | cons o os ih =>
    rw [init_inherits l o os (h o (by simp))]
    exact ih (fun o' ho' => h o' (by simp [ho']))

/-- **table theorem**: the defaults the model assumes are the ones in `ast.default_options` -/
theorem wrap_defaults_regenerated :
    Shroud.Gen.Flags.wrapDefaults = (wrapDefaults.fortran, wrapDefaults.c, wrapDefaults.lua, wrapDefaults.python) := by
  decide +kernel

/-! ### every clone-making step of `generate_functions` stays within the declaration -/

theorem within_iff (w d : WF) : Within w d ↔
    ((w.fortran = true → d.fortran = true) ∧ (w.c_f = true → d.c_f = true) ∧ (w.c = true → d.c = true) ∧
     (w.lua = true → d.lua = true) ∧ (w.python = true → d.python = true)) := by
  constructor
  · intro h; exact ⟨h .fortran, h .c_f, h .c, h .lua, h .python⟩
  · intro ⟨h1, h2, h3, h4, h5⟩ l; cases l <;> assumption

theorem within_refl (w : WF) : Within w w := fun _ h => h

theorem within_clear (w d : WF) : Within w.clear d := by
  intro l; cases l <;> simp [WF.clear, WF.get]

/-- the clones made by the C/Fortran-only steps: which flags can be on -/
theorem within_cOnly (node D : WF) (hD : D.fortran = true → D.c = true) (h : Within node D)
    (hn : node.c = true ∨ node.fortran = true) : Within (cOnly node) D := by
  rw [within_iff] at h ⊢
  obtain ⟨hf, _, hc, _, _⟩ := h
  simp only [cOnly, WF.assign]
  refine ⟨by simp, by simp, fun _ => ?_, by simp, by simp⟩
  rcases hn with hn | hn
  · exact hc hn
  · exact hD (hf hn)

theorem within_fOnly (node D : WF) (h : Within node D) (hn : node.fortran = true) : Within (fOnly node) D := by
  rw [within_iff] at h ⊢
  simp only [fOnly, WF.assign]
  exact ⟨fun _ => h.1 hn, by simp, by simp, by simp, by simp⟩

theorem within_cfOf (node D : WF) (h : Within node D) : Within (cfOf node) D := by
  rw [within_iff] at h ⊢
  simp only [cfOf, WF.assign]
  exact ⟨h.1, by simp, h.2.2.1, by simp, by simp⟩

/-- switching flags off keeps a node within its declaration -/
theorem within_mono (w w' D : WF) (h : Within w D) (hle : Within w' w) : Within w' D :=
  fun l hl => h l (hle l hl)

theorem bufClones_within (v : Variant) (node D : WF) (hD : D.fortran = true → D.c = true)
    (h : Within node D) (hf : node.fortran = true) :
    Within (bufClones v node).1 D ∧ ∀ w ∈ (bufClones v node).2, Within w D := by
  have hc := within_cOnly node D hD h (Or.inr hf)
  have hfo := within_fOnly node D h hf
  have h' := (within_iff node D).mp h
  obtain ⟨h1, h2, h3, h4, h5⟩ := h'
  cases hv : v.vectorArg <;> cases hr : v.resultAsArg <;> simp only [bufClones, hv, hr] <;>
    refine ⟨?_, ?_⟩
  all_goals first
    | (intro w hwm; simp at hwm; rcases hwm with rfl | rfl <;> assumption)
    | (intro w hwm; simp at hwm; subst hwm; assumption)
    | (rw [within_iff]; simp; refine ⟨?_, ?_, ?_, ?_, ?_⟩ <;> first | assumption | simp)
    | (rw [within_iff]; simp; refine ⟨?_, ?_, ?_, ?_⟩ <;> first | assumption | simp)
    | (rw [within_iff]; simp; refine ⟨?_, ?_, ?_⟩ <;> first | assumption | simp)
    | (rw [within_iff]; simp; refine ⟨?_, ?_⟩ <;> first | assumption | simp)
    | exact h

theorem dropCIf_within (b : Bool) (node D : WF) (h : Within node D) : Within (dropCIf b node) D := by
  cases b
  · exact h
  · have h' := (within_iff node D).mp h
    rw [within_iff]; exact ⟨h'.1, h'.2.1, by simp [dropCIf], h'.2.2.2.1, h'.2.2.2.2⟩

@[simp] theorem dropCIf_fortran (b : Bool) (node : WF) : (dropCIf b node).fortran = node.fortran := by
  cases b <;> rfl

/-! equations of `step`, one per guard outcome -/

theorem bufStep_skip (v : Variant) (node : WF) (h : node.fortran = false ∨ v.fires = false) :
    bufStep v node = (node, []) := by
  rcases h with h | h <;> simp [bufStep, h]

theorem bufStep_go (v : Variant) (node : WF) (h1 : node.fortran = true) (h2 : v.fires = true) :
    bufStep v node = bufClones v node := by simp [bufStep, h1, h2]

theorem step_returnThis_skip (v : Variant) (d node : WF) (h1 : node.c = false) (h2 : node.fortran = false) :
    step .returnThis v d node = (node, []) := by simp [step, h1, h2]

theorem step_returnThis_go (v : Variant) (d node : WF) (h : node.c = true ∨ node.fortran = true) :
    step .returnThis v d node = ({ node with c := false, fortran := false }, [cfOf node]) := by
  rcases h with h | h <;> simp [step, h]

theorem step_cfi_skip (v : Variant) (d node : WF) (h : d.fortran = false ∨ node.fortran = false ∨ v.fires = false) :
    step .argToCfi v d node = (node, []) := by
  rcases h with h | h | h <;> simp [step, h]

theorem step_cfi_go (v : Variant) (d node : WF) (h1 : d.fortran = true) (h2 : node.fortran = true) (h3 : v.fires = true) :
    step .argToCfi v d node = bufClones v (dropCIf v.resultByValue node) := by simp [step, h1, h2, h3]

theorem step_buf_skip (v : Variant) (d node : WF) (h : node.c = false) :
    step .argToBuffer v d node = (node, []) := by simp [step, h]

theorem step_buf_go (v : Variant) (d node : WF) (h : node.c = true) :
    step .argToBuffer v d node = bufStep v (dropCIf v.resultByValue node) := by simp [step, h]

theorem step_fg_skip (v : Variant) (d node : WF) (h : node.fortran = false) :
    step .fortranGeneric v d node = (node, []) := by simp [step, h]

theorem step_fg_go (v : Variant) (d node : WF) (h : node.fortran = true) :
    step .fortranGeneric v d node = ({ node with fortran := false },
      (v.newC.map (fun nc => fOnly node :: (if nc then [cOnly node] else []))).flatten) := by simp [step, h]

theorem mem_fgClones (node w : WF) (newC : List Bool)
    (hw : w ∈ (newC.map (fun nc => fOnly node :: (if nc then [cOnly node] else []))).flatten) :
    w = fOnly node ∨ w = cOnly node := by
  simp only [List.mem_flatten, List.mem_map] at hw
  obtain ⟨l, ⟨nc, _, rfl⟩, hwl⟩ := hw
  cases nc <;> simp at hwl
  · exact Or.inl hwl
  · exact hwl

theorem bufStep_within (v : Variant) (node D : WF) (hD : D.fortran = true → D.c = true) (h : Within node D) :
    Within (bufStep v node).1 D ∧ ∀ w ∈ (bufStep v node).2, Within w D := by
  cases hnf : node.fortran
  · rw [bufStep_skip v node (Or.inl hnf)]; exact ⟨h, by simp⟩
  · cases hvf : v.fires
    · rw [bufStep_skip v node (Or.inr hvf)]; exact ⟨h, by simp⟩
    · rw [bufStep_go v node hnf hvf]; exact bufClones_within v node D hD h hnf

/-- **(5) one step**: for a declaration `D` in which Fortran is only requested together with C, a node
    that is within `D` stays within `D`, and every clone the step appends is within `D` -
    for every step kind, every variant and every number of clones. -/
theorem step_within (k : CloneKind) (v : Variant) (d node D : WF)
    (hD : D.fortran = true → D.c = true) (hd : Within d D) (h : Within node D) :
    Within (step k v d node).1 D ∧ ∀ w ∈ (step k v d node).2, Within w D := by
  have h' := (within_iff node D).mp h
  cases k with
  | cxxTemplate =>
    simp only [step]
    exact ⟨within_clear node D, fun w hw => by simp only [List.mem_replicate] at hw; rw [hw.2]; exact hd⟩
  | defaultArg =>
    simp only [step]
    exact ⟨h, fun w hw => by simp only [List.mem_replicate] at hw; rw [hw.2]; exact within_cfOf _ _ h⟩
  | returnThis =>
    cases hc : node.c <;> cases hf : node.fortran
    · rw [step_returnThis_skip v d node hc hf]; exact ⟨h, by simp⟩
    all_goals
      rw [step_returnThis_go v d node (by simp [hc, hf])]
      refine ⟨?_, ?_⟩
      · rw [within_iff]; exact ⟨by simp, h'.2.1, by simp, h'.2.2.2.1, h'.2.2.2.2⟩
      · intro w hw; simp only [List.mem_singleton] at hw; subst hw; exact within_cfOf node D h
  | argToCfi =>
    cases hdf : d.fortran
    · rw [step_cfi_skip v d node (Or.inl hdf)]; exact ⟨h, by simp⟩
    · cases hnf : node.fortran
      · rw [step_cfi_skip v d node (Or.inr (Or.inl hnf))]; exact ⟨h, by simp⟩
      · cases hvf : v.fires
        · rw [step_cfi_skip v d node (Or.inr (Or.inr hvf))]; exact ⟨h, by simp⟩
        · rw [step_cfi_go v d node hdf hnf hvf]
          exact bufClones_within v _ D hD (dropCIf_within _ _ _ h) (by simpa using hnf)
  | argToBuffer =>
    cases hc : node.c
    · rw [step_buf_skip v d node hc]; exact ⟨h, by simp⟩
    · rw [step_buf_go v d node hc]; exact bufStep_within v _ D hD (dropCIf_within _ _ _ h)
  | fortranGeneric =>
    cases hnf : node.fortran
    · rw [step_fg_skip v d node hnf]; exact ⟨h, by simp⟩
    · rw [step_fg_go v d node hnf]
      refine ⟨?_, ?_⟩
      · rw [within_iff]; exact ⟨by simp, h'.2.1, h'.2.2.1, h'.2.2.2.1, h'.2.2.2.2⟩
      · intro w hw
        rcases mem_fgClones node w v.newC hw with rfl | rfl
        · exact within_fOnly _ _ h hnf
        · exact within_cOnly _ _ hD h (Or.inr hnf)

theorem bufClones_noscript (v : Variant) (node : WF) :
    ∀ w ∈ (bufClones v node).2, w.python = false ∧ w.lua = false := by
  intro w hw
  cases hv : v.vectorArg <;> cases hr : v.resultAsArg <;> simp [bufClones, hv, hr] at hw <;>
    (try rcases hw with rfl | rfl) <;> (try subst hw) <;> simp [cOnly, fOnly, WF.assign]

/-- scripting languages handle overloads/defaults themselves: only template instantiation
    makes a clone that is wrapped for Python or Lua -/
theorem only_templates_clone_for_scripting (k : CloneKind) (v : Variant) (d node : WF)
    (hk : k ≠ .cxxTemplate) : ∀ w ∈ (step k v d node).2, w.python = false ∧ w.lua = false := by
  intro w hw
  cases k with
  | cxxTemplate => exact absurd rfl hk
  | defaultArg => simp only [step, List.mem_replicate] at hw; rw [hw.2]; simp [cfOf, WF.assign]
  | returnThis =>
    cases hc : node.c <;> cases hf : node.fortran
    · rw [step_returnThis_skip v d node hc hf] at hw; simp at hw
    all_goals
      rw [step_returnThis_go v d node (by simp [hc, hf])] at hw
      simp only [List.mem_singleton] at hw; subst hw; simp [cfOf, WF.assign]
  | argToCfi =>
    cases hdf : d.fortran
    · rw [step_cfi_skip v d node (Or.inl hdf)] at hw; simp at hw
    · cases hnf : node.fortran
      · rw [step_cfi_skip v d node (Or.inr (Or.inl hnf))] at hw; simp at hw
      · cases hvf : v.fires
        · rw [step_cfi_skip v d node (Or.inr (Or.inr hvf))] at hw; simp at hw
        · rw [step_cfi_go v d node hdf hnf hvf] at hw; exact bufClones_noscript v _ w hw
  | argToBuffer =>
    cases hc : node.c
    · rw [step_buf_skip v d node hc] at hw; simp at hw
    · rw [step_buf_go v d node hc] at hw
      cases hnf : node.fortran
      · rw [bufStep_skip v _ (Or.inl (by simpa using hnf))] at hw; simp at hw
      · cases hvf : v.fires
        · rw [bufStep_skip v _ (Or.inr hvf)] at hw; simp at hw
        · rw [bufStep_go v _ (by simpa using hnf) hvf] at hw; exact bufClones_noscript v _ w hw
  | fortranGeneric =>
    cases hnf : node.fortran
    · rw [step_fg_skip v d node hnf] at hw; simp at hw
    · rw [step_fg_go v d node hnf] at hw
      rcases mem_fgClones node w v.newC hw with rfl | rfl <;> simp [fOnly, cOnly, WF.assign]

/-- **a function that is not wrapped for Fortran gets no Fortran clone** (and no bufferify / CFI /
    fortran_generic C function either): every non-template step leaves Fortran off on all its clones -/
theorem no_fortran_clone_without_fortran (k : CloneKind) (v : Variant) (d node : WF)
    (hk : k ≠ .cxxTemplate) (hf : node.fortran = false) : ∀ w ∈ (step k v d node).2, w.fortran = false := by
  intro w hw
  cases k with
  | cxxTemplate => exact absurd rfl hk
  | defaultArg => simp only [step, List.mem_replicate] at hw; rw [hw.2]; simp [cfOf, WF.assign, hf]
  | returnThis =>
    cases hc : node.c
    · rw [step_returnThis_skip v d node hc hf] at hw; simp at hw
    · rw [step_returnThis_go v d node (Or.inl hc)] at hw
      simp only [List.mem_singleton] at hw; subst hw; simp [cfOf, WF.assign, hf]
  | argToCfi => rw [step_cfi_skip v d node (Or.inr (Or.inl hf))] at hw; simp at hw
  | argToBuffer =>
    cases hc : node.c
    · rw [step_buf_skip v d node hc] at hw; simp at hw
    · rw [step_buf_go v d node hc, bufStep_skip v _ (Or.inl (by simpa using hf))] at hw; simp at hw
  | fortranGeneric => rw [step_fg_skip v d node hf] at hw; simp at hw

mutual
/-- **(6) the whole family**: for every generation history - any sequence of clone-making steps applied to a
    function and, recursively, to its clones - every member of the family ends up wrapped only for languages
    that the declaration `D` has on.  `D`: Fortran only together with C (the property's quantifier); every
    options-derived flag set recorded along the way is within `D` (options are inherited by clones and only
    ever switched off). -/
theorem family_within (D : WF) (hD : D.fortran = true → D.c = true) :
    ∀ (h : Hist) (node : WF), (∀ d ∈ allD h, Within d D) → Within node D → ∀ w ∈ runHist h node, Within w D
  | .mk steps, node, hd, hn => by
    intro w hw
    simp only [runHist] at hw
    exact steps_within D hD steps node (by simpa [allD] using hd) hn w hw
theorem steps_within (D : WF) (hD : D.fortran = true → D.c = true) :
    ∀ (steps : List (CloneKind × Variant × WF × List Hist)) (node : WF),
      (∀ d ∈ allDSteps steps, Within d D) → Within node D → ∀ w ∈ runSteps steps node, Within w D
  | [], node, _, hn => by
    intro w hw; simp only [runSteps, List.mem_singleton] at hw; subst hw; exact hn
  | (k, v, d, hs) :: rest, node, hd, hn => by
    intro w hw
    simp only [runSteps, List.mem_append] at hw
    have hdD : Within d D := hd d (by simp [allDSteps])
    have hs' := step_within k v d node D hD hdD hn
    rcases hw with hw | hw
    · exact clones_within D hD hs (step k v d node).2
        (fun d' hd' => hd d' (by simp [allDSteps, hd'])) hs'.2 w hw
    · exact steps_within D hD rest _ (fun d' hd' => hd d' (by simp [allDSteps, hd'])) hs'.1 w hw
theorem clones_within (D : WF) (hD : D.fortran = true → D.c = true) :
    ∀ (hs : List Hist) (cs : List WF), (∀ d ∈ allDList hs, Within d D) → (∀ x ∈ cs, Within x D) →
      ∀ w ∈ runClones hs cs, Within w D
  | [], [], _, _ => by simp [runClones]
  | _ :: _, [], _, _ => by simp [runClones]
  | [], x :: cs, hd, hc => by
    intro w hw
    simp only [runClones, List.mem_cons] at hw
    rcases hw with rfl | hw
    · exact hc _ (by simp)
    · exact clones_within D hD [] cs hd (fun y hy => hc y (by simp [hy])) w hw
  | h :: hs, x :: cs, hd, hc => by
    intro w hw
    simp only [runClones, List.mem_append] at hw
    rcases hw with hw | hw
    · exact family_within D hD h x (fun d' hd' => hd d' (by simp [allDList, hd'])) (hc x (by simp)) w hw
    · exact clones_within D hD hs cs (fun d' hd' => hd d' (by simp [allDList, hd']))
        (fun y hy => hc y (by simp [hy])) w hw
end

/-- consequence in the property's words: a language that is **off for the declaration** is off on the function and
    on every clone generated from it, whatever the generation history -/
theorem off_for_declaration_off_for_family (D : WF) (hD : D.fortran = true → D.c = true) (l : Lang)
    (hoff : D.get l = false) (h : Hist) (hd : ∀ d ∈ allD h, Within d D) :
    ∀ w ∈ runHist h D, w.get l = false := by
  intro w hw
  have := family_within D hD h D hd (within_refl D) w hw l
  cases hwl : w.get l
  · rfl
  · rw [this hwl] at hoff; exact absurd hoff (by simp)

/-! ### regenerated tables -/

/-- one write site is well formed: the C emitter writes into the C/Fortran
    directory and registers the same path in `cfiles` just before; the Fortran
    emitter likewise with `ffiles`; the Python emitter writes into the Python
    directory (or `setup.py` into the top-level output directory) and never
    registers a C/Fortran file; the Lua emitter writes into the Lua directory. -/
def siteOK (r : Nat × Nat × Nat × Nat × Nat) : Bool :=
  match r with
  | (0, d, l, ad, same) => d == 0 && l == 0 && ad == 0 && same == 1
  | (1, d, l, ad, same) => d == 0 && l == 1 && ad == 0 && same == 1
  | (2, d, l, _, _) => (d == 1 || d == 3) && (l == 2 || l == 9)
  | (3, d, l, _, _) => d == 2 && l == 9
  | _ => false

/-- **(4) table theorem**: every `write_output_file` site of the four emitters
    is well formed (re-evaluated on the regenerated AST scan). -/
theorem write_sites_registered : writeSites.all siteOK = true := by decide +kernel

def sitesOf (em : Nat) : Nat := (writeSites.filter (fun r => r.1 == em)).length

/-- **table theorem**: the number of cfiles/ffiles append statements equals the
    number of write sites of the C and Fortran emitters (no file is listed
    without being written), and the Python/Lua emitters append to neither list. -/
theorem emitters_use_own_directory :
    appendCounts = [(0, sitesOf 0), (1, sitesOf 1), (2, 0), (3, 0)] := by decide +kernel

/-- **table theorem**: `main_with_args` invokes the emitters in the order and
    under the guards the model assumes (C, Fortran, C utility file, Python, Lua),
    and `has_default_args` assigns the clone flags the model assumes. -/
theorem emitter_order :
    driverSteps = modelDriverSteps ∧ defaultCloneAssign = (2, 2, 0, 0, 0) := by decide +kernel

/-- **table theorem**: the `wrap.assign(...)` calls of generate.py are exactly the ones `step` models
    (regenerated AST scan; a new or changed assign site breaks this) -/
theorem clone_assign_sites : cloneAssigns = modelCloneAssigns := by decide +kernel

/-- **table theorem**: every direct write `<x>.wrap.<lang> = v` in generate.py switches a language OFF; the only
    other writes are `process_return_this` handing the node's own C/Fortran flag to its clone.  No direct write
    switches a language on. -/
theorem direct_writes_only_switch_off :
    directWrites.all (fun r => r.2.2 == 0 || (r.1 == "process_return_this" && r.2.2 == 2)) = true := by decide +kernel

/-- **table theorem**: `wrap.clear()` is only used on a template original and on the return_this clone -/
theorem clear_sites : clearSites = ["template_function", "template_function2", "process_return_this"] := by decide +kernel

/-- **table theorem**: in every emitter's `wrap_namespace`, each loop over the namespaces or classes of a container decides
    from the wrap flag of the namespace / class ITSELF, for the emitter's own language (never from the enclosing node's flag,
    never from another language's); and every emitter has both loops -/
theorem container_guards_on_the_member :
    containerGuards.all (fun r => r.2.2.1 == 1 && r.2.2.2 == r.1) = true ∧
    (List.range 4).all (fun em => containerGuards.any (fun r => r.1 == em && r.2.1 == 0) &&
                                  containerGuards.any (fun r => r.1 == em && r.2.1 == 1)) = true := by decide +kernel

/-! ### non-vacuity -/

example : anyFlag .lua (.cont ⟨true, false, true, false, false⟩
    [.leaf ⟨true, false, true, false, false⟩, .cont ⟨true, false, true, false, false⟩ [.leaf ⟨false, false, false, true, false⟩]]) = true := by
  decide

example : Emitter.wrapl ∉ driverRun (promote (.cont ⟨true, false, true, false, true⟩ [.leaf ⟨true, false, true, false, true⟩])).flags := by
  decide

/-- the hypotheses of `step_within` are met by a real situation: a Fortran+C function with a string result
    as argument: the step clears Fortran on the node and makes a C-only and a Fortran-only clone -/
example : step .argToBuffer ⟨0, true, false, false, true, []⟩ ⟨true, false, true, false, true⟩ ⟨true, false, true, false, true⟩
    = (⟨false, false, true, false, true⟩, [⟨false, false, true, false, false⟩, ⟨true, false, false, false, false⟩]) := by decide

example : initFlags [⟨none, none, none, some false⟩, ⟨none, none, none, some true⟩] = ⟨true, false, true, false, false⟩ := by decide

example : (step .fortranGeneric ⟨0, true, false, false, false, [false, true]⟩ ⟨false, false, true, false, false⟩ ⟨false, false, true, false, false⟩).2 = [] := by
  decide

end Shroud.Flags
