import ShroudVerif.Model.PyImplied
import ShroudVerif.Lemmas.PyDispatch
import ShroudVerif.Props.C03
/-!
# C03 implied arguments: the library receives the value of the `+implied(..)` expression over the caller's arguments

Over `Model/PyImplied.lean`.  Tied on every run by `tools/c03_implied.py`: the emitted `name = <expr>;` line of
generated expressions is compared with `IExpr.render`, and the value a compiled extension hands to the library
is compared with `IExpr.evalC` / `assignTo` for generated calls.
-/
namespace Shroud.PyImplied
open Shroud.PyDispatch

/-- refining the specified call gives the specified call with implied values. -/
theorem refine_specArgs (im : Implied) (env : Nat → Option Val) : ∀ (ps : List Param) (slots : List (Option Val)),
    refine im env ps (specArgs ps slots) = specArgsI im env ps slots := by
  intro ps
  induction ps with
  | nil => intro slots; simp [refine, specArgs, specArgsI]
  | cons p ps ih =>
    intro slots
    unfold refine at ih ⊢
    by_cases hv : p.vis = true
    · match slots with
      | some v :: r => simp [specArgs, specArgsI, hv, refineArg, ih]
      | none :: r => simp [specArgs, specArgsI, hv, refineArg, ih]
      | [] => simp [specArgs, specArgsI, hv, refineArg, ih]
    · have hv' : p.vis = false := by simpa using hv
      by_cases hi : p.implied = true
      · simp [specArgs, specArgsI, hv', hi, refineArg, ih]
      · have hi' : p.implied = false := by simpa using hi
        simp [specArgs, specArgsI, hv', hi', refineArg, ih]

/-- **Implied call equivalence, partial.**  For every parameter list with trailing defaults, every description of
its implied parameters (any expressions) and every call the keyword parser accepts whose supplied parameters are
the first `#positional + #keyword` ones: the library receives the supplied values, its own defaults for the rest,
and in the position of every implied parameter the C value of that parameter's expression evaluated over the
caller's own arguments (`callerEnv`: positional value, else keyword of that name), converted to the parameter's
type.  `_partial` for the same reason as `call_equiv_prefix_partial` (keyword-skipping calls). -/
theorem implied_call_equiv_partial (im : Implied) (ps : List Param) (pos : List Val) (kw : List (Nat × Val))
    (slots : List (Option Val))
    (hwf : trailing ps = true)
    (hacc : parseArgs (fmtItems false ps) (kwlist ps) pos kw = .ok slots)
    (hpre : prefixMask (pos.length + kw.length) (supplied (visible ps) pos kw) = true) :
    wrapperI im .kwds ps pos (some kw) = .ok (specI im ps pos kw) := by
  have hw := call_equiv_prefix_partial ps pos kw slots hwf hacc hpre
  have hitems : parseItems false (fmtItems false ps) (kwlist ps) pos kw = .ok slots := by
    unfold parseArgs at hacc
    split at hacc
    · cases hacc
    · split at hacc
      · cases hacc
      · rename_i s hs
        split at hacc
        · injection hacc with hacc; subst hacc; exact hs
        · cases hacc
  obtain ⟨hsl, _⟩ := parseItems_ok ps false pos kw slots hwf (by intro h; cases h) hitems
  unfold wrapperI
  simp only [hw, Option.getD_some, hacc]
  subst hsl
  simp only [spec, specI, callerEnv, refine_specArgs]

theorem specArgsI_length (im : Implied) (env : Nat → Option Val) : ∀ (ps : List Param) (slots : List (Option Val)),
    (specArgsI im env ps slots).length = ps.length := by
  intro ps
  induction ps with
  | nil => intro slots; simp [specArgsI]
  | cons p ps ih =>
    intro slots
    by_cases hv : p.vis = true
    · match slots with
      | some v :: r => simp [specArgsI, hv, ih]
      | none :: r => simp [specArgsI, hv, ih]
      | [] => simp [specArgsI, hv, ih]
    · have hv' : p.vis = false := by simpa using hv
      simp [specArgsI, hv', ih]

/-- position by position: the `i`-th thing the library receives, when parameter `i` is implied with expression
`e`, is the value of `e` over the caller's arguments converted to the parameter's type. -/
theorem implied_value_received (im : Implied) (env : Nat → Option Val) :
    ∀ (ps : List Param) (slots : List (Option Val)) (i : Nat) (p : Param) (e : IExpr),
    ps[i]? = some p → p.vis = false → p.implied = true → im.exprOf p.name = some e →
    (specArgsI im env ps slots)[i]? =
      some (.impliedVal (assignTo (im.target p.name) (e.evalC im.sem im.charlenOut env))) := by
  intro ps
  induction ps with
  | nil => intro slots i p e h; simp at h
  | cons q ps ih =>
    intro slots i p e h hv hi he
    cases i with
    | zero =>
      simp at h
      subst h
      simp [specArgsI, hv, hi, Implied.value, he]
    | succ i =>
      simp at h
      by_cases hq : q.vis = true
      · match slots with
        | some v :: r => simpa [specArgsI, hq] using ih r i p e h hv hi he
        | none :: r => simpa [specArgsI, hq] using ih r i p e h hv hi he
        | [] => simpa [specArgsI, hq] using ih [] i p e h hv hi he
      · have hq' : q.vis = false := by simpa using hq
        simpa [specArgsI, hq'] using ih slots i p e h hv hi he

/-- the caller's environment reads positional arguments by position ... -/
theorem callerEnv_head_positional (p : Param) (ps : List Param) (v : Val) (pos : List Val) (kw : List (Nat × Val))
    (hv : p.vis = true) : callerEnv (p :: ps) (v :: pos) kw p.name = some v := by
  simp [callerEnv, visible, List.filter, hv, supplied, offered, slotEnv]

/-- ... and the others by keyword name. -/
theorem callerEnv_head_keyword (p : Param) (ps : List Param) (kw : List (Nat × Val))
    (hv : p.vis = true) : callerEnv (p :: ps) [] kw p.name = lookupKw p.name kw := by
  simp [callerEnv, visible, List.filter, hv, supplied, offered, slotEnv]

/-! ## the C value of the expression -/

theorem mk_signed {t : CTy} {x : Int} {r : CTy × Int} (ht : t ≠ .usize) (h : t.mk x = some r) : r = (t, x) := by
  cases t with
  | int => simp only [CTy.mk] at h; split at h <;> simp_all
  | ssize => simp only [CTy.mk] at h; split at h <;> simp_all
  | usize => exact absurd rfl ht

theorem join_signed {a b : CTy} (ha : a ≠ .usize) (hb : b ≠ .usize) : a.join b ≠ .usize := by
  cases a <;> cases b <;> simp_all [CTy.join]

theorem conv_signed {t : CTy} (x : Int) (ht : t ≠ .usize) : t.conv x = x := by
  cases t <;> simp_all [CTy.conv]

/-- **C value = integer value, partial.**  For every expression without a `size_t` operand (no `len` / `len_trim`
of a caller string), every environment and every meaning of values: whenever the emitted C expression has a defined
value (no signed overflow, no division by zero, no unwritten operand) it is the value of the expression over the
integers, in a signed type.  `_partial`: with a `size_t` operand the statement is false (`implied_unsigned_witness`). -/
theorem evalC_signed_eq_math_partial (sem : Sem) (co : Nat → Option Nat) (env : Nat → Option Val) :
    ∀ (e : IExpr) (t : CTy) (x : Int), e.signedOnly co = true → e.evalC sem co env = some (t, x) →
    e.evalMath sem co env = some x ∧ t ≠ .usize := by
  intro e
  induction e with
  | const v =>
    intro t x _ h
    have := mk_signed (by decide) h
    simp_all [IExpr.evalMath]
  | ident n =>
    intro t x _ h
    simp only [IExpr.evalC] at h
    cases hn : env n with
    | none => simp [hn] at h
    | some v =>
      simp only [hn, Option.bind_some] at h
      cases hi : sem.asInt v with
      | none => simp [hi] at h
      | some i =>
        simp only [hi, Option.bind_some] at h
        have := mk_signed (by decide) h
        simp_all [IExpr.evalMath]
  | size a =>
    intro t x _ h
    simp only [IExpr.evalC] at h
    cases hn : env a with
    | none => simp [hn] at h
    | some v =>
      simp only [hn, Option.bind_some] at h
      cases hi : sem.sizeOf v with
      | none => simp [hi] at h
      | some i =>
        simp only [hi, Option.bind_some] at h
        have := mk_signed (by decide) h
        simp_all [IExpr.evalMath]
  | len a =>
    intro t x hs h
    simp only [IExpr.signedOnly] at hs
    cases hc : co a with
    | none => simp [hc] at hs
    | some c =>
      simp only [IExpr.evalC, hc] at h
      have := mk_signed (by decide) h
      simp_all [IExpr.evalMath]
  | lenTrim a => intro t x hs; simp [IExpr.signedOnly] at hs
  | bin o l r ihl ihr =>
    intro t x hs h
    simp only [IExpr.signedOnly, Bool.and_eq_true] at hs
    simp only [IExpr.evalC] at h
    cases hl : l.evalC sem co env with
    | none => simp [hl] at h
    | some lv =>
      cases hr : r.evalC sem co env with
      | none => simp [hl, hr] at h
      | some rv =>
        obtain ⟨tl, xl⟩ := lv
        obtain ⟨tr, xr⟩ := rv
        obtain ⟨hml, htl⟩ := ihl tl xl hs.1 hl
        obtain ⟨hmr, htr⟩ := ihr tr xr hs.2 hr
        have hj := join_signed htl htr
        simp only [hl, hr, conv_signed _ hj, arith] at h
        simp only [IExpr.evalMath, hml, hmr]
        split at h
        · have := mk_signed hj h; simp_all
        · split at h
          · have := mk_signed hj h; simp_all
          · split at h
            · have := mk_signed hj h; simp_all
            · split at h
              · split at h
                · cases h
                · have := mk_signed hj h; simp_all
              · cases h
  | un o e ih =>
    intro t x hs h
    simp only [IExpr.signedOnly] at hs
    simp only [IExpr.evalC] at h
    cases he : e.evalC sem co env with
    | none => simp [he] at h
    | some ev =>
      obtain ⟨te, xe⟩ := ev
      obtain ⟨hm, hte⟩ := ih te xe hs he
      simp only [he] at h
      simp only [IExpr.evalMath, hm]
      split at h
      · simp_all
      · split at h
        · have := mk_signed hte h; simp_all
        · cases h
  | paren e ih =>
    intro t x hs h
    simp only [IExpr.signedOnly] at hs
    simp only [IExpr.evalC] at h
    simpa [IExpr.evalMath] using ih t x hs h

/-- a value in `int` range is stored unchanged in an `int` parameter. -/
theorem assign_int_id (t : CTy) (x : Int) (h : -two31 ≤ x ∧ x < two31) :
    assignTo .int (some (t, x)) = some x := by
  simp only [assignTo, Option.map_some, two31, two32] at *
  congr 1
  omega

/-- together: an implied `int` parameter whose expression has no `size_t` operand receives the integer value of the
expression whenever the C expression is defined and the value fits. -/
theorem implied_int_receives_math_partial (sem : Sem) (co : Nat → Option Nat) (env : Nat → Option Val)
    (e : IExpr) (t : CTy) (x : Int) (hs : e.signedOnly co = true) (h : e.evalC sem co env = some (t, x))
    (hr : -two31 ≤ x ∧ x < two31) :
    assignTo .int (e.evalC sem co env) = e.evalMath sem co env := by
  rw [(evalC_signed_eq_math_partial sem co env e t x hs h).1, h]
  exact assign_int_id t x hr

/-! ### instances -/

/-- meaning used by the harness: tag 0 = int with value `id`, tag 1 = string of `id` characters,
tag 7 = list of `id` items. -/
def exSem : Sem :=
  { asInt := fun v => if v.tag = 0 then some v.id else none
    sizeOf := fun v => if v.tag = 7 then some v.id else none
    strlenOf := fun v => if v.tag = 1 then some v.id else none }

def exEnv : Nat → Option Val := fun n =>
  if n = 1 then some { tag := 7, id := 5 } else if n = 2 then some { tag := 1, id := 1 }
  else if n = 3 then some { tag := 0, id := 4 } else none

/-- non-vacuity of `implied_int_receives_math_partial`: `(size(a)+1)*k - 3` with 5 items and `k = 4` is 21. -/
example :
    let e := IExpr.bin 2 (.bin 3 (.paren (.bin 1 (.size 1) (.const 1))) (.ident 3)) (.const 3)
    e.signedOnly (fun _ => none) = true ∧ e.evalC exSem (fun _ => none) exEnv = some (.ssize, 21) ∧
    e.evalMath exSem (fun _ => none) exEnv = some 21 := by decide

/-- **the full statement is false on the current code**: `+implied((len(s)-n)/2)` with `strlen(s) = 1`, `n = 4`
is emitted as `(strlen(s)-n)/2`, computed in `size_t`: the library receives -2, the expression's value is -1. -/
theorem implied_unsigned_witness :
    let e := IExpr.bin 4 (.paren (.bin 2 (.len 2) (.ident 3))) (.const 2)
    assignTo .int (e.evalC exSem (fun _ => none) exEnv) = some (-2) ∧
    e.evalMath exSem (fun _ => none) exEnv = some (-1) := by decide +kernel

/-- non-vacuity of `implied_call_equiv_partial` / `implied_value_received`:
`f(arr, n +implied(size(arr)+1), k)` called as `f([..5 items..], k=4)`. -/
def exPs : List Param :=
  [ { name := 1, intent := .in_, hasDefault := false, implied := false, hidden := false, unit := { text := [79], accepts := [7] } },
    { name := 9, intent := .in_, hasDefault := false, implied := true, hidden := false, unit := { text := [], accepts := [] } },
    { name := 3, intent := .in_, hasDefault := false, implied := false, hidden := false, unit := exUnit } ]

def exIm : Implied :=
  { sem := exSem, exprOf := fun n => if n = 9 then some (.bin 1 (.size 1) (.const 1)) else none,
    charlenOut := fun _ => none, target := fun _ => .int }

example : wrapperI exIm .kwds exPs [{ tag := 7, id := 5 }] (some [(3, iv 4)]) =
    .ok [.plain (.val { tag := 7, id := 5 }), .impliedVal (some 6), .plain (.val (iv 4))] := by decide +kernel

end Shroud.PyImplied
