import ShroudVerif.Model.PyDispatch
import ShroudVerif.Lemmas.PyDispatch
/-!
# C03  The generated Python extension is call-equivalent to the wrapped library

Theorems over `Model/PyDispatch.lean` (format / keyword list / `default_calls` / `SH_nargs` switch /
`multi_dispatch` / `build_tuples` as `shroud/wrapp.py` generates them, CPython's keyword parser
abstracted).  The model is tied to `wrapp.py` on every run by `tools/props/c03.py`: the emitted format
string, keyword list, `case n:` call lists, dispatch windows, `PyDict_Size` operand and `Py_BuildValue`
order are extracted from the generated C and compared with the model's prediction; compiled extensions
are driven with every positional/keyword split and compared with `wrapper` / `multiDispatch`.

All statements are for arbitrary parameter lists, argument values and positional/keyword splits.
-/
namespace Shroud.PyDispatch

/-! ## (1) call equivalence -/

/-- **Call equivalence, partial.**  For every parameter list whose defaults are trailing (the C++ rule) and
every call the keyword parser accepts, *if the parameters that received a value are exactly the first
`#positional + #keyword` ones* then the library is called with exactly the supplied values, in their
parameter positions, intent(out) addresses and implied values in theirs, and nothing for the remaining
parameters (the library's own defaults apply).

`_partial`: the hypothesis `hpre` excludes calls that skip a defaulted parameter by keyword; for those the
statement is false on the current code (`call_equiv_full_is_false`). -/
theorem call_equiv_prefix_partial (ps : List Param) (pos : List Val) (kw : List (Nat × Val))
    (slots : List (Option Val))
    (hwf : trailing ps = true)
    (hacc : parseArgs (fmtItems false ps) (kwlist ps) pos kw = .ok slots)
    (hpre : prefixMask (pos.length + kw.length) (supplied (visible ps) pos kw) = true) :
    wrapper .kwds ps pos (some kw) = .ok (spec ps pos kw) := by
  have hitems : parseItems false (fmtItems false ps) (kwlist ps) pos kw = .ok slots := by
    unfold parseArgs at hacc
    split at hacc
    · cases hacc
    · split at hacc
      · cases hacc
      · rename_i s hs
        split at hacc
        · injection hacc with hacc; subst hacc; exact hs
        · cases hacc
  obtain ⟨hsl, hmiss⟩ := parseItems_ok ps false pos kw slots hwf (by intro h; cases h) hitems
  subst hsl
  unfold wrapper
  simp only [Option.getD_some, hacc]
  by_cases hfd : foundDefault ps = true
  · have hda := hasDefaultArg_of_foundDefault ps hfd
    simp only [hda, if_true, countArgs, hfd]
    obtain ⟨k, _, hfind, hargs⟩ :=
      switch_prefix ps 0 0 (pos.length + kw.length) _ hwf hpre hmiss
    simp only [Nat.zero_add] at hfind
    simp only [switchCall, hfind, hargs, spec]
  · have hfd' : foundDefault ps = false := by simpa using hfd
    have := callArgs_eq_specArgs_noDefault ps _ hfd' hmiss
    cases hh : hasDefaultArg ps <;> simp [countArgs, hfd', this, spec]

/-- same statement when no keyword dictionary is passed (`kwds == NULL`). -/
theorem call_equiv_prefix_nokw_partial (ps : List Param) (pos : List Val) (slots : List (Option Val))
    (hwf : trailing ps = true)
    (hacc : parseArgs (fmtItems false ps) (kwlist ps) pos [] = .ok slots)
    (hpre : prefixMask pos.length (supplied (visible ps) pos []) = true) :
    wrapper .kwds ps pos none = .ok (spec ps pos []) := by
  have h := call_equiv_prefix_partial ps pos [] slots hwf hacc (by simpa using hpre)
  unfold wrapper at h ⊢
  simpa [countArgs] using h

/-- the three-parameter example of the design document: `int f(int i, int j = 10, int k = 100)`. -/
def exUnit : FUnit := { text := [105], accepts := [0] }
def exF : List Param :=
  [ { name := 1, intent := .in_, hasDefault := false, implied := false, hidden := false, unit := exUnit },
    { name := 2, intent := .in_, hasDefault := true, implied := false, hidden := false, unit := exUnit },
    { name := 3, intent := .in_, hasDefault := true, implied := false, hidden := false, unit := exUnit } ]
def iv (n : Nat) : Val := { tag := 0, id := n }

/-- non-vacuity: `f(1, j=2)` satisfies every hypothesis (accepted, defaults trailing, prefix supplied). -/
example : trailing exF = true ∧
    parseArgs (fmtItems false exF) (kwlist exF) [iv 1] [(2, iv 2)] = .ok [some (iv 1), some (iv 2), none] ∧
    prefixMask 2 (supplied (visible exF) [iv 1] [(2, iv 2)]) = true ∧
    wrapper .kwds exF [iv 1] (some [(2, iv 2)]) = .ok [.val (iv 1), .val (iv 2), .dflt] := by decide

/-- **Keyword skipping (defect, open finding).**  `f(i=1, k=3)` is accepted by the parser, `SH_nargs == 2`
selects `case 2`, which calls `f(i, j)`: `j` was never written by the parser and `k` is dropped. -/
theorem kw_skip_witness :
    parseArgs (fmtItems false exF) (kwlist exF) [] [(1, iv 1), (3, iv 3)]
        = .ok [some (iv 1), none, some (iv 3)] ∧
    wrapper .kwds exF [] (some [(1, iv 1), (3, iv 3)]) = .ok [.val (iv 1), .garbage, .dflt] ∧
    spec exF [] [(1, iv 1), (3, iv 3)] = [.val (iv 1), .dflt, .val (iv 3)] := by decide

/-- **Call equivalence, full strength, for functions with at most one defaulted parameter.**  With distinct
parameter names and distinct keywords (Python guarantees the latter), *every* accepted positional/keyword
split delivers exactly the supplied values and the library's own default for the rest: keyword skipping
needs two defaulted parameters. -/
theorem call_equiv_single_default (ps : List Param) (pos : List Val) (kw : List (Nat × Val))
    (slots : List (Option Val))
    (hwf : trailing ps = true)
    (hacc : parseArgs (fmtItems false ps) (kwlist ps) pos kw = .ok slots)
    (hnames : (kwlist ps).Nodup) (hkeys : (kw.map (·.1)).Nodup)
    (hone : countDefaults ps ≤ 1) :
    wrapper .kwds ps pos (some kw) = .ok (spec ps pos kw) := by
  have hparts : pos.length + kw.length ≤ (kwlist ps).length ∧
      parseItems false (fmtItems false ps) (kwlist ps) pos kw = .ok slots ∧
      kwAllKnown (kwlist ps) pos.length kw = true := by
    unfold parseArgs at hacc
    split at hacc
    · cases hacc
    · rename_i hle
      split at hacc
      · cases hacc
      · rename_i s hs
        split at hacc
        · rename_i hk
          injection hacc with hacc; subst hacc
          exact ⟨by omega, hs, hk⟩
        · cases hacc
  obtain ⟨hle, hitems, hknown⟩ := hparts
  obtain ⟨hsl, hmiss⟩ := parseItems_ok ps false pos kw slots hwf (by intro h; cases h) hitems
  have hlen : (kwlist ps).length = (visible ps).length := by simp [kwlist]
  have hcount := supplied_count (visible ps) pos kw (by omega)
  have hdrop : ((visible ps).drop pos.length).map (·.name) = (kwlist ps).drop pos.length := by
    simp [kwlist, List.map_drop]
  rw [hdrop] at hcount
  have hnd : ((kwlist ps).drop pos.length).Nodup := List.Nodup.sublist (List.drop_sublist _ _) hnames
  have hsub : ∀ e ∈ kw, e.1 ∈ (kwlist ps).drop pos.length := by
    intro e he
    simp only [kwAllKnown, List.all_eq_true] at hknown
    simpa using hknown e he
  rw [count_lookup _ kw hnd hkeys hsub] at hcount
  have hpre := prefix_of_single_default ps slots hwf hmiss hone
  rw [hsl, hcount] at hpre
  exact call_equiv_prefix_partial ps pos kw slots hwf hacc hpre

/-- non-vacuity: `double fmix(long a, double b = 2.5)` called as `fmix(b=.., a=..)`. -/
example : trailing (exF.take 2) = true ∧ (kwlist (exF.take 2)).Nodup ∧ countDefaults (exF.take 2) ≤ 1 ∧
    parseArgs (fmtItems false (exF.take 2)) (kwlist (exF.take 2)) [] [(2, iv 7), (1, iv 8)]
      = .ok [some (iv 8), some (iv 7)] ∧
    wrapper .kwds (exF.take 2) [] (some [(2, iv 7), (1, iv 8)]) = .ok [.val (iv 8), .val (iv 7)] := by decide

/-- **Exact characterisation.**  For a function with a default-argument `switch`, an accepted call reaches the
library as specified *if and only if* the supplied parameters are the first `#positional + #keyword` ones:
every accepted call that skips a defaulted parameter by keyword is delivered wrongly (an unparsed variable
is passed and/or a supplied value is dropped), not only the witness below. -/
theorem call_equiv_iff_prefix (ps : List Param) (pos : List Val) (kw : List (Nat × Val))
    (slots : List (Option Val))
    (hwf : trailing ps = true)
    (hacc : parseArgs (fmtItems false ps) (kwlist ps) pos kw = .ok slots)
    (hfd : foundDefault ps = true) :
    wrapper .kwds ps pos (some kw) = .ok (spec ps pos kw) ↔
      prefixMask (pos.length + kw.length) (supplied (visible ps) pos kw) = true := by
  constructor
  · intro hw
    have hitems : parseItems false (fmtItems false ps) (kwlist ps) pos kw = .ok slots := by
      unfold parseArgs at hacc
      split at hacc
      · cases hacc
      · split at hacc
        · cases hacc
        · rename_i s hs
          split at hacc
          · injection hacc with hacc; subst hacc; exact hs
          · cases hacc
    obtain ⟨hsl, hmiss⟩ := parseItems_ok ps false pos kw slots hwf (by intro h; cases h) hitems
    subst hsl
    have hda := hasDefaultArg_of_foundDefault ps hfd
    unfold wrapper at hw
    simp only [Option.getD_some, hacc, hda, if_true, countArgs, hfd, switchCall] at hw
    cases hfind : (defaultCalls 0 0 ps).find? (fun c => c.1 == pos.length + kw.length) with
    | none => rw [hfind] at hw; cases hw
    | some e =>
      rw [hfind] at hw
      simp only [Outcome.ok.injEq, spec] at hw
      have hfind' : (defaultCalls 0 0 ps).find? (fun c => c.1 == 0 + (pos.length + kw.length)) = some e := by
        simpa using hfind
      exact switch_exact ps 0 0 (pos.length + kw.length) _ e hwf hmiss hfind' (by simpa using hw)
  · exact call_equiv_prefix_partial ps pos kw slots hwf hacc

example : foundDefault exF = true := by decide

/-- The full-strength statement (without the prefix hypothesis) is false on the current code. -/
theorem call_equiv_full_is_false :
    ¬ (∀ (ps : List Param) (pos : List Val) (kw : List (Nat × Val)) (slots : List (Option Val)),
        trailing ps = true → parseArgs (fmtItems false ps) (kwlist ps) pos kw = .ok slots →
        wrapper .kwds ps pos (some kw) = .ok (spec ps pos kw)) := by
  intro h
  have := h exF [] [(1, iv 1), (3, iv 3)] [some (iv 1), none, some (iv 3)] (by decide) (by decide)
  revert this
  decide

/-! ### the generated struct constructor: no switch, every split is delivered -/

theorem structParse_ok : ∀ (fs : List Param) (pos : List Val) (kw : List (Nat × Val)) (slots : List (Option Val)),
    parseItems true (fs.map (fun p => FmtItem.unit p.unit)) (fs.map (·.name)) pos kw = .ok slots →
    slots = supplied fs pos kw := by
  intro fs
  induction fs with
  | nil => intro pos kw slots h; simp [parseItems] at h; subst h; rfl
  | cons p ps ih =>
    intro pos kw slots h
    simp only [List.map_cons, parseItems] at h
    cases hoff : offered p.name pos kw with
    | none =>
      rw [hoff] at h
      simp only [if_true] at h
      cases hrec : parseItems true (ps.map (fun p => FmtItem.unit p.unit)) (ps.map (·.name)) pos.tail kw with
      | error e => rw [hrec] at h; cases h
      | ok r =>
        rw [hrec] at h
        injection h with h
        subst h
        simp [supplied, hoff, ih pos.tail kw r hrec]
    | some v =>
      rw [hoff] at h
      by_cases hok : p.unit.ok v = true
      · simp only [hok, if_true] at h
        cases hrec : parseItems true (ps.map (fun p => FmtItem.unit p.unit)) (ps.map (·.name)) pos.tail kw with
        | error e => rw [hrec] at h; cases h
        | ok r =>
          rw [hrec] at h
          injection h with h
          subst h
          simp [supplied, hoff, ih pos.tail kw r hrec]
      · simp [hok] at h

/-- **Struct constructor, full call equivalence**: for every field list and *every* accepted positional /
keyword split (keyword skipping included) each field receives the supplied value, an unsupplied field the
initial value of its variable.  There is no argument-count switch here, hence no prefix hypothesis. -/
theorem structCtor_call_equiv (fs : List Param) (pos : List Val) (kw : List (Nat × Val)) (slots : List (Option Val))
    (hacc : parseArgs (structFmt fs) (fs.map (·.name)) pos kw = .ok slots) :
    structCtor fs pos (some kw) = .ok ((supplied fs pos kw).map structField) := by
  have hitems : slots = supplied fs pos kw := by
    unfold parseArgs at hacc
    split at hacc
    · cases hacc
    · split at hacc
      · cases hacc
      · rename_i s hs
        split at hacc
        · injection hacc with hacc; subst hacc
          cases fs with
          | nil => simp [structFmt, parseItems] at hs; subst hs; rfl
          | cons p ps =>
            simp only [structFmt, parseItems] at hs
            exact structParse_ok (p :: ps) pos kw s hs
        · cases hacc
  unfold structCtor
  simp [hacc, hitems]

/-- non-vacuity: `Pt(z=3)` for `struct Pt { int x; int y; int z; }` reuses the fields of `exF`. -/
example : parseArgs (structFmt exF) (exF.map (·.name)) [] [(3, iv 3)] = .ok [none, none, some (iv 3)] ∧
    structCtor exF [] (some [(3, iv 3)]) = .ok [.dflt, .dflt, .val (iv 3)] := by decide

/-- the struct constructor never ends in `SystemError`. -/
theorem structCtor_never_systemError (fs : List Param) (pos : List Val) (kw : Option (List (Nat × Val))) :
    structCtor fs pos kw ≠ .exc .systemError := by
  unfold structCtor
  cases hparse : parseArgs (structFmt fs) (fs.map (·.name)) pos (kw.getD []) with
  | ok slots => simp
  | error e =>
    simp only []
    intro hh
    injection hh with hh
    subst hh
    unfold parseArgs at hparse
    split at hparse
    · cases hparse
    · split at hparse
      · rename_i e' he
        injection hparse with hparse
        subst hparse
        -- one unit per field name: the format cannot outrun the keyword list
        have key : ∀ (fs : List Param) (pos : List Val) (kw : List (Nat × Val)),
            parseItems true (fs.map (fun p => FmtItem.unit p.unit)) (fs.map (·.name)) pos kw ≠ .error .systemError := by
          intro fs
          induction fs with
          | nil => intro pos kw; simp [parseItems]
          | cons p ps ih =>
            intro pos kw
            simp only [List.map_cons, parseItems]
            cases offered p.name pos kw with
            | none =>
              simp only [if_true]
              cases hrec : parseItems true (ps.map (fun p => FmtItem.unit p.unit)) (ps.map (·.name)) pos.tail kw with
              | error e => intro hh; injection hh with hh; exact ih pos.tail kw (by rw [hrec, hh])
              | ok r => simp
            | some v =>
              by_cases hok : p.unit.ok v = true
              · simp only [hok, if_true]
                cases hrec : parseItems true (ps.map (fun p => FmtItem.unit p.unit)) (ps.map (·.name)) pos.tail kw with
                | error e => intro hh; injection hh with hh; exact ih pos.tail kw (by rw [hrec, hh])
                | ok r => simp
              · simp [hok]
        cases fs with
        | nil => simp [structFmt, parseItems] at he
        | cons p ps =>
          simp only [structFmt, parseItems] at he
          exact key (p :: ps) pos (kw.getD []) he
      · split at hparse <;> cases hparse

/-! ## (2) errors are TypeError / ValueError, never SystemError -/

/-- the generated format has one unit per keyword-list entry and `SH_nargs` is computed from `kwds`:
no call of any generated wrapper ends in `SystemError`. -/
theorem wrapper_never_systemError (ps : List Param) (pos : List Val) (kw : Option (List (Nat × Val))) :
    wrapper .kwds ps pos kw ≠ .exc .systemError := by
  unfold wrapper
  have hc : ∀ b : Bool, (if b = true then countArgs .kwds pos kw else Except.ok 0) ≠ .error .systemError := by
    intro b
    cases b <;> cases kw <;> simp [countArgs]
  cases hcount : (if hasDefaultArg ps = true then countArgs .kwds pos kw else Except.ok 0) with
  | error e =>
    have := hc (hasDefaultArg ps)
    rw [hcount] at this
    intro hh
    injection hh with hh
    subst hh
    exact this rfl
  | ok n =>
    simp only []
    cases hparse : parseArgs (fmtItems false ps) (kwlist ps) pos (kw.getD []) with
    | error e =>
      simp only []
      intro hh
      injection hh with hh
      subst hh
      unfold parseArgs at hparse
      split at hparse
      · cases hparse
      · split at hparse
        · rename_i e' he
          injection hparse with hparse
          subst hparse
          exact parseItems_no_systemError ps false false pos (kw.getD []) he
        · split at hparse <;> cases hparse
    | ok slots =>
      simp only []
      split
      · unfold switchCall
        split <;> simp
      · simp

/-- every outcome of a generated wrapper is a call of the library, `TypeError` or `ValueError`. -/
theorem wrapper_outcome (ps : List Param) (pos : List Val) (kw : Option (List (Nat × Val))) :
    (∃ r, wrapper .kwds ps pos kw = .ok r) ∨ wrapper .kwds ps pos kw = .exc .typeError ∨
      wrapper .kwds ps pos kw = .exc .valueError := by
  have h := wrapper_never_systemError ps pos kw
  cases hw : wrapper .kwds ps pos kw with
  | ok r => exact Or.inl ⟨r, rfl⟩
  | exc e =>
    cases e with
    | typeError => exact Or.inr (Or.inl rfl)
    | valueError => exact Or.inr (Or.inr rfl)
    | systemError => exact absurd hw h

/-- a wrongly typed argument (positional or keyword) makes the wrapper raise `TypeError`; the library is
not called. -/
theorem wrapper_badtype_typeError (ps : List Param) (pos : List Val) (kw : Option (List (Nat × Val)))
    (hbad : badSupplied (visible ps) pos (kw.getD []) = true) :
    wrapper .kwds ps pos kw = .exc .typeError := by
  unfold wrapper
  have hc : ∃ n, (if hasDefaultArg ps = true then countArgs .kwds pos kw else Except.ok 0) = .ok n := by
    cases hasDefaultArg ps <;> cases kw <;> simp [countArgs]
  obtain ⟨n, hn⟩ := hc
  rw [hn]
  simp only []
  have hp : parseArgs (fmtItems false ps) (kwlist ps) pos (kw.getD []) = .error .typeError := by
    unfold parseArgs
    split
    · rfl
    · rw [parseItems_bad ps false false pos (kw.getD []) hbad]
  rw [hp]

/-- non-vacuity: `f(1, j="x")` (tag 1 is not accepted by unit `i`). -/
example : badSupplied (visible exF) [iv 1] [(2, { tag := 1, id := 0 })] = true := by decide

/-- more arguments than parameters: `TypeError`. -/
theorem wrapper_too_many_typeError (ps : List Param) (pos : List Val) (kw : List (Nat × Val))
    (h : pos.length + kw.length > (visible ps).length) :
    wrapper .kwds ps pos (some kw) = .exc .typeError := by
  unfold wrapper
  have hc : ∃ n, (if hasDefaultArg ps = true then countArgs .kwds pos (some kw) else Except.ok 0) = .ok n := by
    cases hasDefaultArg ps <;> simp [countArgs]
  obtain ⟨n, hn⟩ := hc
  rw [hn]
  have hl : (kwlist ps).length = (visible ps).length := by simp [kwlist]
  simp [parseArgs, hl, h]

example : 4 > (visible exF).length := by decide

/-- a keyword that is no parameter name, or names a parameter already given positionally: `TypeError`. -/
theorem wrapper_unknown_kw_typeError (ps : List Param) (pos : List Val) (kw : List (Nat × Val))
    (h : kwAllKnown (kwlist ps) pos.length kw = false) :
    wrapper .kwds ps pos (some kw) = .exc .typeError ∨ wrapper .kwds ps pos (some kw) = .exc .valueError := by
  have hne : ∀ r, wrapper .kwds ps pos (some kw) ≠ .ok r := by
    intro r
    unfold wrapper
    have hc : ∃ n, (if hasDefaultArg ps = true then countArgs .kwds pos (some kw) else Except.ok 0) = .ok n := by
      cases hasDefaultArg ps <;> simp [countArgs]
    obtain ⟨n, hn⟩ := hc
    rw [hn]
    simp only [Option.getD_some]
    have hp : ∀ s, parseArgs (fmtItems false ps) (kwlist ps) pos kw ≠ .ok s := by
      intro s
      unfold parseArgs
      split
      · simp
      · split
        · simp
        · simp [h]
    cases hparse : parseArgs (fmtItems false ps) (kwlist ps) pos kw with
    | error e => simp
    | ok s => exact absurd hparse (hp s)
  rcases wrapper_outcome ps pos (some kw) with ⟨r, hr⟩ | h1 | h2
  · exact absurd hr (hne r)
  · exact Or.inl h1
  · exact Or.inr h2

example : kwAllKnown (kwlist exF) 1 [(1, iv 5)] = false := by decide

/-- **The unfixed code** (`PyDict_Size(args)`): any call that carries a keyword dictionary ends in
`SystemError`.  This is the configuration the `fix:` commit removed; the tie checks on every run that the
emitted operand is `kwds`. -/
theorem pydict_size_args_systemError (ps : List Param) (pos : List Val) (kw : List (Nat × Val))
    (h : hasDefaultArg ps = true) :
    wrapper .args ps pos (some kw) = .exc .systemError := by
  simp [wrapper, h, countArgs]

example : hasDefaultArg exF = true ∧ wrapper .args exF [iv 1, iv 2] (some [(3, iv 3)]) = .exc .systemError := by
  decide

/-! ### overload dispatch -/

/-- whatever `multi_dispatch` answers comes from an overload whose arity window contains the argument count
and is that overload's own answer; with no answering overload the result is `TypeError`. -/
theorem dispatchFrom_sound (n : Nat) (run : List Param → Outcome) :
    ∀ (ovs : List (List Param)) (i : Nat) (who : Option Nat) (o : Outcome),
    dispatchFrom n run i ovs = (who, o) →
    (who = none ∧ o = .exc .typeError) ∨
    (∃ k ps, who = some (i + k) ∧ ovs[k]? = some ps ∧ (window ps).1 ≤ n ∧ n ≤ (window ps).2 ∧ run ps = o ∧
      o ≠ .exc .typeError ∧
      ∀ j qs, j < k → ovs[j]? = some qs → (window qs).1 ≤ n → n ≤ (window qs).2 → run qs = .exc .typeError) := by
  intro ovs
  induction ovs with
  | nil =>
    intro i who o h
    simp only [dispatchFrom] at h
    injection h with h1 h2
    exact Or.inl ⟨h1.symm, h2.symm⟩
  | cons ps rest ih =>
    intro i who o h
    simp only [dispatchFrom] at h
    by_cases hw : ((window ps).1 ≤ n && n ≤ (window ps).2) = true
    · have hw' := hw
      simp only [Bool.and_eq_true, decide_eq_true_eq] at hw'
      simp only [hw, if_true] at h
      cases hr : run ps with
      | ok r =>
        rw [hr] at h
        injection h with h1 h2
        refine Or.inr ⟨0, ps, by simpa using h1.symm, by simp, hw'.1, hw'.2, by rw [hr]; exact h2, ?_, ?_⟩
        · rw [← h2]; simp
        · intro j qs hj; omega
      | exc e =>
        rw [hr] at h
        cases e with
        | typeError =>
          simp only [] at h
          rcases ih (i + 1) who o h with hnone | ⟨k, qs, h1, h2, h3, h4, h5, h6, h7⟩
          · exact Or.inl hnone
          · refine Or.inr ⟨k + 1, qs, by rw [h1]; congr 1; omega, by simpa using h2, h3, h4, h5, h6, ?_⟩
            intro j rs hj hrs hl hu
            cases j with
            | zero =>
              simp only [List.getElem?_cons_zero, Option.some.injEq] at hrs
              rw [← hrs]
              exact hr
            | succ j => exact h7 j rs (by omega) (by simpa using hrs) hl hu
        | valueError =>
          injection h with h1 h2
          refine Or.inr ⟨0, ps, by simpa using h1.symm, by simp, hw'.1, hw'.2, by rw [hr]; exact h2, ?_, ?_⟩
          · rw [← h2]; simp
          · intro j qs hj; omega
        | systemError =>
          injection h with h1 h2
          refine Or.inr ⟨0, ps, by simpa using h1.symm, by simp, hw'.1, hw'.2, by rw [hr]; exact h2, ?_, ?_⟩
          · rw [← h2]; simp
          · intro j qs hj; omega
    · have hw' : ((window ps).1 ≤ n && n ≤ (window ps).2) = false := by simpa using hw
      simp only [hw', Bool.false_eq_true, if_false] at h
      rcases ih (i + 1) who o h with hnone | ⟨k, qs, h1, h2, h3, h4, h5, h6, h7⟩
      · exact Or.inl hnone
      · refine Or.inr ⟨k + 1, qs, by rw [h1]; congr 1; omega, by simpa using h2, h3, h4, h5, h6, ?_⟩
        intro j rs hj hrs hl hu
        cases j with
        | zero =>
          simp only [List.getElem?_cons_zero, Option.some.injEq] at hrs
          rw [← hrs] at hl hu
          simp [hl, hu] at hw'
        | succ j => exact h7 j rs (by omega) (by simpa using hrs) hl hu

/-- a call that matches no overload (every overload is out of its arity window or rejects the arguments
with `TypeError`) ends in `TypeError`. -/
theorem dispatch_no_match_typeError (src : CountSrc) (ovs : List (List Param)) (pos : List Val)
    (kw : List (Nat × Val))
    (hno : ∀ ps ∈ ovs, wrapper .kwds ps pos (some kw) = .exc .typeError ∨
        ¬ ((window ps).1 ≤ pos.length + kw.length ∧ pos.length + kw.length ≤ (window ps).2))
    (hsrc : src = .kwds) :
    (multiDispatch src ovs pos (some kw)).2 = .exc .typeError := by
  subst hsrc
  unfold multiDispatch
  simp only [countArgs]
  cases hd : dispatchFrom (pos.length + kw.length) (fun ps => wrapper .kwds ps pos (some kw)) 0 ovs with
  | mk who o =>
    rcases dispatchFrom_sound _ _ ovs 0 who o hd with ⟨_, ho⟩ | ⟨k, ps, _, hk, hl, hu, hrun, hne, _⟩
    · exact ho
    · have hmem : ps ∈ ovs := List.mem_of_getElem? hk
      rcases hno ps hmem with h1 | h2
      · replace hrun : wrapper .kwds ps pos (some kw) = o := hrun
        rw [h1] at hrun
        exact absurd hrun.symm hne
      · exact absurd ⟨hl, hu⟩ h2

/-- the overload set `g(int)`, `g(double)`, `g(int,int)` and the call `g("x")`. -/
def exG : List (List Param) :=
  [ [ { name := 1, intent := .in_, hasDefault := false, implied := false, hidden := false, unit := exUnit } ],
    [ { name := 4, intent := .in_, hasDefault := false, implied := false, hidden := false,
        unit := { text := [100], accepts := [0, 2] } } ],
    [ { name := 1, intent := .in_, hasDefault := false, implied := false, hidden := false, unit := exUnit },
      { name := 2, intent := .in_, hasDefault := false, implied := false, hidden := false, unit := exUnit } ] ]

example : (∀ ps ∈ exG, wrapper .kwds ps [{ tag := 1, id := 0 }] (some []) = .exc .typeError ∨
        ¬ ((window ps).1 ≤ 1 + 0 ∧ 1 + 0 ≤ (window ps).2)) ∧
    multiDispatch .kwds exG [{ tag := 1, id := 0 }] (some []) = (none, .exc .typeError) ∧
    multiDispatch .kwds exG [{ tag := 2, id := 7 }] (some []) = (some 1, .ok [.val { tag := 2, id := 7 }]) := by
  decide

/-- overload dispatch never ends in `SystemError`. -/
theorem dispatch_never_systemError (ovs : List (List Param)) (pos : List Val) (kw : Option (List (Nat × Val))) :
    (multiDispatch .kwds ovs pos kw).2 ≠ .exc .systemError := by
  unfold multiDispatch
  cases hc : countArgs .kwds pos kw with
  | error e => cases kw <;> simp [countArgs] at hc
  | ok n =>
    simp only []
    cases hd : dispatchFrom n (fun ps => wrapper .kwds ps pos kw) 0 ovs with
    | mk who o =>
      rcases dispatchFrom_sound _ _ ovs 0 who o hd with ⟨_, ho⟩ | ⟨k, ps, _, _, _, _, hrun, _, _⟩
      · simp [ho]
      · replace hrun : wrapper .kwds ps pos kw = o := hrun
        rw [← hrun]
        exact wrapper_never_systemError ps pos kw

/-- with `PyDict_Size(args)` every keyword call of an overloaded name ended in `SystemError`. -/
theorem dispatch_pydict_size_args_systemError (ovs : List (List Param)) (pos : List Val) (kw : List (Nat × Val)) :
    multiDispatch .args ovs pos (some kw) = (none, .exc .systemError) := by
  simp [multiDispatch, countArgs]

/-! ## (3) shape of the returned object -/

/-- the returned items: the function result first, then every intent(out|inout) non-hidden parameter. -/
def outItems (ps : List Param) : List Item := (ps.filter Param.isOut).map (fun p => Item.outArg p.name)

theorem buildTuples_eq (k : Kind) (ps : List Param) :
    buildTuples k ps = (if k = .function then [Item.result] else []) ++ outItems ps := by
  unfold buildTuples outItems
  simp only [foldl_outs, List.nil_append]
  split <;> simp

/-- **Return shape.**  A constructor returns 0; otherwise nothing to return gives `None`, exactly one item
is returned as the object itself, several items as one tuple: the result first, then the intent(out|inout)
parameters in declaration order. -/
theorem return_shape (k : Kind) (ps : List Param) :
    returnShape k ps =
      (if k = .ctor then PyRet.zero
       else shapeOf ((if k = .function then [Item.result] else []) ++ outItems ps)) := by
  unfold returnShape
  rw [buildTuples_eq]

theorem shapeOf_cases (xs : List Item) :
    (xs = [] ∧ shapeOf xs = .none) ∨ (∃ x, xs = [x] ∧ shapeOf xs = .single x) ∨
      (2 ≤ xs.length ∧ shapeOf xs = .tuple xs) := by
  match xs with
  | [] => exact Or.inl ⟨rfl, rfl⟩
  | [x] => exact Or.inr (Or.inl ⟨x, rfl, rfl⟩)
  | x :: y :: r => exact Or.inr (Or.inr ⟨by simp, rfl⟩)

theorem return_none_iff (k : Kind) (ps : List Param) (hk : k ≠ .ctor) :
    returnShape k ps = .none ↔ (k = .subroutine ∧ ∀ p ∈ ps, p.isOut = false) := by
  rw [return_shape]
  simp only [hk, if_false]
  cases k with
  | ctor => exact absurd rfl hk
  | function =>
    simp only [if_true, List.cons_append, List.nil_append]
    cases outItems ps <;> simp [shapeOf]
  | subroutine =>
    have : outItems ps = [] ↔ ∀ p ∈ ps, p.isOut = false := by
      simp [outItems, List.filter_eq_nil_iff]
    simp only [reduceCtorEq, if_false, List.nil_append, true_and]
    rw [← this]
    cases outItems ps with
    | nil => simp [shapeOf]
    | cons x xs => cases xs <;> simp [shapeOf]

/-- a function with at least one returned parameter returns a tuple of length `1 + #out` whose first
element is the function result. -/
theorem return_function_tuple (ps : List Param) (h : outItems ps ≠ []) :
    returnShape .function ps = .tuple (.result :: outItems ps) := by
  rw [return_shape]
  simp only [reduceCtorEq, if_false, if_true, List.cons_append, List.nil_append]
  cases ho : outItems ps with
  | nil => exact absurd ho h
  | cons x xs => rfl

theorem return_function_single (ps : List Param) (h : outItems ps = []) :
    returnShape .function ps = .single .result := by
  rw [return_shape]
  simp [h, shapeOf]

/-- returned parameters keep their declaration order. -/
theorem outItems_order (ps : List Param) :
    List.Sublist ((ps.filter Param.isOut).map (·.name)) (ps.map (·.name)) :=
  List.Sublist.map _ List.filter_sublist

example : outItems [{ name := 1, intent := .in_, hasDefault := false, implied := false, hidden := false, unit := exUnit },
      { name := 2, intent := .out, hasDefault := false, implied := false, hidden := false, unit := exUnit },
      { name := 3, intent := .inout, hasDefault := false, implied := false, hidden := false, unit := exUnit }]
    = [.outArg 2, .outArg 3] := by decide

end Shroud.PyDispatch
