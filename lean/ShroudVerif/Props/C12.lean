import ShroudVerif.Lemmas.Splicer
import ShroudVerif.Props.C13
/-!
# C12  User splicer code is carried into the named blocks unchanged

Property theorems over `Model/Splicer.lean` (reader, stack, `_create_splicer`,
collection) composed with `Model/Lines.lean` (`write_lines`).  All statements
quantify over every dictionary, name, body, line length, indentation.
-/
namespace Shroud.Splicer
open Shroud.Lines

/-! ## (1) precedence and default retention -/

/-- **force wins.**  A declaration-level splicer (`force`) is the body whatever
    the splicer files / `splicer_code` and the default say. -/
theorem create_force (s : Stack) (name : Str) (dflt : Option (List Item)) (f : List Item) :
    selectBody s name dflt (some f) = .ok (f.map protectItem, true) := by
  simp [selectBody]

/-- **user beats default.**  Without `force`, a body the user supplied for this
    name at the current level is used, complete and in order; the default is
    not consulted. -/
theorem create_user (s : Stack) (name : Str) (dflt : Option (List Item)) (b : List Str)
    (htop : objAt s.d s.names = some .dict)
    (hu : s.d.lookup (s.names ++ [name]) = some (.leaf b)) :
    selectBody s name dflt none = .ok (b.map (fun l => Item.str (protect l)), true) := by
  simp [selectBody, htop, hu]

/-- **default retention.**  A block the user did not supply keeps the generated
    default (and reports `added_code = False` exactly when there is none). -/
theorem create_default (s : Stack) (name : Str) (dflt : Option (List Item))
    (htop : objAt s.d s.names = some .dict)
    (hu : s.d.lookup (s.names ++ [name]) = none) :
    selectBody s name dflt none = .ok (dflt.getD [], dflt.isSome) := by
  cases dflt <;> simp [selectBody, htop, hu]

/-- The marker lines enclose exactly the selected body; without
    `show_splicer_comments` the body is appended bare. -/
theorem create_markers (comment : Str) (s : Stack) (name : Str) (dflt force : Option (List Item))
    (body : List Item) (a : Bool) (h : selectBody s name dflt force = .ok (body, a)) :
    createSplicer true comment s name dflt force
      = .ok (Item.str (beginMarker comment s.names name) :: body
              ++ [Item.str (endMarker comment s.names name)], a)
    ∧ createSplicer false comment s name dflt force = .ok (body, a) := by
  simp [createSplicer, h]

/-- Entering a level never disturbs what the user supplied: every entry of the
    dictionary is still there after `_push_splicer` / `_update_splicer_top`,
    and `_pop_splicer` undoes `_push_splicer`. -/
theorem stack_preserves (s s' : Stack) (name : Str) (p : Path) (v : Val) (hv : s.d.lookup p = some v) :
    (push s name = .ok s' → s'.d.lookup p = some v ∧ s'.names = s.names ++ [name]
        ∧ pop s' = .ok ⟨s'.d, s.names⟩)
    ∧ (updateTop s name = .ok s' → s'.d.lookup p = some v ∧ s'.names = s.names.dropLast ++ [name])
    ∧ (pop s = .ok s' → s'.d = s.d) := by
  refine ⟨?_, ?_, ?_⟩
  · intro h
    unfold push at h
    split at h
    · simp only [Res.ok.injEq] at h
      subst h
      exact ⟨ensureDict_lookup _ _ _ _ hv, rfl, by simp [pop]⟩
    · simp at h
  · intro h
    unfold updateTop at h
    split at h
    · simp at h
    · simp only [Res.ok.injEq] at h
      subst h
      exact ⟨ensureDict_lookup _ _ _ _ hv, rfl⟩
  · intro h
    unfold pop at h
    split at h
    · simp at h
    · simp only [Res.ok.injEq] at h
      subst h; rfl

/-- **precedence of the sources** (`main_with_args`, one language): all files
    (command line first, then YAML `splicer:`) are read into one dictionary;
    the language's `splicer_code` entry is then merged into it entry by entry.
    Declaration-level splicers are `force` (`create_force`). -/
theorem collect_precedence (cmd yaml : List (List Str)) (d : Dict)
    (h : readAll [] (cmd ++ yaml) = .ok d) :
    collectSplicers cmd yaml none = .ok d
    ∧ ∀ c, collectSplicers cmd yaml (some c) = .ok (mergeCode d c) := by
  simp [collectSplicers, h]

/-- **file blocks survive `splicer_code`.**  Whatever the files supplied under a
    path `p` is still there after the merge unless `splicer_code` holds a body
    at `p` or above it, or makes `p` itself a level.  (Before the `fix:` commit
    every file-supplied block of the language was dropped.) -/
theorem file_blocks_survive (d c : Dict) (p : Path) (h : ∀ e ∈ c, Spares p e) :
    (mergeCode d c).lookup p = d.lookup p :=
  mergeCode_spares c d p h

/-- **`splicer_code` beats files, per block name.**  A body given in
    `splicer_code` for `p` is what is found under `p` after the merge, whatever
    the files said (for the entries of one YAML mapping the condition on the
    later entries always holds: paths are distinct and nothing hangs below a
    body). -/
theorem code_beats_files (d c1 c2 : Dict) (p : Path) (b : List Str)
    (h2 : ∀ e ∈ c2, Spares p e) :
    (mergeCode d (c1 ++ (p, .leaf b) :: c2)).lookup p = some (.leaf b) := by
  have : mergeCode d (c1 ++ (p, .leaf b) :: c2)
      = mergeCode (setLeaf (mergeCode d c1) p b) c2 := by
    simp [mergeCode, List.foldl_append, mergeEntry]
  rw [this, mergeCode_spares c2 _ p h2]
  exact lookup_setLeaf_self _ _ _

example :
    mergeCode [(["function".toList], .dict), (["function".toList, "foo".toList], .leaf ["file foo".toList]),
               (["function".toList, "bar".toList], .leaf ["file bar".toList])]
              [(["function".toList], .dict), (["function".toList, "bar".toList], .leaf ["code bar".toList]),
               (["module_top".toList], .leaf ["code top".toList])]
      = [(["function".toList], .dict), (["function".toList, "foo".toList], .leaf ["file foo".toList]),
         (["function".toList, "bar".toList], .leaf ["code bar".toList]),
         (["module_top".toList], .leaf ["code top".toList])] := by decide

/-! ## (2) carriage through `write_lines` -/

/-- Lines that are carried untouched.  Exactly what the code still forces after
    user lines are protected (`protect`): no embedded newline; either a `#` line
    (written verbatim in column one) or a line that does not start with CR and
    holds no TAB / FF.  Lines starting with `@ ^ + -` or ending in `+` are clean
    (before the `fix:` commit they were not).  The empty line is clean. -/
def Clean (l : Str) : Bool :=
  match l with
  | [] => true
  | c :: _ =>
    l.all (fun x => x != '\n') &&
    (c == '#' || (c != CR && l.all (fun x => x != TAB && x != FF)))

/-- Lines `write_lines` passes through without any protection (marker lines and
    generated text are appended raw): clean and not in need of `protect`. -/
def Plain (l : Str) : Bool := Clean l && decide (protect l = l)

/-- What is written for a clean line at indentation depth `i`. -/
def emitLine (spaces : Str) (i : Int) (l : Str) : Str :=
  match l with
  | [] => []
  | c :: _ => if c = '#' then l else nspaces spaces i ++ l

/-- "equal up to leading indentation and trailing blanks" -/
def core (l : Str) : Str := rstrip (lstrip l)

private theorem wc_single (linelen : Nat) (spaces cont : Str) (i : Int) (c : Char) (cs : Str)
    (hcr : c ≠ CR) (hnh : ∀ x ∈ c :: cs, x ≠ TAB ∧ x ≠ FF) :
    render cont (wcBodies { linelen, indent := i, spaces } (c :: cs)) = [nspaces spaces i ++ c :: cs] := by
  have hcrs : crSplit (c :: cs) = (1, c :: cs) := by simp [crSplit, hcr]
  simp only [wcBodies, hcrs, splitParts_noHint (c :: cs) [] hnh]
  simp [flush, fill, render]

theorem carriage_line (linelen : Nat) (spaces cont : Str) (i : Int) (l : Str) (h : Clean l = true) :
    subline linelen spaces cont i (protect l) = .ok ⟨[emitLine spaces i l], i⟩ := by
  cases l with
  | nil => simp [subline, emitLine, protect]
  | cons c cs =>
    by_cases hc : c = '#'
    · subst hc; simp [subline, emitLine, protect]
    · simp only [Clean, List.all_eq_true, Bool.and_eq_true, Bool.or_eq_true, beq_iff_eq, hc, false_or,
        bne_iff_ne, ne_eq] at h
      obtain ⟨_, h6, h8⟩ := h
      have hnh : ∀ x ∈ c :: cs, x ≠ TAB ∧ x ≠ FF := by
        intro x hx
        have := h8 x hx
        simpa using this
      have hw := wc_single linelen spaces cont i c cs h6 hnh
      by_cases hp : c = '@' ∨ c = '^' ∨ c = '+' ∨ c = '-' ∨ (c :: cs).getLast? = some '+'
      · have : protect (c :: cs) = '@' :: c :: cs := by simp [protect, hc, hp]
        rw [this, wl_literal_line, hw]
        simp [emitLine, hc]
      · have : protect (c :: cs) = c :: cs := by simp [protect, hp]
        simp only [not_or] at hp
        obtain ⟨p1, p2, p3, p4, p5⟩ := hp
        rw [this, wl_plain_line linelen spaces cont i c cs hc p1 p2 p3 p4 p5, hw]
        simp [emitLine, hc]

theorem protect_noNL (l : Str) (h : ∀ c ∈ l, c ≠ '\n') : ∀ c ∈ protect l, c ≠ '\n' := by
  cases l with
  | nil => simp [protect]
  | cons a as =>
    simp only [protect]
    split
    · intro c hc
      simp only [List.mem_cons] at hc
      rcases hc with rfl | hc
      · decide
      · exact h c (by simpa using hc)
    · exact h

/-- **carriage.**  A body of clean lines, protected as `_create_splicer` does,
    comes out of `write_lines` complete, in order, one physical line per body
    line, each being its indentation followed by the line itself (no character
    altered, also a leading `@ ^ + -` and a trailing `+`), and the indentation
    state is unchanged -- for every line length. -/
theorem carriage (linelen : Nat) (spaces cont : Str) (body : List Str) (i : Int)
    (h : ∀ l ∈ body, Clean l = true) :
    writeLines linelen spaces cont i (body.map (fun l => Item.str (protect l)))
      = .ok ⟨body.map (emitLine spaces i), i⟩ := by
  induction body with
  | nil => simp [writeLines]
  | cons l ls ih =>
    have hl := h l (by simp)
    have hnl : ∀ c ∈ l, c ≠ '\n' := by
      cases l with
      | nil => simp
      | cons c cs =>
        simp only [Clean, Bool.and_eq_true, List.all_eq_true, bne_iff_ne, ne_eq] at hl
        exact hl.1
    simp only [List.map_cons, writeLines, splitNL_noNL (protect l) [] (protect_noNL l hnl), List.nil_append,
      sublines, carriage_line linelen spaces cont i l hl, ih (fun x hx => h x (by simp [hx]))]
    simp

/-- Each emitted line equals the user's line up to leading indentation and
    trailing blanks (in fact nothing but indentation is added). -/
theorem emitLine_core (spaces : Str) (i : Int) (l : Str) (hsp : ∀ c ∈ spaces, isPySpace c = true) :
    core (emitLine spaces i l) = core l := by
  cases l with
  | nil => rfl
  | cons c cs =>
    simp only [emitLine]
    split
    · rfl
    · simp only [core, lstrip]
      rw [List.dropWhile_append_of_pos]
      intro a ha
      simp only [nspaces, List.mem_flatten, List.mem_replicate] at ha
      obtain ⟨x, ⟨_, rfl⟩, hx⟩ := ha
      exact hsp a hx

private theorem block_lines (linelen : Nat) (spaces cont : Str) (i : Int) (m m' : Str) (body : List Str)
    (hbody : ∀ l ∈ body, Clean l = true) (hb : Plain m = true) (he : Plain m' = true) :
    writeLines linelen spaces cont i
        (Item.str m :: body.map (fun l => Item.str (protect l)) ++ [Item.str m'])
      = .ok ⟨emitLine spaces i m :: body.map (emitLine spaces i) ++ [emitLine spaces i m'], i⟩ := by
  simp only [Plain, Bool.and_eq_true, decide_eq_true_eq] at hb he
  have hall : ∀ l ∈ m :: body ++ [m'], Clean l = true := by
    intro l hl
    simp only [List.cons_append, List.mem_cons, List.mem_append, List.not_mem_nil, or_false] at hl
    rcases hl with rfl | hl | rfl
    · exact hb.1
    · exact hbody l hl
    · exact he.1
  have := carriage linelen spaces cont _ i hall
  simpa [hb.2, he.2] using this

/-- **block carriage** (`_create_splicer` + `write_lines`): with marker comments
    on, a user-supplied clean body appears between the two marker lines,
    complete and in order, each line indented and otherwise unchanged, replacing
    the default; the indentation state after the block is what it was before. -/
theorem block_carriage (linelen : Nat) (spaces cont comment : Str) (i : Int) (s : Stack) (name : Str)
    (dflt : Option (List Item)) (body : List Str)
    (htop : objAt s.d s.names = some .dict)
    (hu : s.d.lookup (s.names ++ [name]) = some (.leaf body))
    (hbody : ∀ l ∈ body, Clean l = true)
    (hb : Plain (beginMarker comment s.names name) = true)
    (he : Plain (endMarker comment s.names name) = true) :
    ∃ out, createSplicer true comment s name dflt none = .ok (out, true) ∧
      writeLines linelen spaces cont i out
        = .ok ⟨emitLine spaces i (beginMarker comment s.names name)
                :: body.map (emitLine spaces i)
                ++ [emitLine spaces i (endMarker comment s.names name)], i⟩ := by
  have hsel := create_user s name dflt body htop hu
  exact ⟨_, (create_markers comment s name dflt none _ _ hsel).1,
    block_lines linelen spaces cont i _ _ body hbody hb he⟩

/-- Same for a declaration-level (`force`) body. -/
theorem block_carriage_force (linelen : Nat) (spaces cont comment : Str) (i : Int) (s : Stack) (name : Str)
    (dflt : Option (List Item)) (body : List Str)
    (hbody : ∀ l ∈ body, Clean l = true)
    (hb : Plain (beginMarker comment s.names name) = true)
    (he : Plain (endMarker comment s.names name) = true) :
    ∃ out, createSplicer true comment s name dflt (some (body.map Item.str)) = .ok (out, true) ∧
      writeLines linelen spaces cont i out
        = .ok ⟨emitLine spaces i (beginMarker comment s.names name)
                :: body.map (emitLine spaces i)
                ++ [emitLine spaces i (endMarker comment s.names name)], i⟩ := by
  refine ⟨_, (create_markers comment s name dflt _ _ _ (create_force s name dflt _)).1, ?_⟩
  have := block_lines linelen spaces cont i _ _ body hbody hb he
  have hm : List.map (protectItem ∘ Item.str) body = List.map (fun l => Item.str (protect l)) body :=
    List.map_congr_left (fun _ _ => rfl)
  simpa [hm] using this

/-! ### what `protect` is for, and what remains excluded

`write_lines` itself (depth 1, `linelen` 72, four-space unit) reads a trailing
`+` and a leading `@ ^ + -` as directives; protected user lines are carried.
TAB, FF, a leading CR and an embedded newline are still interpreted: one
witness per remaining excluded class (TAB and FF are open known findings). -/

private def sp4 : Str := "    ".toList
private def amp : Str := "&".toList

/-- raw, a line ending in `+` loses it and indents what follows; protected it is carried -/
theorem witness_trailing_plus :
    subline 72 sp4 amp 1 "i = i +".toList = .ok ⟨["    i = i ".toList], 2⟩ ∧
    Clean "i = i +".toList = true ∧
    subline 72 sp4 amp 1 (protect "i = i +".toList) = .ok ⟨["    i = i +".toList], 1⟩ := by decide

/-- raw column-one directives, and the same lines protected -/
theorem witness_column_one :
    subline 72 sp4 amp 1 "@x".toList = .ok ⟨["    x".toList], 1⟩ ∧
    subline 72 sp4 amp 1 "^x".toList = .ok ⟨["x".toList], 1⟩ ∧
    subline 72 sp4 amp 1 "+x".toList = .ok ⟨["        x".toList], 2⟩ ∧
    subline 72 sp4 amp 1 "-x".toList = .ok ⟨["x".toList], 0⟩ ∧
    subline 72 sp4 amp 1 (protect "@x".toList) = .ok ⟨["    @x".toList], 1⟩ ∧
    subline 72 sp4 amp 1 (protect "^x".toList) = .ok ⟨["    ^x".toList], 1⟩ ∧
    subline 72 sp4 amp 1 (protect "+x".toList) = .ok ⟨["    +x".toList], 1⟩ ∧
    subline 72 sp4 amp 1 (protect "-x".toList) = .ok ⟨["    -x".toList], 1⟩ := by decide

/-- an interior TAB is consumed, also in a protected line -/
theorem witness_tab :
    Clean "a\tb".toList = false ∧
    subline 72 sp4 amp 1 (protect "a\tb".toList) = .ok ⟨["    ab".toList], 1⟩ := by decide

/-- an interior FF is consumed and forces a continuation line -/
theorem witness_ff :
    Clean ['a', FF, 'b'] = false ∧
    subline 72 sp4 amp 1 (protect ['a', FF, 'b']) = .ok ⟨["    a&".toList, "        b".toList], 1⟩ := by decide

/-- a leading CR is consumed (it doubles the continuation indent) -/
theorem witness_cr :
    Clean [CR, 'x'] = false ∧ subline 72 sp4 amp 1 (protect [CR, 'x']) = .ok ⟨["    x".toList], 1⟩ := by decide

theorem witness_newline :
    Clean "a\nb".toList = false ∧
    writeLines 72 sp4 amp 1 [.str (protect "a\nb".toList)] = .ok ⟨["    a".toList, "    b".toList], 1⟩ := by decide

/-- hence the statement of `carriage_line` for *all* lines is false -/
theorem carriage_unrestricted_false :
    ¬ ∀ l : Str, subline 72 sp4 amp 1 (protect l) = .ok ⟨[emitLine sp4 1 l], 1⟩ := by
  intro h
  have := h "a\tb".toList
  revert this
  decide

/-! ## (4) text outside markers is ignored -/

/-- Lines that hold no begin marker (an occurrence in column one is not a
    marker) change nothing while the reader is outside a block. -/
theorem outside_ignored (d : Dict) (junk rest : List Str)
    (h : ∀ l ∈ junk, markerPos strBegin l = none) :
    run d .look (junk ++ rest) = run d .look rest := by
  induction junk with
  | nil => rfl
  | cons l ls ih =>
    have hl := h l (by simp)
    simp only [List.cons_append, run, step, hl]
    exact ih (fun x hx => h x (by simp [hx]))

theorem outside_ignored_tail (d : Dict) (junk : List Str)
    (h : ∀ l ∈ junk, markerPos strBegin l = none) :
    getSplicers junk d = .ok d := by
  have := outside_ignored d junk [] h
  simpa [getSplicers, run] using this

/-! ## (3) the reader consumes a block into one insertion; round trip -/

/-- What one well-formed block does to the dictionary. -/
def insertBlock (d : Dict) (tag : Str) (save : List Str) : Res Dict :=
  match descend d [] (splitOn '.' tag).dropLast with
  | .crash e => .crash e
  | .ok (d', top) => closeBlock d' tag ((splitOn '.' tag).getLast?.getD []) top save tag

theorem collect_body (d : Dict) (tag sub : Str) (top : Path) (body rest : List Str) :
    ∀ save, (∀ l ∈ body, markerPos strEnd l = none) →
      run d (.collect tag sub top save) (body ++ rest)
        = run d (.collect tag sub top (save ++ body.map rstrip)) rest := by
  induction body with
  | nil => intro save _; simp
  | cons l ls ih =>
    intro save h
    have hl := h l (by simp)
    simp only [List.cons_append, run, step, hl]
    rw [ih _ (fun x hx => h x (by simp [hx]))]
    simp

/-- **block step.**  A begin line naming `tag`, body lines without end marker,
    an end line naming `tag`: the reader performs exactly one insertion of the
    right-stripped body lines, complete and in order, and continues outside. -/
theorem run_block (d : Dict) (bl el tag : Str) (body rest : List Str) (i j : Nat)
    (hb : markerPos strBegin bl = some i)
    (hbf : firstField (bl.drop (i + strBegin.length)) = some tag)
    (hbody : ∀ l ∈ body, markerPos strEnd l = none)
    (he : markerPos strEnd el = some j)
    (hef : firstField (el.drop (j + strEnd.length)) = some tag) :
    run d .look (bl :: body ++ el :: rest)
      = match insertBlock d tag (body.map rstrip) with
        | .crash e => .crash e
        | .ok d' => run d' .look rest := by
  simp only [List.cons_append, run, step, hb, hbf, openBlock, insertBlock]
  cases hdesc : descend d [] (splitOn '.' tag).dropLast with
  | crash e => simp
  | ok r =>
    obtain ⟨d', top⟩ := r
    simp only
    rw [collect_body d' tag _ top body (el :: rest) [] hbody]
    simp only [List.nil_append, run, step, he, hef]
    cases closeBlock d' tag ((splitOn '.' tag).getLast?.getD []) top (body.map rstrip) tag <;> simp

theorem splitOn_ne_nil (sep : Char) (s : Str) : splitOn sep s ≠ [] := by
  induction s with
  | nil => simp [splitOn]
  | cons c cs ih =>
    simp only [splitOn]
    split
    · simp
    · split <;> simp

/-- If the insertion succeeds, the body is then found under the dotted path. -/
theorem insertBlock_self (d d2 : Dict) (tag : Str) (save : List Str)
    (h : insertBlock d tag save = .ok d2) :
    d2.lookup (splitOn '.' tag) = some (.leaf save) := by
  unfold insertBlock at h
  cases hdesc : descend d [] (splitOn '.' tag).dropLast with
  | crash e => simp [hdesc] at h
  | ok r =>
    obtain ⟨d', top⟩ := r
    simp only [hdesc] at h
    obtain ⟨htop, _⟩ := descend_spec _ _ _ _ _ hdesc
    have hpath : top ++ [(splitOn '.' tag).getLast?.getD []] = splitOn '.' tag := by
      have hne := splitOn_ne_nil '.' tag
      rw [htop, List.nil_append, List.getLast?_eq_some_getLast hne]
      simpa using List.dropLast_concat_getLast hne
    unfold closeBlock at h
    simp only [ne_eq, not_true_eq_false, if_false] at h
    split at h
    · split at h <;> simp at h
    · split at h
      · simp at h
      · simp only [Res.ok.injEq] at h
        subst h
        rw [hpath]
        exact lookup_setLeaf_self _ _ _

/-- ... and every body stored before under a path the new one is not a prefix
    of is still there (no block disturbs another). -/
theorem insertBlock_other (d d2 : Dict) (tag : Str) (save : List Str) (p : Path) (v : Val)
    (h : insertBlock d tag save = .ok d2)
    (hp : (splitOn '.' tag).isPrefixOf p = false)
    (hv : d.lookup p = some v) :
    d2.lookup p = some v := by
  unfold insertBlock at h
  cases hdesc : descend d [] (splitOn '.' tag).dropLast with
  | crash e => simp [hdesc] at h
  | ok r =>
    obtain ⟨d', top⟩ := r
    simp only [hdesc] at h
    obtain ⟨htop, hkeep⟩ := descend_spec _ _ _ _ _ hdesc
    have hpath : top ++ [(splitOn '.' tag).getLast?.getD []] = splitOn '.' tag := by
      have hne := splitOn_ne_nil '.' tag
      rw [htop, List.nil_append, List.getLast?_eq_some_getLast hne]
      simpa using List.dropLast_concat_getLast hne
    unfold closeBlock at h
    simp only [ne_eq, not_true_eq_false, if_false] at h
    split at h
    · split at h <;> simp at h
    · split at h
      · simp at h
      · simp only [Res.ok.injEq] at h
        subst h
        rw [hpath, lookup_setLeaf_other _ _ _ _ hp]
        exact hkeep p v hv

/-- A marker line as `_create_splicer` + `write_lines` produce it (any prefix
    without the letter `s` -- indentation and comment characters --, the marker
    word, a blank, a tag without blanks, then nothing or white space) is
    recognised, with that tag. -/
theorem marker_recognised (word : Str) (p : Char) (ps : Str) (hw : word = p :: ps)
    (pre tag post : Str) (hpre : pre ≠ []) (hs : ∀ c ∈ pre, c ≠ p)
    (htag : tag ≠ []) (hns : ∀ c ∈ tag, isPySpace c = false)
    (hpost : ∀ c, post.head? = some c → isPySpace c = true) :
    markerPos word (pre ++ word ++ (' ' :: tag ++ post)) = some pre.length ∧
    firstField ((pre ++ word ++ (' ' :: tag ++ post)).drop (pre.length + word.length)) = some tag := by
  subst hw
  constructor
  · unfold markerPos
    rw [findSub_skip p ps pre _ hs 0]
    cases pre with
    | nil => exact absurd rfl hpre
    | cons a as => simp
  · have : (pre ++ (p :: ps) ++ (' ' :: tag ++ post)).drop (pre.length + (p :: ps).length)
        = ' ' :: tag ++ post := by
      rw [← List.length_append]
      exact List.drop_left
    rw [this]
    exact firstField_tag tag post htag hns hpost

/-- A right-stripped clean line read back from the generated file (indentation
    in front, newline behind) is stored as it was written, is again clean, and
    holds no end marker if the user's line held none: regeneration is stable. -/
theorem readback_line (spaces : Str) (i : Int) (l : Str)
    (hsp : ∀ c ∈ spaces, c = ' ') (hclean : Clean l = true) (hr : rstrip l = l)
    (hnoend : findSub strEnd l 0 = none) :
    rstrip (emitLine spaces i l ++ ['\n']) = emitLine spaces i l
    ∧ Clean (emitLine spaces i l) = true
    ∧ markerPos strEnd (emitLine spaces i l ++ ['\n']) = none := by
  have hnl : isPySpace '\n' = true := by decide
  have hind : ∀ c ∈ nspaces spaces i, c = ' ' := by
    intro c hc
    simp only [nspaces, List.mem_flatten, List.mem_replicate] at hc
    obtain ⟨x, ⟨_, rfl⟩, hx⟩ := hc
    exact hsp c hx
  have hfind : ∀ pre : Str, (∀ c ∈ pre, c = ' ') → markerPos strEnd (pre ++ l ++ ['\n']) = none := by
    intro pre hpre
    have h1 : findSub strEnd (pre ++ l) 0 = none :=
      findSub_none_prefix 's' "plicer end".toList pre l
        (fun c hc => by rw [hpre c hc]; decide) 0 hnoend
    have h2 := findSub_none_snoc '\n' strEnd (by decide) (by decide) (pre ++ l) 0 h1
    unfold markerPos
    rw [h2]
  cases l with
  | nil =>
    show rstrip ([] ++ ['\n']) = [] ∧ Clean [] = true ∧ markerPos strEnd ([] ++ ['\n']) = none
    exact ⟨by decide, by decide, by decide⟩
  | cons c cs =>
    -- the last character of a right-stripped non-empty line is not white space
    have hlast : ∃ init z, c :: cs = init ++ [z] ∧ isPySpace z = false := by
      refine ⟨(c :: cs).dropLast, (c :: cs).getLast (by simp), (List.dropLast_concat_getLast _).symm, ?_⟩
      cases hz : isPySpace ((c :: cs).getLast (by simp)) with
      | false => rfl
      | true =>
        exfalso
        have e := List.dropLast_concat_getLast (l := c :: cs) (by simp)
        rw [← e, rstrip_snoc_space _ _ hz] at hr
        have hlen := congrArg List.length hr
        have hle : (rstrip (c :: cs).dropLast).length ≤ (c :: cs).dropLast.length := by
          unfold rstrip
          rw [List.length_reverse]
          exact Nat.le_trans (List.dropWhile_suffix _).length_le (by simp)
        simp only [List.length_append, List.length_singleton] at hlen
        omega
    obtain ⟨init, z, hiz, hz⟩ := hlast
    by_cases hc : c = '#'
    · subst hc
      have e : emitLine spaces i ('#' :: cs) = '#' :: cs := by simp [emitLine]
      rw [e]
      refine ⟨?_, hclean, ?_⟩
      · rw [rstrip_snoc_space _ _ hnl]; exact hr
      · simpa using hfind [] (by simp)
    · have e : emitLine spaces i (c :: cs) = nspaces spaces i ++ c :: cs := by simp [emitLine, hc]
      rw [e]
      refine ⟨?_, ?_, ?_⟩
      · rw [rstrip_snoc_space _ _ hnl, hiz, ← List.append_assoc, rstrip_of_last_nonspace _ _ hz]
      · -- still clean: either unchanged or now starting with a blank
        cases hn : nspaces spaces i with
        | nil => simpa using hclean
        | cons a as =>
          have ha : a = ' ' := hind a (by simp [hn])
          have has : ∀ x ∈ as, x = ' ' := fun x hx => hind x (by simp [hn, hx])
          subst ha
          simp only [Clean, List.all_eq_true, Bool.and_eq_true, Bool.or_eq_true, beq_iff_eq, hc, false_or,
            bne_iff_ne, ne_eq] at hclean
          obtain ⟨g1, _, g8⟩ := hclean
          have hT : (' ' : Char) ≠ TAB := by decide
          have hF : (' ' : Char) ≠ FF := by decide
          simp only [List.cons_append, Clean, List.all_eq_true, Bool.and_eq_true, Bool.or_eq_true, beq_iff_eq,
            bne_iff_ne, ne_eq]
          refine ⟨?_, Or.inr ⟨by decide, ?_⟩⟩
          · intro x hx
            simp only [List.mem_cons, List.mem_append] at hx
            rcases hx with rfl | hx | hx
            · decide
            · rw [has x hx]; decide
            · exact g1 x (by simpa using hx)
          · intro x hx
            simp only [List.mem_cons, List.mem_append] at hx
            rcases hx with rfl | hx | hx
            · exact ⟨hT, hF⟩
            · rw [has x hx]; exact ⟨hT, hF⟩
            · exact g8 x (by simpa using hx)
      · have := hfind (nspaces spaces i) hind
        simpa using this

/-- **round trip of one block.**  The lines of a generated file that
    `block_carriage` describes (indented markers with a comment prefix free of
    the letter `s`, the emitted clean, right-stripped, end-marker-free body),
    each terminated by a newline, are read back by `get_splicers` as exactly one
    insertion of the emitted body under the same tag; by `insertBlock_self`
    that body is then stored under the dotted name, by `readback_line` it is
    clean again, and by `emitLine_core` it equals the user's body up to
    indentation -- so hand edits inside a block survive regeneration, any
    number of times.  Text between blocks is ignored (`outside_ignored`). -/
theorem roundtrip_block (spaces pre : Str) (i : Int) (tag : Str) (body rest : List Str) (d : Dict)
    (hsp : ∀ c ∈ spaces, c = ' ')
    (hpre : pre ≠ []) (hs : ∀ c ∈ pre, c ≠ 's')
    (htag : tag ≠ []) (hns : ∀ c ∈ tag, isPySpace c = false)
    (hclean : ∀ l ∈ body, Clean l = true) (hr : ∀ l ∈ body, rstrip l = l)
    (hnoend : ∀ l ∈ body, findSub strEnd l 0 = none) :
    run d .look
        ((pre ++ strBegin ++ (' ' :: tag ++ ['\n']))
          :: body.map (fun l => emitLine spaces i l ++ ['\n'])
          ++ (pre ++ strEnd ++ (' ' :: tag ++ ['\n'])) :: rest)
      = match insertBlock d tag (body.map (emitLine spaces i)) with
        | .crash e => .crash e
        | .ok d' => run d' .look rest := by
  have hnl : ∀ c, (['\n'] : Str).head? = some c → isPySpace c = true := by
    intro c hc; simp at hc; subst hc; decide
  obtain ⟨b1, b2⟩ := marker_recognised strBegin 's' "plicer begin".toList (by decide) pre tag ['\n']
    hpre hs htag hns hnl
  obtain ⟨e1, e2⟩ := marker_recognised strEnd 's' "plicer end".toList (by decide) pre tag ['\n']
    hpre hs htag hns hnl
  have hbody : ∀ l ∈ body.map (fun l => emitLine spaces i l ++ ['\n']), markerPos strEnd l = none := by
    intro l hl
    simp only [List.mem_map] at hl
    obtain ⟨x, hx, rfl⟩ := hl
    exact (readback_line spaces i x hsp (hclean x hx) (hr x hx) (hnoend x hx)).2.2
  rw [run_block d _ _ tag _ rest _ _ b1 b2 hbody e1 e2]
  have : (body.map (fun l => emitLine spaces i l ++ ['\n'])).map rstrip = body.map (emitLine spaces i) := by
    simp only [List.map_map]
    apply List.map_congr_left
    intro x hx
    exact (readback_line spaces i x hsp (hclean x hx) (hr x hx) (hnoend x hx)).1
  rw [this]

/-! ### success for incomparable names; the whole-file round trip -/

/-- The bodies stored in a dictionary, with their paths, in insertion order. -/
def leaves (d : Dict) : List (Path × List Str) :=
  d.filterMap (fun e => match e.2 with | .leaf b => some (e.1, b) | .dict => none)

/-- "up to leading indentation and trailing blanks", for a list of named bodies -/
def normalise (l : List (Path × List Str)) : List (Path × List Str) :=
  l.map (fun e => (e.1, e.2.map core))

/-- `q` is neither a prefix of nor prefixed by (nor equal to) any path in `S`. -/
def Incomp (q : Path) (S : List Path) : Prop :=
  ∀ s ∈ S, q.isPrefixOf s = false ∧ s.isPrefixOf q = false

/-- Everything in `d` lies on the way to a path in `S`, the bodies exactly at paths in `S`. -/
def Inv (d : Dict) (S : List Path) : Prop :=
  ∀ p v, d.lookup p = some v → (∃ s ∈ S, p.isPrefixOf s = true) ∧ (∀ b, v = .leaf b → p ∈ S)

theorem leaves_dicts (ex : Dict) (h : ∀ e ∈ ex, e.2 = .dict) : leaves ex = [] := by
  unfold leaves
  rw [List.filterMap_eq_nil_iff]
  intro e he
  simp [h e he]

/-- **the insertion succeeds** for a dotted name that is prefix-incomparable
    with (and distinct from) every name stored before: no crash, the earlier
    bodies stay, the new body is appended. -/
theorem insertBlock_ok (d : Dict) (S : List Path) (tag : Str) (save : List Str)
    (hinv : Inv d S) (hinc : Incomp (splitOn '.' tag) S) :
    ∃ d2, insertBlock d tag save = .ok d2 ∧ Inv d2 (splitOn '.' tag :: S) ∧
      leaves d2 = leaves d ++ [(splitOn '.' tag, save)] := by
  have hne := splitOn_ne_nil '.' tag
  generalize hq : splitOn '.' tag = q at hne hinc ⊢
  have hpath : q.dropLast ++ [q.getLast?.getD []] = q := by
    rw [List.getLast?_eq_some_getLast hne]
    simpa using List.dropLast_concat_getLast hne
  have hnoleaf : ∀ r b, r.isPrefixOf q = true → d.lookup r ≠ some (.leaf b) := by
    intro r b hr hl
    have hin := (hinv r _ hl).2 b rfl
    have := (hinc r hin).2
    simp [hr] at this
  have hdl : q.dropLast.isPrefixOf q = true := by
    rw [List.isPrefixOf_iff_prefix]; exact List.dropLast_prefix q
  obtain ⟨ex, hdesc, hex⟩ := descend_total q.dropLast d [] (Or.inl rfl) (by
    intro i _ b hb
    refine hnoleaf (q.dropLast.take i) b ?_ (by simpa using hb)
    rw [List.isPrefixOf_iff_prefix]
    exact (List.take_prefix i _).trans (List.dropLast_prefix q))
  simp only [List.nil_append] at hdesc hex
  have hexq : ∀ v, ex.lookup q ≠ some v := by
    intro v hv
    have hp := (hex _ (lookup_mem _ _ _ hv)).2
    rw [List.isPrefixOf_iff_prefix] at hp
    have hl := hp.length_le
    have : q.length ≠ 0 := by simpa using hne
    simp only [List.length_dropLast] at hl
    omega
  have hfree : (d ++ ex).lookup q = none := by
    cases hl : (d ++ ex).lookup q with
    | none => rfl
    | some v =>
      exfalso
      rcases lookup_append_cases _ _ _ _ hl with h1 | ⟨_, h2⟩
      · obtain ⟨s, hs, hps⟩ := (hinv q v h1).1
        have := (hinc s hs).1
        simp [hps] at this
      · exact hexq v h2
  have hobj : ∀ lines, objAt (d ++ ex) q.dropLast ≠ some (.leaf lines) := by
    intro lines h
    unfold objAt at h
    split at h
    · simp at h
    · rcases lookup_append_cases _ _ _ _ h with h1 | ⟨_, h2⟩
      · exact hnoleaf _ _ hdl h1
      · have := (hex _ (lookup_mem _ _ _ h2)).1
        simp at this
  refine ⟨(d ++ ex) ++ [(q, .leaf save)], ?_, ?_, ?_⟩
  · subst hq
    cases ho : objAt (d ++ ex) (splitOn '.' tag).dropLast with
    | none => simp [insertBlock, hdesc, closeBlock, ho, hpath, hfree, setLeaf]
    | some v =>
      cases v with
      | leaf lines => exact absurd ho (hobj lines)
      | dict => simp [insertBlock, hdesc, closeBlock, ho, hpath, hfree, setLeaf]
  · intro p v h
    rcases lookup_append_cases _ _ _ _ h with h1 | ⟨_, h2⟩
    · rcases lookup_append_cases _ _ _ _ h1 with h3 | ⟨_, h4⟩
      · obtain ⟨⟨s, hs, hps⟩, hb⟩ := hinv p v h3
        exact ⟨⟨s, by simp [hs], hps⟩, fun b hv => by simp [hb b hv]⟩
      · obtain ⟨hd, hp⟩ := hex _ (lookup_mem _ _ _ h4)
        simp only at hd hp
        refine ⟨⟨q, by simp, ?_⟩, fun b hv => by simp [hv] at hd⟩
        rw [List.isPrefixOf_iff_prefix] at hp ⊢
        exact hp.trans (List.dropLast_prefix q)
    · simp only [List.lookup_cons] at h2
      split at h2
      · rename_i hk
        simp only [beq_iff_eq] at hk
        subst hk
        refine ⟨⟨p, by simp, ?_⟩, fun _ _ => by simp⟩
        rw [List.isPrefixOf_iff_prefix]
        exact List.prefix_refl _
      · simp at h2
  · simp only [leaves, List.filterMap_append]
    have := leaves_dicts ex (fun e he => (hex e he).1)
    simp only [leaves] at this
    simp [this]

/-- A block of a generated file: text in front of it, its dotted name, the user's body. -/
structure Blk where
  junk : List Str
  tag  : Str
  body : List Str

def Blk.path (b : Blk) : Path := splitOn '.' b.tag

/-- The lines `get_splicers` reads for one emitted block, followed by `rest`. -/
def blockLines (spaces pre : Str) (i : Int) (tag : Str) (body : List Str) (rest : List Str) : List Str :=
  (pre ++ strBegin ++ (' ' :: tag ++ ['\n']))
    :: body.map (fun l => emitLine spaces i l ++ ['\n'])
    ++ (pre ++ strEnd ++ (' ' :: tag ++ ['\n'])) :: rest

/-- A whole file: for every block arbitrary marker-free text, then the block; `tail` at the end. -/
def fileLines (spaces pre : Str) (i : Int) : List Blk → List Str → List Str
  | [], tail => tail
  | b :: bs, tail => b.junk ++ blockLines spaces pre i b.tag b.body (fileLines spaces pre i bs tail)

/-- text outside holds no begin marker; the name is non-empty without blanks; the
    body lines are clean, right-stripped and hold no end marker -/
def GoodBlk (b : Blk) : Prop :=
  (∀ l ∈ b.junk, markerPos strBegin l = none) ∧ b.tag ≠ [] ∧ (∀ c ∈ b.tag, isPySpace c = false) ∧
  (∀ l ∈ b.body, Clean l = true) ∧ (∀ l ∈ b.body, rstrip l = l) ∧ (∀ l ∈ b.body, findSub strEnd l 0 = none)

def IncompBlk (a b : Blk) : Prop :=
  a.path.isPrefixOf b.path = false ∧ b.path.isPrefixOf a.path = false

theorem roundtrip_file_gen (spaces pre : Str) (i : Int) (tail : List Str)
    (hsp : ∀ c ∈ spaces, c = ' ') (hpre : pre ≠ []) (hs : ∀ c ∈ pre, c ≠ 's')
    (htail : ∀ l ∈ tail, markerPos strBegin l = none) :
    ∀ (bs : List Blk) (d : Dict) (S : List Path), Inv d S →
      (∀ b ∈ bs, GoodBlk b) → (∀ b ∈ bs, Incomp b.path S) → bs.Pairwise IncompBlk →
      ∃ D, run d .look (fileLines spaces pre i bs tail) = .ok D ∧
        leaves D = leaves d ++ bs.map (fun b => (b.path, b.body.map (emitLine spaces i))) := by
  intro bs
  induction bs with
  | nil =>
    intro d S _ _ _ _
    refine ⟨d, ?_, by simp⟩
    have := outside_ignored d tail [] htail
    simpa [fileLines, run] using this
  | cons b bs ih =>
    intro d S hinv hgood hinc hpw
    obtain ⟨g1, g2, g3, g4, g5, g6⟩ := hgood b (by simp)
    obtain ⟨d2, hins, hinv2, hleaves⟩ :=
      insertBlock_ok d S b.tag (b.body.map (emitLine spaces i)) hinv (hinc b (by simp))
    rw [List.pairwise_cons] at hpw
    have hinc2 : ∀ b' ∈ bs, Incomp b'.path (b.path :: S) := by
      intro b' hb' s hs'
      simp only [List.mem_cons] at hs'
      rcases hs' with rfl | hs'
      · have := hpw.1 b' hb'
        exact ⟨this.2, this.1⟩
      · exact hinc b' (by simp [hb']) s hs'
    obtain ⟨D, hrun, hD⟩ := ih d2 (b.path :: S) hinv2 (fun x hx => hgood x (by simp [hx])) hinc2 hpw.2
    refine ⟨D, ?_, ?_⟩
    · simp only [fileLines]
      rw [outside_ignored d b.junk _ g1]
      unfold blockLines
      rw [roundtrip_block spaces pre i b.tag b.body _ d hsp hpre hs g2 g3 g4 g5 g6, hins]
      exact hrun
    · rw [hD, hleaves]; simp [Blk.path]

/-- **(3) whole-file round trip.**  For any file made of blocks with pairwise
    prefix-incomparable (hence distinct) dotted names, each block emitted as
    `block_carriage` describes (clean, right-stripped, end-marker-free bodies)
    with arbitrary begin-marker-free text before, between and after the blocks:
    `get_splicers` succeeds and the bodies it stores are, in order and under the
    right names, exactly the emitted bodies -- which equal the user's bodies up
    to leading indentation and trailing blanks. -/
theorem roundtrip_file (spaces pre : Str) (i : Int) (bs : List Blk) (tail : List Str)
    (hsp : ∀ c ∈ spaces, c = ' ') (hpre : pre ≠ []) (hs : ∀ c ∈ pre, c ≠ 's')
    (htail : ∀ l ∈ tail, markerPos strBegin l = none)
    (hgood : ∀ b ∈ bs, GoodBlk b) (hpw : bs.Pairwise IncompBlk) :
    ∃ D, getSplicers (fileLines spaces pre i bs tail) [] = .ok D ∧
      leaves D = bs.map (fun b => (b.path, b.body.map (emitLine spaces i))) ∧
      normalise (leaves D) = normalise (bs.map (fun b => (b.path, b.body))) := by
  have hinv0 : Inv [] [] := by intro p v h; simp at h
  obtain ⟨D, hrun, hD⟩ := roundtrip_file_gen spaces pre i tail hsp hpre hs htail bs [] [] hinv0 hgood
    (by intro b _ s hs'; simp at hs') hpw
  refine ⟨D, hrun, by simpa [leaves] using hD, ?_⟩
  have hD' : leaves D = bs.map (fun b => (b.path, b.body.map (emitLine spaces i))) := by
    simpa [leaves] using hD
  rw [hD']
  simp only [normalise, List.map_map]
  apply List.map_congr_left
  intro b _
  simp only [Function.comp, Prod.mk.injEq, true_and, List.map_map]
  apply List.map_congr_left
  intro l _
  exact emitLine_core spaces i l (fun c hc => by rw [hsp c hc]; decide)

example :
    getSplicers (fileLines "    ".toList "    // ".toList 1
      [⟨["junk\n".toList], "function.foo".toList, ["return 1;".toList, "".toList]⟩,
       ⟨[], "C_definitions".toList, ["#define A 1".toList]⟩] ["tail\n".toList]) []
    = .ok [(["function".toList], .dict),
           (["function".toList, "foo".toList], .leaf ["    return 1;".toList, "".toList]),
           (["C_definitions".toList], .leaf ["#define A 1".toList])] := by decide

/-- A `splicer_code` block scalar and a declaration-level scalar mean the same lines. -/
theorem codeScalar_listify (v : Str) : listifyStr v = .ok (codeScalar v) := rfl

example : codeScalar "// line 1\nint x;\n".toList = ["// line 1".toList, "int x;".toList] := by decide

/-! ### stack discipline of `wrap_namespace` -/

def NS.scope : NS → Str | .mk s _ => s

theorem push_names (s s1 : Stack) (n : Str) (h : push s n = .ok s1) : s1.names = s.names ++ [n] := by
  unfold push at h; split at h
  · simp only [Res.ok.injEq] at h; subst h; rfl
  · simp at h
theorem pop_names (s s1 : Stack) (h : pop s = .ok s1) : s1.names = s.names.dropLast := by
  unfold pop at h; split at h
  · simp at h
  · simp only [Res.ok.injEq] at h; subst h; rfl
theorem updateTop_names (s s1 : Stack) (n : Str) (h : updateTop s n = .ok s1) :
    s1.names = s.names.dropLast ++ [n] := by
  unfold updateTop at h; split at h
  · simp at h
  · simp only [Res.ok.injEq] at h; subst h; rfl

mutual
theorem wrapNs_names : ∀ (ns : NS) (s s' : Stack), wrapNs s ns = .ok s' →
    s'.names = s.names.dropLast ++ [ns.scope]
  | .mk scope kids, s, s', h => by
    simp only [wrapNs] at h
    split at h
    · simp at h
    · rename_i s1 h1
      split at h
      · simp at h
      · rename_i s2 h2
        split at h
        · simp at h
        · rename_i s3 h3
          have k := wrapKids_names kids s2 s3 h3
          have e2 : s2.names = s.names := by
            rw [pop_names _ _ h2, push_names _ _ _ h1]; simp
          rw [updateTop_names _ _ _ h, k, e2]; rfl
theorem wrapKids_names : ∀ (ks : List NS) (s s' : Stack), wrapKids s ks = .ok s' →
    s'.names.dropLast = s.names.dropLast
  | [], s, s', h => by simp only [wrapKids, Res.ok.injEq] at h; subst h; rfl
  | .mk scope kk :: ks, s, s', h => by
    simp only [wrapKids] at h
    split at h
    · simp at h
    · rename_i s1 h1
      split at h
      · simp at h
      · rename_i s2 h2
        have a := wrapNs_names (.mk scope kk) s1 s2 h2
        have b := wrapKids_names ks s2 s' h
        rw [b, a, updateTop_names _ _ _ h1]; simp
end

theorem wrapClassList_names : ∀ (cs : List Str) (s s' : Stack), wrapClassList s cs = .ok s' → s'.names = s.names
  | [], s, s', h => by simp only [wrapClassList, Res.ok.injEq] at h; subst h; rfl
  | c :: cs, s, s', h => by
    simp only [wrapClassList] at h
    split at h
    · simp at h
    · rename_i s1 h1
      split at h
      · simp at h
      · rename_i s2 h2
        rw [wrapClassList_names cs s2 s' h, pop_names _ _ h2, push_names _ _ _ h1]; simp

/-- **class loop discipline.**  After the loop over any list of classes and structs (Python: a struct takes the
    NumPy-descriptor branch, a class the extension-type branch) the name stack is what it was before: the blocks
    of everything wrapped later are looked up under their own names. -/
theorem wrapClasses_names (cs : List Str) (s s' : Stack) (h : wrapClasses s cs = .ok s') : s'.names = s.names := by
  simp only [wrapClasses] at h
  split at h
  · simp at h
  · rename_i s1 h1
    split at h
    · simp at h
    · rename_i s2 h2
      rw [pop_names _ _ h, wrapClassList_names cs s1 s2 h2, push_names _ _ _ h1]; simp

/-- **stack discipline.**  Wrapping a namespace with any tree of nested namespaces leaves the splicer
    name stack as it found it (entered with its own scope name on top): the module-level blocks written
    afterwards (`file_top`, `module_use`, `module_top`) are created under the namespace's own name,
    not under the last nested namespace's. -/
theorem wrap_namespace_discipline (ns : NS) (s s' : Stack) (pre : Path)
    (h0 : s.names = pre ++ [ns.scope]) (h : wrapNs s ns = .ok s') : s'.names = s.names := by
  rw [wrapNs_names ns s s' h, h0]; simp

example : (match wrapNs ⟨[(["namespace".toList], .dict), (["namespace".toList, "outer".toList], .dict)],
        ["namespace".toList, "outer".toList]⟩
      (.mk "outer".toList [.mk "outer::inner".toList [], .mk "outer::second".toList []]) with
    | .ok s => some (splicerPath s.names)
    | .crash _ => none) = some "namespace.outer.".toList := by decide

/-! ### reader defects, as modelled (replayed on the real code by the check) -/

private def f (ls : List String) : List Str := ls.map (fun s => (s ++ "\n").toList)

/-- a name used as a block and as a prefix of a later block: TypeError / AttributeError -/
theorem reader_leaf_then_prefix :
    getSplicers (f ["// splicer begin a", "x", "// splicer end a",
                    "// splicer begin a.b", "y", "// splicer end a.b"]) [] = .crash "TypeError" ∧
    getSplicers (f ["// splicer begin a", "x", "// splicer end a",
                    "// splicer begin a.b.c", "y", "// splicer end a.b.c"]) [] = .crash "AttributeError" := by
  decide

/-- `splicer begin` / `splicer end` without a name: IndexError -/
theorem reader_no_name :
    getSplicers (f ["// splicer begin", "x"]) [] = .crash "IndexError" ∧
    getSplicers (f ["// splicer begin a", "// splicer end"]) [] = .crash "IndexError" := by
  decide

/-- a repeated name, dotted or not, is reported (before the `fix:` commit a
    repeated *dotted* name silently discarded the first body, and `a.b` after
    `a.b.c` a whole subtree) -/
theorem reader_repeat :
    getSplicers (f ["// splicer begin a.b", "x", "// splicer end a.b",
                    "// splicer begin a.b", "y", "// splicer end a.b"]) [] = .crash "RuntimeError exists" ∧
    getSplicers (f ["// splicer begin a", "x", "// splicer end a",
                    "// splicer begin a", "y", "// splicer end a"]) [] = .crash "RuntimeError exists" ∧
    getSplicers (f ["// splicer begin a.b.c", "x", "// splicer end a.b.c",
                    "// splicer begin a.b", "y", "// splicer end a.b"]) [] = .crash "RuntimeError exists" := by
  decide

/-- **no silent loss in the reader.**  Whenever an insertion succeeds, the path
    was not occupied before: nothing the user supplied earlier is replaced. -/
theorem insertBlock_fresh (d d2 : Dict) (tag : Str) (save : List Str)
    (h : insertBlock d tag save = .ok d2) :
    d.lookup (splitOn '.' tag) = none := by
  unfold insertBlock at h
  cases hdesc : descend d [] (splitOn '.' tag).dropLast with
  | crash e => simp [hdesc] at h
  | ok r =>
    obtain ⟨d', top⟩ := r
    simp only [hdesc] at h
    obtain ⟨htop, hkeep⟩ := descend_spec _ _ _ _ _ hdesc
    have hpath : top ++ [(splitOn '.' tag).getLast?.getD []] = splitOn '.' tag := by
      have hne := splitOn_ne_nil '.' tag
      rw [htop, List.nil_append, List.getLast?_eq_some_getLast hne]
      simpa using List.dropLast_concat_getLast hne
    unfold closeBlock at h
    simp only [ne_eq, not_true_eq_false, if_false] at h
    split at h
    · split at h <;> simp at h
    · split at h
      · simp at h
      · rename_i hfree
        rw [hpath] at hfree
        cases hd : d.lookup (splitOn '.' tag) with
        | none => rfl
        | some v => simp [hkeep _ v hd] at hfree

/-! ### non-vacuity -/

example : Clean "return SH_this->getName().length();".toList = true := by decide
example : Clean "#define FOO 1 +".toList = true := by decide
example : Clean "-x +".toList = true ∧ Clean "@^".toList = true := by decide
example : Plain (beginMarker "//".toList ["function".toList] "foo".toList) = true := by decide
example : Plain (endMarker "!".toList [] "module_top".toList) = true := by decide

example : createSplicer true "//".toList ⟨[(["function".toList], .dict),
      (["function".toList, "foo".toList], .leaf ["return 1;".toList])], ["function".toList]⟩
      "foo".toList (some [.str "default".toList]) none
    = .ok ([.str "// splicer begin function.foo".toList, .str "return 1;".toList,
            .str "// splicer end function.foo".toList], true) := by decide

example : getSplicers (f ["junk", "  // splicer begin function.foo", "  return 1;  ", "  // splicer end function.foo", "x"]) []
    = .ok [(["function".toList], .dict), (["function".toList, "foo".toList], .leaf ["  return 1;".toList])] := by
  decide

example : insertBlock [] "function.foo".toList ["x".toList]
    = .ok [(["function".toList], .dict), (["function".toList, "foo".toList], .leaf ["x".toList])] := by decide

example : rstrip "  a b".toList = "  a b".toList ∧ findSub strEnd "  a b".toList 0 = none := by decide

end Shroud.Splicer
