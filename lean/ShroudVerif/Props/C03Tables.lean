import ShroudVerif.Model.PyTables
import ShroudVerif.Gen.PyStmts
/-!
# C03 table theorems

Statements quantified over every row of the tables regenerated from the `/repo` working tree on every run
(`tools/extract_pystmts.py` -> `Gen/PyStmts.lean`): every `wrapp.py_statements` entry resolved for C and for
C++, and the `PY_*` fields of every registered typemap.  Established by kernel evaluation.
-/
namespace Shroud.PyTables
open Shroud.Gen.PyStmts

theorem all_of_decide {α : Type} {l : List α} {p : α → Bool} (h : l.all p = true) : ∀ x ∈ l, p x = true :=
  fun x hx => List.all_eq_true.mp h x hx

/-- **One address per format unit**: the `parse_format` of every statement entry is inside CPython's format
grammar and `parse_args` holds exactly the addresses its units consume (`O&` two, `s#` two, ...). -/
theorem stmts_one_address_per_unit : ∀ r ∈ stmtRows, r.addrOk = true :=
  all_of_decide (by decide +kernel)

/-- an entry that writes `goto fail` (or a fail block) also asks for the `fail:` label. -/
theorem stmts_goto_fail_consistent : ∀ r ∈ stmtRows, r.gotoOk = true :=
  all_of_decide (by decide +kernel)

/-- **Acquire / release**: every resource an entry acquires (new reference, converter allocation, malloc/new,
capsule) is released on the success path *and* in the fail block, or its ownership is handed to the returned
object / stolen by the call that consumes it. -/
theorem stmts_acquire_release : ∀ r ∈ stmtRows, r.ownOk = true :=
  all_of_decide (by decide +kernel)

/-- **Returned value comes from the variable the library was given**: an entry that hands a C++ local to the
library (`cxx_local_var`, e.g. the `std::string` made from the parsed `char *`) builds the returned object
(`fmtdict.ctor_expr`, used when the argument is the only returned value) from that local, not from the
parsed C variable. -/
theorem stmts_ctor_expr_uses_passed_var : ∀ r ∈ stmtRows, r.ctorVarOk = true :=
  all_of_decide (by decide +kernel)

example : (stmtRows.filter (fun r => r.cxxLocal && r.ctorArgs != 0)).length > 0 := by decide +kernel

/-- an entry flagged `object_created` does create (or pass on) the object that is returned. -/
theorem stmts_created_has_object : ∀ r ∈ stmtRows, r.createdOk = true :=
  all_of_decide (by decide +kernel)

/-- the parse unit `wrap_function` derives from a typemap (`PY_format`, `+"!"` with a type object, `+"&"` with a
converter) is exactly one unit and consumes the number of addresses `wrap_function` passes (1, or 2). -/
theorem types_parse_unit_arity : ∀ t ∈ typeRows, t.parseOk = true :=
  all_of_decide (by decide +kernel)

/-- **Build arity**: the `Py_BuildValue` unit of every type (`PY_build_format` or else `PY_format`) is one unit
taking as many arguments as `PY_build_arg` supplies (`s#`: data and size). -/
theorem types_build_arity : ∀ t ∈ typeRows, t.buildOk = true :=
  all_of_decide (by decide +kernel)

/-- the `PY_ctor` call has the arity of its C-API function for every way the statement group fills
`{ctor_expr}` (and `pytype_to_pyctor` for types with a `py_ctype`). -/
theorem types_ctor_arity : ∀ t ∈ typeRows, t.ctorOk (ctorExprCounts stmtRows t.sgroup) = true :=
  all_of_decide (by decide +kernel)

/-- every parse unit that occurs in the tables has a value-class entry (the data the dispatch model uses for
the per-unit type check). -/
theorem units_classified :
    (∀ r ∈ stmtRows, r.parseFormat.isEmpty = true ∨ (lookupUnit unitClasses r.parseFormat).isSome = true) ∧
    (∀ t ∈ typeRows, t.pyFormat.isEmpty = true ∨ (lookupUnit unitClasses t.pyFormat).isSome = true) := by
  constructor
  · have h : stmtRows.all (fun r => r.parseFormat.isEmpty || (lookupUnit unitClasses r.parseFormat).isSome) = true := by
      decide +kernel
    intro r hr
    have := all_of_decide h r hr
    simpa [Bool.or_eq_true] using this
  · have h : typeRows.all (fun t => t.pyFormat.isEmpty || (lookupUnit unitClasses t.pyFormat).isSome) = true := by
      decide +kernel
    intro t ht
    have := all_of_decide h t ht
    simpa [Bool.or_eq_true] using this

/-! Non-vacuity: the tables are not empty and contain acquiring entries, two-address units and a two-argument
build unit. -/
example : stmtRows.length = 206 ∨ stmtRows.length > 0 := Or.inr (by decide +kernel)
example : (stmtRows.filter (fun r => !r.acquires.isEmpty)).length > 0 := by decide +kernel
example : (stmtRows.filter (fun r => r.nParseArgs == 2)).length > 0 := by decide +kernel
example : (typeRows.filter (fun t => t.buildArgs == 2)).length > 0 := by decide +kernel

/-! Grammar facts used above, for all texts. -/

/-- a text inside the parse grammar has no more units than characters. -/
theorem parseUnits_length (fuel : Nat) : ∀ (t us : List Nat), parseUnits fuel t = some us → us.length ≤ t.length := by
  induction fuel with
  | zero => intro t us h; simp [parseUnits] at h
  | succ n ih =>
    intro t us h
    cases t with
    | nil => simp [parseUnits] at h; subst h; simp
    | cons c r =>
      simp only [parseUnits] at h
      split at h
      · have := ih r us h; simp only [List.length_cons]; omega
      · split at h
        · cases r with
          | nil => simp at h; subst h; simp
          | cons d r' =>
            simp only at h
            split at h
            · cases hh : parseUnits n r' with
              | none => rw [hh] at h; simp at h
              | some v => rw [hh] at h; simp at h; subst h; have := ih r' v hh; simp only [List.length_cons]; omega
            · split at h
              · cases hh : parseUnits n r' with
                | none => rw [hh] at h; simp at h
                | some v => rw [hh] at h; simp at h; subst h; have := ih r' v hh; simp only [List.length_cons]; omega
              · cases hh : parseUnits n (d :: r') with
                | none => rw [hh] at h; simp at h
                | some v => rw [hh] at h; simp at h; subst h; have := ih _ v hh; simp only [List.length_cons] at *; omega
        · split at h
          · cases r with
            | nil => simp at h; subst h; simp
            | cons d r' =>
              simp only at h
              split at h
              · cases hh : parseUnits n r' with
                | none => rw [hh] at h; simp at h
                | some v => rw [hh] at h; simp at h; subst h; have := ih r' v hh; simp only [List.length_cons]; omega
              · cases hh : parseUnits n (d :: r') with
                | none => rw [hh] at h; simp at h
                | some v => rw [hh] at h; simp at h; subst h; have := ih _ v hh; simp only [List.length_cons] at *; omega
          · split at h
            · cases hh : parseUnits n r with
              | none => rw [hh] at h; simp at h
              | some v => rw [hh] at h; simp at h; subst h; have := ih r v hh; simp only [List.length_cons]; omega
            · cases h

end Shroud.PyTables
