import ShroudVerif.Model.FlagGroups
/-!
# C15 (consumer loops)  every emitted member of an overload set has its OWN flag on

For the loops of the four emitters over a container's function list (`Model/FlagGroups.lean`), for every
function list (any length, any names, any per-declaration flags in any position):
a function is a member of an emitted group / gets a wrapper of its own  iff  its own flag for that language is on.
-/
namespace Shroud.Flags

/-- every member of every group satisfies `P` and sits under its own name -/
def GInv (P : Fn → Prop) (g : Groups) : Prop := ∀ n ms f, (n, ms) ∈ g → f ∈ ms → P f ∧ f.name = n

/-- `f` is a member of the group of its name -/
def Has (g : Groups) (f : Fn) : Prop := ∃ ms, (f.name, ms) ∈ g ∧ f ∈ ms

theorem ginv_nil (P : Fn → Prop) : GInv P [] := by intro n ms f h; simp at h

theorem ensure_inv {P : Fn → Prop} {g : Groups} (n : Nat) (h : GInv P g) : GInv P (ensure g n) := by
  induction g with
  | nil => intro m ms f hm hf; simp [ensure] at hm; obtain ⟨_, rfl⟩ := hm; simp at hf
  | cons p rest ih =>
    obtain ⟨n0, ms0⟩ := p
    simp only [ensure]
    split
    · exact h
    · intro m ms f hm hf
      simp only [List.mem_cons] at hm
      rcases hm with hm | hm
      · exact h m ms f (by simp [hm]) hf
      · exact ih (fun m ms f hm hf => h m ms f (by simp [hm]) hf) m ms f hm hf

theorem addTo_inv {P : Fn → Prop} {g : Groups} {f : Fn} (h : GInv P g) (hf : P f) : GInv P (addTo g f) := by
  induction g with
  | nil =>
    intro m ms x hm hx
    simp [addTo] at hm
    obtain ⟨rfl, rfl⟩ := hm
    simp at hx
    subst hx
    exact ⟨hf, rfl⟩
  | cons p rest ih =>
    obtain ⟨n0, ms0⟩ := p
    simp only [addTo]
    split
    · rename_i hn
      intro m ms x hm hx
      simp only [List.mem_cons] at hm
      rcases hm with hm | hm
      · obtain ⟨rfl, rfl⟩ := Prod.mk.inj hm
        simp only [List.mem_append, List.mem_singleton] at hx
        rcases hx with hx | rfl
        · exact h m ms0 x (by simp) hx
        · exact ⟨hf, by simpa using (beq_iff_eq.mp hn).symm⟩
      · exact h m ms x (by simp [hm]) hx
    · intro m ms x hm hx
      simp only [List.mem_cons] at hm
      rcases hm with hm | hm
      · exact h m ms x (by simp [hm]) hx
      · exact ih (fun m ms f hm hf => h m ms f (by simp [hm]) hf) m ms x hm hx

theorem groupStep_inv {P : Fn → Prop} {keep : Fn → Bool} {touch : Bool} {g : Groups} {f : Fn}
    (h : GInv P g) (hf : keep f = true → P f) : GInv P (groupStep keep touch g f) := by
  have h1 : GInv P (if touch then ensure g f.name else g) := by
    split
    · exact ensure_inv _ h
    · exact h
  simp only [groupStep]
  split
  · rename_i hk; exact addTo_inv h1 (hf hk)
  · exact h1

theorem groupLoop_inv {P : Fn → Prop} {keep : Fn → Bool} {touch : Bool} (fs : List Fn) :
    ∀ g : Groups, GInv P g → (∀ f ∈ fs, keep f = true → P f) → GInv P (groupLoop keep touch g fs) := by
  induction fs with
  | nil => intro g h _; exact h
  | cons f fs ih =>
    intro g h hP
    simp only [groupLoop, List.foldl_cons]
    exact ih _ (groupStep_inv h (hP f (by simp))) (fun x hx => hP x (by simp [hx]))

/-- **soundness of every grouping loop**: a member of a group passed the guard, comes from the list, and sits under
    its own name -/
theorem groupLoop_members (keep : Fn → Bool) (touch : Bool) (fs : List Fn) (n : Nat) (ms : List Fn) (f : Fn)
    (hg : (n, ms) ∈ groupLoop keep touch [] fs) (hf : f ∈ ms) : keep f = true ∧ f ∈ fs ∧ f.name = n := by
  have := groupLoop_inv (P := fun x => keep x = true ∧ x ∈ fs) (keep := keep) (touch := touch) fs [] (ginv_nil _)
    (fun x hx hk => ⟨hk, hx⟩) n ms f hg hf
  exact ⟨this.1.1, this.1.2, this.2⟩

/-! completeness -/

theorem has_ensure {g : Groups} {x : Fn} (n : Nat) (h : Has g x) : Has (ensure g n) x := by
  induction g with
  | nil => obtain ⟨ms, hm, _⟩ := h; simp at hm
  | cons p rest ih =>
    obtain ⟨n0, ms0⟩ := p
    simp only [ensure]
    split
    · exact h
    · obtain ⟨ms, hm, hx⟩ := h
      simp only [List.mem_cons] at hm
      rcases hm with hm | hm
      · exact ⟨ms, by simp [hm], hx⟩
      · obtain ⟨ms', hm', hx'⟩ := ih ⟨ms, hm, hx⟩
        exact ⟨ms', by simp [hm'], hx'⟩

theorem has_addTo_mono {g : Groups} {x : Fn} (f : Fn) (h : Has g x) : Has (addTo g f) x := by
  induction g with
  | nil => obtain ⟨ms, hm, _⟩ := h; simp at hm
  | cons p rest ih =>
    obtain ⟨n0, ms0⟩ := p
    simp only [addTo]
    obtain ⟨ms, hm, hx⟩ := h
    simp only [List.mem_cons] at hm
    split
    · rcases hm with hm | hm
      · obtain ⟨h1, rfl⟩ := Prod.mk.inj hm
        exact ⟨ms ++ [f], by simp [h1], by simp [hx]⟩
      · exact ⟨ms, by simp [hm], hx⟩
    · rcases hm with hm | hm
      · exact ⟨ms, by simp [hm], hx⟩
      · obtain ⟨ms', hm', hx'⟩ := ih ⟨ms, hm, hx⟩
        exact ⟨ms', by simp [hm'], hx'⟩

theorem has_addTo_self (g : Groups) (f : Fn) : Has (addTo g f) f := by
  induction g with
  | nil => exact ⟨[f], by simp [addTo], by simp⟩
  | cons p rest ih =>
    obtain ⟨n0, ms0⟩ := p
    simp only [addTo]
    split
    · rename_i hn
      exact ⟨ms0 ++ [f], by simp [(beq_iff_eq.mp hn)], by simp⟩
    · obtain ⟨ms', hm', hx'⟩ := ih
      exact ⟨ms', by simp [hm'], hx'⟩

theorem has_groupStep_mono {keep : Fn → Bool} {touch : Bool} {g : Groups} {x : Fn} (f : Fn) (h : Has g x) :
    Has (groupStep keep touch g f) x := by
  have h1 : Has (if touch then ensure g f.name else g) x := by
    split
    · exact has_ensure _ h
    · exact h
  simp only [groupStep]
  split
  · exact has_addTo_mono f h1
  · exact h1

theorem has_groupLoop_mono {keep : Fn → Bool} {touch : Bool} {x : Fn} (fs : List Fn) :
    ∀ g : Groups, Has g x → Has (groupLoop keep touch g fs) x := by
  induction fs with
  | nil => intro g h; exact h
  | cons f fs ih => intro g h; simp only [groupLoop, List.foldl_cons]; exact ih _ (has_groupStep_mono f h)

/-- **completeness of every grouping loop**: a function of the list that passes the guard is a member of the group
    of its name -/
theorem groupLoop_complete (keep : Fn → Bool) (touch : Bool) (fs : List Fn) (f : Fn) :
    ∀ g : Groups, f ∈ fs → keep f = true → Has (groupLoop keep touch g fs) f := by
  induction fs with
  | nil => intro g h; simp at h
  | cons a fs ih =>
    intro g hf hk
    simp only [groupLoop, List.foldl_cons]
    rcases List.mem_cons.mp hf with rfl | hf
    · apply has_groupLoop_mono
      simp only [groupStep, hk, if_true]
      exact has_addTo_self _ _
    · exact ih _ hf hk

/-- the loop with a guard is "filter, then group everything" -/
theorem groupLoop_is_filter_then_group (keep : Fn → Bool) (fs : List Fn) :
    ∀ g : Groups, groupLoop keep false g fs = (fs.filter keep).foldl addTo g := by
  induction fs with
  | nil => intro g; rfl
  | cons f fs ih =>
    intro g
    simp only [groupLoop, List.foldl_cons, List.filter_cons]
    cases hk : keep f
    · simpa [groupStep, hk, groupLoop] using ih g
    · simpa [groupStep, hk, groupLoop] using ih (addTo g f)

/-! ### the four emitters -/

/-- **Lua**: every function handed to a `wrap_function(cls, overloads)` call - in whatever position of the
    overload set - has its own `wrap.lua` on (and is a function of this container with the group's name) -/
theorem lua_emitted_members_on (fs : List Fn) (n : Nat) (ms : List Fn) (f : Fn)
    (hg : (n, ms) ∈ luaGroups fs) (hf : f ∈ ms) : f.on = true ∧ f ∈ fs ∧ f.name = n :=
  groupLoop_members _ _ fs n ms f hg hf

/-- **Lua**: every function whose `wrap.lua` is on is in the group of its name -/
theorem lua_on_member_emitted (fs : List Fn) (f : Fn) (hf : f ∈ fs) (hon : f.on = true) : Has (luaGroups fs) f :=
  groupLoop_complete _ _ fs f [] hf hon

/-- **Lua**: the loop is a filter on the function's own flag followed by grouping -/
theorem lua_filter_then_group (fs : List Fn) : luaGroups fs = groupAll (wrapped fs) :=
  groupLoop_is_filter_then_group _ fs []

/-- **Python multi-dispatch**: every function a dispatcher forwards to has its own `wrap.python` on -/
theorem py_dispatch_members_on (fs : List Fn) (n : Nat) (ms : List Fn) (f : Fn)
    (hg : (n, ms) ∈ pyDispatch fs) (hf : f ∈ ms) : f.on = true ∧ f.gen = true ∧ f ∈ fs ∧ f.name = n := by
  have hg' : (n, ms) ∈ pyTable fs := (List.mem_filter.mp hg).1
  have := groupLoop_members _ _ fs n ms f hg' hf
  simp only [Bool.and_eq_true] at this
  exact ⟨this.1.1, this.1.2, this.2.1, this.2.2⟩

/-- **Python multi-dispatch**: a function that is on (and allows a generic) is in the table entry of its name -/
theorem py_on_member_in_table (fs : List Fn) (f : Fn) (hf : f ∈ fs) (hon : f.on = true) (hgen : f.gen = true) :
    Has (pyTable fs) f :=
  groupLoop_complete _ _ fs f [] hf (by simp [hon, hgen])

/-- **Fortran generic interfaces**: every procedure listed under a generic name has its own `wrap.fortran` on -/
theorem fortran_generic_members_on (fs : List Fn) (n : Nat) (ms : List Fn) (f : Fn)
    (hg : (n, ms) ∈ fGenerics fs) (hf : f ∈ ms) : f.on = true ∧ f ∈ fs ∧ f.name = n := by
  have := groupLoop_members _ _ (wrapped fs) n ms f hg hf
  have hm := List.mem_filter.mp this.2.1
  exact ⟨hm.2, hm.1, this.2.2⟩

/-- **Fortran generic interfaces**: a wrapped function that allows a generic is listed under its generic name -/
theorem fortran_on_member_in_generic (fs : List Fn) (f : Fn) (hf : f ∈ fs) (hon : f.on = true) (hgen : f.gen = true) :
    Has (fGenerics fs) f :=
  groupLoop_complete _ _ (wrapped fs) f [] (List.mem_filter.mpr ⟨hf, hon⟩) hgen

/-- **C, Fortran, Python per-function wrappers**: a function gets a wrapper of its own iff its own flag is on -/
theorem wrapped_iff_own_flag (fs : List Fn) (f : Fn) : f ∈ wrapped fs ↔ f ∈ fs ∧ f.on = true := by
  simp [wrapped, List.mem_filter]

/-- order is kept: the wrapped functions are a sublist of the function list -/
theorem wrapped_sublist (fs : List Fn) : (wrapped fs).Sublist fs := List.filter_sublist

/-! ### non-vacuity: an overload set whose LATER member is off after an earlier one that is on -/

example : luaGroups [⟨7, true, true, 0⟩, ⟨7, false, true, 1⟩, ⟨7, true, true, 2⟩, ⟨9, false, true, 3⟩, ⟨9, true, true, 4⟩]
    = [(7, [⟨7, true, true, 0⟩, ⟨7, true, true, 2⟩]), (9, [⟨9, true, true, 4⟩])] := by decide

example : pyTable [⟨7, true, true, 0⟩, ⟨7, false, true, 1⟩, ⟨9, false, true, 2⟩]
    = [(7, [⟨7, true, true, 0⟩]), (9, [])] := by decide

example : pyDispatch [⟨7, true, true, 0⟩, ⟨7, false, true, 1⟩, ⟨7, true, true, 2⟩, ⟨9, true, true, 3⟩]
    = [(7, [⟨7, true, true, 0⟩, ⟨7, true, true, 2⟩])] := by decide

example : Has (luaGroups [⟨7, false, true, 0⟩, ⟨7, true, true, 1⟩]) ⟨7, true, true, 1⟩ :=
  lua_on_member_emitted _ _ (by simp) rfl

example : fGenerics [⟨7, true, true, 0⟩, ⟨7, false, true, 1⟩, ⟨7, true, false, 2⟩] = [(7, [⟨7, true, true, 0⟩])] := by decide

end Shroud.Flags
