import ShroudVerif.Model.Lex
import ShroudVerif.Lemmas.Lex
import ShroudVerif.Gen.Guards
/-!
# C16  Documentation and debug options change comments only

Part 1 (this section): theorems about the lexical models of `Model/Lex.lean`,
for all texts.  The checker that judges every pair of generated files is
`commentOnlyDiff l a b = (tokensOf l a == tokensOf l b)`, where `tokensOf` are language-level tokens
(`refine`: identifiers, numbers, literals, punctuators by maximal munch; C lines joined except
preprocessor directives; Fortran names in lower case).

* `commentOnlyDiff_iff`, `token_change_detected`: the checker accepts exactly
  the pairs with equal token structure after comment removal (any change of a
  token, of the grouping of tokens into logical lines, or of a literal is
  rejected).
* `insert_comment_block`, `remove_comment_block`: inserting/removing, between
  two lines of a file at a point where the lexer is in code state, any block of
  lines over which the lexer returns to code state emitting only separators
  (complete comments, blank lines) is accepted.  `line_comment_block_c/f`,
  `blank_block`, `block_comment_c` show that the usual comment shapes are such
  blocks, for every comment text.
* `trailing_comment`: appending `// text` / `! text` to a line that ends in
  code state is accepted.
* `commentEdit_accepted`: any finite sequence of such edits is accepted.
* `stripC_idempotent`, `stripF_idempotent`: stripping the rendered stripped text changes nothing.
* `insert_needs_code_state`, `trailing_needs_code_state`: the code-state hypotheses cannot be dropped.
-/
namespace Shroud.Lex

/-! ### generic machine facts -/

section generic
variable {σ : Type} (step : σ → Char → σ × List Out) (code : σ) (flush : σ → List Out)

/-- a newline that leads into code state emits a line end as its last output -/
def NlClosed : Prop := ∀ s, (step s '\n').1 = code → ∃ o, (step s '\n').2 = o ++ [Out.nl]

theorem out_ends_nl (h : NlClosed step code) (p : List Char)
    (hs : (run step code (p ++ ['\n'])).1 = code) :
    ∃ x', (run step code (p ++ ['\n'])).2 = x' ++ [Out.nl] := by
  rw [run_append_state, run_singleton] at hs
  obtain ⟨o, ho⟩ := h _ hs
  refine ⟨(run step code p).2 ++ o, ?_⟩
  rw [run_append_out, run_singleton, ho, List.append_assoc]

theorem insert_generic (h : NlClosed step code) (pre blk post : List Char)
    (hpre : pre = [] ∨ ∃ p, pre = p ++ ['\n'])
    (hs : (run step code pre).1 = code)
    (hb : (run step code blk).1 = code) (hw : (run step code blk).2.all isWs = true) :
    tokens ((run step code (pre ++ blk ++ post)).2 ++ flush (run step code (pre ++ blk ++ post)).1) =
    tokens ((run step code (pre ++ post)).2 ++ flush (run step code (pre ++ post)).1) := by
  have hx : (run step code pre).2 = [] ∨ ∃ x', (run step code pre).2 = x' ++ [Out.nl] := by
    rcases hpre with rfl | ⟨p, rfl⟩
    · left; simp [run]
    · right; exact out_ends_nl step code h p hs
  simp only [List.append_assoc, run_append_state, run_append_out, hs, hb]
  have := tokens_insert_ws (run step code pre).2 (run step code blk).2
    ((run step code post).2 ++ flush (run step code post).1) hw hx
  simpa [List.append_assoc] using this

theorem trailing_generic (pre cmt post : List Char)
    (hs : (run step code pre).1 = code)
    (hcode : step code '\n' = (code, [Out.nl]))
    (hcmt : (run step code (cmt ++ ['\n'])) = (code, [Out.sp, Out.nl])) :
    tokens ((run step code (pre ++ cmt ++ '\n' :: post)).2 ++ flush (run step code (pre ++ cmt ++ '\n' :: post)).1) =
    tokens ((run step code (pre ++ '\n' :: post)).2 ++ flush (run step code (pre ++ '\n' :: post)).1) := by
  have e1 : pre ++ cmt ++ '\n' :: post = pre ++ ((cmt ++ ['\n']) ++ post) := by simp
  have e2 : pre ++ '\n' :: post = pre ++ (['\n'] ++ post) := by simp
  rw [e1, e2]
  simp only [run_append_state, run_append_out, hs, hcmt, run_singleton, hcode]
  simpa [List.append_assoc] using
    tokens_sp_before_nl (run step code pre).2 ((run step code post).2 ++ flush (run step code post).1)

end generic

/-! ### instances -/

theorem nlClosedC : NlClosed stepC CSt.code := by
  intro s hs
  cases s <;> simp_all [stepC, stepCodeC, codeOut]
  · exact ⟨[.ch '/'], rfl⟩

theorem nlClosedF : NlClosed stepF FSt.code := by
  intro s hs
  cases s <;> simp_all [stepF, stepCodeF, codeOut]

/-! ### the checker decides token equality -/

theorem commentOnlyDiff_iff (l : Lang) (a b : List Line) :
    commentOnlyDiff l a b = true ↔ tokensOf l (joinLines a) = tokensOf l (joinLines b) := by
  simp [commentOnlyDiff]

/-- a change of any token (or of the line grouping, or inside a literal) is rejected -/
theorem token_change_detected (l : Lang) (a b : List Line)
    (h : tokensOf l (joinLines a) ≠ tokensOf l (joinLines b)) : commentOnlyDiff l a b = false := by
  simp [commentOnlyDiff, h]

theorem commentOnlyDiff_refl (l : Lang) (a : List Line) : commentOnlyDiff l a a = true := by
  simp [commentOnlyDiff]

theorem commentOnlyDiff_symm (l : Lang) (a b : List Line) (h : commentOnlyDiff l a b = true) :
    commentOnlyDiff l b a = true := by
  simp_all [commentOnlyDiff]

theorem commentOnlyDiff_trans (l : Lang) (a b c : List Line) (h1 : commentOnlyDiff l a b = true)
    (h2 : commentOnlyDiff l b c = true) : commentOnlyDiff l a c = true := by
  simp_all [commentOnlyDiff]

/-- the language tokens are a function of the blank-delimited chunks -/
theorem tokensOf_congr (l : Lang) (a b : List Char) (h : tokens (strip l a) = tokens (strip l b)) :
    tokensOf l a = tokensOf l b := by
  simp only [tokensOf, h]

/-- **The refinement only regroups characters**: the language tokens of a chunk, concatenated,
    are the chunk (C and Fortran before case folding), and none is empty.  Hence two
    texts with equal tokens differ only in where blanks stand between tokens. -/
theorem lex_tokens_concat (cfg : LexCfg) (chunk : Tok) :
    (lexChunk cfg [] 0 chunk).flatten = chunk ∧ ∀ t ∈ lexChunk cfg [] 0 chunk, t ≠ [] :=
  ⟨by simpa using lexChunk_flatten cfg chunk [] 0, lexChunk_nonempty cfg chunk [] 0⟩

/-- pure re-layout is accepted: blanks around operators, C line breaks between tokens,
    Fortran continuation breaks and letter case -/
example : commentOnlyDiff .c ["x=a+b;".toList, "f(a,".toList, "  b)->c++;".toList]
    ["x = a + b ;".toList, "f ( a , b ) -> c ++ ;".toList] = true := by decide +kernel
example : commentOnlyDiff .f ["Call F(A, &".toList, "   b)".toList, "X=1.0E-3_C_DOUBLE*Y".toList]
    ["call f(a, b)".toList, "x = 1.0e-3_c_double * y".toList] = true := by decide +kernel
/-- but not a change of a token: `a++ + b` / `a + ++b`, a directive joined with the next line,
    letter case inside a Fortran literal, a blank inside a number -/
example : commentOnlyDiff .c ["a++ +b".toList] ["a+ ++b".toList] = false := by decide +kernel
example : commentOnlyDiff .c ["#define X".toList, "y".toList] ["#define X y".toList] = false := by decide +kernel
example : commentOnlyDiff .f ["x = 'Ab'".toList] ["x = 'ab'".toList] = false := by decide +kernel
example : commentOnlyDiff .c ["x = 1e+5;".toList] ["x = 1e +5;".toList] = false := by decide +kernel

/-! ### inserting and removing comment blocks -/

/-- **Insertion of a comment block.**  `pre` are the lines before the insertion
    point (the lexer is in code state after them: the point is not inside a
    comment, literal or continued statement), `blk` is a block of complete
    comment/blank lines.  The file with the block and the file without it have
    the same tokens. -/
theorem insert_comment_block (l : Lang) (pre blk post : List Line)
    (hpre : endsInCode l (joinLines pre) = true) (hblk : isCommentBlock l blk = true) :
    commentOnlyDiff l (pre ++ post) (pre ++ blk ++ post) = true := by
  rw [commentOnlyDiff_iff]
  apply tokensOf_congr
  simp only [joinLines_append]
  cases l with
  | c =>
    simp only [endsInCode, isCommentBlock, isCommentText, Bool.and_eq_true, beq_iff_eq] at hpre hblk
    exact (insert_generic stepC .code flushC nlClosedC _ _ _ (joinLines_ends pre) hpre hblk.1 hblk.2).symm
  | f =>
    simp only [endsInCode, isCommentBlock, isCommentText, Bool.and_eq_true, beq_iff_eq] at hpre hblk
    exact (insert_generic stepF .code flushF nlClosedF _ _ _ (joinLines_ends pre) hpre hblk.1 hblk.2).symm

theorem remove_comment_block (l : Lang) (pre blk post : List Line)
    (hpre : endsInCode l (joinLines pre) = true) (hblk : isCommentBlock l blk = true) :
    commentOnlyDiff l (pre ++ blk ++ post) (pre ++ post) = true :=
  commentOnlyDiff_symm l _ _ (insert_comment_block l pre blk post hpre hblk)

/-! ### comment shapes, for every comment text -/

theorem run_blanks_c (ws : List Char) (h : ws.all isBlank = true) :
    (run stepC .code ws).1 = .code ∧ (run stepC .code ws).2.all isWs = true := by
  induction ws with
  | nil => simp [run]
  | cons c cs ih =>
    simp only [List.all_cons, Bool.and_eq_true] at h
    have hc : stepC .code c = (.code, [.sp]) := by
      have := h.1
      simp only [isBlank, Bool.or_eq_true, decide_eq_true_eq] at this
      rcases this with (((rfl | rfl) | rfl) | rfl) | rfl <;> decide
    simp [run, hc, ih h.2, isWs]

theorem run_blanks_f (ws : List Char) (h : ws.all isBlank = true) :
    (run stepF .code ws).1 = .code ∧ (run stepF .code ws).2.all isWs = true := by
  induction ws with
  | nil => simp [run]
  | cons c cs ih =>
    simp only [List.all_cons, Bool.and_eq_true] at h
    have hc : stepF .code c = (.code, [.sp]) := by
      have := h.1
      simp only [isBlank, Bool.or_eq_true, decide_eq_true_eq] at this
      rcases this with (((rfl | rfl) | rfl) | rfl) | rfl <;> decide
    simp [run, hc, ih h.2, isWs]

/-- inside a `//` comment a text without newline and backslash is skipped -/
theorem run_line_c (c : List Char) (h : plainComment c = true) :
    run stepC .line c = (.line, []) := by
  induction c with
  | nil => simp [run]
  | cons x xs ih =>
    simp only [plainComment, List.all_cons, Bool.and_eq_true, bne_iff_ne, ne_eq] at h
    have : plainComment xs = true := by simpa [plainComment] using h.2
    simp [run, stepC, h.1.1, h.1.2, ih this]

/-- inside a `!` comment a text without newline is skipped -/
theorem run_comment_f (c : List Char) (h : c.all (· != '\n') = true) :
    run stepF .comment c = (.comment, []) := by
  induction c with
  | nil => simp [run]
  | cons x xs ih =>
    simp only [List.all_cons, Bool.and_eq_true, bne_iff_ne, ne_eq] at h
    simp [run, stepF, h.1, ih h.2]

/-- inside a `/* */` comment a text without `*` is skipped (newlines included) -/
theorem run_block_c (c : List Char) (h : c.all (· != '*') = true) :
    run stepC .block c = (.block, []) := by
  induction c with
  | nil => simp [run]
  | cons x xs ih =>
    simp only [List.all_cons, Bool.and_eq_true, bne_iff_ne, ne_eq] at h
    simp [run, stepC, h.1, ih h.2]

/-- `<blanks>// text` is a complete comment line, for every plain text -/
theorem line_comment_block_c (ws c : List Char) (hws : ws.all isBlank = true) (hc : plainComment c = true) :
    isCommentBlock .c [ws ++ '/' :: '/' :: c] = true := by
  have hb := run_blanks_c ws hws
  simp only [isCommentBlock, isCommentText, joinLines, List.map_cons, List.map_nil, List.flatten_cons,
    List.flatten_nil, List.append_nil, List.append_assoc, List.cons_append]
  rw [run_append, hb.1]
  simp only [run, stepC, stepCodeC]
  have e : ∀ s, run stepC s (c ++ ['\n']) = ((run stepC (run stepC s c).1 ['\n']).1,
      (run stepC s c).2 ++ (run stepC (run stepC s c).1 ['\n']).2) := fun s => run_append stepC c ['\n'] s
  simp [e, run_line_c c hc, run, stepC, hb.2, isWs]

/-- `<blanks>! text` is a complete comment line, for every text without newline -/
theorem line_comment_block_f (ws c : List Char) (hws : ws.all isBlank = true) (hc : c.all (· != '\n') = true) :
    isCommentBlock .f [ws ++ '!' :: c] = true := by
  have hb := run_blanks_f ws hws
  simp only [isCommentBlock, isCommentText, joinLines, List.map_cons, List.map_nil, List.flatten_cons,
    List.flatten_nil, List.append_nil, List.append_assoc, List.cons_append]
  rw [run_append, hb.1]
  simp only [run, stepF, stepCodeF]
  have e : ∀ s, run stepF s (c ++ ['\n']) = ((run stepF (run stepF s c).1 ['\n']).1,
      (run stepF s c).2 ++ (run stepF (run stepF s c).1 ['\n']).2) := fun s => run_append stepF c ['\n'] s
  simp [e, run_comment_f c hc, run, stepF, hb.2, isWs]

/-- a blank line is a comment block in both languages -/
theorem blank_block (l : Lang) (ws : List Char) (hws : ws.all isBlank = true) :
    isCommentBlock l [ws] = true := by
  cases l with
  | c =>
    have hb := run_blanks_c ws hws
    simp only [isCommentBlock, isCommentText, joinLines, List.map_cons, List.map_nil, List.flatten_cons,
      List.flatten_nil, List.append_nil]
    rw [run_append, hb.1]
    simp [run, stepC, stepCodeC, codeOut, hb.2, isWs]
  | f =>
    have hb := run_blanks_f ws hws
    simp only [isCommentBlock, isCommentText, joinLines, List.map_cons, List.map_nil, List.flatten_cons,
      List.flatten_nil, List.append_nil]
    rw [run_append, hb.1]
    simp [run, stepF, stepCodeF, codeOut, hb.2, isWs]

/-- `/* body */` followed by a line end, the body (possibly many lines, e.g. a
    doxygen block without `*` inside) is a complete comment text -/
theorem block_comment_c (body : List Char) (hb : body.all (· != '*') = true) :
    isCommentText .c ('/' :: '*' :: body ++ ['*', '/', '\n']) = true := by
  simp only [isCommentText, run, stepC, stepCodeC, List.cons_append]
  have e : ∀ s, run stepC s (body ++ ['*', '/', '\n']) =
      ((run stepC (run stepC s body).1 ['*', '/', '\n']).1,
       (run stepC s body).2 ++ (run stepC (run stepC s body).1 ['*', '/', '\n']).2) :=
    fun s => run_append stepC body _ s
  simp [e, run_block_c body hb, run, stepC, stepCodeC, codeOut, isWs]

/-! ### trailing comments -/

/-- **Trailing comment.**  If the lexer is in code state at the end of line `ln`
    (after the lines `pre`), appending `// text` (C) or `! text` (Fortran) to that
    line leaves the tokens unchanged. -/
theorem trailing_comment (l : Lang) (pre post : List Line) (ln c : Line)
    (hs : endsInCode l (joinLines pre ++ ln) = true) (hc : plainComment c = true) :
    commentOnlyDiff l (pre ++ ln :: post) (pre ++ (ln ++ leader l ++ c) :: post) = true := by
  rw [commentOnlyDiff_iff]
  apply tokensOf_congr
  simp only [joinLines_append, joinLines_cons]
  have hnl : c.all (· != '\n') = true := by
    simp only [plainComment, List.all_eq_true, Bool.and_eq_true] at hc
    simp only [List.all_eq_true]
    exact fun x hx => (hc x hx).1
  cases l with
  | c =>
    simp only [endsInCode, beq_iff_eq] at hs
    have hcmt : run stepC .code (('/' :: '/' :: c) ++ ['\n']) = (.code, [.sp, .nl]) := by
      simp only [List.cons_append, run, stepC, stepCodeC]
      have e := run_append stepC c ['\n'] .line
      simp [e, run_line_c c hc, run, stepC]
    have := trailing_generic stepC .code flushC (joinLines pre ++ ln) ('/' :: '/' :: c) (joinLines post)
      hs (by decide) hcmt
    simp only [strip, stripC, leader]
    simpa [List.append_assoc] using this.symm
  | f =>
    simp only [endsInCode, beq_iff_eq] at hs
    have hcmt : run stepF .code (('!' :: c) ++ ['\n']) = (.code, [.sp, .nl]) := by
      simp only [List.cons_append, run, stepF, stepCodeF]
      have e := run_append stepF c ['\n'] .comment
      simp [e, run_comment_f c hnl, run, stepF]
    have := trailing_generic stepF .code flushF (joinLines pre ++ ln) ('!' :: c) (joinLines post)
      hs (by decide) hcmt
    simp only [strip, stripF, leader]
    simpa [List.append_assoc] using this.symm

/-! ### any sequence of comment edits -/

/-- files related by finitely many comment-only edits -/
inductive CommentEdit (l : Lang) : List Line → List Line → Prop
  | refl (a) : CommentEdit l a a
  | insert (pre blk post) : endsInCode l (joinLines pre) = true → isCommentBlock l blk = true →
      CommentEdit l (pre ++ post) (pre ++ blk ++ post)
  | remove (pre blk post) : endsInCode l (joinLines pre) = true → isCommentBlock l blk = true →
      CommentEdit l (pre ++ blk ++ post) (pre ++ post)
  | trail (pre post ln c) : endsInCode l (joinLines pre ++ ln) = true → plainComment c = true →
      CommentEdit l (pre ++ ln :: post) (pre ++ (ln ++ leader l ++ c) :: post)
  | untrail (pre post ln c) : endsInCode l (joinLines pre ++ ln) = true → plainComment c = true →
      CommentEdit l (pre ++ (ln ++ leader l ++ c) :: post) (pre ++ ln :: post)
  | trans {a b c} : CommentEdit l a b → CommentEdit l b c → CommentEdit l a c

/-- **Completeness of the checker for comment edits**: two files that differ by any
    sequence of inserted/removed comment blocks, blank lines and trailing comments
    are accepted; by `commentOnlyDiff_iff` nothing with a different token structure is. -/
theorem commentEdit_accepted (l : Lang) (a b : List Line) (h : CommentEdit l a b) :
    commentOnlyDiff l a b = true := by
  induction h with
  | refl a => exact commentOnlyDiff_refl l a
  | insert pre blk post h1 h2 => exact insert_comment_block l pre blk post h1 h2
  | remove pre blk post h1 h2 => exact remove_comment_block l pre blk post h1 h2
  | trail pre post ln c h1 h2 => exact trailing_comment l pre post ln c h1 h2
  | untrail pre post ln c h1 h2 =>
    exact commentOnlyDiff_symm l _ _ (trailing_comment l pre post ln c h1 h2)
  | trans _ _ ih1 ih2 => exact commentOnlyDiff_trans l _ _ _ ih1 ih2

/-! ### idempotence -/

/-- **Idempotence**: removing comments from the (rendered) comment-free text changes nothing. -/
theorem stripC_idempotent (t : List Char) : stripC (render (stripC t)) = stripC t := by
  have h := run_sim t .code
  simp only [reC] at h
  unfold stripC
  simp only [render_append]
  rw [run_append, h]
  cases hs : (run stepC .code t).1 <;> simp [flushC, render, run, stepC, stepCodeC]

/-- the same for Fortran -/
theorem stripF_idempotent (t : List Char) : stripF (render (stripF t)) = stripF t := by
  have h := run_sim_f t .code
  simp only [reF] at h
  unfold stripF
  simp only [render_append]
  rw [run_append, h]
  cases hs : (run stepF .code t).1 <;> simp [flushF, render, run, stepF, stepCodeF]


/-! ### non-vacuity: instances of the hypotheses, and their necessity -/

/-- a doxygen block, a debug comment and a blank line inserted between two declarations -/
example : commentOnlyDiff .c (["int a;".toList] ++ ["int b;".toList])
    (["int a;".toList] ++ ["  // Function:  int b".toList, "/**".toList, " * \\brief x".toList, " */".toList, []] ++
      ["int b;".toList]) = true :=
  insert_comment_block .c ["int a;".toList]
    ["  // Function:  int b".toList, "/**".toList, " * \\brief x".toList, " */".toList, []] ["int b;".toList]
    (by decide +kernel) (by decide +kernel)

example : commentOnlyDiff .f (["x = f(a, &".toList, "   b)".toList] ++ ["y = 1".toList])
    (["x = f(a, &".toList, "   b)".toList] ++ ["! start y".toList, "!! doc".toList] ++ ["y = 1".toList]) = true :=
  insert_comment_block .f ["x = f(a, &".toList, "   b)".toList] ["! start y".toList, "!! doc".toList] ["y = 1".toList]
    (by decide +kernel) (by decide +kernel)

example : commentOnlyDiff .c (["int a;".toList] ++ "}".toList :: [])
    (["int a;".toList] ++ ("}".toList ++ leader .c ++ "  namespace".toList) :: []) = true :=
  trailing_comment .c ["int a;".toList] [] "}".toList "  namespace".toList (by decide +kernel) (by decide +kernel)

example : isCommentBlock .c ["    // anything \" ' /* goes".toList] = true :=
  line_comment_block_c "    ".toList " anything \" ' /* goes".toList (by decide +kernel) (by decide +kernel)

example : isCommentBlock .f ["  !! it's \"doc\" & more".toList] = true :=
  line_comment_block_f "  ".toList "! it's \"doc\" & more".toList (by decide +kernel) (by decide +kernel)

/-- a changed identifier is rejected even when a comment still mentions the old one -/
example : commentOnlyDiff .c ["int a;".toList] ["int b; // a".toList] = false := by decide +kernel

/-- a line added by a debug branch without comment leader is rejected -/
example : commentOnlyDiff .f ["x = 1".toList] ["second line".toList, "x = 1".toList] = false := by decide +kernel

/-- The code-state hypothesis of `insert_comment_block` is needed: the same comment
    line inserted inside an open `/* */` comment changes the tokens. -/
theorem insert_needs_code_state :
    ∃ pre blk post, isCommentBlock .c blk = true ∧ endsInCode .c (joinLines pre) = false ∧
      commentOnlyDiff .c (pre ++ post) (pre ++ blk ++ post) = false :=
  ⟨["/*".toList], ["// */".toList], ["*/ x".toList], by decide +kernel, by decide +kernel, by decide +kernel⟩

/-- The code-state hypothesis of `trailing_comment` is needed: after a pending `/` the
    appended `//` swallows it. -/
theorem trailing_needs_code_state :
    ∃ ln c, plainComment c = true ∧ endsInCode .c ln = false ∧
      commentOnlyDiff .c [ln] [ln ++ leader .c ++ c] = false :=
  ⟨"a /".toList, " c".toList, by decide +kernel, by decide +kernel, by decide +kernel⟩

end Shroud.Lex

/-!
Part 2: table theorems over `Gen/Guards.lean`, regenerated from the working tree on
every run by tools/extract_guards.py (AST scan of `shroud/*.py`).
-/
namespace Shroud.Gen.Guards

/-- Every statement that executes under `options.debug`, `debug_index`, `doxygen`,
    declaration-level `literalinclude`, `show_splicer_comments` or `write_version`
    (in the branch taken when the option is on and in its `else` branch), and every
    statement of the comment emitters they call, is a comment/blank append, a
    comment-list extend, an emitter call, a guarded-only local, a flag, control
    flow, a write of the option itself or an allow-listed statement: the list of
    unclassified (class 9) sites is empty. -/
theorem guarded_statements_comment_only :
    guardedStmts.filter (fun r => r.2.2.2 == 9) = [] := by decide +kernel

/-- every read of one of the options is an `if` test, an alias assignment or an
    argument of a comment template (or allow-listed): none is unclassified -/
theorem option_uses_classified :
    optionUses.filter (fun r => r.2.2.2 == 9) = [] := by decide +kernel

/-- lists named `stmts_comments*` only ever receive comment text, under a guard -/
theorem comment_lists_clean :
    commentListWrites.filter (fun r => r.2.2 == 9) = [] := by decide +kernel

/-- No option-guarded comment append (and no splicer-marker or comment-list append) targets a
    list whose emptiness is tested in the same file (`if self.impl: write_file = True`) unless the
    same statement list also appends code to it unconditionally: a comment cannot make a file appear. -/
theorem no_guarded_append_decides_file :
    fileDecisionAppends.filter (fun r => r.2.2 == 9) = [] := by decide +kernel

/-- `config.write_version` (the text chosen by --write-version / --nowrite-version) is read only
    by `util.write_output_file`, where it is part of the second header line, a comment line by
    `Shroud.Lines.wof_header_then_body` (Props/C13.lean), and by `main.dump_jsonfile` (the JSON log):
    both reads are found and there is no other. -/
theorem write_version_read_only_for_header :
    writeVersionReads.filter (fun r => r.2.2 == 9) = [] ∧ writeVersionReads.length = 2 := by decide +kernel

/-- Every dynamic part spliced into an option-guarded comment template (format field, operand,
    argument) is an identifier-like generated name, a statement name, a declaration printed without
    continuation hints, or user text that the emitter first strips of TAB / FORM FEED and splits at
    newlines; no literal template contains TAB / FF / CR: the line writer cannot fold such a comment
    line and continue it outside the comment. -/
theorem comment_text_parts_safe :
    commentDynamicParts.filter (fun r => r.2.2 == 9) = [] := by decide +kernel

/-- non-vacuity: the scan found guarded statements for each of the six options -/
theorem guards_found :
    (List.range 6).all (fun o => guardedStmts.any (fun r => r.1 == o)) = true := by decide +kernel

end Shroud.Gen.Guards
