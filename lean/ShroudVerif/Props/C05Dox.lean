import ShroudVerif.Model.Doxygen
/-!
# C05 (part 5): the doxygen block of a declaration stays inside the comment

`util.WrapperMixin.write_doxygen` writes user text (`doxygen: brief / description / return`) into the
C wrapper (`/** ... */`) and into the Fortran wrapper (`!> / !! / !<`).  For ALL texts:
every element it appends is the begin line, the end line, or starts with the continuation prefix;
no element contains a newline (so `write_lines` never splits one into a second physical line without
the prefix) and no user character is a tab or a form feed (so `write_continue` never breaks one).
-/
namespace Shroud.Doxygen

theorem splitNl_ne_nil (t : List Nat) : splitNl t ≠ [] := by
  cases t with
  | nil => simp [splitNl]
  | cons c r => unfold splitNl; split <;> simp

theorem headD_mem_or (l : List (List Nat)) : l.headD [] = [] ∨ l.headD [] ∈ l := by
  cases l <;> simp

/-- every piece of `split("\n")` is free of newlines and made of characters of the text -/
theorem splitNl_piece (t : List Nat) : ∀ seg ∈ splitNl t, 10 ∉ seg ∧ ∀ x ∈ seg, x ∈ t := by
  induction t with
  | nil => intro seg h; simp [splitNl] at h; subst h; simp
  | cons c r ih =>
    intro seg h
    unfold splitNl at h
    split at h
    · rcases List.mem_cons.mp h with h | h
      · subst h; simp
      · have := ih seg h
        exact ⟨this.1, fun x hx => List.mem_cons_of_mem _ (this.2 x hx)⟩
    · rename_i hc
      rcases List.mem_cons.mp h with h | h
      · subst h
        rcases headD_mem_or (splitNl r) with h0 | h0
        · rw [h0]; constructor
          · simp; omega
          · intro x hx; simp at hx; simp [hx]
        · have := ih _ h0
          constructor
          · intro hm
            rcases List.mem_cons.mp hm with h1 | h1
            · exact hc h1.symm
            · exact this.1 h1
          · intro x hx
            rcases List.mem_cons.mp hx with h1 | h1
            · simp [h1]
            · exact List.mem_cons_of_mem _ (this.2 x h1)
      · have := ih seg (List.mem_of_mem_tail h)
        exact ⟨this.1, fun x hx => List.mem_cons_of_mem _ (this.2 x hx)⟩

theorem untab_clean (t : List Nat) : ∀ x ∈ untab t, x ≠ 9 ∧ x ≠ 12 := by
  intro x hx
  simp only [untab, List.mem_map] at hx
  obtain ⟨y, _, rfl⟩ := hx
  split <;> omega

theorem popTrailingEmpty_subset (ls : List (List Nat)) : ∀ s ∈ popTrailingEmpty ls, s ∈ ls := by
  intro s h
  unfold popTrailingEmpty at h
  split at h
  · exact (List.dropLast_sublist ls).subset h
  · exact h

/-- shape of every element `add_text` appends -/
theorem addText_shape (c pre t : List Nat) : ∀ o ∈ addText c pre t,
    ∃ seg, (seg = [] ∨ seg ∈ splitNl (untab t)) ∧ (o = c ++ pre ++ seg ∨ o = c ++ [32] ++ seg) := by
  intro o h
  unfold addText at h
  split at h
  · simp at h; exact ⟨[], Or.inl rfl, Or.inl (by simp [h])⟩
  · rename_i l ls heq
    have sub := popTrailingEmpty_subset (splitNl (untab t))
    rw [heq] at sub
    rcases List.mem_cons.mp h with h | h
    · exact ⟨l, Or.inr (sub l (by simp)), Or.inl h⟩
    · obtain ⟨x, hx, rfl⟩ := List.mem_map.mp h
      exact ⟨x, Or.inr (sub x (List.mem_cons_of_mem _ hx)), Or.inr rfl⟩

/-- what holds of one element: inside the comment, one physical line, no break characters from the text -/
def Inside (c : List Nat) (o : List Nat) : Prop :=
  c <+: o ∧ (10 ∉ c → 10 ∉ o) ∧ (9 ∉ c → 9 ∉ o) ∧ (12 ∉ c → 12 ∉ o)

theorem inside_cont (c : List Nat) : Inside c c := ⟨List.prefix_refl c, id, id, id⟩

theorem addText_inside (c pre t : List Nat) (hp : 10 ∉ pre ∧ 9 ∉ pre ∧ 12 ∉ pre) :
    ∀ o ∈ addText c pre t, Inside c o := by
  intro o h
  obtain ⟨seg, hseg, ho⟩ := addText_shape c pre t o h
  have hs : 10 ∉ seg ∧ 9 ∉ seg ∧ 12 ∉ seg := by
    rcases hseg with h0 | h0
    · subst h0; simp
    · have p := splitNl_piece (untab t) seg h0
      refine ⟨p.1, ?_, ?_⟩
      · intro hm; exact (untab_clean t 9 (p.2 9 hm)).1 rfl
      · intro hm; exact (untab_clean t 12 (p.2 12 hm)).2 rfl
  rcases ho with ho | ho <;> subst ho
  · refine ⟨by simp [List.append_assoc], ?_, ?_, ?_⟩ <;>
      (intro hc hm; simp only [List.mem_append] at hm; rcases hm with (hm | hm) | hm) <;>
      first | exact hc hm | exact hp.1 hm | exact hp.2.1 hm | exact hp.2.2 hm
            | exact hs.1 hm | exact hs.2.1 hm | exact hs.2.2 hm
  · refine ⟨by simp [List.append_assoc], ?_, ?_, ?_⟩ <;>
      (intro hc hm; simp only [List.mem_append, List.mem_singleton] at hm; rcases hm with (hm | hm) | hm) <;>
      first | exact hc hm | omega | exact hs.1 hm | exact hs.2.1 hm | exact hs.2.2 hm

/-- **5a** for all begin/continuation/end strings and ALL texts: every element `write_doxygen` appends is the begin line,
    the end line, or starts with the continuation prefix, is a single physical line and carries no tab / form feed
    (unless the continuation prefix itself has one). -/
theorem write_doxygen_inside_comment (b c e : List Nat) (d : Docs) :
    ∀ o ∈ writeDoxygen b c e d, o = b ∨ o = e ∨ Inside c o := by
  intro o h
  have hb : (10 : Nat) ∉ briefPre ∧ 9 ∉ briefPre ∧ 12 ∉ briefPre := by decide
  have hr : (10 : Nat) ∉ returnPre ∧ 9 ∉ returnPre ∧ 12 ∉ returnPre := by decide
  have h1 : (10 : Nat) ∉ [32] ∧ 9 ∉ [32] ∧ 12 ∉ [32] := by decide
  unfold writeDoxygen at h
  simp only [List.mem_append, List.mem_singleton] at h
  rcases h with (((h | h) | h) | h) | h
  · exact Or.inl h
  · cases hd : d.brief with
    | none => simp [hd] at h
    | some t =>
      simp only [hd, List.mem_append, List.mem_singleton] at h
      rcases h with h | h
      · exact Or.inr (Or.inr (addText_inside c briefPre t hb o h))
      · subst h; exact Or.inr (Or.inr (inside_cont _))
  · cases hd : d.descr with
    | none => simp [hd] at h
    | some t =>
      simp only [hd] at h
      exact Or.inr (Or.inr (addText_inside c [32] t h1 o h))
  · cases hd : d.ret with
    | none => simp [hd] at h
    | some t =>
      simp only [hd, List.mem_append, List.mem_singleton] at h
      rcases h with h | h
      · subst h; exact Or.inr (Or.inr (inside_cont _))
      · exact Or.inr (Or.inr (addText_inside c returnPre t hr o h))
  · exact Or.inr (Or.inl h)

/-- **5b** the Fortran instance (`!>`, `!!`, `!<`): every element starts with `!`, whatever the text says -/
theorem write_doxygen_fortran_all_comment (d : Docs) :
    ∀ o ∈ writeDoxygen [33, 62] [33, 33] [33, 60] d, o.head? = some 33 ∧ 10 ∉ o := by
  intro o h
  rcases write_doxygen_inside_comment _ _ _ d o h with h | h | h
  · subst h; decide
  · subst h; decide
  · obtain ⟨⟨s, hs⟩, hn, _, _⟩ := h
    subst hs
    exact ⟨by simp, hn (by decide)⟩

/-- non-vacuity: a three-line `return` text with a tab; the second and third lines carry the prefix -/
example : writeDoxygen [33, 62] [33, 33] [33, 60] ⟨none, none, some [97, 10, 98, 9, 99, 10]⟩ =
    [[33, 62], [33, 33], [33, 33] ++ returnPre ++ [97], [33, 33, 32, 98, 32, 99], [33, 60]] := by decide

/-- **5c** nothing of the text is lost: without newline, tab or form feed a text is written verbatim on one element -/
theorem addText_verbatim (c pre t : List Nat) (h : ∀ x ∈ t, x ≠ 10 ∧ x ≠ 9 ∧ x ≠ 12) :
    addText c pre t = [c ++ pre ++ t] := by
  have hu : untab t = t := by
    unfold untab
    conv => rhs; rw [← List.map_id t]
    apply List.map_congr_left
    intro x hx
    have := h x hx
    simp; omega
  have hsplit : ∀ u : List Nat, (∀ x ∈ u, x ≠ 10) → splitNl u = [u] := by
    intro u
    induction u with
    | nil => intro _; rfl
    | cons a r ih =>
      intro hh
      have ha : a ≠ 10 := hh a (by simp)
      have := ih (fun x hx => hh x (List.mem_cons_of_mem _ hx))
      unfold splitNl
      simp [ha, this]
  unfold addText
  rw [hu, hsplit t (fun x hx => (h x hx).1)]
  simp [popTrailingEmpty]

example : ∀ x ∈ [97, 98, 32, 99], x ≠ 10 ∧ x ≠ 9 ∧ x ≠ 12 := by decide

end Shroud.Doxygen
