import ShroudVerif.Model.WrapC
import ShroudVerif.Gen.CStmts
set_option linter.unusedSimpArgs false
/-!
# C02  The generated C API of a C++ library is call-equivalent to the C++ API

Theorems over `Model/WrapC.lean`; table theorems over `Gen/CStmts.lean`, which
tools/extract_cstmts.py regenerates from the `/repo` working tree on every run.
-/
namespace Shroud.WrapC
open Shroud.Gen.CStmts

/-! ## (4) lookup theorems -/

/-- `Matches t path k`: the key `k` is obtained from `path` by skipping only empty parts and parts
    that are unknown at the node reached so far, and by stopping anywhere (a key may be shorter
    than the path).  This is the docstring's "longest path which matches ... skip". -/
inductive Matches : Tree → List Nat → List Nat → Prop
  | stop (t : Tree) (path : List Nat) : Matches t path []
  | skipEmpty {t ps k} : Matches t ps k → Matches t (0 :: ps) k
  | skipUnknown {t p ps k} : p ≠ 0 → t.child p = none → Matches t ps k → Matches t (p :: ps) k
  | take {t t' p ps k} : p ≠ 0 → t.child p = some t' → Matches t' ps k → Matches t (p :: ps) (p :: k)

theorem entryAt_cons (t t' : Tree) (p : Nat) (k : List Nat) (h : t.child p = some t') :
    entryAt t (p :: k) = entryAt t' k := by
  simp [entryAt, nodeAt, h]

theorem entryAt_cons_none (t : Tree) (p : Nat) (k : List Nat) (h : t.child p = none) :
    entryAt t (p :: k) = none := by
  simp [entryAt, nodeAt, h]

theorem entryAt_single (t t' : Tree) (p : Nat) (h : t.child p = some t') :
    entryAt t [p] = t'.entry := by
  simp [entryAt, nodeAt, h]

/-- Generalised specification of the loop: either nothing new is found (and then no non-empty
    matching key carries an entry), or the result is the entry of a longest matching key. -/
theorem lookupGo_spec : ∀ (path : List Nat) (t : Tree) (found : Option Nat),
    (lookupGo t found path = found ∧ ∀ k, Matches t path k → k ≠ [] → entryAt t k = none) ∨
    (∃ k e, k ≠ [] ∧ Matches t path k ∧ entryAt t k = some e ∧ lookupGo t found path = some e ∧
      ∀ k', Matches t path k' → (entryAt t k').isSome → k' ≠ [] → k'.length ≤ k.length) := by
  intro path
  induction path with
  | nil =>
    intro t found
    left
    refine ⟨rfl, ?_⟩
    intro k hk hne
    cases hk
    exact absurd rfl hne
  | cons p ps ih =>
    intro t found
    by_cases hp : p = 0
    · subst hp
      have hgo : lookupGo t found (0 :: ps) = lookupGo t found ps := by simp [lookupGo]
      have hm : ∀ k, Matches t (0 :: ps) k → k = [] ∨ Matches t ps k := by
        intro k hk
        cases hk with
        | stop => left; rfl
        | skipEmpty h => right; exact h
        | skipUnknown h0 _ _ => exact absurd rfl h0
        | take h0 _ _ => exact absurd rfl h0
      rcases ih t found with ⟨h1, h2⟩ | ⟨k, e, hk0, hk1, hk2, hk3, hk4⟩
      · left
        refine ⟨by rw [hgo, h1], ?_⟩
        intro k hk hne
        rcases hm k hk with h | h
        · exact absurd h hne
        · exact h2 k h hne
      · right
        refine ⟨k, e, hk0, Matches.skipEmpty hk1, hk2, by rw [hgo, hk3], ?_⟩
        intro k' hk' hs hne
        rcases hm k' hk' with h | h
        · exact absurd h hne
        · exact hk4 k' h hs hne
    · cases hc : t.child p with
      | none =>
        have hgo : lookupGo t found (p :: ps) = lookupGo t found ps := by simp [lookupGo, hp, hc]
        have hm : ∀ k, Matches t (p :: ps) k → k = [] ∨ Matches t ps k := by
          intro k hk
          cases hk with
          | stop => left; rfl
          | skipEmpty h => exact absurd rfl hp
          | skipUnknown _ _ h => right; exact h
          | take _ h1 _ => rw [hc] at h1; cases h1
        rcases ih t found with ⟨h1, h2⟩ | ⟨k, e, hk0, hk1, hk2, hk3, hk4⟩
        · left
          refine ⟨by rw [hgo, h1], ?_⟩
          intro k hk hne
          rcases hm k hk with h | h
          · exact absurd h hne
          · exact h2 k h hne
        · right
          refine ⟨k, e, hk0, Matches.skipUnknown hp hc hk1, hk2, by rw [hgo, hk3], ?_⟩
          intro k' hk' hs hne
          rcases hm k' hk' with h | h
          · exact absurd h hne
          · exact hk4 k' h hs hne
      | some t' =>
        have hgo : lookupGo t found (p :: ps) = lookupGo t' (pick t' found) ps := by
          simp [lookupGo, hp, hc]
        have hm : ∀ k, Matches t (p :: ps) k → k = [] ∨ ∃ k1, k = p :: k1 ∧ Matches t' ps k1 := by
          intro k hk
          cases hk with
          | stop => left; rfl
          | skipEmpty h => exact absurd rfl hp
          | skipUnknown _ h1 _ => rw [hc] at h1; cases h1
          | take _ h1 h2 =>
            rw [hc] at h1
            cases h1
            right
            exact ⟨_, rfl, h2⟩
        rcases ih t' (pick t' found) with ⟨h1, h2⟩ | ⟨k, e, hk0, hk1, hk2, hk3, hk4⟩
        · cases he : t'.entry with
          | none =>
            left
            refine ⟨by rw [hgo, h1]; simp [pick, he], ?_⟩
            intro k hk hne
            rcases hm k hk with h | ⟨k1, h, hk1⟩
            · exact absurd h hne
            · subst h
              rw [entryAt_cons t t' p k1 hc]
              cases k1 with
              | nil => simpa [entryAt, nodeAt] using he
              | cons a b => exact h2 _ hk1 (by simp)
          | some e =>
            right
            refine ⟨[p], e, by simp, Matches.take hp hc (Matches.stop _ _), ?_, ?_, ?_⟩
            · rw [entryAt_single t t' p hc, he]
            · rw [hgo, h1]; simp [pick, he]
            · intro k' hk' hs hne
              rcases hm k' hk' with h | ⟨k1, h, hk1⟩
              · exact absurd h hne
              · subst h
                cases k1 with
                | nil => simp
                | cons a b =>
                  rw [entryAt_cons t t' p _ hc, h2 _ hk1 (by simp)] at hs
                  cases hs
        · right
          refine ⟨p :: k, e, by simp, Matches.take hp hc hk1, ?_, by rw [hgo, hk3], ?_⟩
          · rw [entryAt_cons t t' p k hc, hk2]
          · intro k' hk' hs hne
            rcases hm k' hk' with h | ⟨k1, h, hk1'⟩
            · exact absurd h hne
            · subst h
              cases k1 with
              | nil =>
                cases k with
                | nil => exact absurd rfl hk0
                | cons a b => simp
              | cons a b =>
                rw [entryAt_cons t t' p _ hc] at hs
                have := hk4 _ hk1' hs (by simp)
                simpa using this

/-- **(4a) longest match**: a found entry is the entry of a key that matches the path (skipping
    only empty and unknown parts) and no matching key that carries an entry is longer. -/
theorem lookup_longest_match (t : Tree) (path : List Nat) (e : Nat)
    (h : lookupStmts t path = some e) :
    ∃ k, k ≠ [] ∧ Matches t path k ∧ entryAt t k = some e ∧
      ∀ k', Matches t path k' → (entryAt t k').isSome → k' ≠ [] → k'.length ≤ k.length := by
  rcases lookupGo_spec path t none with ⟨h1, _⟩ | ⟨k, e', hk0, hk1, hk2, hk3, hk4⟩
  · simp [lookupStmts] at h; rw [h1] at h; cases h
  · simp [lookupStmts] at h
    rw [hk3] at h
    cases h
    exact ⟨k, hk0, hk1, hk2, hk4⟩

/-- **(4a') default**: the default scope is returned only when no matching key carries an entry -/
theorem lookup_default_only_if_no_match (t : Tree) (path : List Nat)
    (h : lookupStmts t path = none) :
    ∀ k, Matches t path k → k ≠ [] → entryAt t k = none := by
  rcases lookupGo_spec path t none with ⟨_, h2⟩ | ⟨k, e', _, _, _, hk3, _⟩
  · exact h2
  · simp [lookupStmts] at h; rw [hk3] at h; cases h

/-- **(4b) exact match wins**: a path that is itself a key returns that key's entry -/
theorem lookup_exact : ∀ (k : List Nat) (t n : Tree) (found : Option Nat) (e : Nat),
    k ≠ [] → (∀ p ∈ k, p ≠ 0) → nodeAt t k = some n → n.entry = some e →
    lookupGo t found k = some e := by
  intro k
  induction k with
  | nil => intro t n found e h; exact absurd rfl h
  | cons p ps ih =>
    intro t n found e _ hz hn he
    have hp : p ≠ 0 := hz p (by simp)
    cases hc : t.child p with
    | none => simp [nodeAt, hc] at hn
    | some t' =>
      simp only [nodeAt, hc] at hn
      simp only [lookupGo, hp, if_false, hc]
      cases ps with
      | nil =>
        simp only [nodeAt] at hn
        cases hn
        simp [lookupGo, pick, he]
      | cons a b =>
        exact ih t' n _ e (by simp) (fun q hq => hz q (by simp [hq])) hn he

theorem lookup_exact' (k : List Nat) (t n : Tree) (e : Nat)
    (h0 : k ≠ []) (hz : ∀ p ∈ k, p ≠ 0) (hn : nodeAt t k = some n) (he : n.entry = some e) :
    lookupStmts t k = some e := lookup_exact k t n none e h0 hz hn he

/-! ### frame: adding unrelated entries -/

theorem assoc_replaceKid_ne (q k : Nat) (t : Tree) (ks : List (Nat × Tree)) (h : k ≠ q) :
    assoc k (replaceKid q t ks) = assoc k ks := by
  induction ks with
  | nil => rfl
  | cons x r ih =>
    obtain ⟨k', t'⟩ := x
    by_cases hq : k' = q
    · subst hq
      have : ¬ k' = k := fun hh => h hh.symm
      simp [replaceKid, assoc, this]
    · by_cases hk : k' = k
      · subst hk
        simp [replaceKid, assoc, hq]
      · simp [replaceKid, assoc, hq, hk, ih]

theorem assoc_replaceKid_eq (q : Nat) (t t0 : Tree) (ks : List (Nat × Tree)) (h : assoc q ks = some t0) :
    assoc q (replaceKid q t ks) = some t := by
  induction ks with
  | nil => simp [assoc] at h
  | cons x r ih =>
    obtain ⟨k', t'⟩ := x
    by_cases hq : k' = q
    · simp [replaceKid, assoc, hq]
    · simp only [assoc, hq, if_false] at h
      simp [replaceKid, assoc, hq, ih h]

theorem assoc_append_ne (q k : Nat) (t : Tree) (ks : List (Nat × Tree)) (h : k ≠ q) :
    assoc k (ks ++ [(q, t)]) = assoc k ks := by
  induction ks with
  | nil =>
    have : ¬ q = k := fun hh => h hh.symm
    simp [assoc, this]
  | cons x r ih =>
    obtain ⟨k', t'⟩ := x
    by_cases hk : k' = k
    · simp [assoc, hk]
    · simp [assoc, hk, ih]

/-- lookups that never mention `z` cannot see a change confined to the child `z` -/
theorem lookupGo_congr_except (z : Nat) : ∀ (path : List Nat) (t t' : Tree) (found : Option Nat),
    (∀ p, p ≠ z → t'.child p = t.child p) → z ∉ path →
    lookupGo t' found path = lookupGo t found path := by
  intro path
  induction path with
  | nil => intros; rfl
  | cons p ps ih =>
    intro t t' found hch hz
    have hpz : p ≠ z := fun h => hz (by simp [h])
    have hzps : z ∉ ps := fun h => hz (by simp [h])
    by_cases hp : p = 0
    · simp only [lookupGo, hp, if_true]
      exact ih t t' found hch hzps
    · simp only [lookupGo, hp, if_false, hch p hpz]
      cases t.child p with
      | none => exact ih t t' found hch hzps
      | some t'' => rfl

theorem insert_entry_cons (p : Nat) (ps : List Nat) (v : Nat) (t : Tree) :
    (t.insert (p :: ps) v).entry = t.entry := by
  cases t with
  | node e ks =>
    simp only [Tree.insert]
    cases assoc p ks <;> rfl

theorem insert_child_ne (p q : Nat) (ps : List Nat) (v : Nat) (t : Tree) (h : q ≠ p) :
    (t.insert (p :: ps) v).child q = t.child q := by
  cases t with
  | node e ks =>
    simp only [Tree.insert]
    cases hc : assoc p ks with
    | none => simp [Tree.child, Tree.kids, assoc_append_ne p q _ ks h]
    | some t' => simp [Tree.child, Tree.kids, assoc_replaceKid_ne p q _ ks h]

theorem insert_child_eq (p : Nat) (ps : List Nat) (v : Nat) (t t0 : Tree) (h : t.child p = some t0) :
    (t.insert (p :: ps) v).child p = some (t0.insert ps v) := by
  cases t with
  | node e ks =>
    simp only [Tree.child, Tree.kids] at h
    simp only [Tree.insert, h]
    simp [Tree.child, Tree.kids, assoc_replaceKid_eq p _ t0 ks h]

/-- **(4c) frame**: inserting an entry whose key leaves the existing tree (`pre` exists) through a
    part `z` that the requested path does not mention changes no lookup of that path. -/
theorem lookup_insert_unrelated (z : Nat) (post : List Nat) (v : Nat) :
    ∀ (pre : List Nat) (t : Tree) (path : List Nat) (found : Option Nat),
      (nodeAt t pre).isSome → z ∉ path →
      lookupGo (t.insert (pre ++ z :: post) v) found path = lookupGo t found path := by
  intro pre
  induction pre with
  | nil =>
    intro t path found _ hz
    exact lookupGo_congr_except z path t _ found
      (fun p hp => insert_child_ne z p post v t hp) hz
  | cons q pre' ih =>
    intro t path found hn hz
    cases hc : t.child q with
    | none => simp [nodeAt, hc] at hn
    | some tq =>
      simp only [nodeAt, hc] at hn
      have hins : (t.insert (q :: (pre' ++ z :: post)) v).child q =
          some (tq.insert (pre' ++ z :: post) v) := insert_child_eq q _ v t tq hc
      have hne : ∀ p, p ≠ q → (t.insert (q :: (pre' ++ z :: post)) v).child p = t.child p :=
        fun p hp => insert_child_ne q p _ v t hp
      have hent : (tq.insert (pre' ++ z :: post) v).entry = tq.entry := by
        cases pre' with
        | nil => exact insert_entry_cons z post v tq
        | cons a b => exact insert_entry_cons a _ v tq
      show lookupGo (t.insert (q :: (pre' ++ z :: post)) v) found path = lookupGo t found path
      generalize t.insert (q :: (pre' ++ z :: post)) v = tn at hins hne
      have hn' : (nodeAt tq pre').isSome := hn
      clear hn
      induction path generalizing found with
      | nil => rfl
      | cons p ps ihp =>
        have hzps : z ∉ ps := fun h => hz (by simp [h])
        by_cases hp : p = 0
        · simp only [lookupGo, hp, if_true]
          exact ihp found hzps
        · simp only [lookupGo, hp, if_false]
          by_cases hpq : p = q
          · subst hpq
            rw [hins, hc]
            simp only [pick, hent]
            exact ih tq ps _ hn' hzps
          · rw [hne p hpq]
            cases t.child p with
            | none => exact ihp found hzps
            | some t'' => rfl

theorem lookupStmts_insert_unrelated (z : Nat) (pre post : List Nat) (v : Nat) (t : Tree)
    (path : List Nat) (hn : (nodeAt t pre).isSome) (hz : z ∉ path) :
    lookupStmts (t.insert (pre ++ z :: post) v) path = lookupStmts t path :=
  lookup_insert_unrelated z post v pre t path none hn hz

/-- corollary: entries of another language (`f_...`) never disturb a `c_...` lookup -/
theorem lookupStmts_insert_other_head (z : Nat) (post : List Nat) (v : Nat) (t : Tree)
    (path : List Nat) (hz : z ∉ path) :
    lookupStmts (t.insert (z :: post) v) path = lookupStmts t path :=
  lookupStmts_insert_unrelated z [] post v t path (by simp [nodeAt]) hz

/-! ## (2) the call_list rule over the 2x3 table -/

def modeOf (isPtr isRef : Bool) : Mode :=
  if isPtr then .pointer else if isRef then .reference else .value

/-- local kind `scalar` (the C++ local *is* the object): whatever the parameter's mode, the callee
    gets the local itself (`&x` for a pointer parameter, `x` otherwise). -/
theorem call_list_scalar (h : Heap) (e : Env) (v : Var) (isPtr isRef : Bool) :
    evalCall h e (modeOf isPtr isRef) (callExpr 1 isPtr isRef v) =
      some (match modeOf isPtr isRef with
            | .pointer => .ptr v.addr | .reference => .ref v.addr | _ => .val (e.get v)) := by
  cases isPtr <;> cases isRef <;> simp [modeOf, callExpr, evalCall]

/-- local kind `pointer` (the local points to the object `a`): the callee gets `a` (`x` for a
    pointer parameter, `*x` otherwise). -/
theorem call_list_pointer (h : Heap) (e : Env) (v : Var) (a : Addr) (isPtr isRef : Bool)
    (hv : e.get v = .ptr a) :
    evalCall h e (modeOf isPtr isRef) (callExpr 2 isPtr isRef v) =
      some (match modeOf isPtr isRef with
            | .pointer => .ptr a | .reference => .ref a | _ => .val (load h e a)) := by
  cases isPtr <;> cases isRef <;> simp [modeOf, callExpr, evalCall, hv]

/-- no local: a by-value parameter gets the C value, a pointer parameter the C pointer, a reference
    parameter is bound to the object the C pointer designates (`*x`). -/
theorem call_list_none_value (h : Heap) (e : Env) (v : Var) :
    evalCall h e (modeOf false false) (callExpr 0 false false v) = some (.val (e.get v)) := by
  simp [modeOf, callExpr, evalCall]

theorem call_list_none_indirect (h : Heap) (e : Env) (v : Var) (a : Addr) (isPtr isRef : Bool)
    (hi : isPtr = true ∨ isRef = true) (hx : ¬ (isPtr = true ∧ isRef = true)) (hv : e.get v = .ptr a) :
    evalCall h e (modeOf isPtr isRef) (callExpr 0 isPtr isRef v) =
      some (match modeOf isPtr isRef with
            | .pointer => .ptr a | .reference => .ref a | _ => .val (e.get v)) := by
  cases isPtr <;> cases isRef <;> simp_all [modeOf, callExpr, evalCall]

/-- dropping the dereference for a reference parameter binds the reference to the wrapper's own
    pointer variable instead of the caller's object -/
theorem call_list_missing_deref_differs (h : Heap) (e : Env) (a : Nat) (hv : e.get .c = .ptr (.heap a)) :
    resolve e (evalCall h e .reference (.plain .c)) ≠ resolve e (evalCall h e .reference (.deref .c)) := by
  simp [evalCall, hv, resolve, Var.addr]

/-! ## (1) call equivalence for the modelled argument kinds -/

inductive Ty where
  | native | bool | chr | enum | cstr | string | shadow | struct
  | fnptr        -- callback: pointer to function, passed through
  | void_        -- only as `void **`
  deriving DecidableEq, Repr

inductive Intent where
  | in_ | out | inout
  deriving DecidableEq, Repr

/-- a parameter of the wrapped C++ function as declared -/
structure Param where
  ty : Ty
  mode : Mode
  intent : Intent
  inner : Bool := false      -- the pointee is itself a pointer: `T **` (mode pointer) / `T *&` (mode reference)
  deriving DecidableEq, Repr

def sgroupOf : Ty → Nat
  | .native => p_native | .bool => p_bool | .chr => p_char | .enum => p_native
  | .cstr => p_char | .string => p_string | .shadow => p_shadow | .struct => p_struct
  | .fnptr => p_native | .void_ => p_void

def spointerOf : Mode → Nat
  | .value => p_scalar | .pointer => p_ptr | .reference => p_ref | .convString => p_scalar

def spointerOf2 : Mode → Bool → Nat
  | .pointer, true => p_ptrptr
  | .reference, true => p_ptrref
  | m, _ => spointerOf m

def intentOf : Intent → Nat
  | .in_ => p_in | .out => p_out | .inout => p_inout

/-- typemap c_to_cxx pattern code (regenerated table `typemapConv`): enum 1, shadow 2, else none -/
def convOf : Ty → Nat
  | .enum => 1 | .shadow => 2 | _ => 0

def descOf (p : Param) : ArgDesc :=
  { sgroup := sgroupOf p.ty, spointer := spointerOf2 p.mode p.inner, intent := intentOf p.intent, suffix := 0,
    extra := [], isPtr := p.mode = .pointer || (p.inner && p.mode = .reference), isRef := p.mode = .reference,
    valueAttr := p.mode = .value || p.mode = .convString,
    conv := convOf p.ty, isResult := false, isEnum := p.ty = .enum }

/-- declarations in the modelled domain: `char` by value (`chr`) and `char *` (`cstr`) are separate
    kinds; by-value parameters are `in`; `std::string` by value is built explicitly (fix e523686; `Mode.convString`, the compiler's converting
    constructor, only describes the code before it); `inner` marks
    `T **` / `T *&` (native; `char **` and `void **` with intent in); `fnptr` is a callback passed by value. -/
def Param.valid (p : Param) : Bool :=
  if p.inner then
    ((p.ty = .native && (p.mode = .pointer || p.mode = .reference)) ||
     ((p.ty = .cstr || p.ty = .void_) && p.mode = .pointer && p.intent = .in_)) else
  match p.ty, p.mode with
  | .fnptr, .value => p.intent = .in_
  | .fnptr, _ => false
  | .void_, _ => false
  | _, .convString => false
  | .chr, .value => p.intent = .in_
  | .chr, _ => false
  | .cstr, .pointer => true
  | .cstr, _ => false
  | .enum, .value => p.intent = .in_
  | _, .value => p.intent = .in_
  | _, _ => true

/-- the C value has the shape the generated prototype asks for -/
def wellTyped (h : Heap) (p : Param) (c : Val) : Prop :=
  match p.ty, p.mode with
  | .native, .value => ∃ n, c = .int n
  | .bool, .value => ∃ b, c = .bool b
  | .chr, .value => ∃ n, c = .chr n
  | .enum, .value => ∃ n, c = .int n
  | .struct, .value => ∃ n, c = .blob n
  | .shadow, .value => ∃ a i id, c = .capsule (some a) i ∧ h a = .obj id
  | .string, _ => ∃ a s, c = .ptr (.heap a) ∧ h a = .str s   -- also by value: the C prototype is `char *`
  | .shadow, _ => ∃ a o i, c = .ptr (.heap a) ∧ h a = .capsule (some o) i
  | _, _ => ∃ a, c = .ptr (.heap a)

/-- **the documented conversion**: what the C++ callee must see for C value `c` -/
def expected (h : Heap) (p : Param) (c : Val) : Seen :=
  match p.ty, p.mode, c with
  | .enum, .value, .int n => .val (.enum n)                  -- enum from its int form
  | .string, .value, .ptr (.heap a) => .val (h a)            -- std::string by value built from the C string
  | .string, m, .ptr (.heap a) =>                            -- std::string rebuilt from the C string
    (match p.intent with
     | .out => .tmp m (.str [])
     | _ => .tmp m (h a))
  | .shadow, .value, .capsule (some o) _ => .val (h o)       -- the instance itself
  | .shadow, m, .ptr (.heap a) =>                            -- the object held by the capsule
    (match h a with | .capsule (some o) _ => .obj m o | _ => .bad)
  | _, .value, v => .val v                                   -- same value
  | _, m, .ptr (.heap a) => .obj m a                         -- same object (pointer / reference rebuilt from the pointer)
  | _, _, _ => .bad

/-- the Op shape documented for each key of the plain C API -/
def docPlan (p : Param) : ArgPlan :=
  match p.ty, p.mode with
  | .enum, .value => ⟨[.arg], [.castEnum], some (.plain .cxx), []⟩
  | .enum, m => ⟨[.arg], [.structCast false], some (if m = .reference then .deref .cxx else .plain .cxx), []⟩
  | .chr, .value => ⟨[.argDecl 1], [], some (.plain .c), []⟩
  | .string, .value => ⟨[.argDecl 1], [.strFromC], some (.plain .cxx), []⟩
  | .string, m =>
    ⟨[.arg], [if p.intent = .out then .strEmpty else .strFromC],
     some (if m = .pointer then .addrOf .cxx else .plain .cxx),
     if p.intent = .in_ then [] else [.strcpyBack]⟩
  | .shadow, m =>
    ⟨[if p.intent = .out then .arg else .shadow (m = .value)], [.capsuleAddr (m ≠ .value)],
     some (if m = .pointer then .plain .cxx else .deref .cxx), []⟩
  | .struct, m =>
    ⟨[.arg], [.structCast (m = .value)], some (if m = .pointer then .plain .cxx else .deref .cxx), []⟩
  | _, .reference => ⟨[.arg], [], some (.deref .c), []⟩
  | _, .pointer => ⟨[if p.inner && p.intent = .in_ then .argDecl 1 else .arg], [], some (.plain .c), []⟩
  | _, _ => ⟨[.arg], [], some (.plain .c), []⟩

def allTys : List Ty := [.native, .bool, .chr, .enum, .cstr, .string, .shadow, .struct, .fnptr, .void_]
def allModes : List Mode := [.value, .pointer, .reference, .convString]
def allIntents : List Intent := [.in_, .out, .inout]
def allParams : List Param :=
  allTys.flatMap fun t => allModes.flatMap fun m => allIntents.flatMap fun i => [⟨t, m, i, false⟩, ⟨t, m, i, true⟩]

theorem mem_allParams (p : Param) : p ∈ allParams := by
  obtain ⟨t, m, i, n⟩ := p
  cases t <;> cases m <;> cases i <;> cases n <;> decide

def planOf (p : Param) : ArgPlan :=
  assembleArg (descOf p) (selectEntry entries tree ((descOf p).key vocab))

/-- **(5a) table theorem (regenerated data)**: for every modelled declaration the statement entry
    that `lookupStmts` reaches for key `[c, sgroup, spointer, intent, ""]`, assembled by the
    per-argument rules of wrap_function, is exactly the documented Op shape, with `{cxx_var}` /
    `{c_var}` in the documented positions, address-of vs dereference as documented.
    (Enum pointers/references are included: the table says what the code does for them.) -/
theorem table_arg_shapes : ∀ p : Param, p.valid = true → planOf p = docPlan p := by
  have h : (allParams.all fun p => !p.valid || planOf p == docPlan p) = true := by
    decide +kernel
  intro p hp
  have := List.all_eq_true.mp h p (mem_allParams p)
  simpa [hp] using this

/-- semantics of the documented shapes, for all values -/
theorem docPlan_equiv (h : Heap) (p : Param) (c : Val) (hv : p.valid = true) (hw : wellTyped h p c) :
    runArg h p.mode (docPlan p) c = some (expected h p c) := by
  obtain ⟨t, m, i⟩ := p
  cases t <;> cases m <;> cases i <;> simp [Param.valid] at hv <;>
    simp only [wellTyped] at hw <;>
    (first
      | (obtain ⟨a, o, i', rfl, h2⟩ := hw
         simp [runArg, docPlan, runPre, evalRhs, evalCall, resolve, expected, Env.get, Var.addr, load, h2])
      | (obtain ⟨a, s, rfl, h2⟩ := hw
         simp [runArg, docPlan, runPre, evalRhs, evalCall, resolve, expected, Env.get, Var.addr, load, h2])
      | (obtain ⟨a, rfl⟩ := hw
         simp [runArg, docPlan, runPre, evalRhs, evalCall, resolve, expected, Env.get, Var.addr, load]))

/-- **(1a) per-argument call equivalence**: the callee sees the documented conversion of the C
    value, for every modelled declaration and every well-typed value. -/
theorem arg_call_equivalence (h : Heap) (p : Param) (c : Val) (hv : p.valid = true)
    (hw : wellTyped h p c) :
    runArg h p.mode (planOf p) c = some (expected h p c) := by
  rw [table_arg_shapes p hv]
  exact docPlan_equiv h p c hv hw

example : runArg (fun _ => .str [104, 105]) .reference (planOf ⟨.string, .reference, .in_, false⟩) (.ptr (.heap 7))
    = some (.tmp .reference (.str [104, 105])) := by decide +kernel

/-- `std::string` by value (after e523686): the wrapper constructs the std::string from the C string
    and passes that object -/
theorem string_by_value (h : Heap) (a : Nat) (s : List Nat) (hs : h a = .str s) :
    runArg h .value (planOf ⟨.string, .value, .in_, false⟩) (.ptr (.heap a)) = some (.val (.str s)) := by
  have := arg_call_equivalence h ⟨.string, .value, .in_, false⟩ (.ptr (.heap a)) (by decide) ⟨a, s, rfl, hs⟩
  simpa [expected, hs] using this

/-- witness about the code before e523686: it passed the `char *` itself; the value the overloaded
    C++ name receives is a pointer, not a std::string (overload resolution may then prefer `bool` or
    `const char *`); only under the converting-constructor reading (`Mode.convString`, a name that is
    not overloaded) is it the string -/
theorem string_by_value_old_code (h : Heap) (a : Nat) (s : List Nat) (hs : h a = .str s) :
    runArg h .value ⟨[.argDecl 1], [], some (.plain .c), []⟩ (.ptr (.heap a)) = some (.val (.ptr (.heap a))) ∧
    runArg h .convString ⟨[.argDecl 1], [], some (.plain .c), []⟩ (.ptr (.heap a)) = some (.val (.str s)) := by
  simp [runArg, runPre, evalCall, resolve, Env.get, hs]

/-- `T **` is passed through, `T *&` is rebuilt from the `T **` the C caller passes (`*x`): in both
    cases the callee works on the caller's pointer cell `a`, for every intent. -/
theorem pointer_to_pointer (h : Heap) (a : Nat) (i : Intent) :
    runArg h .pointer (planOf ⟨.native, .pointer, i, true⟩) (.ptr (.heap a)) = some (.obj .pointer a) ∧
    runArg h .reference (planOf ⟨.native, .reference, i, true⟩) (.ptr (.heap a)) = some (.obj .reference a) := by
  constructor
  · have := arg_call_equivalence h ⟨.native, .pointer, i, true⟩ (.ptr (.heap a)) (by cases i <;> decide) ⟨a, rfl⟩
    simpa [expected] using this
  · have := arg_call_equivalence h ⟨.native, .reference, i, true⟩ (.ptr (.heap a)) (by cases i <;> decide) ⟨a, rfl⟩
    simpa [expected] using this

/-- enum by pointer / reference (after the repair f9c4cc7): the pointer to the enum's int form is
    converted as a pointer, the callee works on the caller's cell -/
theorem enum_indirect (h : Heap) (a : Nat) (i : Intent) :
    runArg h .pointer (planOf ⟨.enum, .pointer, i, false⟩) (.ptr (.heap a)) = some (.obj .pointer a) ∧
    runArg h .reference (planOf ⟨.enum, .reference, i, false⟩) (.ptr (.heap a)) = some (.obj .reference a) := by
  constructor
  · have := arg_call_equivalence h ⟨.enum, .pointer, i, false⟩ (.ptr (.heap a)) (by cases i <;> decide) ⟨a, rfl⟩
    simpa [expected] using this
  · have := arg_call_equivalence h ⟨.enum, .reference, i, false⟩ (.ptr (.heap a)) (by cases i <;> decide) ⟨a, rfl⟩
    simpa [expected] using this

/-- witness about the code before f9c4cc7: it applied the by-value conversion `static_cast<E>(p)` to
    the pointer; that plan is ill-typed (the wrapper did not compile) -/
def oldEnumIndirectPlan (m : Mode) : ArgPlan :=
  ⟨[.arg], [.castEnum], some (if m = .reference then .deref .cxx else .plain .cxx), []⟩

theorem enum_indirect_old_code_ill_typed (h : Heap) (m : Mode) (a : Addr) (hm : m = .pointer ∨ m = .reference) :
    runArg h m (oldEnumIndirectPlan m) (.ptr a) = some .bad := by
  rcases hm with rfl | rfl <;> simp [runArg, oldEnumIndirectPlan, runPre, evalRhs, evalCall, resolve, Env.get]

/-- callbacks, `char **` and `void **` are handed to the library unchanged -/
theorem pass_through_kinds (h : Heap) (a : Nat) :
    runArg h .value (planOf ⟨.fnptr, .value, .in_, false⟩) (.ptr (.heap a)) = some (.val (.ptr (.heap a))) ∧
    runArg h .pointer (planOf ⟨.cstr, .pointer, .in_, true⟩) (.ptr (.heap a)) = some (.obj .pointer a) ∧
    runArg h .pointer (planOf ⟨.void_, .pointer, .in_, true⟩) (.ptr (.heap a)) = some (.obj .pointer a) := by
  refine ⟨?_, ?_, ?_⟩
  · have := arg_call_equivalence h ⟨.fnptr, .value, .in_, false⟩ (.ptr (.heap a)) (by decide) ⟨a, rfl⟩
    simpa [expected] using this
  · have := arg_call_equivalence h ⟨.cstr, .pointer, .in_, true⟩ (.ptr (.heap a)) (by decide) ⟨a, rfl⟩
    simpa [expected] using this
  · have := arg_call_equivalence h ⟨.void_, .pointer, .in_, true⟩ (.ptr (.heap a)) (by decide) ⟨a, rfl⟩
    simpa [expected] using this

/-- all arguments, in declaration order (induction over the parameter list) -/
def expectedArgs (h : Heap) : List Param → List Val → List Seen
  | p :: ps, c :: cs => expected h p c :: expectedArgs h ps cs
  | _, _ => []

inductive AllTyped (h : Heap) : List Param → List Val → Prop
  | nil : AllTyped h [] []
  | cons {p ps c cs} : p.valid = true → wellTyped h p c → AllTyped h ps cs → AllTyped h (p :: ps) (c :: cs)

theorem args_call_equivalence (h : Heap) : ∀ (ps : List Param) (cs : List Val), AllTyped h ps cs →
    runArgs h (ps.map (·.mode)) (ps.map planOf) cs = expectedArgs h ps cs := by
  intro ps cs ht
  induction ht with
  | nil => rfl
  | cons hv hw _ ih =>
    simp only [List.map_cons, runArgs, arg_call_equivalence h _ _ hv hw, expectedArgs, ih]

/-! ### output arguments -/

/-- **(1b) output arguments**: what the callee stores through the parameter it received arrives in
    the caller's memory at the pointer the caller passed (directly for pass-through kinds, through
    `strcpy` for `std::string` out/inout); `in` strings are not copied back. -/
theorem arg_out_equivalence (h : Heap) (p : Param) (a : Nat) (w : Val) (hv : p.valid = true)
    (hm : p.mode ≠ .value) (hm2 : p.mode ≠ .convString) (hs : p.ty ≠ .shadow)
    (hw : wellTyped h p (.ptr (.heap a))) :
    runArgOut h p.mode (planOf p) (.ptr (.heap a)) (some w) =
      (if p.ty = .string ∧ p.intent = .in_ then none else some (a, w)) := by
  rw [table_arg_shapes p hv]
  obtain ⟨t, m, i⟩ := p
  cases t <;> cases m <;> cases i <;> simp [Param.valid] at hv <;> simp at hm <;> simp at hm2 <;> simp at hs <;>
    simp [runArgOut, docPlan, runPre, evalRhs, evalCall, Env.get, Var.addr]

/-- a `std::string` the callee does not assign is copied back unchanged for `inout` -/
theorem string_inout_untouched (h : Heap) (m : Mode) (a : Nat) (s : List Nat) (hm : m ≠ .value)
    (hm2 : m ≠ .convString) (hs : h a = .str s) :
    runArgOut h m (planOf ⟨.string, m, .inout, false⟩) (.ptr (.heap a)) none = some (a, .str s) := by
  rw [table_arg_shapes _ (by cases m <;> simp_all [Param.valid])]
  cases m <;> simp at hm <;> simp at hm2 <;> simp [runArgOut, docPlan, runPre, evalRhs, evalCall, Env.get, Var.addr, hs]

/-! ## results, `this`, whole wrapper -/

inductive RKind where
  | void | nativeVal | nativePtr | nativeRef | boolVal | enumVal | cstr | stringRef | stringPtr
  | shadowPtr | shadowRef | shadowVal | structVal | structPtr | ctor | dtor
  deriving DecidableEq, Repr

def allRKinds : List RKind :=
  [.void, .nativeVal, .nativePtr, .nativeRef, .boolVal, .enumVal, .cstr, .stringRef, .stringPtr,
   .shadowPtr, .shadowRef, .shadowVal, .structVal, .structPtr, .ctor, .dtor]

theorem mem_allRKinds (k : RKind) : k ∈ allRKinds := by cases k <;> decide

/-- (sgroup, mode, cxx_to_c pattern code) of the result declaration -/
def resTriple : RKind → Nat × Mode × Nat
  | .void | .dtor => (p_void, .value, 0)
  | .nativeVal => (p_native, .value, 0)
  | .nativePtr => (p_native, .pointer, 0)
  | .nativeRef => (p_native, .reference, 0)
  | .boolVal => (p_bool, .value, 0)
  | .enumVal => (p_native, .value, 1)
  | .cstr => (p_char, .pointer, 0)
  | .stringRef => (p_string, .reference, 3)
  | .stringPtr => (p_string, .pointer, 3)
  | .shadowPtr => (p_shadow, .pointer, 2)
  | .shadowRef => (p_shadow, .reference, 2)
  | .shadowVal | .ctor => (p_shadow, .value, 2)
  | .structVal => (p_struct, .value, 0)
  | .structPtr => (p_struct, .pointer, 0)

def RKind.isPtr (k : RKind) : Bool := (resTriple k).2.1 = .pointer

def resDescOf (k : RKind) : ArgDesc :=
  let (sg, m, cv) := resTriple k
  { sgroup := sg, spointer := spointerOf m, intent := p_result, suffix := 0, extra := [],
    isPtr := m = .pointer, isRef := m = .reference, valueAttr := false, conv := cv, isResult := false }

/-- a wrapped function / method / ctor / dtor as declared -/
def funcOf (k : RKind) (isMethod isStatic isConst : Bool) (ps : List Param) : FuncDesc :=
  { isMethod := isMethod || k = .ctor || k = .dtor, isCtor := k = .ctor, isDtor := k = .dtor,
    isStatic := isStatic, isConst := isConst,
    isFunction := !(k = .void || k = .dtor), res := resDescOf k, derefScalar := false,
    args := ps.map descOf }

/-- documented result handling per kind -/
def docRes : RKind → ResPlan
  | .void => ⟨.plain, .none, false, false, false, .none, []⟩
  | .nativeVal | .nativePtr | .boolVal | .cstr => ⟨.assign, .none, false, false, false, .cvar 0, []⟩
  | .nativeRef => ⟨.assign, .none, false, false, false, .cvar 1, []⟩
  | .enumVal => ⟨.assign, .castInt, false, false, false, .cvar 0, []⟩
  | .stringRef | .stringPtr => ⟨.assign, .cStr, false, false, false, .cvar 0, []⟩
  | .shadowPtr | .shadowRef => ⟨.assign, .none, true, false, false, .shadow, [.shadow false]⟩
  | .shadowVal => ⟨.assignNew, .none, true, false, false, .shadow, [.shadow false]⟩
  | .ctor => ⟨.ctorNew, .none, false, false, false, .shadow, [.shadow false]⟩
  | .structVal => ⟨.assign, .none, false, true, false, .cvar 2, []⟩
  | .structPtr => ⟨.assign, .none, false, true, false, .cvar 0, []⟩
  | .dtor => ⟨.dtorDelete, .none, false, false, true, .none, []⟩

def resPlanOf (k : RKind) (m s c : Bool) (ps : List Param) : ResPlan :=
  let f := funcOf k m s c ps
  assembleRes f (selectEntry entries tree (f.resKey vocab)) false

/-- **(5b) table theorem (regenerated data)**: result entries reached for
    `[c, sgroup, spointer, result|ctor, ""]` / `[c, shadow, dtor]` / `[c]` give the documented
    call / conversion / capsule / return shape. -/
theorem table_res_shapes (k : RKind) (m s c : Bool) (ps : List Param) :
    resPlanOf k m s c ps = docRes k := by
  have h : (allRKinds.all fun k => resPlanOf k false false false [] == docRes k) = true := by
    decide +kernel
  have := List.all_eq_true.mp h k (mem_allRKinds k)
  have e : resPlanOf k m s c ps = resPlanOf k false false false [] := by
    cases k <;> rfl
  rw [e]
  simpa using this

/-- the reached ctor / dtor / class-result entries mention the right variables in the right
    positions: `new T({C_call_list})` into `{cxx_var}`, capsule fields of `{shadow_var}` set from
    `{cxx_var}` / `{cxx_nonconst_ptr}` and `{idtor}`, `delete {CXX_this}`, `{C_this}->addr = nullptr`,
    `return {shadow_var}`. -/
theorem table_class_entries :
    (selectEntry entries tree [p_c, p_shadow, p_scalar, p_ctor, 0]).call =
        [(opCtorNew, [2, 8]), (opSetAddrCast, [3, 2]), (opSetIdtor, [3, 7])] ∧
    (selectEntry entries tree [p_c, p_shadow, p_scalar, p_ctor, 0]).ret = [(opReturn, [3])] ∧
    (selectEntry entries tree [p_c, p_shadow, p_dtor]).call =
        [(opDelete, [4]), (opSetAddrNull, [5, 13])] ∧
    (selectEntry entries tree [p_c, p_shadow, p_ptr, p_result, 0]).post =
        [(opSetAddr, [3, 6]), (opSetIdtor, [3, 7])] ∧
    (selectEntry entries tree [p_c, p_shadow, p_ref, p_result, 0]).post =
        [(opSetAddr, [3, 6]), (opSetIdtor, [3, 7])] ∧
    (selectEntry entries tree [p_c, p_shadow, p_scalar, p_result, 0]).pre = [(opNew, [2])] ∧
    (selectEntry entries tree [p_c, p_shadow, p_scalar, p_result, 0]).post =
        [(opSetAddr, [3, 6]), (opSetIdtor, [3, 7])] ∧
    (selectEntry entries tree [p_c, p_struct, p_scalar, p_result, 0]).post = [(opStructBack, [1, 10, 2])] := by
  decide +kernel

/-- the C++ return value has the shape of the declared result -/
def retTyped : RKind → CxxRet → Prop
  | .void, r | .dtor, r | .ctor, r => r = .void
  | .nativeVal, r => ∃ n, r = .val (.int n)
  | .boolVal, r => ∃ b, r = .val (.bool b)
  | .enumVal, r => ∃ n, r = .val (.enum n)
  | .structVal, r => ∃ n, r = .val (.blob n)
  | .shadowVal, r => ∃ n, r = .val (.obj n)
  | .nativePtr, r | .cstr, r | .shadowPtr, r | .structPtr, r => ∃ a, r = .ptr a
  | .stringPtr, r => ∃ a, r = .ptr (some a)
  | .nativeRef, r | .stringRef, r | .shadowRef, r => ∃ a, r = .ref a

/-- **documented result conversion**: what the C caller must get -/
def expectedRes (k : RKind) (r : CxxRet) (tail fresh idtor : Nat) : CResult :=
  match k, r with
  | .void, _ | .dtor, _ => ⟨none, none⟩
  | .enumVal, .val (.enum n) => ⟨some (.int n), none⟩                 -- enum as int
  | .stringRef, .ref a | .stringPtr, .ptr (some a) => ⟨some (.ptr (.heap a)), none⟩  -- its characters
  | .nativeRef, .ref a => ⟨some (.ptr (.heap a)), none⟩               -- reference as pointer
  | .shadowPtr, .ptr a => ⟨some (.ptr (.heap tail)), some (tail, .capsule a idtor)⟩
  | .shadowRef, .ref a => ⟨some (.ptr (.heap tail)), some (tail, .capsule (some a) idtor)⟩
  | .shadowVal, .val _ | .ctor, _ => ⟨some (.ptr (.heap tail)), some (tail, .capsule (some fresh) idtor)⟩
  | _, .val v => ⟨some v, none⟩                                       -- same value
  | _, .ptr a => ⟨some (optPtr a), none⟩                              -- same pointer
  | _, _ => ⟨some .undef, none⟩

/-- **(1c) result equivalence**, for every modelled result kind and every returned value -/
theorem result_equivalence (h : Heap) (k : RKind) (m s c : Bool) (ps : List Param) (r : CxxRet)
    (tail fresh idtor : Nat) (hr : retTyped k r) :
    runResult h (resPlanOf k m s c ps) k.isPtr r (some tail) fresh idtor = expectedRes k r tail fresh idtor := by
  rw [table_res_shapes]
  cases k <;> simp only [retTyped] at hr <;>
    (first
      | (subst hr; simp [runResult, docRes, expectedRes])
      | (obtain ⟨a, rfl⟩ := hr
         simp [runResult, docRes, expectedRes, cxxDen, applyConv, applyPrefix, structBackDen, RKind.isPtr, resTriple, optPtr])
      | (obtain ⟨a, rfl⟩ := hr
         cases a <;>
         simp [runResult, docRes, expectedRes, cxxDen, applyConv, applyPrefix, structBackDen, RKind.isPtr, resTriple, optPtr]))

/-- **class reference results keep identity**: for `T &f()` the handle the C caller gets holds the very
    object the C++ call returns (what the entry reached for `[c, shadow, &, result]` does); the plan
    for a by-value result (reached for `[c, shadow, scalar, result]`) hands out a fresh copy instead,
    so using the by-value key for a reference result loses identity. -/
theorem class_reference_result_identity (h : Heap) (m s c : Bool) (ps : List Param) (a tail fresh idtor : Nat) :
    runResult h (resPlanOf .shadowRef m s c ps) false (.ref a) (some tail) fresh idtor =
      ⟨some (.ptr (.heap tail)), some (tail, .capsule (some a) idtor)⟩ ∧
    (fresh ≠ a →
      ∀ v, runResult h (resPlanOf .shadowVal m s c ps) false (.val v) (some tail) fresh idtor ≠
        ⟨some (.ptr (.heap tail)), some (tail, .capsule (some a) idtor)⟩) := by
  rw [table_res_shapes, table_res_shapes]
  constructor
  · simp [runResult, docRes]
  · intro hne v
    simp [runResult, docRes, hne]

/-- **(1d) `this`**: present exactly for instance methods and destructors, with the method's
    constness, and it is the object held by the capsule the first C parameter points to. -/
theorem this_plan (k : RKind) (m s c : Bool) (ps : List Param) :
    (assembleC vocab entries tree (funcOf k m s c ps)).this =
      if (m || k = .dtor) && !(k = .ctor) && !s then some ⟨c⟩ else none := by
  cases k <;> cases m <;> cases s <;> simp [assembleC, thisPlan, funcOf]

theorem this_object (h : Heap) (a o i : Nat) (hc : h a = .capsule (some o) i) :
    runThis h (.ptr (.heap a)) = .ptr (.heap o) := by
  simp [runThis, evalRhs, hc]

/-- taking the second parameter for `this` designates a different object whenever the two
    capsules hold different objects -/
theorem this_wrong_parameter_differs (h : Heap) (a b o o' i j : Nat) (ha : h a = .capsule (some o) i)
    (hb : h b = .capsule (some o') j) (hne : o ≠ o') :
    runThis h (.ptr (.heap b)) ≠ runThis h (.ptr (.heap a)) := by
  simp [runThis, evalRhs, ha, hb, Ne.symm hne]

theorem any_isResult_descOf (ps : List Param) : (ps.map descOf).any (·.isResult) = false := by
  induction ps with
  | nil => rfl
  | cons p ps ih => simp [descOf, ih]

theorem assembleC_args (k : RKind) (m s c : Bool) (ps : List Param) :
    (assembleC vocab entries tree (funcOf k m s c ps)).args = ps.map planOf := by
  simp [assembleC, funcOf, planOf, List.map_map, Function.comp_def]

theorem assembleC_res (k : RKind) (m s c : Bool) (ps : List Param) :
    (assembleC vocab entries tree (funcOf k m s c ps)).res = resPlanOf k m s c ps := by
  have : ((funcOf k m s c ps).args.any (·.isResult)) = false := any_isResult_descOf ps
  simp only [assembleC, resPlanOf, this]

/-- **(1) call equivalence, free function / static method / constructor** (no `this`): for ALL
    parameter lists and values the callee view is the documented conversion of the C arguments in
    declaration order and the C caller gets the documented conversion of the result. -/
theorem call_equivalence_no_this (h : Heap) (k : RKind) (m s c : Bool) (ps : List Param)
    (cs : List Val) (r : CxxRet) (tail fresh idtor : Nat)
    (hthis : ((m || k = .dtor) && !(k = .ctor) && !s) = false)
    (ht : AllTyped h ps cs) (hr : retTyped k r) :
    runWrapper h (assembleC vocab entries tree (funcOf k m s c ps)) (ps.map (·.mode)) cs k.isPtr r
        (some tail) fresh idtor =
      (⟨none, expectedArgs h ps cs⟩, expectedRes k r tail fresh idtor) := by
  have h1 := this_plan k m s c ps
  rw [hthis] at h1
  simp only [Bool.false_eq_true, if_false] at h1
  simp only [runWrapper, h1, assembleC_args, assembleC_res, args_call_equivalence h ps cs ht,
    result_equivalence h k m s c ps r tail fresh idtor hr]

/-- what the C caller of a method gets: as `expectedRes`, and after the destructor wrapper the handle
    holds NULL (`self->addr = nullptr`), its `idtor` field unchanged -/
def expectedResM (k : RKind) (r : CxxRet) (self i tail fresh idtor : Nat) : CResult :=
  if k = .dtor then ⟨none, some (self, .capsule none i)⟩ else expectedRes k r tail fresh idtor

/-- **(1) call equivalence, instance method / destructor**: additionally `this` is the object named
    by the first C parameter; the destructor wrapper deletes that object and clears the handle. -/
theorem call_equivalence_method (h : Heap) (k : RKind) (m s c : Bool) (ps : List Param)
    (cs : List Val) (r : CxxRet) (self obj i tail fresh idtor : Nat)
    (hthis : ((m || k = .dtor) && !(k = .ctor) && !s) = true)
    (hself : h self = .capsule (some obj) i)
    (ht : AllTyped h ps cs) (hr : retTyped k r) :
    runWrapper h (assembleC vocab entries tree (funcOf k m s c ps)) (ps.map (·.mode))
        (.ptr (.heap self) :: cs) k.isPtr r (some tail) fresh idtor =
      (⟨some (.ptr (.heap obj)), expectedArgs h ps cs⟩, expectedResM k r self i tail fresh idtor) := by
  have h1 := this_plan k m s c ps
  rw [hthis] at h1
  simp only [if_true] at h1
  simp only [runWrapper, h1, assembleC_args, assembleC_res, args_call_equivalence h ps cs ht,
    result_equivalence h k m s c ps r tail fresh idtor hr, this_object h self obj i hself]
  rw [table_res_shapes]
  cases k <;> simp [docRes, expectedResM, clearHandle, hself, expectedRes]

/-- **(4) destructor**: `<Class>_dtor(self)` runs the C++ destructor on the object the handle holds
    and leaves `{addr = NULL, idtor unchanged}` in the caller's handle -/
theorem dtor_clears_handle (h : Heap) (self obj i tail fresh idtor : Nat)
    (hself : h self = .capsule (some obj) i) :
    runWrapper h (assembleC vocab entries tree (funcOf .dtor false false false [])) []
        [.ptr (.heap self)] false .void (some tail) fresh idtor =
      (⟨some (.ptr (.heap obj)), []⟩, ⟨none, some (self, .capsule none i)⟩) := by
  have := call_equivalence_method h .dtor false false false [] [] .void self obj i tail fresh idtor
    (by decide) hself AllTyped.nil rfl
  simpa [expectedResM, expectedArgs, RKind.isPtr, resTriple] using this

/-- non-vacuity: `int K::m(const std::string &s, int &n, Color e) const` -/
example :
    runWrapper (fun a => if a = 1 then .capsule (some 9) 0 else if a = 2 then .str [120] else .int 4)
      (assembleC vocab entries tree (funcOf .nativeVal true false true
        [⟨.string, .reference, .in_, false⟩, ⟨.native, .reference, .inout, false⟩, ⟨.enum, .value, .in_, false⟩]))
      [.reference, .reference, .value] [.ptr (.heap 1), .ptr (.heap 2), .ptr (.heap 3), .int 5]
      false (.val (.int 7)) (some 0) 0 0
    = (⟨some (.ptr (.heap 9)), [.tmp .reference (.str [120]), .obj .reference 3, .val (.enum 5)]⟩,
       ⟨some (.int 7), none⟩) := by decide +kernel

/-! ## (3) conversion round trips -/

/-- enum: `c_to_cxx ∘ cxx_to_c = id` and `cxx_to_c ∘ c_to_cxx = id` -/
theorem enum_round_trip (h : Heap) (n : Int) :
    evalRhs h (evalRhs h (.enum n) .castInt) .castEnum = .enum n ∧
    evalRhs h (evalRhs h (.int n) .castEnum) .castInt = .int n := by
  simp [evalRhs]

/-- casting in the wrong direction is not the identity (it is ill-typed) -/
theorem enum_wrong_direction (h : Heap) (n : Int) : evalRhs h (.int n) .castInt = .undef := by
  simp [evalRhs]

/-- bool (and every typemap without conversion patterns): both directions are the identity -/
theorem bool_round_trip (b : Bool) : applyConv .none (.value (.bool b)) = .value (.bool b) ∧
    convOf .bool = 0 := by
  simp [applyConv, convOf]

/-- shadow: an object handed out through a capsule (`cxx_to_c`: result / constructor wrapper) and
    handed back as an argument or as `this` (`c_to_cxx`) is the same object. -/
theorem shadow_round_trip (k : RKind) (hk : k = .shadowPtr ∨ k = .shadowRef) (o tail fresh idtor : Nat) :
    let r : CxxRet := if k = .shadowPtr then .ptr (some o) else .ref o
    let res := expectedRes k r tail fresh idtor
    ∀ h' : Heap, (∀ cell v, res.capsule = some (cell, v) → h' cell = v) →
      (∃ p, res.ret = some p ∧ runThis h' p = .ptr (.heap o) ∧
        evalRhs h' p (.capsuleAddr true) = .ptr (.heap o)) := by
  intro r res h' hh
  rcases hk with rfl | rfl
  · have := hh tail (.capsule (some o) idtor) (by simp [res, r, expectedRes])
    exact ⟨.ptr (.heap tail), by simp [res, r, expectedRes], by simp [runThis, evalRhs, this],
      by simp [evalRhs, this]⟩
  · have := hh tail (.capsule (some o) idtor) (by simp [res, r, expectedRes])
    exact ⟨.ptr (.heap tail), by simp [res, r, expectedRes], by simp [runThis, evalRhs, this],
      by simp [evalRhs, this]⟩

theorem ctor_round_trip (tail fresh idtor : Nat) (h' : Heap)
    (hh : h' tail = .capsule (some fresh) idtor) :
    (expectedRes .ctor .void tail fresh idtor).ret = some (.ptr (.heap tail)) ∧
    runThis h' (.ptr (.heap tail)) = .ptr (.heap fresh) := by
  simp [expectedRes, runThis, evalRhs, hh]

/-- applying `c_to_cxx` twice is ill-typed -/
theorem c_to_cxx_twice (h : Heap) (n : Int) : evalRhs h (evalRhs h (.int n) .castEnum) .castEnum = .undef := by
  simp [evalRhs]

/-! ## (5c) table theorems: typemap conversion pairs, tree -/

/-- admissible rows of `typemapConv`: no conversion; enum `static_cast<T>({c_var})` /
    `static_cast<int>({cxx_var})`; shadow `({c_var}->addr)` / `void *({cxx_addr}{cxx_var})`;
    std::string `{cxx_var}{cxx_member}c_str()` (C++ -> C only; the C -> C++ direction is the
    statement entries' `std::string {cxx_var}({c_var})`); MPI_Comm f2c / c2f. -/
def convRowOk : Nat × Nat × List Nat × Nat × List Nat → Bool
  | (1, 2, [1], 2, [10, 2]) => true
  | (2, 0, [], 3, [2, 12]) => true
  | (0, 1, [1], 1, [2]) => true
  | (0, 5, [1], 5, [2]) => true
  | (b, 0, [], 0, []) => b ≠ 1
  | _ => false

/-- every typemap's conversion patterns form one of the mutually inverse pairs, with `{c_var}` as
    the operand of c_to_cxx and `{cxx_var}` as the operand of cxx_to_c; every class typemap has the
    shadow pair; the `c_str()` pattern occurs only for base string; at least one enum and one class are present. -/
theorem table_typemap_pairs :
    typemapConv.all convRowOk = true ∧
    typemapConv.any (fun r => r.2.1 == 1) = true ∧ typemapConv.any (fun r => r.1 == 1) = true := by
  decide +kernel

/-- **constness of recovered class arguments**: every line that recovers a class instance from its
    capsule declares the C++ pointer and casts the capsule's address with the parameter's
    `{c_const}` (so a `const T &` / `const T *` parameter is passed as const and a call overloaded on
    constness reaches the overload the C name is documented for) -/
theorem table_capsule_recovery_keeps_const :
    (entries.all fun e => e.pre.all fun l => l.1 != opCapsuleAddr || l.2 == [2, 1, 1, 1]) = true ∧
    (entries.any fun e => e.pre.any fun l => l.1 == opCapsuleAddr) = true := by
  decide +kernel

def isComplexPair (c x : List Nat) : Bool :=
  let base := c.take (c.length - complexSuffix.length)
  c == base ++ complexSuffix && x == complexPrefix ++ base ++ [62]

/-- **C type = C++ type**: every predefined typemap that crosses the boundary without a conversion is
    declared with the same type on both sides (same width and signedness: identical spelling), except
    the documented C99 / C++ complex pair `T complex` / `std::complex<T>` -/
theorem c_type_is_cxx_type :
    (typemapTypes.all fun r => if r.1 = 0 then r.2.1 == r.2.2 else isComplexPair r.2.1 r.2.2) = true ∧
    20 ≤ typemapTypes.length := by
  decide +kernel

/-- the tree built by `buildTree` (= update_stmt_tree) holds entry `i` exactly at key `i` -/
theorem table_tree_entries :
    ((List.range keys.length).all fun i => entryAt tree (keys.getD i []) == some i) = true := by
  decide +kernel

/-- exact keys are found (instance of `lookup_exact'` on the regenerated tree) -/
example : lookupStmts tree [p_c, p_string, p_ref, p_in] = some 21 := by decide +kernel

/-- `_partial`: argument kinds that exist in the table but are not given a semantics here: every
    entry with a buf / cfi / cdesc part (bufferify and CFI API: std::vector, character buffers,
    array contexts), MPI_Comm, template-argument specialisations, `deref(scalar)` results, enum pointer
    results, C_error_pattern, fstatements overrides.
    What is proved for them: they are unreachable from plain keys (no buf/cfi/cdesc part). -/
theorem plain_keys_reach_plain_entries_partial :
    ∀ p : Param, (selectEntry entries tree ((descOf p).key vocab)).plain = true := by
  have h : (allParams.all fun p => (selectEntry entries tree ((descOf p).key vocab)).plain) = true := by
    decide +kernel
  intro p
  exact List.all_eq_true.mp h p (mem_allParams p)

end Shroud.WrapC
